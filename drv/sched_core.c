/* sched_core.c - cooperative serialising scheduler for C17.  THIS TU IS COMPILED WITHOUT ANY SANITIZER
 * (-fno-sanitize=all): thread hand-off uses raw futex system calls and plain memory, so ThreadSanitizer
 * sees no happens-before edge from scheduling.  The library's own synchronisation (std::mutex through
 * the XMLMutexMgr seam, thread create/join) is the only source of ordering it knows about, hence a data
 * race is reported on every explored schedule on which the two accesses are unordered by the library.
 *
 * Exactly one controlled thread runs at a time.  At each scheduling point the next thread is chosen from
 * the enabled set in canonical order (running thread first if still enabled, then ascending ids): choice
 * number prefix[i] for the i-th point while i < nprefix, 0 afterwards.  Every point is recorded in the
 * trace (shared memory) so that the explorer can enumerate the alternatives. */
#define _GNU_SOURCE
#include "sched_core.h"
#include <linux/futex.h>
#include <stdint.h>
#include <string.h>
#include <sys/syscall.h>
#include <unistd.h>

static struct sc_trace* T;
static const int* PREFIX;
static int NPREFIX, NTHREADS;
static volatile int go[SC_MAX_THREADS];       /* futex words: 1 = may run */
static volatile int state[SC_MAX_THREADS];    /* 0 not started, 1 runnable, 2 blocked, 3 finished */
static void* volatile blocked_on[SC_MAX_THREADS];
static volatile int all_done;                 /* futex word for the main thread */
static int current = -1;
static __thread int my_tid = -1;

#define MAX_MUTEX 256
static void* mtx_ptr[MAX_MUTEX];
static int mtx_owner[MAX_MUTEX];
static int nmtx;

static long futex(volatile int* addr, int op, int val) { return syscall(SYS_futex, addr, op, val, 0, 0, 0); }
static void wait_go(int tid) {
    while (__atomic_load_n(&go[tid], __ATOMIC_ACQUIRE) == 0) futex(&go[tid], FUTEX_WAIT, 0);
    __atomic_store_n(&go[tid], 0, __ATOMIC_RELEASE);
}
static void wake(int tid) {
    __atomic_store_n(&go[tid], 1, __ATOMIC_RELEASE);
    futex(&go[tid], FUTEX_WAKE, 1);
}
static int mtx_index(void* m) {
    for (int i = 0; i < nmtx; i++) if (mtx_ptr[i] == m) return i;
    if (nmtx < MAX_MUTEX) { mtx_ptr[nmtx] = m; mtx_owner[nmtx] = -1; return nmtx++; }
    T->overflow = 1;
    return 0;
}
int sc_mutex_id(void* m) { return mtx_index(m); }

void sc_init(struct sc_trace* trace, const int* prefix, int nprefix, int nthreads) {
    T = trace; PREFIX = prefix; NPREFIX = nprefix; NTHREADS = nthreads;
    memset((void*)go, 0, sizeof go); memset((void*)state, 0, sizeof state);
    nmtx = 0; current = -1; all_done = 0;
    T->npoints = 0; T->deadlock = 0; T->overflow = 0; T->diverged = 0; T->finished = 0;
}

/* choose the next thread to run at a scheduling point reached by `self` (self < 0: initial dispatch by main) */
static int choose(int self, int kind, void* obj) {
    int enabled[SC_MAX_THREADS], n = 0;
    if (self >= 0 && state[self] == 1) enabled[n++] = self;
    for (int t = 0; t < NTHREADS; t++) if (t != self && state[t] == 1) enabled[n++] = t;
    if (n == 0) return -1;
    int i = T->npoints;
    int c = 0;
    if (i < NPREFIX) { c = PREFIX[i]; if (c >= n) { T->diverged = 1; c = 0; } }
    if (i < SC_MAX_POINTS) {
        struct sc_point* p = &T->points[i];
        p->running = self; p->running_enabled = (self >= 0 && state[self] == 1); p->nenabled = n; p->choice = c; p->kind = kind;
        p->obj = obj ? mtx_index(obj) : -1;
        for (int k = 0; k < n && k < SC_MAX_THREADS; k++) p->enabled[k] = (signed char)enabled[k];
        T->npoints = i + 1;
    } else T->overflow = 1;
    return enabled[c];
}

static void all_finished_or_deadlock(void) {
    int unfinished = 0;
    for (int t = 0; t < NTHREADS; t++) if (state[t] != 3) unfinished++;
    if (unfinished) { T->deadlock = 1; _exit(SC_EXIT_DEADLOCK); }
    T->finished = 1;
    __atomic_store_n(&all_done, 1, __ATOMIC_RELEASE);
    futex(&all_done, FUTEX_WAKE, 1);
}

/* a scheduling point of the running thread: maybe switch */
static void point(int kind, void* obj) {
    int self = my_tid;
    int next = choose(self, kind, obj);
    if (next < 0) { all_finished_or_deadlock(); return; }
    if (next == self) return;
    current = next;
    wake(next);
    if (state[self] != 3) wait_go(self);
}

void sc_thread_begin(int tid) {
    my_tid = tid;
    __atomic_store_n(&state[tid], 1, __ATOMIC_RELEASE);
    /* tell main we are parked */
    __atomic_add_fetch(&T->parked, 1, __ATOMIC_ACQ_REL);
    futex((volatile int*)&T->parked, FUTEX_WAKE, 1);
    wait_go(tid);
}
void sc_thread_end(void) {
    int self = my_tid;
    state[self] = 3;
    point(SC_K_END, 0);
}
void sc_yield(int kind, void* obj) { if (my_tid >= 0) point(kind, obj); }

void sc_lock(void* m) {
    if (my_tid < 0) return;  /* uncontrolled thread (main before/after the run) */
    int self = my_tid;
    point(SC_K_LOCK, m);
    int i = mtx_index(m);
    while (mtx_owner[i] >= 0 && mtx_owner[i] != self) {
        state[self] = 2; blocked_on[self] = m;
        if (T->ncontended < 1000000) T->ncontended++;
        point(SC_K_BLOCKED, m);   /* self is not enabled: somebody else is chosen (or deadlock) */
    }
    mtx_owner[i] = self;
    point(SC_K_YIELD, m);   /* a scheduling point inside the critical section: others may run (and block on m) while it is held */
}
void sc_unlock(void* m) {
    if (my_tid < 0) return;
    int i = mtx_index(m);
    mtx_owner[i] = -1;
    for (int t = 0; t < NTHREADS; t++) if (state[t] == 2 && blocked_on[t] == m) state[t] = 1;
    point(SC_K_UNLOCK, m);
}

/* main thread: wait until all controlled threads are parked, dispatch the first one, wait for completion */
void sc_run_all(void) {
    while (__atomic_load_n(&T->parked, __ATOMIC_ACQUIRE) < NTHREADS) {
        int v = T->parked;
        if (v < NTHREADS) futex((volatile int*)&T->parked, FUTEX_WAIT, v);
    }
    int next = choose(-1, SC_K_START, 0);
    if (next < 0) { all_finished_or_deadlock(); return; }
    current = next;
    wake(next);
    while (__atomic_load_n(&all_done, __ATOMIC_ACQUIRE) == 0) futex(&all_done, FUTEX_WAIT, 0);
}
