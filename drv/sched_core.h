#ifndef SCHED_CORE_H
#define SCHED_CORE_H
#ifdef __cplusplus
extern "C" {
#endif
#define SC_MAX_THREADS 4
#define SC_MAX_POINTS 4096
#define SC_EXIT_DEADLOCK 86
enum { SC_K_START = 0, SC_K_LOCK = 1, SC_K_UNLOCK = 2, SC_K_BLOCKED = 3, SC_K_END = 4, SC_K_YIELD = 5 };
struct sc_point { signed char running, running_enabled, nenabled, choice, kind; signed char enabled[SC_MAX_THREADS]; short obj; };
struct sc_trace {
    volatile int npoints, deadlock, overflow, diverged, finished, parked, ncontended;
    struct sc_point points[SC_MAX_POINTS];
    /* filled by the harness (instrumented side) after the run */
    volatile int tsan_reports;
    char digest[SC_MAX_THREADS][256];
    char report[2048];
};
void sc_init(struct sc_trace* trace, const int* prefix, int nprefix, int nthreads);
void sc_thread_begin(int tid);
void sc_thread_end(void);
void sc_yield(int kind, void* obj);
void sc_lock(void* m);
void sc_unlock(void* m);
void sc_run_all(void);
int sc_mutex_id(void* m);
#ifdef __cplusplus
}
#endif
#endif
