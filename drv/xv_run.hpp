// xv_run.hpp - sharded, fork-isolated bounded-exhaustive case runner shared by all drivers.
//
// A driver defines a finite, deterministically ordered case space [0,total) and a function
// run_case(idx, Ctx&).  The runner forks W workers; worker w executes the cases idx = w, w+W, ...
// Each worker publishes the index it is about to execute in shared memory, so that when a
// worker dies (sanitizer abort, signal, watchdog) the parent pins the case, records a violation
// for it and restarts the worker behind it.  Oracle violations reported by run_case are confirmed
// by executing the same case a second time (must reproduce identically, otherwise the run is a
// *harness error*: exit 3, never a VIOLATION).  Results of all workers are merged into one JSON
// document written to --out.
#pragma once
#include <algorithm>
#include <cerrno>
#include <csignal>
#include <cstdint>
#include <cstdio>
#include <cstdlib>
#include <cstring>
#include <fcntl.h>
#include <functional>
#include <map>
#include <set>
#include <string>
#include <sys/mman.h>
#include <sys/stat.h>
#include <sys/time.h>
#include <sys/wait.h>
#include <time.h>
#include <unistd.h>
#include <vector>

namespace xv {

inline std::string jesc(const std::string& s) {
    std::string o;
    o.reserve(s.size() + 8);
    for (unsigned char c : s) {
        switch (c) {
        case '"': o += "\\\""; break;
        case '\\': o += "\\\\"; break;
        case '\n': o += "\\n"; break;
        case '\r': o += "\\r"; break;
        case '\t': o += "\\t"; break;
        default:
            if (c < 0x20 || c >= 0x7f) {
                char b[8];
                snprintf(b, sizeof b, "\\u%04x", c);
                o += b;
            } else
                o += (char)c;
        }
    }
    return o;
}
inline std::string jstr(const std::string& s) { return "\"" + jesc(s) + "\""; }
inline std::string hexs(const std::string& s) {
    static const char* d = "0123456789abcdef";
    std::string o;
    for (unsigned char c : s) { o += d[c >> 4]; o += d[c & 15]; }
    return o;
}
inline uint64_t fnv(const std::string& s, uint64_t h = 1469598103934665603ULL) {
    for (unsigned char c : s) { h ^= c; h *= 1099511628211ULL; }
    return h;
}

struct Args {
    std::map<std::string, std::string> kv;
    Args(int argc, char** argv) {
        for (int i = 1; i < argc; i++) {
            std::string a = argv[i];
            if (a.rfind("--", 0) == 0) {
                std::string k = a.substr(2), v = "1";
                size_t eq = k.find('=');
                if (eq != std::string::npos) { v = k.substr(eq + 1); k = k.substr(0, eq); }
                else if (i + 1 < argc && strncmp(argv[i + 1], "--", 2) != 0) v = argv[++i];
                kv[k] = v;
            }
        }
    }
    bool has(const std::string& k) const { return kv.count(k) != 0; }
    std::string str(const std::string& k, const std::string& d = "") const {
        auto it = kv.find(k);
        return it == kv.end() ? d : it->second;
    }
    long long num(const std::string& k, long long d = 0) const {
        auto it = kv.find(k);
        return it == kv.end() ? d : atoll(it->second.c_str());
    }
};

static size_t g_max_viol = 40;
struct Ctx {
    std::map<std::string, uint64_t> cnt;
    std::vector<std::string> viol;     // JSON objects (strings)
    std::vector<std::string> samples;  // JSON values
    std::set<uint64_t> distinct;       // hashes of distinct nontrivial signatures (optional use)
    size_t max_viol = g_max_viol, max_samples = 6;
    std::set<std::string> seen_case_kind;
    uint64_t idx = 0;
    bool verbose = false;  // replay mode: drivers print details
    void count(const std::string& k, uint64_t n = 1) { cnt[k] += n; }
    // kind: short machine-readable discrepancy class used by known-finding predicates
    void violation(const std::string& kind, const std::string& detail_json_fields) {
        cnt["violations"]++;
        cnt["violations:" + kind]++;
        std::string key = std::to_string(idx) + "/" + kind;
        if (viol.size() < max_viol && !seen_case_kind.count(key)) {
            seen_case_kind.insert(key);
            char b[64];
            snprintf(b, sizeof b, "%llu", (unsigned long long)idx);
            viol.push_back(std::string("{\"case\":") + b + ",\"kind\":" + jstr(kind) +
                           (detail_json_fields.empty() ? "" : "," + detail_json_fields) + "}");
        }
    }
    void sample(const std::string& json_value) {
        if (samples.size() < max_samples) samples.push_back(json_value);
    }
};

struct Shared {
    volatile uint64_t cur[64];      // case being executed by worker w (UINT64_MAX: none)
    volatile uint64_t done[64];     // cases completed by worker w
    volatile int timed_out[64];
};

static Shared* g_shared = nullptr;
static int g_worker = -1;
static void on_alarm(int) {
    if (g_shared && g_worker >= 0) g_shared->timed_out[g_worker] = 1;
    _exit(97);
}

struct Runner {
    std::string name;           // space name
    uint64_t total = 0;
    int workers = 16;
    double case_timeout_s = 60; // per-case wall watchdog (generous: the sandbox can be heavily loaded)
    double deadline_s = 0;      // global deadline (0 = none); cases not started are reported
    std::string out;
    std::function<void(uint64_t, Ctx&)> fn;
    std::function<std::string(uint64_t)> describe;  // JSON value describing case idx (for crash records)
    std::string extra_json;     // additional top-level JSON fields ("\"k\":v,...")
    std::function<void()> worker_init;  // runs in each worker after fork (e.g. nothing) - parent inits library before fork

    static void write_ctx(const std::string& path, const Ctx& c, uint64_t last_done_marker) {
        FILE* f = fopen(path.c_str(), "a");
        if (!f) return;
        for (auto& kv : c.cnt) fprintf(f, "C\t%s\t%llu\n", kv.first.c_str(), (unsigned long long)kv.second);
        for (auto& v : c.viol) fprintf(f, "V\t%s\n", v.c_str());
        for (auto& s : c.samples) fprintf(f, "S\t%s\n", s.c_str());
        for (auto h : c.distinct) fprintf(f, "D\t%llx\n", (unsigned long long)h);
        (void)last_done_marker;
        fclose(f);
    }

    // executes one case with confirmation of violations; returns false on harness flakiness
    bool exec_case(uint64_t idx, Ctx& c) {
        size_t before = c.viol.size();
        uint64_t vbefore = c.cnt["violations"];
        c.idx = idx;
        fn(idx, c);
        if (c.cnt["violations"] != vbefore) {
            Ctx again;
            again.idx = idx;
            fn(idx, again);
            std::vector<std::string> first(c.viol.begin() + before, c.viol.end());
            bool same = (again.cnt["violations"] == c.cnt["violations"] - vbefore);
            if (same && first.size() <= again.viol.size())
                for (size_t i = 0; i < first.size(); i++)
                    if (first[i] != again.viol[i]) same = false;
            if (!same) {
                c.cnt["harness_flaky"]++;
                return false;
            }
        }
        return true;
    }

    int worker_main(int w, uint64_t start, const std::string& path, double t0) {
        g_worker = w;
        signal(SIGALRM, on_alarm);
        if (worker_init) worker_init();
        Ctx c;
        size_t flushedViol = 0;
        struct itimerval it;
        memset(&it, 0, sizeof it);
        for (uint64_t i = start; i < total; i += workers) {
            if (deadline_s > 0) {
                struct timespec ts;
                clock_gettime(CLOCK_MONOTONIC, &ts);
                double now = ts.tv_sec + ts.tv_nsec * 1e-9;
                if (now - t0 > deadline_s) {
                    c.cnt["deadline_skipped"] += (total - i + workers - 1) / workers;
                    break;
                }
            }
            g_shared->cur[w] = i;
            it.it_value.tv_sec = (long)case_timeout_s;
            it.it_value.tv_usec = (long)((case_timeout_s - (long)case_timeout_s) * 1e6);
            setitimer(ITIMER_REAL, &it, nullptr);
            exec_case(i, c);
            it.it_value.tv_sec = 0; it.it_value.tv_usec = 0;
            setitimer(ITIMER_REAL, &it, nullptr);
            if (c.viol.size() > flushedViol) {   // persist violations at once: a later crash of this worker must not lose them
                FILE* vf = fopen(path.c_str(), "a");
                if (vf) { for (size_t k = flushedViol; k < c.viol.size(); k++) fprintf(vf, "V\t%s\nC\tviolations_flushed_early\t1\n", c.viol[k].c_str()); fclose(vf); }
                flushedViol = c.viol.size();
            }
            g_shared->done[w]++;
            c.cnt["evaluations"]++;
            if (c.viol.size() >= c.max_viol && c.cnt["violations"] > 2000) {  // drowning: stop early
                c.cnt["aborted_many_violations"]++;
                break;
            }
        }
        g_shared->cur[w] = UINT64_MAX;
        c.viol.erase(c.viol.begin(), c.viol.begin() + flushedViol);
        c.cnt["violations_flushed_early"] = 0;
        write_ctx(path, c, 0);
        fflush(nullptr);
        _exit(0);
    }

    static std::string tail_of(const std::string& path, size_t n = 1500) {
        FILE* f = fopen(path.c_str(), "r");
        if (!f) return "";
        fseek(f, 0, SEEK_END);
        long sz = ftell(f);
        long off = sz > (long)n ? sz - (long)n : 0;
        fseek(f, off, SEEK_SET);
        std::string s(sz - off, 0);
        size_t r = fread(&s[0], 1, s.size(), f);
        s.resize(r);
        fclose(f);
        return s;
    }
    static std::string head_of(const std::string& path, size_t n = 2500) {
        FILE* f = fopen(path.c_str(), "r");
        if (!f) return "";
        std::string s(n, 0);
        size_t r = fread(&s[0], 1, n, f);
        s.resize(r);
        fclose(f);
        return s;
    }

    // run the whole space; returns number of violations (confirmed)
    int run() {
        struct timespec ts;
        clock_gettime(CLOCK_MONOTONIC, &ts);
        double t0 = ts.tv_sec + ts.tv_nsec * 1e-9;
        if (workers > 64) workers = 64;
        if (workers < 1) workers = 1;
        if ((uint64_t)workers > total && total > 0) workers = (int)total;
        g_shared = (Shared*)mmap(nullptr, sizeof(Shared), PROT_READ | PROT_WRITE, MAP_SHARED | MAP_ANONYMOUS, -1, 0);
        memset((void*)g_shared, 0, sizeof(Shared));
        std::vector<pid_t> pids(workers, 0);
        std::vector<std::string> paths(workers), errs(workers);
        std::vector<std::string> crash_viol;
        uint64_t crashes = 0, hangs = 0, slow_ok = 0;
        fflush(nullptr);
        auto spawn = [&](int w, uint64_t start) {
            g_shared->cur[w] = UINT64_MAX;
            pid_t p = fork();
            if (p == 0) {
                int fd = open(errs[w].c_str(), O_WRONLY | O_CREAT | O_TRUNC, 0644);
                if (fd >= 0) { dup2(fd, 2); close(fd); }
                worker_main(w, start, paths[w], t0);
            }
            pids[w] = p;
        };
        for (int w = 0; w < workers; w++) {
            paths[w] = out + ".w" + std::to_string(w);
            errs[w] = out + ".w" + std::to_string(w) + ".err";
            unlink(paths[w].c_str());
            spawn(w, (uint64_t)w);
        }
        int live = workers;
        while (live > 0) {
            int st = 0;
            pid_t p = wait(&st);
            if (p < 0) { if (errno == EINTR) continue; break; }
            int w = -1;
            for (int i = 0; i < workers; i++) if (pids[i] == p) w = i;
            if (w < 0) continue;
            if (WIFEXITED(st) && WEXITSTATUS(st) == 0) { live--; pids[w] = 0; continue; }
            uint64_t c = g_shared->cur[w];
            bool timeout = g_shared->timed_out[w];
            g_shared->timed_out[w] = 0;
            if (c == UINT64_MAX) {  // died outside a case (e.g. at exit: leak check) - record and stop worker
                crash_viol.push_back("{\"case\":-1,\"kind\":\"worker-died-outside-case\",\"log\":" + jstr(head_of(errs[w])) + "}");
                crashes++; live--; pids[w] = 0; continue;
            }
            std::string log = head_of(errs[w]);
            if (timeout) {
                // replay-before-report: rerun alone with 20x limit
                fflush(nullptr);
                pid_t q = fork();
                if (q == 0) {
                    g_worker = w;
                    signal(SIGALRM, on_alarm);
                    struct itimerval it; memset(&it, 0, sizeof it);
                    it.it_value.tv_sec = (long)(case_timeout_s * 20);
                    setitimer(ITIMER_REAL, &it, nullptr);
                    Ctx cc; cc.idx = c; fn(c, cc);
                    _exit(cc.cnt["violations"] ? 5 : 0);
                }
                int st2 = 0; waitpid(q, &st2, 0);
                if (WIFEXITED(st2) && WEXITSTATUS(st2) == 0) slow_ok++;
                else if (WIFEXITED(st2) && WEXITSTATUS(st2) == 97) {
                    hangs++;
                    crash_viol.push_back("{\"case\":" + std::to_string(c) + ",\"kind\":\"hang\",\"limit_s\":" + std::to_string(case_timeout_s * 20) +
                                         ",\"input\":" + (describe ? describe(c) : "null") + "}");
                } else {
                    crashes++;
                    crash_viol.push_back("{\"case\":" + std::to_string(c) + ",\"kind\":\"crash-after-timeout\",\"input\":" + (describe ? describe(c) : "null") + "}");
                }
            } else {
                crashes++;
                std::string sig = WIFSIGNALED(st) ? ("signal " + std::to_string(WTERMSIG(st))) : ("exit " + std::to_string(WEXITSTATUS(st)));
                crash_viol.push_back("{\"case\":" + std::to_string(c) + ",\"kind\":\"crash\",\"how\":" + jstr(sig) + ",\"input\":" +
                                     (describe ? describe(c) : "null") + ",\"log\":" + jstr(log) + "}");
            }
            if (crashes + hangs > 200) { live--; pids[w] = 0; continue; }
            spawn(w, c + workers);
        }
        // merge
        std::map<std::string, uint64_t> cnt;
        std::vector<std::string> viol, samples;
        std::set<std::string> distinct;
        for (int w = 0; w < workers; w++) {
            FILE* f = fopen(paths[w].c_str(), "r");
            if (f) {
                char* line = nullptr; size_t cap = 0; ssize_t n;
                while ((n = getline(&line, &cap, f)) > 0) {
                    if (line[n - 1] == '\n') line[--n] = 0;
                    if (line[0] == 'C') {
                        char* k = line + 2; char* t = strchr(k, '\t');
                        if (t) { *t = 0; cnt[k] += strtoull(t + 1, nullptr, 10); }
                    } else if (line[0] == 'V') { if (viol.size() < std::max<size_t>(60, g_max_viol)) viol.push_back(line + 2); }
                    else if (line[0] == 'S') { if (samples.size() < 8) samples.push_back(line + 2); }
                    else if (line[0] == 'D') distinct.insert(line + 2);
                }
                free(line);
                fclose(f);
            }
            unlink(paths[w].c_str());
            unlink(errs[w].c_str());
        }
        // workers that crashed lost their counters but not their (early flushed) violation records: never report fewer violations than are listed
        uint64_t flushed = cnt["violations_flushed_early"]; cnt.erase("violations_flushed_early");
        (void)flushed;
        if (cnt["violations"] < viol.size()) cnt["violations"] = viol.size();
        for (auto& v : crash_viol) viol.insert(viol.begin(), v);
        cnt["violations"] += crashes + hangs;
        cnt["crashes"] = crashes; cnt["hangs"] = hangs; cnt["slow_but_terminating"] = slow_ok;
        if (!distinct.empty()) cnt["distinct_signatures"] = distinct.size();
        clock_gettime(CLOCK_MONOTONIC, &ts);
        double wall = ts.tv_sec + ts.tv_nsec * 1e-9 - t0;
        FILE* f = fopen(out.c_str(), "w");
        if (!f) { perror("out"); return -1; }
        fprintf(f, "{\"space\":%s,\"total\":%llu,\"workers\":%d,\"wall_s\":%.3f,", jstr(name).c_str(), (unsigned long long)total, workers, wall);
        if (!extra_json.empty()) fprintf(f, "%s,", extra_json.c_str());
        fprintf(f, "\"counters\":{");
        bool first = true;
        for (auto& kv : cnt) { fprintf(f, "%s%s:%llu", first ? "" : ",", jstr(kv.first).c_str(), (unsigned long long)kv.second); first = false; }
        fprintf(f, "},\"violations\":[");
        for (size_t i = 0; i < viol.size(); i++) fprintf(f, "%s%s", i ? "," : "", viol[i].c_str());
        fprintf(f, "],\"samples\":[");
        for (size_t i = 0; i < samples.size(); i++) fprintf(f, "%s%s", i ? "," : "", samples[i].c_str());
        fprintf(f, "]}\n");
        fclose(f);
        munmap((void*)g_shared, sizeof(Shared));
        if (cnt["harness_flaky"]) return -2;
        return (int)std::min<uint64_t>(cnt["violations"], 1000000);
    }

    // replay of a single case, in-process, verbose
    int replay(uint64_t idx) {
        Ctx c; c.verbose = true; c.idx = idx;
        fn(idx, c);
        printf("replay space=%s case=%llu input=%s\n", name.c_str(), (unsigned long long)idx, describe ? describe(idx).c_str() : "null");
        for (auto& v : c.viol) printf("  violation: %s\n", v.c_str());
        printf("  violations=%llu\n", (unsigned long long)c.cnt["violations"]);
        return c.cnt["violations"] ? 1 : 0;
    }

    // standard main tail: --only <idx> replays, otherwise runs all
    int main_tail(const Args& a) {
        workers = (int)a.num("workers", 16);
        if (a.has("max-viol")) g_max_viol = (size_t)a.num("max-viol");
        out = a.str("out", "/dev/stdout");
        if (a.has("deadline")) deadline_s = (double)a.num("deadline");
        if (a.has("case-timeout")) case_timeout_s = (double)a.num("case-timeout");
        if (a.has("only")) return replay((uint64_t)a.num("only"));
        int r = run();
        if (r == -2) return 3;
        if (r < 0) return 2;
        return r ? 1 : 0;
    }
};

// mixed-radix / word helpers -------------------------------------------------------------
// number of words of length <= k over an alphabet of n symbols
inline uint64_t words_upto(uint64_t n, int k) {
    uint64_t t = 0, p = 1;
    for (int i = 0; i <= k; i++) { t += p; p *= n; }
    return t;
}
// idx -> word (shortest first, then lexicographic by symbol index)
inline std::vector<int> word_at(uint64_t idx, uint64_t n, int k) {
    uint64_t p = 1;
    for (int len = 0; len <= k; len++) {
        if (idx < p) {
            std::vector<int> w(len);
            for (int i = len - 1; i >= 0; i--) { w[i] = (int)(idx % n); idx /= n; }
            return w;
        }
        idx -= p;
        p *= n;
    }
    return {};
}

}  // namespace xv
