// parsex - bounded-exhaustive parse exploration against the expat reference (C02, C03; also the
// memory-safety net of C01 since everything runs under ASan+UBSan).
//   --space s1   : all words of length <= k over the document token alphabet
//   --space s11  : XML 1.1 by-construction space
#include "xv_xml.hpp"
using namespace xv;

static std::vector<std::string> TOK;
static std::vector<bool> TOK_DOCTYPE;  // token contains a DOCTYPE (excluded for WF/SG scanner claims)

static void init_tokens(const std::string& set) {
    auto T = [&](const std::string& s, bool dt = false) { TOK.push_back(s); TOK_DOCTYPE.push_back(dt); };
    T("<a>"); T("</a>"); T("<b>"); T("</b>"); T("<a/>");
    T("<p:a xmlns:p='u'>"); T("</p:a>"); T("<p:b/>");
    T("<a x='1'>"); T("<a x=\"1\" y='2'/>"); T("<a x='1' x='2'/>"); T("<a x='<'/>"); T("<a x='&lt;&amp;&#9;'/>"); T("<a x/>");
    T("<a\nx='1\n2'\n>");
    T("x"); T("&lt;"); T("&amp;&gt;&apos;&quot;"); T("&#65;"); T("&#x41;"); T("&#0;"); T("&#xD800;"); T("&#x110000;"); T("&#xFFFE;"); T("&u;");
    T("<!--c-->"); T("<!--c--d-->"); T("<?pi d?>"); T("<?xml d?>"); T("<?XML d?>");
    T("<?xml version='1.0'?>"); T("<?xml version='1.0' encoding='UTF-8' standalone='yes'?>"); T("<?xml version='1.0' encoding='bogus-enc'?>");
    T("<?xml standalone='yes' version='1.0'?>");
    T("<![CDATA[c<&]]>"); T("]]>"); T("]"); T("<"); T("&"); T(">"); T(" "); T("\n"); T("\r\n"); T("\x01");
    T("\xC3\xA9"); T("\xC3"); T("\xFF"); T("\xF0\x90\x80\x80"); T("\xED\xA0\x80");
    T("<!DOCTYPE a>", true); T("<!DOCTYPE a [<!ENTITY e 'v<b/>'><!ATTLIST a d CDATA 'dv'>]>", true); T("&e;");
    T("<!DOCTYPE a [<!ENTITY e '&f;'><!ENTITY f '&e;'>]>", true);
    if (set == "small") { /* subset for deeper k */
        static const char* keepTok[] = {"<a>", "</a>", "<a/>", "<p:a xmlns:p='u'>", "</p:a>", "<a x='1'>", "<a x='1' x='2'/>", "x", "&lt;", "&#0;", "&u;", "<!--c-->", "<?pi d?>", "<?xml d?>",
                                        "<?xml version='1.0'?>", "<![CDATA[c<&]]>", "]]>", "]", "<", "&", " ", "\n", "\xC3\xA9", "\xC3", "<!DOCTYPE a [<!ENTITY e 'v<b/>'><!ATTLIST a d CDATA 'dv'>]>", "&e;",
                                        "<!DOCTYPE a [<!ENTITY e '&f;'><!ENTITY f '&e;'>]>"};
        std::vector<std::string> t2; std::vector<bool> d2;
        for (const char* k : keepTok) for (size_t i = 0; i < TOK.size(); i++) if (TOK[i] == k) { t2.push_back(TOK[i]); d2.push_back(TOK_DOCTYPE[i]); }
        TOK = t2; TOK_DOCTYPE = d2;
    }
}

static bool eq_wild(const std::string& a, const std::string& b) {
    size_t i = 0, j = 0;
    while (true) {
        size_t ie = a.find('|', i), je = b.find('|', j);
        std::string fa = a.substr(i, ie == std::string::npos ? std::string::npos : ie - i);
        std::string fb = b.substr(j, je == std::string::npos ? std::string::npos : je - j);
        if (fa != fb && fa != "?" && fb != "?") return false;
        if ((ie == std::string::npos) != (je == std::string::npos)) return false;
        if (ie == std::string::npos) return true;
        i = ie + 1; j = je + 1;
    }
}
static int first_diff(const std::vector<std::string>& a, const std::vector<std::string>& b) {
    size_t n = std::min(a.size(), b.size());
    for (size_t i = 0; i < n; i++) if (!eq_wild(a[i], b[i])) return (int)i;
    return a.size() == b.size() ? -1 : (int)n;
}
static std::vector<std::string> drop_xmlns(const std::vector<std::string>& in) {
    std::vector<std::string> o;
    for (auto& l : in) {
        if (l.compare(0, 8, "A|xmlns|") == 0 || l.compare(0, 8, "A|xmlns:") == 0) continue;
        o.push_back(l);
    }
    return o;
}

// SAX2's startDTD/endDTD are documented as reporting "DTD declarations, if any": a DOCTYPE with neither an internal
// nor an external subset produces no pair.  Erase such empty pairs from both sides before comparing.
static std::vector<std::string> drop_empty_dtd(const std::vector<std::string>& in) {
    std::vector<std::string> o;
    for (size_t i = 0; i < in.size(); i++) {
        if (in[i].compare(0, 3, "DT|") == 0 && i + 1 < in.size() && in[i + 1] == "DTE" && in[i].size() > 4 &&
            in[i].compare(in[i].size() - 4, 4, "|~|~") == 0) { i++; continue; }
        o.push_back(in[i]);
    }
    return o;
}
// absent public/system identifiers are null in some APIs and "" in others: same information
static std::vector<std::string> norm_lines(const std::vector<std::string>& in) {
    std::vector<std::string> o;
    for (auto l : in) {
        if (l.compare(0, 3, "DT|") == 0) { size_t p; while ((p = l.find("|~")) != std::string::npos) l.erase(p + 1, 1); }
        if ((l.compare(0, 4, "IE|%") == 0) || (l.compare(0, 4, "XE|%") == 0)) continue;  // SAX2 reports parameter entities as %name; the reference skips them
        o.push_back(l);
    }
    return o;
}
static std::string dt_line(const std::vector<std::string>& in) {
    for (auto& l : in) if (l.compare(0, 3, "DT|") == 0) return l;
    return "";
}

// expected dump of a DOMLSParser run with LsFilter mode `fm` computed from the unfiltered dump: REJECT drops the subtree, SKIP splices the
// children into the parent, rejected comments disappear; adjacent text is re-coalesced by project()
static std::vector<std::string> ls_filter_expect(const std::vector<std::string>& in, int fm) {
    if (fm == 1) return project(in, {}, false);
    std::vector<std::string> out;
    int rejectDepth = 0;                 // > 0: inside a rejected <c> subtree
    std::vector<char> stack;             // per open element: 'k' kept, 's' skipped, 'r' rejected
    for (size_t i = 0; i < in.size(); i++) {
        const std::string& l = in[i];
        bool isS = l.compare(0, 2, "S|") == 0, isE = l.compare(0, 2, "E|") == 0;
        if (isS) {
            std::string nm = l.substr(2, l.find('|', 2) - 2);
            if (rejectDepth) { stack.push_back('r'); rejectDepth++; continue; }
            if (nm == "c") { stack.push_back('r'); rejectDepth = 1; continue; }
            if (nm == "i") { stack.push_back('s'); while (i + 1 < in.size() && in[i + 1].compare(0, 2, "A|") == 0) i++; continue; }
            stack.push_back('k'); out.push_back(l); continue;
        }
        if (isE) {
            char t = stack.empty() ? 'k' : stack.back(); if (!stack.empty()) stack.pop_back();
            if (t == 'r') { rejectDepth--; continue; }
            if (t == 's') continue;
            out.push_back(l); continue;
        }
        if (rejectDepth) continue;
        if (fm == 3 && l.compare(0, 2, "C|") == 0) continue;
        out.push_back(l);
    }
    return project(out, {}, false);
}

static int g_k = 3;
static unsigned g_apis = 0x1f, g_scn = 0xf, g_nsmask = 3;
static bool g_content = true;

static std::string doc_of(uint64_t idx) {
    std::vector<int> w = word_at(idx, TOK.size(), g_k);
    std::string d;
    for (int t : w) d += TOK[t];
    return d;
}
static bool has_doctype(uint64_t idx) {
    std::vector<int> w = word_at(idx, TOK.size(), g_k);
    for (int t : w) if (TOK_DOCTYPE[t]) return true;
    return false;
}

static void diff_violation(Ctx& c, const char* kind, const std::string& doc, const std::string& cfg, const std::vector<std::string>& a,
                           const std::vector<std::string>& b, int at) {
    std::string ea = at < (int)a.size() ? a[at] : "<end>", eb = at < (int)b.size() ? b[at] : "<end>";
    c.violation(kind, "\"doc\":" + jstr(doc) + ",\"doc_hex\":" + jstr(hexs(doc)) + ",\"config\":" + jstr(cfg) + ",\"expected\":" + jstr(ea) + ",\"observed\":" + jstr(eb) +
                          ",\"at_line\":" + std::to_string(at));
    if (c.verbose) {
        printf("--- %s (%s)\n expected:\n%s observed:\n%s", kind, cfg.c_str(), join(a).c_str(), join(b).c_str());
    }
}

static const std::set<std::string> DROP_FOR_EXPAT_X = {"ED", "AD", "RS", "RE", "SK", "DC"};          // from Xerces SAX2 side
static const std::set<std::string> DROP_FOR_EXPAT_E = {"DPI", "DC"};                           // from expat side (DTD-internal PI/comment)
static const std::set<std::string> DROP_SAX2_TO_SAX1 = {"DC", "C", "CS", "CE", "DT", "DTE", "IE", "XE", "ED", "AD", "RS", "RE", "NS+", "NS-", "SK"};
static const std::set<std::string> DROP_DOMCMP = {"DC", "DT", "NO", "UE", "DENT", "IE", "XE", "ED", "AD", "RS", "RE", "L", "NS+", "NS-", "SK", "DTE"};

struct DocCase {
    std::string doc;
    bool doctype = false;                                      // uses a DOCTYPE (not claimed for WF/SG)
    std::vector<std::pair<std::string, std::string>> files;    // VFS content (external subset / entities)
    int expect = -1;                                           // by-construction verdict: 1 well-formed, 0 malformed, -1 unknown
    bool ref_usable = true;                                    // expat can judge this document (XML 1.0, encoding known to it)
    std::string label;
};

static void check_doc(const DocCase& dc, Ctx& c) {
    const std::string& doc = dc.doc;
    bool dt = dc.doctype;
    g_vfs->clear();
    for (auto& f : dc.files) g_vfs->put(f.first, f.second);
    ParseIO io; io.bytes = doc;
    for (int ns = 0; ns < 2; ns++) {
        if (!(g_nsmask & (1 << ns))) continue;
        ExpatRef ref;
        bool haveRef = dc.ref_usable;
        if (haveRef) ref.run(doc, ns != 0);
        bool refOk = haveRef ? ref.ok : (dc.expect == 1);
        if (haveRef && dc.expect >= 0 && (dc.expect == 1) != ref.ok) {
            // generator label and reference disagree: the harness (not the library) is wrong somewhere
            c.violation("harness-label-vs-reference", "\"doc\":" + jstr(doc) + ",\"label\":" + jstr(dc.label) + ",\"expect\":" + std::to_string(dc.expect) + ",\"ref_err\":" + jstr(ref.err));
            continue;
        }
        c.count(refOk ? "ref_wellformed" : "ref_malformed");
        std::vector<std::string> refP = norm_lines(drop_empty_dtd(project(ref.d.lines, DROP_FOR_EXPAT_E, true)));
        std::vector<std::string> sax2IG;
        for (int sc = 0; sc < 4; sc++) {
            if (!(g_scn & (1 << sc))) continue;
            if (dt && (sc == WF || sc == SG)) { c.count("skipped_doctype_for_wf_sg"); continue; }
            if (sc == SG && !ns) { c.count("skipped_sg_without_namespaces"); continue; }  // the schema scanner always does namespace processing
            std::vector<std::string> sax2, sax1, dom;
            for (int api : {(int)SAX2, (int)SAX1, (int)PULL, (int)DOM, (int)DOMLS, 100 /* DOM with entity-reference nodes */}) {
                bool erefs = api == 100;
                if (erefs) { api = DOM; if (!dt || sc != IG) continue; }
                if (!(g_apis & (1 << api))) continue;
                Config cfg; cfg.api = api; cfg.scanner = sc; cfg.ns = ns; cfg.nsPrefixes = true; cfg.val = 0; cfg.entRefNodes = erefs;
                ParseResult r = parse_xerces(cfg, io);
                c.count("parses");
                if (r.exc.compare(0, 7, "FOREIGN") == 0) {
                    c.violation("foreign-exception", "\"doc\":" + jstr(doc) + ",\"config\":" + jstr(cfg.str()) + ",\"exc\":" + jstr(r.exc));
                    continue;
                }
                bool accepted = r.ok();
                if (accepted != refOk) {
                    c.violation(refOk ? "wellformed-rejected" : "malformed-accepted",
                                "\"doc\":" + jstr(doc) + ",\"doc_hex\":" + jstr(hexs(doc)) + ",\"config\":" + jstr(cfg.str()) + ",\"label\":" + jstr(dc.label) + ",\"ref_err\":" + jstr(ref.err) +
                                    ",\"xerces_errors\":" + jstr(r.errors.empty() ? r.exc : r.errors[0]));
                    if (c.verbose) printf("verdict mismatch %s: ref.ok=%d xerces fatals=%d exc=%s\n", cfg.str().c_str(), refOk, r.fatals, r.exc.c_str());
                    continue;
                }
                if (!accepted || !g_content) continue;
                c.count("content_compared");
                if (erefs) {  // entity-reference nodes only add RS/RE brackets around the same content
                    std::vector<std::string> a = project(dom, {"RS", "RE"}, false), b = project(r.d.lines, {"RS", "RE"}, false);
                    int at = first_diff(a, b);
                    if (at >= 0) diff_violation(c, "dom-entrefs-vs-dom", doc, cfg.str(), a, b, at);
                    continue;
                }
                if (api == SAX2) {
                    sax2 = r.d.lines;
                    if (haveRef) {
                        std::vector<std::string> xp = norm_lines(drop_empty_dtd(project(r.d.lines, DROP_FOR_EXPAT_X, true)));
                        if (ns) xp = drop_xmlns(xp);
                        int at = first_diff(refP, xp);
                        if (at >= 0) diff_violation(c, "content-vs-reference", doc, cfg.str(), refP, xp, at);
                    }
                    if (sc == IG) sax2IG = r.d.lines;
                    else if (!sax2IG.empty() || (g_scn & 1)) {
                        int at2 = first_diff(sax2IG, r.d.lines);
                        if (at2 >= 0) diff_violation(c, "scanner-disagreement", doc, cfg.str(), sax2IG, r.d.lines, at2);
                    }
                } else if (api == SAX1 && !sax2.empty()) {
                    sax1 = r.d.lines;
                    std::vector<std::string> a = project(sax2, DROP_SAX2_TO_SAX1, false);
                    std::vector<std::string> b = project(r.d.lines, {}, false);
                    int at = first_diff(a, b);
                    if (at >= 0) diff_violation(c, "sax1-vs-sax2", doc, cfg.str(), a, b, at);
                } else if (api == PULL && !sax1.empty()) {
                    int at = first_diff(sax1, r.d.lines);
                    if (at >= 0) diff_violation(c, "pull-vs-sax1", doc, cfg.str(), sax1, r.d.lines, at);
                } else if ((api == DOM || api == DOMLS) && !sax2.empty()) {
                    if (api == DOM) dom = r.d.lines;
                    std::vector<std::string> a = project(sax2, DROP_DOMCMP, false), b = project(r.d.lines, DROP_DOMCMP, false);
                    int at = first_diff(a, b);
                    if (at >= 0) diff_violation(c, api == DOM ? "dom-vs-sax2" : "domls-vs-sax2", doc, cfg.str(), a, b, at);
                    std::string d1 = dt_line(norm_lines(sax2)), d2 = dt_line(norm_lines(r.d.lines));
                    if (!d1.empty() && d1 != d2) diff_violation(c, "doctype-dom-vs-sax2", doc, cfg.str(), {d1}, {d2}, 0);
                    if (api == DOMLS && sc == IG) {   // DOMLSParser with a filter: result = the unfiltered tree transformed by the DOM L3 LS filter rules
                        for (int fm = 1; fm <= 3; fm++) {
                            Config fc = cfg; fc.lsFilter = fm;
                            ParseResult fr = parse_xerces(fc, io);
                            c.count("parses"); c.count("filtered_parses");
                            std::vector<std::string> exp = ls_filter_expect(r.d.lines, fm), got = project(fr.d.lines, {}, false);
                            if (!fr.ok()) { c.violation("domls-filter-rejects-wellformed", "\"doc\":" + jstr(doc) + ",\"filter\":" + std::to_string(fm) + ",\"xerces_errors\":" + jstr(fr.errors.empty() ? fr.exc : fr.errors[0])); continue; }
                            int fat = first_diff(exp, got);
                            if (fat >= 0) diff_violation(c, fm == 1 ? "domls-accept-all-filter-vs-no-filter" : "domls-filter-vs-expected", doc, cfg.str() + " filter" + std::to_string(fm), exp, got, fat);
                            if (exp != project(r.d.lines, {}, false)) c.count("filter_changed_tree");
                        }
                    }
                    if (haveRef) {  // DOM against the reference directly: attribute specified/defaulted flags, notations, unparsed entities
                        static const std::set<std::string> dropD = {"DT", "DTE", "DENT", "L"}, dropE = {"DT", "DTE", "IE", "XE", "L", "NS+", "NS-", "DPI", "DC", "NO", "UE"};
                        std::vector<std::string> rp = project(ref.d.lines, dropE, true), dp = project(r.d.lines, {"DT", "DTE", "DENT", "L", "NO", "UE"}, true);
                        if (ns) dp = drop_xmlns(dp);
                        int at3 = first_diff(rp, dp);
                        if (at3 >= 0) diff_violation(c, "dom-vs-reference", doc, cfg.str(), rp, dp, at3);
                        std::vector<std::string> rn, dn;
                        for (auto& l : ref.d.lines) if (l.compare(0, 3, "NO|") == 0 || l.compare(0, 3, "UE|") == 0) rn.push_back(l);
                        for (auto& l : r.d.lines) if (l.compare(0, 3, "NO|") == 0 || l.compare(0, 3, "UE|") == 0) dn.push_back(l);
                        std::sort(rn.begin(), rn.end()); std::sort(dn.begin(), dn.end());
                        int at4 = first_diff(rn, dn);
                        if (at4 >= 0) diff_violation(c, "dom-notations-entities-vs-reference", doc, cfg.str(), rn, dn, at4);
                    }
                }
            }
        }
    }
}

static void run_s1(uint64_t idx, Ctx& c) {
    DocCase dc; dc.doc = doc_of(idx); dc.doctype = has_doctype(idx);
    check_doc(dc, c);
    if (idx % 9973 == 0) c.sample("{\"doc\":" + jstr(dc.doc) + "}");
}

// ---------------------------------------------------------------------------------------------- s4: DTD-rich structured space
struct Prolog { std::string text; bool doctype; std::vector<std::pair<std::string, std::string>> files; };
static std::vector<Prolog> PROLOGS;
static std::vector<std::string> ROOTATTR, ITEMS;
static void init_s4() {
    PROLOGS.push_back({"", false, {}});
    PROLOGS.push_back({"<?xml version=\"1.0\"?>\n<!-- pre --><?pp q?>\n", false, {}});
    PROLOGS.push_back({"<!DOCTYPE r [<!ENTITY e \"ev\"><!ENTITY m \"<i>m</i>\"><!ENTITY n \"&e;&#38;lt;\"><!ENTITY cr \"&#13;&#10;&#9;\"><!ENTITY lt2 \"&#38;#60;\">]>", true, {}});
    PROLOGS.push_back({"<!DOCTYPE r [<!ATTLIST r d CDATA \"dv\" t NMTOKENS \" a  b \" i ID #IMPLIED f CDATA #FIXED \"fx\">\n<!ATTLIST c d (x|y) \"x\" a CDATA #IMPLIED>\n<!ENTITY e \"ev\">]>", true, {}});
    PROLOGS.push_back({"<!DOCTYPE r SYSTEM \"ext.dtd\">", true, {{"/v/ext.dtd", "<?xml version='1.0' encoding='UTF-8'?><!ENTITY e \"xv\"><!ATTLIST r d CDATA \"xd\">\r\n<!ELEMENT r (c|i|j)*><!ELEMENT c EMPTY><!ENTITY m \"<i/>\">"}}});
    PROLOGS.push_back({"<!DOCTYPE r [<!ENTITY x SYSTEM \"x.ent\"><!ENTITY e \"ev\">]>", true, {{"/v/x.ent", "<?xml version=\"1.0\" encoding=\"UTF-8\"?>xt<j/>\r\ny\r"}}});
    PROLOGS.push_back({"<!DOCTYPE r [<!ENTITY % p \"<!ENTITY e 'pv'>\">%p;<!NOTATION n SYSTEM \"n.exe\"><!NOTATION o PUBLIC \"pubo\"><!ENTITY u SYSTEM \"u.bin\" NDATA n><!-- dc --><?dpi x?>]>", true, {}});
    PROLOGS.push_back({"<!DOCTYPE r [<!ELEMENT r (c|i|j)*><!ELEMENT c EMPTY><!ENTITY e \"ev\">]>", true, {}});
    PROLOGS.push_back({"<?xml version=\"1.0\" standalone=\"yes\"?><!DOCTYPE r [<!ENTITY e \"ev\"><!ATTLIST r d CDATA \"dv\">]>", true, {}});
    PROLOGS.push_back({"<!DOCTYPE r PUBLIC \"-//P//Q\" \"sub/ext2.dtd\" [<!ENTITY e \"iv\">]>", true, {{"/v/sub/ext2.dtd", "<!ENTITY e \"xv\"><!ENTITY % q SYSTEM \"q.pe\">%q;"}, {"/v/sub/q.pe", "<!ENTITY m \"<i>q</i>\">"}}});
    // external subset / external PE whose last construct is a reference to an internal parameter entity (no trailing character)
    PROLOGS.push_back({"<!DOCTYPE r SYSTEM \"pe-end.dtd\">", true, {{"/v/pe-end.dtd", "<!ENTITY e \"pv\"><!ENTITY % p \"<!ELEMENT r ANY><!ATTLIST r d CDATA 'pd'>\">%p;"}}});
    // namespace declarations supplied by DTD attribute defaults, to be overridden (or not) by declarations written in the start tag
    PROLOGS.push_back({"<!DOCTYPE r [<!ATTLIST r xmlns:p CDATA 'urn:dtd' d CDATA 'dv'><!ATTLIST c xmlns CDATA 'urn:cdef' xmlns:p CDATA #FIXED 'urn:dtd'>]>", true, {}});
    ROOTATTR = {"", " xmlns:p='urn:doc' p:a='1'", " d='o'", " t=' x  y '", "\nf='fx' i='r1'"};
    ITEMS = {"t", " ", "\n", "\r\n", "\r", "\t", "&e;", "&m;", "&n;", "&cr;", "&lt2;", "&x;", "&#13;", "&#10;&#9;", "&#x20AC;", "&#x10000;", "\xC3\xA9",
             "<![CDATA[d]]>", "<![CDATA[]]>", "<![CDATA[<&]]]]>", "<!--k-->", "<?q r?>", "<?q?>", "<c/>", "<c d='y'/>", "<c d='z'/>", "<i>v</i>",
             "<c a=' &e; &#13;&#10; \r\n\t'/>", "<c a='&m;'/>", "<c a=\"'&quot;&lt;\"/>", "<c  a = 'v' \n/>", "<r:c xmlns:r='u' r:a='1'/>", "<c i='id1'/>",
             "&u;", "]]", ">", "<i>\n<c/>\n</i>", "]", "]]>", "<p:k p:b='2'><c/></p:k>"};
}
static int g_s4_attrs = 5;
static DocCase s4_case(uint64_t idx) {
    uint64_t nw = words_upto(ITEMS.size(), g_k);
    uint64_t w = idx % nw; idx /= nw;
    int ra = (int)(idx % g_s4_attrs); idx /= g_s4_attrs;
    const Prolog& p = PROLOGS[idx % PROLOGS.size()];
    DocCase dc; dc.doctype = p.doctype; dc.files = p.files;
    dc.doc = p.text + "<r" + ROOTATTR[ra] + ">";
    for (int t : word_at(w, ITEMS.size(), g_k)) dc.doc += ITEMS[t];
    dc.doc += "</r>\n<!-- post -->";
    return dc;
}
static void run_s4(uint64_t idx, Ctx& c) {
    DocCase dc = s4_case(idx);
    check_doc(dc, c);
    if (idx % 9973 == 0) c.sample("{\"doc\":" + jstr(dc.doc) + "}");
}

// ---------------------------------------------------------------------------------------------- s3: catalogue of single-constraint violations / tricky well-formed documents
static std::vector<DocCase> CAT;
static std::string u16(const std::u16string& t, bool be, bool bom) {
    std::string o;
    auto put = [&](unsigned u) { if (be) { o += (char)(u >> 8); o += (char)(u & 255); } else { o += (char)(u & 255); o += (char)(u >> 8); } };
    if (bom) put(0xFEFF);
    for (char16_t ch : t) put(ch);
    return o;
}
static void init_s3() {
    auto bad = [&](const std::string& label, const std::string& doc, bool dt = false, bool ref = true) { DocCase d; d.doc = doc; d.label = label; d.expect = 0; d.doctype = dt; d.ref_usable = ref; CAT.push_back(d); };
    auto good = [&](const std::string& label, const std::string& doc, bool dt = false, bool ref = true) { DocCase d; d.doc = doc; d.label = label; d.expect = 1; d.doctype = dt; d.ref_usable = ref; CAT.push_back(d); };
    auto many_attrs = [](int n, int dupAt) { std::string s = "<a"; for (int i = 0; i < n; i++) s += " a" + std::to_string(i == dupAt ? 0 : i) + "='v'"; return s + "/>"; };
    auto nest = [](int n) { std::string s; for (int i = 0; i < n; i++) s += "<e" + std::to_string(i % 3) + ">"; for (int i = n - 1; i >= 0; i--) s += "</e" + std::to_string(i % 3) + ">"; return s; };
    // element structure
    bad("mismatched-tag", "<a><b></a></b>"); bad("unclosed-root", "<a>"); bad("second-root", "<a/><b/>"); bad("text-after-root", "<a/>x"); bad("text-before-root", "x<a/>");
    bad("no-root", "<!--c-->"); bad("empty", ""); bad("end-tag-only", "</a>"); bad("tag-space", "< a/>"); bad("end-tag-attr", "<a></a x='1'>");
    bad("name-start-digit", "<1a/>"); bad("name-start-dash", "<-a/>"); good("name-with-dash-dot", "<a-b.c_d/>"); good("name-colon-nsoff-only", "<a/>");
    // attributes
    bad("dup-attr", "<a x='1' x='2'/>"); bad("attr-no-value", "<a x/>"); bad("attr-no-quote", "<a x=1/>"); bad("attr-lt", "<a x='<'/>"); bad("attr-unterminated", "<a x='1/>");
    bad("attr-no-space", "<a x='1'y='2'/>"); good("attr-ws-around-eq", "<a x = '1'\n\ty\r\n=\r\"2\"/>"); good("attr-gt", "<a x='>'/>"); good("attr-both-quotes", "<a x='\"' y=\"'\"/>");
    for (int n : {31, 32, 33, 99, 100, 101, 102, 103, 130}) {
        good("attrs-" + std::to_string(n), many_attrs(n, -1));
        bad("attrs-" + std::to_string(n) + "-dup-last", many_attrs(n, n - 1));
        bad("attrs-" + std::to_string(n) + "-dup-mid", many_attrs(n, n / 2));
    }
    for (int n : {31, 32, 33, 34, 64, 65, 100}) good("nest-" + std::to_string(n), nest(n));
    // character data and references
    bad("cdata-end-in-text", "<a>]]></a>"); bad("cdata-end-3-brackets", "<a>]]]></a>"); bad("cdata-end-4-brackets", "<a>]]]]></a>"); bad("cdata-end-5-brackets", "<a>x]]]]]>y</a>");
    bad("cdata-end-after-bracket-text", "<a>]x]]]></a>"); good("brackets-then-entity-gt", "<a>]]]&gt;</a>"); good("cdata-ending-in-brackets", "<a><![CDATA[]]]]]></a>"); good("brackets-in-text", "<a>]] ></a>"); bad("bare-amp", "<a>&</a>"); bad("bare-lt", "<a><</a>"); good("bare-gt", "<a>></a>");
    bad("ref-no-semicolon", "<a>&lt</a>"); bad("ref-undeclared", "<a>&u;</a>"); bad("charref-zero", "<a>&#0;</a>"); bad("charref-surrogate", "<a>&#xD800;</a>");
    bad("charref-ffff", "<a>&#xFFFF;</a>"); bad("charref-fffe", "<a>&#xFFFE;</a>"); bad("charref-too-big", "<a>&#x110000;</a>"); bad("charref-empty", "<a>&#;</a>"); bad("charref-hex-upper-x", "<a>&#X41;</a>");
    // growth ladders: sibling and nested element names (and prefixed names, attribute names, PI targets) whose lengths double, so that every
    // "capacity = 2 x length" buffer kept per nesting level / per parser meets a later name of exactly its capacity, one less and one more
    {
        auto nm = [](size_t n, char c) { return std::string(n, c); };
        std::string sib, sib3, pre, nest, nestEnd, att, pis;
        for (size_t n : {1, 2, 4, 8, 16, 32, 64, 128}) { sib += "<" + nm(n, 'a') + "/>"; pre += "<p:" + nm(n > 2 ? n - 2 : n, 'b') + "/>"; att += " " + nm(n, 'c') + "='v'"; pis += "<?" + nm(n, 'd') + " x?>"; }
        for (size_t n : {3, 5, 6, 7, 12, 13, 11, 24, 23, 25, 48, 96}) sib3 += "<" + nm(n, 'e') + ">t</" + nm(n, 'e') + ">";
        for (size_t n : {1, 2, 4, 8, 16}) { nest += "<" + nm(n, 'f') + ">"; nestEnd = "</" + nm(n, 'f') + ">" + nestEnd; }
        good("name-length-doubling-siblings", "<r>" + sib + "</r>");
        good("name-length-ladder-siblings-with-content", "<r>" + sib3 + sib + "</r>");
        good("name-length-doubling-prefixed", "<r xmlns:p='u'>" + pre + sib + "</r>");
        good("name-length-doubling-nested-then-siblings", "<r>" + nest + sib + nestEnd + nest + sib3 + nestEnd + "</r>");
        {   // more than 100 attributes switches the duplicate check to a hash table that is kept for the next element
            auto attrs = [](int n, const char* q) { std::string a; for (int i = 1; i <= n; i++) a += " a" + std::to_string(i) + "=" + q + "v" + std::to_string(i) + q; return a; };
            good("attributes-110-then-110-same-names", "<r><e" + attrs(110, "'") + ">t</e><f" + attrs(110, "\"") + "/></r>");
            good("attributes-130-then-105-same-names", "<r><e" + attrs(130, "'") + "/><f" + attrs(105, "'") + "/><g a1='x'/></r>");
            good("attributes-101-then-3-then-101", "<r><e" + attrs(101, "'") + "/><f" + attrs(3, "'") + "/><g" + attrs(101, "'") + "/></r>");
            bad("attributes-110-with-duplicate-after-110", "<r><e" + attrs(110, "'") + "/><f" + attrs(110, "'") + " a7='again'/></r>");
        }
        good("name-length-doubling-attributes-and-pis", "<r" + att + ">" + pis + "<k" + att + "/></r>");
    }
    // values that only look legal after wrapping round 32 or 64 bits
    // ill-formed UTF-8 that follows 31 / 33 / 40 / 16380 already decoded characters: the decoder defers the error to its next call when it has
    // produced "enough" characters, and the deferred sequence must still be rejected then
    for (int pad : {31, 33, 40, 16380}) {
        std::string ps(pad, 'a'), pn = std::to_string(pad);
        bad("utf8-above-10FFFF-after-" + pn, "<a>" + ps + "\xF5\x80\x80\x80</a>"); bad("utf8-F7-lead-after-" + pn, "<a>" + ps + "\xF7\xBF\xBF\xBF</a>");
        bad("utf8-F4-90-after-" + pn, "<a>" + ps + "\xF4\x90\x80\x80</a>"); bad("utf8-surrogate-after-" + pn, "<a>" + ps + "\xED\xA0\x80</a>");
        bad("utf8-overlong-after-" + pn, "<a>" + ps + "\xC0\xAF</a>"); bad("utf8-lone-continuation-after-" + pn, "<a>" + ps + "\x80</a>");
        bad("utf8-truncated-4-after-" + pn, "<a>" + ps + "\xF0\x90\x80</a>"); bad("utf8-5-byte-after-" + pn, "<a>" + ps + "\xF8\x88\x80\x80\x80</a>");
        bad("utf8-above-10FFFF-in-attr-after-" + pn, "<a x='" + ps + "\xF5\x80\x80\x80'/>"); bad("utf8-above-10FFFF-in-comment-after-" + pn, "<a><!--" + ps + "\xF6\x80\x80\x80--></a>");
        good("utf8-10FFFF-after-" + pn, "<a>" + ps + "\xF4\x8F\xBF\xBF</a>");
    }
    // a supplementary character (two UTF-16 units from one 4-byte sequence) around the end of the first 16384-unit char buffer fill, in every kind of
    // construct: the decoder must hand the whole sequence over to the next fill when only one unit is left
    for (int pad = 16374; pad <= 16384; pad++) {
        std::string ps(pad, 'a'), pn = std::to_string(pad);
        good("supplementary-text-at-fill-edge-" + pn, "<a>" + ps + "\xF0\x9F\x98\x80z</a>");
        good("supplementary-attr-at-fill-edge-" + pn, "<a x='" + ps + "\xF0\x90\x80\x80'/>");
        good("supplementary-comment-at-fill-edge-" + pn, "<a><!--" + ps + "\xF4\x8F\xBF\xBF--></a>");
        good("supplementary-cdata-pi-at-fill-edge-" + pn, "<a><![CDATA[" + ps.substr(12) + "\xF0\x90\x80\x80]]><?p \xF0\x90\x80\x80?></a>");
    }
    // error messages are formatted into bounded buffers (2047 characters): constructs whose NAME or VALUE ends up in a message, with lengths around and
    // far beyond that bound, in every kind of error (fatal, validity, warning-level)
    for (int len : {2030, 2046, 2047, 2048, 2100, 4200, 70000}) {
        std::string nm(len, 'A'), ls = std::to_string(len);
        bad("long-name-in-message-mismatched-end-tag-" + ls, "<" + nm + "></y></" + nm + ">");
        bad("long-name-in-message-undeclared-entity-" + ls, "<a>&" + nm + ";</a>");
        bad("long-name-in-message-duplicate-attribute-" + ls, "<a " + nm + "='1' " + nm + "='2'/>");
        bad("long-name-in-message-bad-pi-target-" + ls, "<a><?xml" + nm.substr(0, 0) + " " + nm + "?></a>");
    }
    bad("charref-wraps-32-hex", "<a>&#x100000041;</a>"); bad("charref-wraps-32-dec", "<a>&#4294967361;</a>"); bad("charref-wraps-32-attr", "<a x='&#x100000041;'/>");
    bad("charref-wraps-32-supplementary", "<a>&#x200010000;</a>"); bad("charref-wraps-64-hex", "<a>&#x10000000000000041;</a>"); bad("charref-wraps-64-dec", "<a>&#18446744073709551681;</a>");
    bad("charref-wraps-32-via-entity", "<!DOCTYPE a [<!ENTITY e '&#38;#x100000041;'>]><a>&e;</a>", true);
    bad("charref-wraps-32-in-entity-value", "<!DOCTYPE a [<!ENTITY e '&#x100000041;'>]><a>&e;</a>", true); bad("charref-wraps-32-in-entity-value-unused", "<!DOCTYPE a [<!ENTITY e '&#x100000041;'>]><a/>", true);
    bad("charref-wraps-32-in-attr-default", "<!DOCTYPE a [<!ATTLIST a x CDATA '&#x100000041;'>]><a/>", true); bad("charref-wraps-32-dec-in-entity-value", "<!DOCTYPE a [<!ENTITY e '&#4294967361;'>]><a/>", true);
    bad("charref-too-big-in-entity-value", "<!DOCTYPE a [<!ENTITY e '&#x110000;'>]><a/>", true); bad("charref-zero-in-entity-value", "<!DOCTYPE a [<!ENTITY e '&#0;'>]><a/>", true);
    bad("charref-c0", "<a>&#1;</a>"); good("charref-tab-lf-cr", "<a>&#9;&#10;&#13;</a>"); good("charref-max", "<a>&#x10FFFF;</a>"); good("charref-fffd", "<a>&#xFFFD;</a>"); good("charref-leading-zeros", "<a>&#0000065;&#x00041;</a>");
    bad("ctrl-char", "<a>\x01</a>"); bad("ctrl-char-1f", "<a>\x1f</a>"); good("del-char", "<a>\x7f</a>"); bad("ffff-raw", "<a>\xEF\xBF\xBF</a>"); bad("fffe-raw", "<a>\xEF\xBF\xBE</a>"); good("fffd-raw", "<a>\xEF\xBF\xBD</a>");
    // comments, PIs, CDATA
    bad("comment-dashes", "<a><!--x--y--></a>"); bad("comment-ends-dash", "<a><!--x---></a>"); good("comment-single-dash", "<a><!--x-y- --></a>"); bad("comment-unterminated", "<a><!--x</a>");
    bad("pi-xml", "<a><?xml x?></a>"); bad("pi-XML", "<a><?XML x?></a>"); bad("pi-XmL", "<a><?XmL x?></a>"); good("pi-xmlx", "<a><?xmlx x?></a>"); good("pi-xml-stylesheet", "<?xml-stylesheet x?><a/>");
    bad("pi-unterminated", "<a><?p x></a>"); bad("pi-no-target", "<a><? x?></a>"); good("pi-empty-data", "<a><?p?><?p ?></a>"); bad("pi-no-space", "<a><?p+?></a>");
    bad("cdata-unterminated", "<a><![CDATA[x</a>"); bad("cdata-outside-root", "<![CDATA[x]]><a/>"); bad("cdata-lowercase", "<a><![cdata[x]]></a>"); good("cdata-brackets", "<a><![CDATA[]]]]><![CDATA[>]]></a>");
    // XML declaration
    bad("decl-not-first", " <?xml version='1.0'?><a/>"); bad("decl-after-comment", "<!--c--><?xml version='1.0'?><a/>"); bad("decl-no-version", "<?xml encoding='UTF-8'?><a/>");
    bad("decl-bad-order", "<?xml version='1.0' standalone='yes' encoding='UTF-8'?><a/>"); bad("decl-bad-standalone", "<?xml version='1.0' standalone='maybe'?><a/>");
    bad("decl-bad-encname", "<?xml version='1.0' encoding='8859'?><a/>"); bad("decl-version-2", "<?xml version='2.0'?><a/>", false, false); bad("decl-version-empty", "<?xml version=''?><a/>", false, false);
    bad("decl-dup-version", "<?xml version='1.0' version='1.0'?><a/>"); bad("decl-unknown-attr", "<?xml version='1.0' foo='x'?><a/>"); good("decl-full", "<?xml version=\"1.0\" encoding=\"utf-8\" standalone='no' ?><a/>");
    bad("decl-mixed-quotes", "<?xml version='1.0\"?><a/>"); bad("decl-uppercase", "<?XML version='1.0'?><a/>");
    // encodings / bytes
    bad("utf8-truncated-2", "<a>\xC3</a>"); bad("utf8-overlong-c0", "<a>\xC0\x80</a>"); bad("utf8-overlong-e0", "<a>\xE0\x80\x80</a>"); bad("utf8-surrogate", "<a>\xED\xA0\x80</a>");
    bad("utf8-f4-90", "<a>\xF4\x90\x80\x80</a>"); bad("utf8-f8", "<a>\xF8\x88\x80\x80\x80</a>"); bad("utf8-lone-cont", "<a>\x80</a>"); bad("utf8-ff", "<a>\xFF</a>"); bad("utf8-trunc-at-eof", "<a/>\xE2\x82");
    good("utf8-bom", "\xEF\xBB\xBF<a/>"); good("utf8-4byte", "<a>\xF0\x90\x80\x80\xF4\x8F\xBF\xBF</a>"); good("utf8-name", "<\xC3\xA9 \xC3\xA8='1'/>"); bad("utf8-name-start-combining", "<\xCC\x81/>");
    good("utf16le-bom", u16(u"<a/>", false, true)); good("utf16be-bom", u16(u"<a/>", true, true)); bad("utf16le-odd", u16(u"<a/>", false, true) + "A");
    good("utf16le-nobom-decl", u16(u"<?xml version='1.0' encoding='UTF-16'?><a/>", false, false)); good("utf16be-nobom-decl", u16(u"<?xml version='1.0' encoding='UTF-16'?><a/>", true, false));
    bad("utf16le-lone-high", u16(std::u16string(u"<a>") + char16_t(0xD800) + u"</a>", false, true)); bad("utf16le-lone-low", u16(std::u16string(u"<a>") + char16_t(0xDC00) + u"</a>", false, true));
    bad("utf16le-reversed-pair", u16(std::u16string(u"<a>") + char16_t(0xDC00) + char16_t(0xD800) + u"</a>", false, true));
    good("utf16le-pair", u16(std::u16string(u"<a>") + char16_t(0xD800) + char16_t(0xDC00) + u"</a>", false, true)); good("utf16be-pair", u16(std::u16string(u"<a>") + char16_t(0xDBFF) + char16_t(0xDFFF) + u"</a>", true, true));
    bad("utf16-ffff", u16(std::u16string(u"<a>") + char16_t(0xFFFF) + u"</a>", false, true)); good("latin1-decl", "<?xml version='1.0' encoding='ISO-8859-1'?><a>\xE9</a>");
    bad("ascii-decl-highbit", "<?xml version='1.0' encoding='US-ASCII'?><a>\xE9</a>", false, false);
    // DOCTYPE / entities
    bad("doctype-after-root", "<a/><!DOCTYPE a>", true); bad("doctype-twice", "<!DOCTYPE a><!DOCTYPE a><a/>", true); bad("doctype-in-root", "<a><!DOCTYPE a></a>", true);
    bad("entity-recursive", "<!DOCTYPE a [<!ENTITY e '&f;'><!ENTITY f '&e;'>]><a>&e;</a>", true); bad("entity-self", "<!DOCTYPE a [<!ENTITY e 'x&e;'>]><a>&e;</a>", true);
    bad("entity-partial-markup", "<!DOCTYPE a [<!ENTITY e '<b>'>]><a>&e;</b></a>", true); bad("entity-partial-end", "<!DOCTYPE a [<!ENTITY e '</a>'>]><a>&e;", true);
    bad("entity-lt-in-attr", "<!DOCTYPE a [<!ENTITY e '<'>]><a x='&e;'/>", true); good("entity-lt-charref-in-attr", "<!DOCTYPE a [<!ENTITY e '&#38;#60;'>]><a x='&e;'/>", true);
    bad("entity-external-in-attr", "<!DOCTYPE a [<!ENTITY e SYSTEM 'x.ent'>]><a x='&e;'/>", true); bad("entity-unparsed-ref", "<!DOCTYPE a [<!NOTATION n SYSTEM 'n'><!ENTITY e SYSTEM 'x' NDATA n>]><a>&e;</a>", true);
    bad("pe-in-internal-markup", "<!DOCTYPE a [<!ENTITY % p 'x'><!ENTITY e '%p;'>]><a/>", true); good("entity-balanced-markup", "<!DOCTYPE a [<!ENTITY e '<b>x</b>'>]><a>&e;&e;</a>", true);
    bad("entity-bare-amp-in-value", "<!DOCTYPE a [<!ENTITY e 'x&y'>]><a/>", true); good("entity-unused-undeclared-ref-in-value", "<!DOCTYPE a [<!ENTITY e '&zz;'>]><a/>", true);
    bad("entity-used-undeclared-ref-in-value", "<!DOCTYPE a [<!ENTITY e '&zz;'>]><a>&e;</a>", true);
    good("predefined-redeclared", "<!DOCTYPE a [<!ENTITY lt '&#38;#60;'><!ENTITY amp '&#38;#38;'>]><a>&lt;&amp;</a>", true);
    bad("attlist-default-lt", "<!DOCTYPE a [<!ATTLIST a x CDATA '<'>]><a/>", true); bad("doctype-unterminated", "<!DOCTYPE a [<!ENTITY e 'v'>", true); bad("decl-in-content", "<a><!ENTITY e 'v'></a>");
    // exceptions thrown while a parameter-entity reader is still on the reader stack (missing nested external PE / entity)
    bad("pe-nested-missing-external-pe", "<!DOCTYPE r [<!ENTITY % k \"<!ENTITY &#37; n SYSTEM 'nofile.ent'>&#37;n;\">%k;]><r/>", true, false);
    bad("pe-missing-external-pe", "<!DOCTYPE r [<!ENTITY % n SYSTEM 'nofile.pe'>%n;]><r/>", true, false);
    bad("missing-external-subset-validating", "<!DOCTYPE r SYSTEM 'nofile.dtd'><r/>", true, false);
    bad("pe-nested-bad-markup", "<!DOCTYPE r [<!ENTITY % k \"<!ENTITY &#37; n '<!BOGUS>'>&#37;n;\">%k;]><r/>", true, false);
    { DocCase d; d.doc = "<!DOCTYPE r SYSTEM 'k1.dtd'><r/>"; d.label = "ext-subset-ending-in-internal-pe-ref"; d.expect = 1; d.doctype = true; d.ref_usable = true;
      d.files = {{"/v/k1.dtd", "<!ENTITY % xp1 \"<!--c-->\">%xp1;"}}; CAT.push_back(d); }
    { DocCase d; d.doc = "<!DOCTYPE r SYSTEM 'k2.dtd'><r>&g;</r>"; d.label = "ext-subset-ending-in-internal-pe-ref-decl"; d.expect = 1; d.doctype = true; d.ref_usable = true;
      d.files = {{"/v/k2.dtd", "<!ENTITY % xp2 \"<!ENTITY g 'gv'>\">%xp2;"}}; CAT.push_back(d); }
    good("brackets-empty-entity-gt", "<!DOCTYPE a [<!ENTITY z ''>]><a>]]&z;>]&z;]></a>", true);
    { DocCase d; d.doc = "<!DOCTYPE r SYSTEM 'k3.dtd'><r>]]&undeclared;></r>"; d.label = "brackets-skipped-entity-gt"; d.expect = 1; d.doctype = true; d.ref_usable = true;
      d.files = {{"/v/k3.dtd", "<!ENTITY e 'v'>"}}; CAT.push_back(d); }
    bad("cond-section-internal", "<!DOCTYPE a [<![INCLUDE[<!ENTITY e 'v'>]]>]><a/>", true);
}
static int g_s3_wrap = 3;

static DocCase s3_case(uint64_t idx) {
    DocCase d = CAT[idx % CAT.size()];
    return d;
}
static void run_s3(uint64_t idx, Ctx& c) {
    DocCase dc = s3_case(idx);
    check_doc(dc, c);
    c.count(dc.expect == 1 ? "catalogue_wellformed" : "catalogue_malformed");
    if (idx % 37 == 0) c.sample("{\"label\":" + jstr(dc.label) + ",\"doc\":" + jstr(dc.doc.substr(0, 200)) + "}");
}

// ---------------------------------------------------------------------------------------------- s11: XML 1.1 / 1.0 by-construction infoset (expat cannot speak 1.1)
struct Item11 { std::string bytes; int ok10, ok11; std::string text10, text11; };  // expected text contributions as escaped (esc16-style) strings
static std::vector<Item11> IT11;
static void init_s11() {
    IT11 = {
        {"x", 1, 1, "x", "x"},
        {"\n", 1, 1, "\\u000A", "\\u000A"}, {"\r\n", 1, 1, "\\u000A", "\\u000A"}, {"\r", 1, 1, "\\u000A", "\\u000A"},
        {"\xC2\x85", 1, 1, "\\u0085", "\\u000A"},          // NEL: plain char in 1.0, line end in 1.1
        {"\r\xC2\x85", 1, 1, "\\u000A\\u0085", "\\u000A"},  // CR NEL
        {"\xE2\x80\xA8", 1, 1, "\\u2028", "\\u000A"},      // LSEP
        {"&#x85;", 1, 1, "\\u0085", "\\u0085"}, {"&#x2028;", 1, 1, "\\u2028", "\\u2028"},
        {"&#1;", 0, 1, "", "\\u0001"}, {"&#x1F;", 0, 1, "", "\\u001F"}, {"&#0;", 0, 0, "", ""},
        {"\x01", 0, 0, "", ""},                            // raw C0 control: illegal in both
        {"\xC2\x86", 1, 0, "\\u0086", ""},                 // raw C1 control: legal in 1.0, restricted in 1.1
        {"&#x86;", 1, 1, "\\u0086", "\\u0086"},
        {"\x7F", 1, 0, "\\u007F", ""}, {"&#x7F;", 1, 1, "\\u007F", "\\u007F"},
        {"\t", 1, 1, "\\u0009", "\\u0009"},
        {"<![CDATA[\xC2\x85]]>", 1, 1, "CD:\\u0085", "CD:\\u000A"},
        {"<b a='\xC2\x85'/>", 1, 1, "AT:\\u0085", "AT: "},   // attribute value normalisation turns the (normalised) line end into a space
        {"<b a='&#x85;'/>", 1, 1, "AT:\\u0085", "AT:\\u0085"},
    };
}
static DocCase s11_case(uint64_t idx, std::string& expectT, int& version) {
    uint64_t nw = words_upto(IT11.size(), g_k);
    uint64_t w = idx % nw; idx /= nw;
    version = (int)(idx % 2);  // 0 -> 1.0, 1 -> 1.1
    DocCase dc; dc.ref_usable = false;
    dc.doc = version ? "<?xml version='1.1'?><r>" : "<?xml version='1.0'?><r>";
    bool ok = true;
    expectT.clear();
    bool pendingCR = false;  // previous raw item ended in a literal CR: a directly following raw LF (or NEL in 1.1) belongs to the same line end
    for (int t : word_at(w, IT11.size(), g_k)) {
        const Item11& it = IT11[t];
        dc.doc += it.bytes;
        ok = ok && (version ? it.ok11 : it.ok10);
        std::string contrib = version ? it.text11 : it.text10;
        bool rawLF = it.bytes == "\n", rawNEL = it.bytes == "\xC2\x85";
        if (pendingCR && (rawLF || (version && rawNEL))) contrib = "";
        pendingCR = (it.bytes == "\r");
        expectT += contrib + "|";
    }
    dc.doc += "</r>";
    dc.expect = ok ? 1 : 0;
    return dc;
}
static void run_s11(uint64_t idx, Ctx& c) {
    std::string expectT; int version;
    DocCase dc = s11_case(idx, expectT, version);
    c.count(dc.expect ? "ref_wellformed" : "ref_malformed");
    ParseIO io; io.bytes = dc.doc;
    for (int sc = 0; sc < 4; sc++) for (int api : {SAX2, SAX1, DOM, DOMLS, PULL}) {
        Config cfg; cfg.api = api; cfg.scanner = sc; cfg.ns = (sc == SG);
        ParseResult r = parse_xerces(cfg, io);
        c.count("parses");
        if (r.exc.compare(0, 7, "FOREIGN") == 0) { c.violation("foreign-exception", "\"doc\":" + jstr(dc.doc) + ",\"config\":" + jstr(cfg.str())); continue; }
        if (r.ok() != (dc.expect == 1)) {
            c.violation(dc.expect ? "wellformed-rejected" : "malformed-accepted", "\"doc\":" + jstr(dc.doc) + ",\"doc_hex\":" + jstr(hexs(dc.doc)) + ",\"config\":" + jstr(cfg.str()) +
                        ",\"xerces_errors\":" + jstr(r.errors.empty() ? r.exc : r.errors[0]));
            continue;
        }
        if (!r.ok()) continue;
        // rebuild the per-item text contributions from the dump: text between markers
        std::string got;  // flatten: T| chunks concatenated, CDATA as CD:..., attribute values as AT:...
        // The dump coalesces adjacent text, so compare the flattened character stream instead of per item boundaries.
        std::string flatExpect, flatGot;
        {
            size_t i = 0;
            while (i < expectT.size()) { size_t j = expectT.find('|', i); std::string part = expectT.substr(i, j - i); i = j + 1;
                if (part.compare(0, 3, "CD:") == 0) flatExpect += (api == SAX1 || api == PULL) ? part.substr(3) : "[" + part.substr(3) + "]";
                else if (part.compare(0, 3, "AT:") == 0) flatExpect += "{" + part.substr(3) + "}";
                else flatExpect += part; }
        }
        bool inCd = false;
        for (auto& l : r.d.lines) {
            if (l.compare(0, 2, "T|") == 0) flatGot += l.substr(2);
            else if (l == "CS") { flatGot += "["; inCd = true; }
            else if (l == "CE") { flatGot += "]"; inCd = false; }
            else if (l.compare(0, 4, "A|a|") == 0) { size_t e = l.find('|', 4); flatGot += "{" + l.substr(4, e - 4) + "}"; }
        }
        (void)inCd;
        // an empty CDATA-free adjacent "][" cannot occur here; compare
        c.count("content_compared");
        if (flatGot != flatExpect)
            c.violation("infoset-1.1-by-construction", "\"doc\":" + jstr(dc.doc) + ",\"doc_hex\":" + jstr(hexs(dc.doc)) + ",\"config\":" + jstr(cfg.str()) + ",\"expected\":" + jstr(flatExpect) + ",\"observed\":" + jstr(flatGot));
    }
    if (idx % 997 == 0) c.sample("{\"doc_hex\":" + jstr(hexs(dc.doc)) + ",\"version\":" + std::to_string(version) + "}");
}

// ---------------------------------------------------------------------------------------------- prefix: every proper byte prefix of every s4 (k<=1) document
static std::vector<uint64_t> PFX_CUM;  // cumulative number of prefixes
static std::vector<DocCase> PFX_DOCS;
static void init_prefix() {
    init_s4();
    int savek = g_k; g_k = 1;
    uint64_t n = words_upto(ITEMS.size(), 1) * g_s4_attrs * PROLOGS.size(), cum = 0;
    for (uint64_t i = 0; i < n; i++) { DocCase d = s4_case(i); PFX_DOCS.push_back(d); cum += d.doc.size(); PFX_CUM.push_back(cum); }
    g_k = savek;
}
static DocCase prefix_case(uint64_t idx) {
    size_t di = std::upper_bound(PFX_CUM.begin(), PFX_CUM.end(), idx) - PFX_CUM.begin();
    uint64_t base = di ? PFX_CUM[di - 1] : 0;
    DocCase d = PFX_DOCS[di];
    d.doc = d.doc.substr(0, idx - base);  // proper prefix: lengths 0 .. size-1
    return d;
}
static void run_prefix(uint64_t idx, Ctx& c) {
    DocCase dc = prefix_case(idx);
    check_doc(dc, c);
    if (idx % 9973 == 0) c.sample("{\"doc\":" + jstr(dc.doc) + "}");
}

// ---------------------------------------------------------------------------------------------- c01: robustness under the configuration product (oracle: survives, no sanitizer report, only documented exceptions, bounded time)
static std::vector<std::string> DTDTOK, XSDTOK;
static void init_dtdmut();
static void init_c01_tokens() {
    init_dtdmut();
    DTDTOK = {"<!ELEMENT a (b,c)>", "<!ELEMENT a (#PCDATA|b)*>", "<!ELEMENT a EMPTY>", "<!ELEMENT a ANY>", "<!ELEMENT a (b", "<!ELEMENT a (b|c,d)>", "<!ELEMENT a ((((((((b))))))))>",
              "<!ELEMENT a (b?,(c|d)*,e+)+>", "<!ELEMENT a (b)><!ELEMENT a (c)>", "<!ELEMENT b (a*)>",
              "<!ATTLIST a x CDATA #IMPLIED>", "<!ATTLIST a x ID #REQUIRED y IDREFS 'q'>", "<!ATTLIST a x (p|q|p) 'p'>", "<!ATTLIST a x NOTATION (n) #IMPLIED>", "<!ATTLIST a x CDATA #FIXED>", "<!ATTLIST a x ENTITIES 'u u'>",
              "<!ATTLIST a xml:space (default|preserve) 'x'>", "<!ATTLIST a", "<!ATTLIST a x NMTOKENS ' '>",
              "<!ENTITY e 'v'>", "<!ENTITY e '&e;'>", "<!ENTITY e '&#60;'>", "<!ENTITY e '<a>'>", "<!ENTITY % p 'x'>", "<!ENTITY % p '<!ENTITY e \"pv\">'>", "%p;", "<!ENTITY % q '%q;'>%q;", "<!ENTITY x SYSTEM 'x.ent'>", "<!ENTITY % xp SYSTEM 'x.pe'>%xp;",
              "<!ENTITY u SYSTEM 'u' NDATA n>", "<!ENTITY % k \"<!ENTITY &#37; n SYSTEM 'nofile.ent'>&#37;n;\">%k;", "<!ENTITY % m SYSTEM 'missing.pe'>%m;", "<!ENTITY % w \"<!ENTITY &#37; v '<!BAD'>&#37;v;\">%w;", "<!ENTITY e 'unterminated>", "<!ENTITY e PUBLIC 'p' >",
              "<!NOTATION n SYSTEM 'n'>", "<!NOTATION n PUBLIC 'p'>", "<!NOTATION n>", "<![INCLUDE[<!ENTITY e 'i'>]]>", "<![IGNORE[<![INCLUDE[ x ]]> ]]>", "<![ %p; [ ]]>", "<![INCLUDE[",
              "<!--c-->", "<?pi d?>", "<?xml version='1.0'?>", " ", "]", "<", "&e;", "\x01", "\xC3", "<!DOCTYPE a>", "<!ELEMENT \xC3\xA9 (#PCDATA)>"};
    XSDTOK = {"<xs:element name='a' type='xs:string'/>", "<xs:element name='a'/>", "<xs:element name='a' type='t'/>", "<xs:element name='a' type='xs:int' default='x'/>", "<xs:element ref='a'/>",
              "<xs:element name='a' minOccurs='2'/>", "<xs:element name='a' substitutionGroup='a'/>", "<xs:element name='b' substitutionGroup='a' type='xs:int'/>",
              "<xs:complexType name='t'><xs:sequence><xs:element name='b' maxOccurs='unbounded'/><xs:element name='b' minOccurs='0'/></xs:sequence></xs:complexType>",
              "<xs:complexType name='t'><xs:complexContent><xs:extension base='t'/></xs:complexContent></xs:complexType>",
              "<xs:complexType name='t'><xs:all><xs:element name='b' maxOccurs='2'/></xs:all><xs:attribute name='x' use='required' default='1'/></xs:complexType>",
              "<xs:complexType name='t'><xs:choice minOccurs='3' maxOccurs='2'><xs:any namespace='##other' processContents='lax'/></xs:choice><xs:anyAttribute/></xs:complexType>",
              "<xs:complexType name='u'><xs:simpleContent><xs:restriction base='t'><xs:maxLength value='-1'/></xs:restriction></xs:simpleContent></xs:complexType>",
              "<xs:complexType><xs:sequence/></xs:complexType>", "<xs:complexType name='t' mixed='maybe'/>",
              "<xs:simpleType name='s'><xs:restriction base='xs:int'><xs:minInclusive value='5'/><xs:maxInclusive value='1'/></xs:restriction></xs:simpleType>",
              "<xs:simpleType name='s'><xs:restriction base='s'/></xs:simpleType>", "<xs:simpleType name='s'><xs:list itemType='s'/></xs:simpleType>", "<xs:simpleType name='s'><xs:union memberTypes='xs:int s nope'/></xs:simpleType>",
              "<xs:simpleType name='s'><xs:restriction base='xs:string'><xs:pattern value='[a-'/><xs:pattern value='(a|b)*c{2,1}'/><xs:enumeration value='x'/></xs:restriction></xs:simpleType>",
              "<xs:simpleType name='s'><xs:restriction base='xs:decimal'><xs:totalDigits value='0'/><xs:fractionDigits value='99999999999999999999'/></xs:restriction></xs:simpleType>",
              "<xs:attribute name='x' type='xs:ID' fixed='1' default='2'/>", "<xs:attributeGroup name='g'><xs:attributeGroup ref='g'/></xs:attributeGroup>", "<xs:group name='g'><xs:sequence><xs:group ref='g'/></xs:sequence></xs:group>",
              "<xs:include schemaLocation='s2.xsd'/>", "<xs:import namespace='urn:o' schemaLocation='s2.xsd'/>", "<xs:redefine schemaLocation='s2.xsd'><xs:simpleType name='s'><xs:restriction base='s'/></xs:simpleType></xs:redefine>",
              "<xs:import/>", "<xs:include schemaLocation='s.xsd'/>",
              "<xs:element name='k'><xs:complexType><xs:sequence><xs:element name='b' maxOccurs='9'/></xs:sequence></xs:complexType><xs:key name='k1'><xs:selector xpath='.//b|'/><xs:field xpath='@x'/></xs:key><xs:keyref name='r1' refer='nokey'><xs:selector xpath='b'/><xs:field xpath='.'/></xs:keyref></xs:element>",
              "<xs:annotation><xs:appinfo><x/></xs:appinfo><xs:documentation>&lt;</xs:documentation></xs:annotation>", "<xs:notation name='n' public='p'/>", "<xs:bogus/>", "<xs:element name='1a'/>", "text", "<xs:element", "<!--c-->"};
}
struct CfgSet { std::vector<Config> v; };
static std::vector<Config> CFGS;
static void init_cfgs(const std::string& set) {
    // "full": complete product; "array": cores x 16-row feature array (every pair of feature values co-occurs); "small": 48 listed configurations
    std::vector<int> apis = {SAX1, SAX2, DOM, DOMLS, PULL};
    std::vector<unsigned> rows;
    if (set == "full") for (unsigned m = 0; m < 128; m++) rows.push_back(m);
    else {
        // 16-row strength-2 covering array for 7 binary factors: rows = (bits of i) extended with parities (orthogonal-array construction)
        for (unsigned i = 0; i < 16; i++) {
            unsigned b0 = i & 1, b1 = (i >> 1) & 1, b2 = (i >> 2) & 1, b3 = (i >> 3) & 1;
            unsigned f[7] = {b0, b1, b2, b3, b0 ^ b1, b1 ^ b2 ^ b3, b0 ^ b2 ^ 1u ^ (b3 & 0)};
            unsigned m = 0; for (int k = 0; k < 7; k++) m |= f[k] << k;
            rows.push_back(m);
        }
    }
    int n = 0;
    for (int api : apis) for (int sc = 0; sc < 4; sc++) for (int val = 0; val < 3; val++) for (unsigned m : rows) {
        if (set == "small" && ((n++) % 20) != 0) continue;
        Config c; c.api = api; c.scanner = sc; c.val = val;
        c.ns = m & 1; c.schema = m & 2; c.fullcheck = m & 4; c.exitFirstFatal = !(m & 8); c.loadExtDTD = !(m & 16); c.entRefNodes = m & 32; c.secLimit = (m & 64) ? 5 : -1;
        if (sc == SG) c.ns = true;
        CFGS.push_back(c);
    }
}
// dtdmut: every single-character deletion and duplication of each well-formed declaration below, inside the internal and the external subset.
// One damaged character is how the error-recovery branches of DTDScanner are reached (missing '*', ')', '>', quote, keyword letters ...).
static std::vector<std::string> DTDBASE;
static std::vector<std::pair<int, int>> DTDMUT;   // (declaration, position*2 + kind)
static void init_dtdmut() {
    DTDBASE = {"<!ELEMENT a (#PCDATA|b|c)*>", "<!ELEMENT a (b,(c|d)*,e+)?>", "<!ELEMENT a EMPTY>", "<!ELEMENT a (#PCDATA)>",
               "<!ATTLIST a x CDATA #IMPLIED y (p|q) 'p'>", "<!ATTLIST a x NOTATION (n|m) #REQUIRED>", "<!ATTLIST a i ID #IMPLIED r IDREFS #FIXED 'k'>",
               "<!ENTITY e 'v&#38;w'>", "<!ENTITY % p '<!ELEMENT c ANY>'>%p;", "<!ENTITY x PUBLIC 'pub' 'x.ent'>", "<!ENTITY u SYSTEM 'u' NDATA n>",
               "<!NOTATION n PUBLIC 'p' 's'>", "<![INCLUDE[<!ELEMENT c (b)>]]>", "<![IGNORE[<!x [ y ]]> ]]>", "<?pi d?><!--c-->"};
    for (size_t d = 0; d < DTDBASE.size(); d++) for (size_t p = 0; p < DTDBASE[d].size(); p++) for (int k = 0; k < 2; k++) DTDMUT.push_back({(int)d, (int)(p * 2 + k)});
}
static std::string g_c01_docs = "s1";
static uint64_t c01_ndocs() {
    if (g_c01_docs == "dtdmut") return DTDMUT.size() * 2;
    if (g_c01_docs == "s1") return words_upto(TOK.size(), g_k);
    if (g_c01_docs == "s3") return CAT.size();
    if (g_c01_docs == "s4") return words_upto(ITEMS.size(), g_k) * g_s4_attrs * PROLOGS.size();
    if (g_c01_docs == "dtd") return words_upto(DTDTOK.size(), g_k) * 2;
    if (g_c01_docs == "xsd") return words_upto(XSDTOK.size(), g_k);
    return 0;
}
static DocCase c01_doc(uint64_t i) {
    if (g_c01_docs == "s1") { DocCase d; d.doc = doc_of(i); return d; }
    if (g_c01_docs == "s3") return CAT[i];
    if (g_c01_docs == "s4") return s4_case(i);
    static const std::string XENT = "<?xml version='1.0' encoding='UTF-8'?>ext<b/>", XPE = "<!ENTITY e 'frompe'><!ELEMENT c (#PCDATA)>";
    if (g_c01_docs == "dtdmut") {
        auto m = DTDMUT[i % DTDMUT.size()];
        std::string sub = DTDBASE[m.first];
        size_t pos = m.second / 2;
        if (m.second % 2 == 0) sub.erase(pos, 1); else sub.insert(pos, 1, sub[pos]);
        sub = "<!ELEMENT b EMPTY>" + sub + "<!ATTLIST b z CDATA 'd'>";
        DocCase d; d.doctype = true;
        d.files = {{"/v/x.ent", XENT}, {"/v/x.pe", XPE}};
        if (i / DTDMUT.size() == 0) d.doc = "<!DOCTYPE a [" + sub + "]><a x='1'>&e;<b/>&x;</a>";
        else { d.doc = "<!DOCTYPE a SYSTEM 'e.dtd'><a x='1'>&e;<b/>&x;</a>"; d.files.push_back({"/v/e.dtd", sub}); }
        return d;
    }
    if (g_c01_docs == "dtd") {
        uint64_t nw = words_upto(DTDTOK.size(), g_k);
        std::string sub; for (int t : word_at(i % nw, DTDTOK.size(), g_k)) sub += DTDTOK[t];
        DocCase d; d.doctype = true;
        d.files = {{"/v/x.ent", XENT}, {"/v/x.pe", XPE}};
        if (i / nw == 0) d.doc = "<!DOCTYPE a [" + sub + "]><a x='1'>&e;<b/>&x;</a>";
        else { d.doc = "<!DOCTYPE a SYSTEM 'e.dtd'><a x='1'>&e;<b/>&x;</a>"; d.files.push_back({"/v/e.dtd", sub}); }
        return d;
    }
    // xsd
    std::string body; for (int t : word_at(i, XSDTOK.size(), g_k)) body += XSDTOK[t];
    DocCase d;
    d.files = {{"/v/s.xsd", "<xs:schema xmlns:xs='http://www.w3.org/2001/XMLSchema' xmlns='urn:t' targetNamespace='urn:t' elementFormDefault='qualified'>" + body + "</xs:schema>"},
               {"/v/s2.xsd", "<xs:schema xmlns:xs='http://www.w3.org/2001/XMLSchema' targetNamespace='urn:t'><xs:simpleType name='s'><xs:restriction base='xs:string'/></xs:simpleType></xs:schema>"}};
    d.doc = "<a xmlns='urn:t' xmlns:xsi='http://www.w3.org/2001/XMLSchema-instance' xsi:schemaLocation='urn:t s.xsd' x='1'><b/>t<k><b x='1'/><b x='1'/></k></a>";
    return d;
}
static void run_c01(uint64_t idx, Ctx& c) {
    DocCase dc = c01_doc(idx);
    ParseIO io; io.bytes = dc.doc;
    uint64_t outcomes = 0;
    for (const Config& cfg : CFGS) {
        g_vfs->clear();
        for (auto& f : dc.files) g_vfs->put(f.first, f.second);
        ParseResult r = parse_xerces(cfg, io);
        c.count("parses");
        if (r.exc.compare(0, 7, "FOREIGN") == 0)
            c.violation("foreign-exception", "\"doc\":" + jstr(dc.doc) + ",\"config\":" + jstr(cfg.str()) + ",\"exc\":" + jstr(r.exc) + ",\"files\":" + jstr(dc.files.empty() ? "" : dc.files.back().second));
        if (r.fatals) c.count("outcome_fatal"); else if (!r.exc.empty()) c.count("outcome_exception"); else if (r.errs) c.count("outcome_errors"); else c.count("outcome_clean");
        if (cfg.secLimit >= 0) {
            // bounded expansion: with a limit of 5 no more than 5 entity references may be expanded before the fatal error
            int rs = 0; for (auto& l : r.d.lines) if (l.compare(0, 3, "RS|") == 0) rs++;
            if (rs > cfg.secLimit + 1) c.violation("expansion-limit-exceeded", "\"doc\":" + jstr(dc.doc) + ",\"config\":" + jstr(cfg.str()) + ",\"expansions\":" + std::to_string(rs));
        }
        outcomes |= 1ull << ((r.fatals ? 1 : 0) + (r.errs ? 2 : 0) + (r.exc.empty() ? 0 : 4));
    }
    c.count("nontrivial", __builtin_popcountll(outcomes) > 1 ? 1 : 0);  // documents whose outcome class depends on the configuration
    if (idx % 997 == 0) c.sample("{\"doc\":" + jstr(dc.doc.substr(0, 300)) + ",\"configs\":" + std::to_string(CFGS.size()) + "}");
}

int main(int argc, char** argv) {
    Args a(argc, argv);
    std::string space = a.str("space", "s1");
    g_k = (int)a.num("k", 3);
    g_apis = (unsigned)a.num("apis", 0x1f);
    g_scn = (unsigned)a.num("scanners", 0xf);
    g_nsmask = (unsigned)a.num("ns", 3);
    g_content = a.num("content", 1) != 0;
    init_tokens(a.str("tokens", "full"));
    xml_init();
    Runner R;
    R.name = space;
    if (space == "s1") {
        R.total = words_upto(TOK.size(), g_k);
        R.fn = run_s1;
        R.describe = [](uint64_t i) { std::string d = doc_of(i); return "{\"doc\":" + jstr(d) + ",\"doc_hex\":" + jstr(hexs(d)) + "}"; };
        R.extra_json = "\"alphabet\":" + std::to_string(TOK.size()) + ",\"k\":" + std::to_string(g_k);
    } else if (space == "s4") {
        init_s4();
        g_s4_attrs = (int)a.num("rootattrs", 5);
        R.total = words_upto(ITEMS.size(), g_k) * g_s4_attrs * PROLOGS.size();
        R.fn = run_s4;
        R.describe = [](uint64_t i) { DocCase d = s4_case(i); return "{\"doc\":" + jstr(d.doc) + "}"; };
        R.extra_json = "\"alphabet\":" + std::to_string(ITEMS.size()) + ",\"k\":" + std::to_string(g_k) + ",\"prologs\":" + std::to_string(PROLOGS.size());
    } else if (space == "s3") {
        init_s3();
        R.total = CAT.size();
        R.fn = run_s3;
        R.describe = [](uint64_t i) { DocCase d = s3_case(i); return "{\"label\":" + jstr(d.label) + ",\"doc_hex\":" + jstr(hexs(d.doc)) + "}"; };
    } else if (space == "prefix") {
        g_s4_attrs = (int)a.num("rootattrs", 2);
        init_prefix();
        R.total = PFX_CUM.back();
        R.fn = run_prefix;
        R.describe = [](uint64_t i) { DocCase d = prefix_case(i); return "{\"doc\":" + jstr(d.doc) + ",\"doc_hex\":" + jstr(hexs(d.doc)) + "}"; };
        R.extra_json = "\"core_documents\":" + std::to_string(PFX_DOCS.size());
    } else if (space == "c01") {
        g_c01_docs = a.str("docs", "s1");
        g_s4_attrs = (int)a.num("rootattrs", 2);
        init_s3(); init_s4(); init_c01_tokens();
        init_cfgs(a.str("cfgset", "array"));
        R.total = c01_ndocs();
        R.fn = run_c01;
        R.describe = [](uint64_t i) { DocCase d = c01_doc(i); return "{\"doc\":" + jstr(d.doc) + ",\"doc_hex\":" + jstr(hexs(d.doc)) + ",\"files\":" + jstr(d.files.empty() ? "" : d.files.back().second) + "}"; };
        R.extra_json = "\"configs\":" + std::to_string(CFGS.size()) + ",\"k\":" + std::to_string(g_k);
        R.case_timeout_s = 60;
    } else if (space == "s11") {
        init_s11();
        R.total = words_upto(IT11.size(), g_k) * 2;
        R.fn = run_s11;
        R.describe = [](uint64_t i) { std::string e; int v; DocCase d = s11_case(i, e, v); return "{\"doc_hex\":" + jstr(hexs(d.doc)) + "}"; };
        R.extra_json = "\"alphabet\":" + std::to_string(IT11.size()) + ",\"k\":" + std::to_string(g_k);
    } else {
        fprintf(stderr, "unknown space\n");
        return 2;
    }
    return R.main_tail(a);
}
