// parsex - bounded-exhaustive parse exploration against the expat reference (C02, C03; also the
// memory-safety net of C01 since everything runs under ASan+UBSan).
//   --space s1   : all words of length <= k over the document token alphabet
//   --space s11  : XML 1.1 by-construction space
#include "xv_xml.hpp"
using namespace xv;

static std::vector<std::string> TOK;
static std::vector<bool> TOK_DOCTYPE;  // token contains a DOCTYPE (excluded for WF/SG scanner claims)

static void init_tokens(const std::string& set) {
    auto T = [&](const std::string& s, bool dt = false) { TOK.push_back(s); TOK_DOCTYPE.push_back(dt); };
    T("<a>"); T("</a>"); T("<b>"); T("</b>"); T("<a/>");
    T("<p:a xmlns:p='u'>"); T("</p:a>"); T("<p:b/>");
    T("<a x='1'>"); T("<a x=\"1\" y='2'/>"); T("<a x='1' x='2'/>"); T("<a x='<'/>"); T("<a x='&lt;&amp;&#9;'/>"); T("<a x/>");
    T("<a\nx='1\n2'\n>");
    T("x"); T("&lt;"); T("&amp;&gt;&apos;&quot;"); T("&#65;"); T("&#x41;"); T("&#0;"); T("&#xD800;"); T("&#x110000;"); T("&#xFFFE;"); T("&u;");
    T("<!--c-->"); T("<!--c--d-->"); T("<?pi d?>"); T("<?xml d?>"); T("<?XML d?>");
    T("<?xml version='1.0'?>"); T("<?xml version='1.0' encoding='UTF-8' standalone='yes'?>"); T("<?xml version='1.0' encoding='bogus-enc'?>");
    T("<?xml standalone='yes' version='1.0'?>");
    T("<![CDATA[c<&]]>"); T("]]>"); T("<"); T("&"); T(">"); T(" "); T("\n"); T("\r\n"); T("\x01");
    T("\xC3\xA9"); T("\xC3"); T("\xFF"); T("\xF0\x90\x80\x80"); T("\xED\xA0\x80");
    T("<!DOCTYPE a>", true); T("<!DOCTYPE a [<!ENTITY e 'v<b/>'><!ATTLIST a d CDATA 'dv'>]>", true); T("&e;");
    T("<!DOCTYPE a [<!ENTITY e '&f;'><!ENTITY f '&e;'>]>", true);
    if (set == "small") { /* subset for deeper k */
        std::vector<int> keep = {0, 1, 4, 5, 6, 8, 10, 15, 16, 20, 24, 25, 27, 28, 30, 34, 35, 36, 37, 39, 40, 43, 44, 49, 50, 51};
        std::vector<std::string> t2; std::vector<bool> d2;
        for (int i : keep) { t2.push_back(TOK[i]); d2.push_back(TOK_DOCTYPE[i]); }
        TOK = t2; TOK_DOCTYPE = d2;
    }
}

static bool eq_wild(const std::string& a, const std::string& b) {
    size_t i = 0, j = 0;
    while (true) {
        size_t ie = a.find('|', i), je = b.find('|', j);
        std::string fa = a.substr(i, ie == std::string::npos ? std::string::npos : ie - i);
        std::string fb = b.substr(j, je == std::string::npos ? std::string::npos : je - j);
        if (fa != fb && fa != "?" && fb != "?") return false;
        if ((ie == std::string::npos) != (je == std::string::npos)) return false;
        if (ie == std::string::npos) return true;
        i = ie + 1; j = je + 1;
    }
}
static int first_diff(const std::vector<std::string>& a, const std::vector<std::string>& b) {
    size_t n = std::min(a.size(), b.size());
    for (size_t i = 0; i < n; i++) if (!eq_wild(a[i], b[i])) return (int)i;
    return a.size() == b.size() ? -1 : (int)n;
}
static std::vector<std::string> drop_xmlns(const std::vector<std::string>& in) {
    std::vector<std::string> o;
    for (auto& l : in) {
        if (l.compare(0, 8, "A|xmlns|") == 0 || l.compare(0, 8, "A|xmlns:") == 0) continue;
        o.push_back(l);
    }
    return o;
}

// SAX2's startDTD/endDTD are documented as reporting "DTD declarations, if any": a DOCTYPE with neither an internal
// nor an external subset produces no pair.  Erase such empty pairs from both sides before comparing.
static std::vector<std::string> drop_empty_dtd(const std::vector<std::string>& in) {
    std::vector<std::string> o;
    for (size_t i = 0; i < in.size(); i++) {
        if (in[i].compare(0, 3, "DT|") == 0 && i + 1 < in.size() && in[i + 1] == "DTE" && in[i].size() > 4 &&
            in[i].compare(in[i].size() - 4, 4, "|~|~") == 0) { i++; continue; }
        o.push_back(in[i]);
    }
    return o;
}
static std::string dt_line(const std::vector<std::string>& in) {
    for (auto& l : in) if (l.compare(0, 3, "DT|") == 0) return l;
    return "";
}

static int g_k = 3;
static unsigned g_apis = 0x1f, g_scn = 0xf, g_nsmask = 3;
static bool g_content = true;

static std::string doc_of(uint64_t idx) {
    std::vector<int> w = word_at(idx, TOK.size(), g_k);
    std::string d;
    for (int t : w) d += TOK[t];
    return d;
}
static bool has_doctype(uint64_t idx) {
    std::vector<int> w = word_at(idx, TOK.size(), g_k);
    for (int t : w) if (TOK_DOCTYPE[t]) return true;
    return false;
}

static void diff_violation(Ctx& c, const char* kind, const std::string& doc, const std::string& cfg, const std::vector<std::string>& a,
                           const std::vector<std::string>& b, int at) {
    std::string ea = at < (int)a.size() ? a[at] : "<end>", eb = at < (int)b.size() ? b[at] : "<end>";
    c.violation(kind, "\"doc\":" + jstr(doc) + ",\"doc_hex\":" + jstr(hexs(doc)) + ",\"config\":" + jstr(cfg) + ",\"expected\":" + jstr(ea) + ",\"observed\":" + jstr(eb) +
                          ",\"at_line\":" + std::to_string(at));
    if (c.verbose) {
        printf("--- %s (%s)\n expected:\n%s observed:\n%s", kind, cfg.c_str(), join(a).c_str(), join(b).c_str());
    }
}

static const std::set<std::string> DROP_FOR_EXPAT_X = {"ED", "AD", "RS", "RE", "SK"};          // from Xerces SAX2 side
static const std::set<std::string> DROP_FOR_EXPAT_E = {"DPI", "DC"};                           // from expat side (DTD-internal PI/comment)
static const std::set<std::string> DROP_SAX2_TO_SAX1 = {"C", "CS", "CE", "DT", "DTE", "IE", "XE", "ED", "AD", "RS", "RE", "NS+", "NS-", "SK"};
static const std::set<std::string> DROP_DOMCMP = {"DT", "NO", "UE", "DENT", "IE", "XE", "ED", "AD", "RS", "RE", "L", "NS+", "NS-", "SK", "DTE"};

static void run_s1(uint64_t idx, Ctx& c) {
    std::string doc = doc_of(idx);
    bool dt = has_doctype(idx);
    g_vfs->clear();
    ParseIO io; io.bytes = doc;
    for (int ns = 0; ns < 2; ns++) {
        if (!(g_nsmask & (1 << ns))) continue;
        ExpatRef ref;
        ref.run(doc, ns != 0);
        c.count(ref.ok ? "ref_wellformed" : "ref_malformed");
        std::vector<std::string> refP = drop_empty_dtd(project(ref.d.lines, DROP_FOR_EXPAT_E, true));
        std::vector<std::string> sax2IG;
        for (int sc = 0; sc < 4; sc++) {
            if (!(g_scn & (1 << sc))) continue;
            if (dt && (sc == WF || sc == SG)) { c.count("skipped_doctype_for_wf_sg"); continue; }
            if (sc == SG && !ns) { c.count("skipped_sg_without_namespaces"); continue; }  // the schema scanner always does namespace processing
            std::vector<std::string> sax2, sax1;
            for (int api : {SAX2, SAX1, PULL, DOM, DOMLS}) {
                if (!(g_apis & (1 << api))) continue;
                Config cfg; cfg.api = api; cfg.scanner = sc; cfg.ns = ns; cfg.nsPrefixes = true; cfg.val = 0;
                ParseResult r = parse_xerces(cfg, io);
                c.count("parses");
                if (r.exc.compare(0, 7, "FOREIGN") == 0) {
                    c.violation("foreign-exception", "\"doc\":" + jstr(doc) + ",\"config\":" + jstr(cfg.str()) + ",\"exc\":" + jstr(r.exc));
                    continue;
                }
                bool accepted = r.ok();
                if (accepted != ref.ok) {
                    c.violation(ref.ok ? "wellformed-rejected" : "malformed-accepted",
                                "\"doc\":" + jstr(doc) + ",\"doc_hex\":" + jstr(hexs(doc)) + ",\"config\":" + jstr(cfg.str()) + ",\"ref_err\":" + jstr(ref.err) +
                                    ",\"xerces_errors\":" + jstr(r.errors.empty() ? r.exc : r.errors[0]));
                    if (c.verbose) printf("verdict mismatch %s: ref.ok=%d xerces fatals=%d exc=%s\n", cfg.str().c_str(), ref.ok, r.fatals, r.exc.c_str());
                    continue;
                }
                if (!accepted || !g_content) continue;
                c.count("content_compared");
                if (api == SAX2) {
                    sax2 = r.d.lines;
                    std::vector<std::string> xp = drop_empty_dtd(project(r.d.lines, DROP_FOR_EXPAT_X, true));
                    if (ns) xp = drop_xmlns(xp);
                    int at = first_diff(refP, xp);
                    if (at >= 0) diff_violation(c, "content-vs-reference", doc, cfg.str(), refP, xp, at);
                    if (sc == IG) sax2IG = r.d.lines;
                    else if (!sax2IG.empty() || (g_scn & 1)) {
                        int at2 = first_diff(sax2IG, r.d.lines);
                        if (at2 >= 0) diff_violation(c, "scanner-disagreement", doc, cfg.str(), sax2IG, r.d.lines, at2);
                    }
                } else if (api == SAX1 && !sax2.empty()) {
                    sax1 = r.d.lines;
                    std::vector<std::string> a = project(sax2, DROP_SAX2_TO_SAX1, false);
                    int at = first_diff(a, r.d.lines);
                    if (at >= 0) diff_violation(c, "sax1-vs-sax2", doc, cfg.str(), a, r.d.lines, at);
                } else if (api == PULL && !sax1.empty()) {
                    int at = first_diff(sax1, r.d.lines);
                    if (at >= 0) diff_violation(c, "pull-vs-sax1", doc, cfg.str(), sax1, r.d.lines, at);
                } else if ((api == DOM || api == DOMLS) && !sax2.empty()) {
                    std::vector<std::string> a = project(sax2, DROP_DOMCMP, false), b = project(r.d.lines, DROP_DOMCMP, false);
                    int at = first_diff(a, b);
                    if (at >= 0) diff_violation(c, api == DOM ? "dom-vs-sax2" : "domls-vs-sax2", doc, cfg.str(), a, b, at);
                    std::string d1 = dt_line(sax2), d2 = dt_line(r.d.lines);
                    if (!d1.empty() && d1 != d2) diff_violation(c, "doctype-dom-vs-sax2", doc, cfg.str(), {d1}, {d2}, 0);
                }
            }
        }
    }
    if (idx % 9973 == 0) c.sample("{\"doc\":" + jstr(doc) + "}");
}

int main(int argc, char** argv) {
    Args a(argc, argv);
    std::string space = a.str("space", "s1");
    g_k = (int)a.num("k", 3);
    g_apis = (unsigned)a.num("apis", 0x1f);
    g_scn = (unsigned)a.num("scanners", 0xf);
    g_nsmask = (unsigned)a.num("ns", 3);
    g_content = a.num("content", 1) != 0;
    init_tokens(a.str("tokens", "full"));
    xml_init();
    Runner R;
    R.name = space;
    if (space == "s1") {
        R.total = words_upto(TOK.size(), g_k);
        R.fn = run_s1;
        R.describe = [](uint64_t i) { std::string d = doc_of(i); return "{\"doc\":" + jstr(d) + ",\"doc_hex\":" + jstr(hexs(d)) + "}"; };
        R.extra_json = "\"alphabet\":" + std::to_string(TOK.size()) + ",\"k\":" + std::to_string(g_k);
    } else {
        fprintf(stderr, "unknown space\n");
        return 2;
    }
    return R.main_tail(a);
}
