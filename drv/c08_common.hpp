// c08_common.hpp - parse helper for the C08 drivers: schema validating parse through SAX2 or DOM with either scanner,
// optional event dump, optional type information (DOM: DOMElement::getSchemaTypeInfo / DOMPSVITypeInfo, SAX2: PSVIHandler).
#pragma once
#include "xv_xml.hpp"
#include <xercesc/dom/DOMPSVITypeInfo.hpp>
#include <xercesc/dom/DOMTypeInfo.hpp>
#include <xercesc/framework/psvi/PSVIAttribute.hpp>
#include <xercesc/framework/psvi/PSVIAttributeList.hpp>
#include <xercesc/framework/psvi/PSVIElement.hpp>
#include <xercesc/framework/psvi/PSVIHandler.hpp>
#include <xercesc/framework/psvi/XSTypeDefinition.hpp>
#include <xercesc/framework/psvi/XSSimpleTypeDefinition.hpp>

namespace c08 {
using namespace xv;

// type record of one element: "validity|typeNs|typeName|anonymous|schemaDefault" ; attributes: "@name=validity|typeNs|typeName"
struct TypeRec {
    std::string name;      // local name of the element
    int depth = 0;
    int validity = -1;     // PSVIItem::VALIDITY_STATE
    std::string tns, tname;
    int anon = -1;
    std::string dflt;      // {schema default}
    std::vector<std::string> attrs;  // "local|validity|tns|tname|schemaDefault|specified"
    std::string str() const {
        std::string s = name + "|" + std::to_string(validity) + "|" + tns + "|" + tname + "|" + std::to_string(anon) + "|" + dflt;
        for (auto& a : attrs) s += " @" + a;
        return s;
    }
};

struct Parsed {
    ParseResult r;
    std::vector<TypeRec> types;     // elements in document order (DOM) / in end-tag order re-sorted to document order (SAX2)
};

struct ErrOnlyH : public DefaultHandler, Collector {
    void warning(const SAXParseException& e) override { r->warns++; err("W", e); }
    void error(const SAXParseException& e) override { r->errs++; err("E", e); }
    void fatalError(const SAXParseException& e) override { r->fatals++; err("F", e); }
    void resetErrors() override {}
};

// SAX2: handleElementPSVI arrives in end-tag order (empty elements get no partial callback), handleAttributesPSVI in start-tag
// order; both are re-associated with the elements through the tree recorded in the event dump (see sax2_assign_types).
struct PsviH : public PSVIHandler {
    std::vector<TypeRec> ends;                       // one per handleElementPSVI call
    std::vector<std::vector<std::string>> attrLists; // one per handleAttributesPSVI call
    void handlePartialElementPSVI(const XMLCh* const, const XMLCh* const, PSVIElement*) override {}
    void handleElementPSVI(const XMLCh* const local, const XMLCh* const, PSVIElement* e) override {
        TypeRec t; t.name = esc16(local);
        t.validity = (int)e->getValidity();
        XSTypeDefinition* td = e->getTypeDefinition();
        if (td) { t.tns = esc16(td->getNamespace()); t.tname = esc16(td->getName()); t.anon = td->getAnonymous() ? 1 : 0; }
        t.dflt = esc16(e->getSchemaDefault());
        ends.push_back(t);
    }
    void handleAttributesPSVI(const XMLCh* const, const XMLCh* const, PSVIAttributeList* l) override {
        std::vector<std::string> as;
        for (XMLSize_t i = 0; i < l->getLength(); i++) {
            PSVIAttribute* a = l->getAttributePSVIAtIndex(i);
            XSTypeDefinition* td = a->getTypeDefinition();
            as.push_back(esc16(l->getAttributeNameAtIndex(i)) + "|" + std::to_string((int)a->getValidity()) + "|" + (td ? esc16(td->getNamespace()) : std::string("-")) + "|" +
                         (td ? esc16(td->getName()) : std::string("-")) + "|" + esc16(a->getSchemaDefault()) + "|" + (a->getIsSchemaSpecified() ? "dflt" : "spec"));
        }
        std::sort(as.begin(), as.end());
        attrLists.push_back(as);
    }
};
inline void sax2_assign_types(const std::vector<std::string>& lines, const PsviH& ph, std::vector<TypeRec>& out) {
    std::vector<int> depthOf; std::vector<std::string> nameOf; std::vector<size_t> stack, post;
    for (auto& l : lines) {
        if (l.compare(0, 2, "S|") == 0) {
            depthOf.push_back((int)stack.size());
            nameOf.push_back(l.substr(l.rfind('|') + 1));
            stack.push_back(depthOf.size() - 1);
        } else if (l.compare(0, 2, "E|") == 0 && !stack.empty()) { post.push_back(stack.back()); stack.pop_back(); }
    }
    out.clear();
    if (post.size() != ph.ends.size() || post.size() != depthOf.size()) return;   // caller reports the misalignment
    out.resize(depthOf.size());
    for (size_t k = 0; k < post.size(); k++) {
        TypeRec t = ph.ends[k];
        if (t.name != nameOf[post[k]]) { out.clear(); return; }
        t.depth = depthOf[post[k]];
        out[post[k]] = t;
    }
    if (ph.attrLists.size() == out.size())
        for (size_t j = 0; j < out.size(); j++) out[j].attrs = ph.attrLists[j];
}

inline void dom_types(DOMNode* n, int depth, std::vector<TypeRec>& out) {
    if (n->getNodeType() != DOMNode::ELEMENT_NODE) return;
    DOMElement* e = (DOMElement*)n;
    TypeRec t; t.name = esc16(e->getLocalName()); t.depth = depth;
    const DOMTypeInfo* ti = e->getSchemaTypeInfo();
    if (ti) {
        t.tns = esc16(ti->getTypeNamespace()); t.tname = esc16(ti->getTypeName());
        const DOMPSVITypeInfo* pi = (const DOMPSVITypeInfo*)e->getFeature(XMLUni::fgXercescInterfacePSVITypeInfo, 0);
        if (pi) {
            t.validity = pi->getNumericProperty(DOMPSVITypeInfo::PSVI_Validity);
            t.anon = pi->getNumericProperty(DOMPSVITypeInfo::PSVI_Type_Definition_Anonymous);
            t.dflt = esc16(pi->getStringProperty(DOMPSVITypeInfo::PSVI_Schema_Default));
        }
    }
    DOMNamedNodeMap* am = e->getAttributes();
    for (XMLSize_t i = 0; am && i < am->getLength(); i++) {
        DOMAttr* a = (DOMAttr*)am->item(i);
        const XMLCh* ans = a->getNamespaceURI();
        if (ans && XMLString::equals(ans, XMLUni::fgXMLNSURIName)) continue;
        const DOMTypeInfo* at = a->getSchemaTypeInfo();
        const DOMPSVITypeInfo* pi = (const DOMPSVITypeInfo*)a->getFeature(XMLUni::fgXercescInterfacePSVITypeInfo, 0);
        std::string s = esc16(a->getLocalName() ? a->getLocalName() : a->getNodeName());
        s += "|" + std::to_string(pi ? pi->getNumericProperty(DOMPSVITypeInfo::PSVI_Validity) : -1);
        s += "|" + (at ? esc16(at->getTypeNamespace()) : std::string("-")) + "|" + (at ? esc16(at->getTypeName()) : std::string("-"));
        s += "|" + (pi ? esc16(pi->getStringProperty(DOMPSVITypeInfo::PSVI_Schema_Default)) : std::string("-"));
        s += a->getSpecified() ? "|spec" : "|dflt";
        t.attrs.push_back(s);
    }
    std::sort(t.attrs.begin(), t.attrs.end());
    out.push_back(t);
    for (DOMNode* c = n->getFirstChild(); c; c = c->getNextSibling()) dom_types(c, depth + 1, out);
}

// cfg.api in {SAX2, DOM}; dump: produce the canonical event dump; types: collect type information
inline Parsed parse8(const Config& c, const std::string& bytes, bool dump, bool types, const std::string& sysId = "/v/doc.xml") {
    Parsed P;
    ParseResult& r = P.r;
    try {
        MemBufInputSource src((const XMLByte*)bytes.data(), bytes.size(), X16(sysId).p(), false);
        if (c.api == SAX2) {
            std::unique_ptr<SAX2XMLReader> p(XMLReaderFactory::createXMLReader());
            Sax2H h; h.r = &r; h.cfg = &c; h.nsmode = c.ns;
            ErrOnlyH eh; eh.r = &r; eh.cfg = &c;
            PsviH ph;
            p->setProperty(XMLUni::fgXercesScannerName, (void*)X16(ScnName[c.scanner]).p());
            p->setFeature(XMLUni::fgSAX2CoreNameSpaces, c.ns);
            p->setFeature(XMLUni::fgSAX2CoreNameSpacePrefixes, false);
            p->setFeature(XMLUni::fgSAX2CoreValidation, c.val != 0);
            p->setFeature(XMLUni::fgXercesDynamic, c.val == 2);
            p->setFeature(XMLUni::fgXercesSchema, c.schema);
            p->setFeature(XMLUni::fgXercesSchemaFullChecking, c.fullcheck);
            p->setFeature(XMLUni::fgXercesIdentityConstraintChecking, c.idc);
            if (dump || types) { p->setContentHandler(&h); p->setErrorHandler(&h); }
            else p->setErrorHandler(&eh);
            if (types) ((SAX2XMLReaderImpl*)p.get())->setPSVIHandler(&ph);
            p->parse(src);
            r.d.flush();
            if (types) sax2_assign_types(r.d.lines, ph, P.types);
        } else {
            XercesDOMParser p;
            Sax1H h; h.r = &r; h.cfg = &c;
            config_common(p, c);
            p.setCreateSchemaInfo(types);
            p.setErrorHandler(&h);
            p.parse(src);
            DOMDocument* doc = p.getDocument();
            if (doc && dump) dom_dump(doc, r.d, c.ns);
            if (doc && types && doc->getDocumentElement()) dom_types(doc->getDocumentElement(), 0, P.types);
            r.d.flush();
        }
    }
    XV_CATCH_DOCUMENTED(r)
    return P;
}

// parse one error record "sev|line|col|msg|sysid"
struct ErrRec { char sev; long line; std::string msg, sysid; };
inline ErrRec split_err(const std::string& e) {
    ErrRec x; x.sev = e[0];
    size_t a = e.find('|'), b = e.find('|', a + 1), c = e.find('|', b + 1), d = e.rfind('|');
    x.line = atol(e.substr(a + 1, b - a - 1).c_str());
    x.msg = e.substr(c + 1, d - c - 1);
    x.sysid = e.substr(d + 1);
    return x;
}
inline bool ends_with(const std::string& s, const std::string& suf) { return s.size() >= suf.size() && s.compare(s.size() - suf.size(), suf.size(), suf) == 0; }

static const char* const XSD_HEAD =
    "<xs:schema xmlns:xs=\"http://www.w3.org/2001/XMLSchema\" targetNamespace=\"urn:t\" xmlns:t=\"urn:t\" elementFormDefault=\"qualified\">\n";
static const char* const DOC_HEAD =
    "<t:r xmlns:t=\"urn:t\" xmlns:x=\"urn:x\" xmlns:xsi=\"http://www.w3.org/2001/XMLSchema-instance\" xsi:schemaLocation=\"urn:t s.xsd\">\n";

}  // namespace c08
