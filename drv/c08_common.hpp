// c08_common.hpp - parse helper for the C08 drivers: schema validating parse through SAX2 or DOM with either scanner,
// optional event dump, optional type information (DOM: DOMElement::getSchemaTypeInfo / DOMPSVITypeInfo, SAX2: PSVIHandler).
#pragma once
#include "xv_xml.hpp"
#include <xercesc/dom/DOMPSVITypeInfo.hpp>
#include <xercesc/dom/DOMTypeInfo.hpp>
#include <xercesc/framework/psvi/PSVIAttribute.hpp>
#include <xercesc/framework/psvi/PSVIAttributeList.hpp>
#include <xercesc/framework/psvi/PSVIElement.hpp>
#include <xercesc/framework/psvi/PSVIHandler.hpp>
#include <xercesc/framework/psvi/XSTypeDefinition.hpp>
#include <xercesc/framework/psvi/XSSimpleTypeDefinition.hpp>

namespace c08 {
using namespace xv;

// type record of one element: "validity|typeNs|typeName|anonymous|schemaDefault" ; attributes: "@name=validity|typeNs|typeName"
struct TypeRec {
    std::string name;      // local name of the element
    int depth = 0;
    int validity = -1;     // PSVIItem::VALIDITY_STATE
    std::string tns, tname;
    int anon = -1;
    std::string dflt;      // {schema default}
    std::vector<std::string> attrs;  // "local|validity|tns|tname|schemaDefault|specified"
    std::string str() const {
        std::string s = name + "|" + std::to_string(validity) + "|" + tns + "|" + tname + "|" + std::to_string(anon) + "|" + dflt;
        for (auto& a : attrs) s += " @" + a;
        return s;
    }
};

struct Parsed {
    ParseResult r;
    std::vector<TypeRec> types;     // elements in document order (DOM) / in end-tag order re-sorted to document order (SAX2)
};

struct ErrOnlyH : public DefaultHandler, Collector {
    void warning(const SAXParseException& e) override { r->warns++; err("W", e); }
    void error(const SAXParseException& e) override { r->errs++; err("E", e); }
    void fatalError(const SAXParseException& e) override { r->fatals++; err("F", e); }
    void resetErrors() override {}
};

struct PsviH : public PSVIHandler {
    std::vector<TypeRec>* out = nullptr;
    std::vector<size_t> open;   // indexes into *out of the currently open elements
    void handlePartialElementPSVI(const XMLCh* const local, const XMLCh* const, PSVIElement*) override {
        TypeRec t; t.name = esc16(local); t.depth = (int)open.size();
        out->push_back(t);
        open.push_back(out->size() - 1);
    }
    void handleElementPSVI(const XMLCh* const local, const XMLCh* const, PSVIElement* e) override {
        if (open.empty()) return;
        TypeRec& t = (*out)[open.back()];
        open.pop_back();
        (void)local;
        t.validity = (int)e->getValidity();
        XSTypeDefinition* td = e->getTypeDefinition();
        if (td) { t.tns = esc16(td->getNamespace()); t.tname = esc16(td->getName()); t.anon = td->getAnonymous() ? 1 : 0; }
        t.dflt = esc16(e->getSchemaDefault());
    }
    void handleAttributesPSVI(const XMLCh* const, const XMLCh* const, PSVIAttributeList* l) override {
        if (open.empty()) return;
        TypeRec& t = (*out)[open.back()];
        for (XMLSize_t i = 0; i < l->getLength(); i++) {
            PSVIAttribute* a = l->getAttributePSVIAtIndex(i);
            XSTypeDefinition* td = a->getTypeDefinition();
            t.attrs.push_back(esc16(l->getAttributeNameAtIndex(i)) + "|" + std::to_string((int)a->getValidity()) + "|" + (td ? esc16(td->getNamespace()) : std::string("-")) + "|" +
                              (td ? esc16(td->getName()) : std::string("-")) + "|" + esc16(a->getSchemaDefault()) + "|" + (a->getIsSchemaSpecified() ? "dflt" : "spec"));
        }
        std::sort(t.attrs.begin(), t.attrs.end());
    }
};

inline void dom_types(DOMNode* n, int depth, std::vector<TypeRec>& out) {
    if (n->getNodeType() != DOMNode::ELEMENT_NODE) return;
    DOMElement* e = (DOMElement*)n;
    TypeRec t; t.name = esc16(e->getLocalName()); t.depth = depth;
    const DOMTypeInfo* ti = e->getSchemaTypeInfo();
    if (ti) {
        t.tns = esc16(ti->getTypeNamespace()); t.tname = esc16(ti->getTypeName());
        const DOMPSVITypeInfo* pi = (const DOMPSVITypeInfo*)e->getFeature(XMLUni::fgXercescInterfacePSVITypeInfo, 0);
        if (pi) {
            t.validity = pi->getNumericProperty(DOMPSVITypeInfo::PSVI_Validity);
            t.anon = pi->getNumericProperty(DOMPSVITypeInfo::PSVI_Type_Definition_Anonymous);
            t.dflt = esc16(pi->getStringProperty(DOMPSVITypeInfo::PSVI_Schema_Default));
        }
    }
    DOMNamedNodeMap* am = e->getAttributes();
    for (XMLSize_t i = 0; am && i < am->getLength(); i++) {
        DOMAttr* a = (DOMAttr*)am->item(i);
        const XMLCh* ans = a->getNamespaceURI();
        if (ans && XMLString::equals(ans, XMLUni::fgXMLNSURIName)) continue;
        const DOMTypeInfo* at = a->getSchemaTypeInfo();
        const DOMPSVITypeInfo* pi = (const DOMPSVITypeInfo*)a->getFeature(XMLUni::fgXercescInterfacePSVITypeInfo, 0);
        std::string s = esc16(a->getLocalName() ? a->getLocalName() : a->getNodeName());
        s += "|" + std::to_string(pi ? pi->getNumericProperty(DOMPSVITypeInfo::PSVI_Validity) : -1);
        s += "|" + (at ? esc16(at->getTypeNamespace()) : std::string("-")) + "|" + (at ? esc16(at->getTypeName()) : std::string("-"));
        s += "|" + (pi ? esc16(pi->getStringProperty(DOMPSVITypeInfo::PSVI_Schema_Default)) : std::string("-"));
        s += a->getSpecified() ? "|spec" : "|dflt";
        t.attrs.push_back(s);
    }
    std::sort(t.attrs.begin(), t.attrs.end());
    out.push_back(t);
    for (DOMNode* c = n->getFirstChild(); c; c = c->getNextSibling()) dom_types(c, depth + 1, out);
}

// cfg.api in {SAX2, DOM}; dump: produce the canonical event dump; types: collect type information
inline Parsed parse8(const Config& c, const std::string& bytes, bool dump, bool types, const std::string& sysId = "/v/doc.xml") {
    Parsed P;
    ParseResult& r = P.r;
    try {
        MemBufInputSource src((const XMLByte*)bytes.data(), bytes.size(), X16(sysId).p(), false);
        if (c.api == SAX2) {
            std::unique_ptr<SAX2XMLReader> p(XMLReaderFactory::createXMLReader());
            Sax2H h; h.r = &r; h.cfg = &c; h.nsmode = c.ns;
            ErrOnlyH eh; eh.r = &r; eh.cfg = &c;
            PsviH ph; ph.out = &P.types;
            p->setProperty(XMLUni::fgXercesScannerName, (void*)X16(ScnName[c.scanner]).p());
            p->setFeature(XMLUni::fgSAX2CoreNameSpaces, c.ns);
            p->setFeature(XMLUni::fgSAX2CoreNameSpacePrefixes, false);
            p->setFeature(XMLUni::fgSAX2CoreValidation, c.val != 0);
            p->setFeature(XMLUni::fgXercesDynamic, c.val == 2);
            p->setFeature(XMLUni::fgXercesSchema, c.schema);
            p->setFeature(XMLUni::fgXercesSchemaFullChecking, c.fullcheck);
            p->setFeature(XMLUni::fgXercesIdentityConstraintChecking, c.idc);
            if (dump) { p->setContentHandler(&h); p->setErrorHandler(&h); }
            else p->setErrorHandler(&eh);
            if (types) ((SAX2XMLReaderImpl*)p.get())->setPSVIHandler(&ph);
            p->parse(src);
            r.d.flush();
        } else {
            XercesDOMParser p;
            Sax1H h; h.r = &r; h.cfg = &c;
            config_common(p, c);
            p.setCreateSchemaInfo(types);
            p.setErrorHandler(&h);
            p.parse(src);
            DOMDocument* doc = p.getDocument();
            if (doc && dump) dom_dump(doc, r.d, c.ns);
            if (doc && types && doc->getDocumentElement()) dom_types(doc->getDocumentElement(), 0, P.types);
            r.d.flush();
        }
    }
    XV_CATCH_DOCUMENTED(r)
    return P;
}

// parse one error record "sev|line|col|msg|sysid"
struct ErrRec { char sev; long line; std::string msg, sysid; };
inline ErrRec split_err(const std::string& e) {
    ErrRec x; x.sev = e[0];
    size_t a = e.find('|'), b = e.find('|', a + 1), c = e.find('|', b + 1), d = e.rfind('|');
    x.line = atol(e.substr(a + 1, b - a - 1).c_str());
    x.msg = e.substr(c + 1, d - c - 1);
    x.sysid = e.substr(d + 1);
    return x;
}
inline bool ends_with(const std::string& s, const std::string& suf) { return s.size() >= suf.size() && s.compare(s.size() - suf.size(), suf.size(), suf) == 0; }

static const char* const XSD_HEAD =
    "<xs:schema xmlns:xs=\"http://www.w3.org/2001/XMLSchema\" targetNamespace=\"urn:t\" xmlns:t=\"urn:t\" elementFormDefault=\"qualified\">\n";
static const char* const DOC_HEAD =
    "<t:r xmlns:t=\"urn:t\" xmlns:x=\"urn:x\" xmlns:xsi=\"http://www.w3.org/2001/XMLSchema-instance\" xsi:schemaLocation=\"urn:t s.xsd\">\n";

}  // namespace c08
