// c06_model.hpp - independent reference models for property C06 (namespace processing).
//   * document generator data model (ElemSpec) and renderer
//   * NsModel: the scoping stack of "Namespaces in XML" 1.0 (3rd ed.) / 1.1 written from the recommendation:
//     expanded names of every element / attribute, prefix-mapping events, by-construction error verdicts
//   * RN: reference DOM tree + the three DOM Level 3 Core Appendix B lookup algorithms
// Nothing in this file includes or calls Xerces-C or expat.
#pragma once
#include <algorithm>
#include <deque>
#include <map>
#include <set>
#include <string>
#include <vector>

namespace c06 {

static const std::string XMLURI = "http://www.w3.org/XML/1998/namespace";
static const std::string XMLNSURI = "http://www.w3.org/2000/xmlns/";

struct AttrSpec { std::string qname, value; };
struct ElemSpec {
    std::string prefix, local;      // prefix "" = none
    std::vector<AttrSpec> attrs;    // document order
    std::vector<ElemSpec> kids;
    bool text = false;              // leaf only: <e>t</e> instead of <e/>
    std::string qname() const { return prefix.empty() ? local : prefix + ":" + local; }
};

inline void render(const ElemSpec& e, std::string& o) {
    o += "<" + e.qname();
    for (auto& a : e.attrs) o += " " + a.qname + "=\"" + a.value + "\"";
    if (e.kids.empty() && !e.text) { o += "/>"; return; }
    o += ">";
    if (e.text) o += "t";
    for (auto& k : e.kids) render(k, o);
    o += "</" + e.qname() + ">";
}
inline std::string render_doc(const ElemSpec& root, bool v11) {
    std::string o = v11 ? "<?xml version=\"1.1\"?>" : "";
    render(root, o);
    return o;
}

// ------------------------------------------------------------------------------------------ resolved tree
struct RAttr { std::string qname, value, prefix, local, uri; bool hasNs = false, isDecl = false; };
struct REl {
    std::string qname, prefix, local, uri;
    bool hasNs = false, text = false;
    std::vector<RAttr> attrs;                                   // document order
    std::vector<std::pair<std::string, std::string>> decls;     // (prefix, uri) in document order
    std::vector<REl> kids;
};

// ------------------------------------------------------------------------------------------ the scoping stack
// One frame per open element: prefix -> namespace name ("" = un-declared).  Lookup walks from the innermost frame
// outwards.  'xml' is pre-bound, 'xmlns' can be neither declared nor used as an element prefix, the default namespace
// applies to element names only.
struct NsModel {
    bool v11 = false;
    std::set<std::string> errs;   // every namespace constraint violated somewhere in the document
    std::vector<std::map<std::string, std::string>> frames;

    // 1 bound, 0 never declared, -1 declared and un-declared again (xmlns="" / XML 1.1 xmlns:p="")
    int lookup(const std::string& pfx, std::string& uri) const {
        for (size_t i = frames.size(); i-- > 0;) {
            auto it = frames[i].find(pfx);
            if (it != frames[i].end()) { uri = it->second; return uri.empty() ? -1 : 1; }
        }
        return 0;
    }
    // returns hasNs
    bool resolve(const std::string& pfx, bool isElement, std::string& uri) {
        uri.clear();
        if (pfx.empty()) return isElement ? lookup("", uri) == 1 : false;
        if (pfx == "xml") { uri = XMLURI; return true; }
        if (pfx == "xmlns") { errs.insert("xmlns-prefix-on-element"); return false; }   // as an attribute prefix it is a declaration, never resolved
        int st = lookup(pfx, uri);
        if (st != 1) { errs.insert(std::string(st == 0 ? "unbound-prefix" : "undeclared-prefix-1.1") + (isElement ? "-element" : "-attr")); uri.clear(); return false; }
        return true;
    }
    void elem(const ElemSpec& e, REl& out) {
        frames.emplace_back();
        out.qname = e.qname(); out.prefix = e.prefix; out.local = e.local; out.text = e.text;
        for (auto& a : e.attrs) {   // pass 1: declarations of this start tag are in scope for the whole tag
            bool dflt = a.qname == "xmlns", pre = a.qname.compare(0, 6, "xmlns:") == 0;
            if (!dflt && !pre) continue;
            std::string p = dflt ? "" : a.qname.substr(6);
            if (p == "xmlns") errs.insert("xmlns-prefix-declared");
            if (p == "xml" && a.value != XMLURI) errs.insert("xml-prefix-wrong-uri");
            if (p != "xml" && a.value == XMLURI) errs.insert(p.empty() ? "xml-uri-as-default" : "xml-uri-other-prefix");
            if (a.value == XMLNSURI) errs.insert(p.empty() ? "xmlns-uri-as-default" : "xmlns-uri-bound-to-prefix");
            if (!p.empty() && a.value.empty() && !v11) errs.insert("empty-prefix-decl-1.0");
            frames.back()[p] = a.value;
            out.decls.push_back({p, a.value});
        }
        out.hasNs = resolve(e.prefix, true, out.uri);
        for (auto& a : e.attrs) {   // pass 2: attribute names
            RAttr r; r.qname = a.qname; r.value = a.value;
            size_t c = a.qname.find(':');
            r.prefix = c == std::string::npos ? "" : a.qname.substr(0, c);
            r.local = c == std::string::npos ? a.qname : a.qname.substr(c + 1);
            if (a.qname == "xmlns" || r.prefix == "xmlns") { r.isDecl = true; r.hasNs = true; r.uri = XMLNSURI; }
            else r.hasNs = resolve(r.prefix, false, r.uri);
            for (auto& b : out.attrs)
                if (!b.isDecl && !r.isDecl && b.hasNs == r.hasNs && b.uri == r.uri && b.local == r.local) errs.insert(b.qname == r.qname ? "dup-qname-attr" : "dup-expanded-attr");
            out.attrs.push_back(r);
        }
        for (auto& k : e.kids) { out.kids.emplace_back(); elem(k, out.kids.back()); }
        frames.pop_back();
    }
};

// event/infoset view of a resolved tree in the canonical dump line format of xv_xml.hpp
//   nsEvents: NS+/NS- lines (SAX2, expat); declAttrs: xmlns* attributes are listed; declUri: namespace field of xmlns* attributes
inline void view(const REl& e, bool nsEvents, bool declAttrs, const std::string& declUri, std::vector<std::string>& o) {
    if (nsEvents) for (auto& d : e.decls) o.push_back("NS+|" + d.first + "|" + d.second);
    o.push_back("S|" + e.qname + "|" + e.uri + "|" + e.local);
    std::vector<std::string> as;
    for (auto& a : e.attrs) {
        if (a.isDecl) { if (declAttrs) as.push_back("A|" + a.qname + "|" + a.value + "|CDATA|spec|" + declUri + "|" + a.local); }
        else as.push_back("A|" + a.qname + "|" + a.value + "|CDATA|spec|" + a.uri + "|" + a.local);
    }
    std::sort(as.begin(), as.end());
    for (auto& s : as) o.push_back(s);
    if (e.text) o.push_back("T|t");
    for (auto& k : e.kids) view(k, nsEvents, declAttrs, declUri, o);
    o.push_back("E|" + e.qname);
    if (nsEvents) for (size_t i = e.decls.size(); i-- > 0;) o.push_back("NS-|" + e.decls[i].first);
}

// ------------------------------------------------------------------------------------------ reference DOM + Appendix B
struct Opt {  // a DOMString that may be null
    bool has = false; std::string s;
    Opt() {}
    Opt(const std::string& v) : has(true), s(v) {}
    Opt(const char* v) : has(v != nullptr), s(v ? v : "") {}
    bool empty() const { return !has || s.empty(); }     // "has no value": null or empty string
    bool operator==(const Opt& o) const { return has == o.has && s == o.s; }
    std::string show() const { return has ? "'" + s + "'" : "null"; }
};
enum { RN_ELEM = 1, RN_ATTR = 2, RN_TEXT = 3, RN_COMMENT = 8, RN_DOC = 9 };
struct RN {
    int type = RN_ELEM;
    Opt ns, prefix, local;       // local null: DOM Level 1 node
    std::string name, value;
    std::vector<RN*> attrs, kids;
    RN* parent = nullptr;        // owner element for attributes
};
struct RTree {
    std::deque<RN> arena;
    RN* doc = nullptr;
    RN* make(int type) { arena.emplace_back(); arena.back().type = type; return &arena.back(); }
    RTree() { doc = make(RN_DOC); doc->name = "#document"; }
    RN* docElem() const { for (RN* k : doc->kids) if (k->type == RN_ELEM) return k; return nullptr; }
};
inline RN* build_rn(RTree& t, const REl& e, RN* parent) {
    RN* n = t.make(RN_ELEM);
    n->parent = parent; parent->kids.push_back(n);
    n->name = e.qname; n->local = Opt(e.local);
    if (!e.prefix.empty()) n->prefix = Opt(e.prefix);
    if (e.hasNs) n->ns = Opt(e.uri);
    for (auto& a : e.attrs) {
        RN* x = t.make(RN_ATTR);
        x->parent = n; n->attrs.push_back(x);
        x->name = a.qname; x->value = a.value; x->local = Opt(a.local);
        if (!a.prefix.empty()) x->prefix = Opt(a.prefix);
        if (a.hasNs) x->ns = Opt(a.uri);
    }
    if (e.text) { RN* x = t.make(RN_TEXT); x->parent = n; n->kids.push_back(x); x->name = "#text"; x->value = "t"; }
    for (auto& k : e.kids) build_rn(t, k, n);
    return n;
}

inline RN* ancestor_element(const RN* n) {   // "EntityReferences may have to be skipped": none are generated here
    for (RN* p = n->parent; p; p = p->parent) if (p->type == RN_ELEM) return p;
    return nullptr;
}
inline bool is_l2_nsdecl(const RN* a) { return a->ns.has && a->ns.s == XMLNSURI; }   // "DOM Level 2 valid local namespace declaration attribute"

// Appendix B.4 - namespace URI lookup
inline Opt ref_lookupNamespaceURI(const RN* n, const Opt& prefix) {
    switch (n->type) {
    case RN_ELEM: {
        if (n->ns.has && n->prefix == prefix) return n->ns;
        for (const RN* a : n->attrs) {
            if (!is_l2_nsdecl(a)) continue;
            if (a->prefix.has && a->prefix.s == "xmlns" && prefix.has && a->local.has && a->local.s == prefix.s) return a->value.empty() ? Opt() : Opt(a->value);
            else if (a->local.has && a->local.s == "xmlns" && !prefix.has) return a->value.empty() ? Opt() : Opt(a->value);
        }
        if (RN* anc = ancestor_element(n)) return ref_lookupNamespaceURI(anc, prefix);
        return Opt();
    }
    case RN_DOC: { RN* de = nullptr; for (RN* k : n->kids) if (k->type == RN_ELEM) de = k; return de ? ref_lookupNamespaceURI(de, prefix) : Opt(); }
    case RN_ATTR: return n->parent ? ref_lookupNamespaceURI(n->parent, prefix) : Opt();
    default: { RN* anc = ancestor_element(n); return anc ? ref_lookupNamespaceURI(anc, prefix) : Opt(); }
    }
}
// Appendix B.2 - namespace prefix lookup.  The result is a set of acceptable answers: the algorithm fixes "the element's own
// prefix first", but among several declaration attributes of one element the iteration order of the NamedNodeMap is
// implementation dependent (and the interface text says so).  Empty set = null.
inline std::set<std::string> ref_lookupNamespacePrefix(const RN* n, const std::string& uri, const RN* original) {
    if (n->ns.has && n->ns.s == uri && n->prefix.has) {
        Opt f = ref_lookupNamespaceURI(original, n->prefix);
        if (f.has && f.s == uri) return {n->prefix.s};
    }
    std::set<std::string> here;
    for (const RN* a : n->attrs) {
        if (!is_l2_nsdecl(a)) continue;
        if (a->prefix.has && a->prefix.s == "xmlns" && a->value == uri && a->local.has) {
            Opt f = ref_lookupNamespaceURI(original, a->local);
            if (f.has && f.s == uri) here.insert(a->local.s);
        }
    }
    if (!here.empty()) return here;
    if (RN* anc = ancestor_element(n)) return ref_lookupNamespacePrefix(anc, uri, original);
    return {};
}
inline std::set<std::string> ref_lookupPrefix(const RN* n, const Opt& uri) {
    if (uri.empty()) return {};
    switch (n->type) {
    case RN_ELEM: return ref_lookupNamespacePrefix(n, uri.s, n);
    case RN_DOC: { RN* de = nullptr; for (RN* k : n->kids) if (k->type == RN_ELEM) de = k; return de ? ref_lookupNamespacePrefix(de, uri.s, de) : std::set<std::string>(); }
    case RN_ATTR: return n->parent ? ref_lookupNamespacePrefix(n->parent, uri.s, n->parent) : std::set<std::string>();
    default: { RN* anc = ancestor_element(n); return anc ? ref_lookupNamespacePrefix(anc, uri.s, anc) : std::set<std::string>(); }
    }
}
// Appendix B.3 - isDefaultNamespace.  A null and an empty namespaceURI argument are the same thing ("empty strings, when
// given as a namespace URI, are converted to null", DOM L3 Core 1.3.3).
inline bool ref_isDefaultNamespace(const RN* n, const Opt& uriIn) {
    Opt uri = uriIn.empty() ? Opt() : uriIn;
    switch (n->type) {
    case RN_ELEM: {
        if (!n->prefix.has) return n->ns == uri;
        for (const RN* a : n->attrs)
            if (is_l2_nsdecl(a) && a->local.has && a->local.s == "xmlns") return (a->value.empty() ? Opt() : Opt(a->value)) == uri;
        if (RN* anc = ancestor_element(n)) return ref_isDefaultNamespace(anc, uri);
        return false;
    }
    case RN_DOC: { RN* de = nullptr; for (RN* k : n->kids) if (k->type == RN_ELEM) de = k; return de ? ref_isDefaultNamespace(de, uri) : false; }
    case RN_ATTR: return n->parent ? ref_isDefaultNamespace(n->parent, uri) : false;
    default: { RN* anc = ancestor_element(n); return anc ? ref_isDefaultNamespace(anc, uri) : false; }
    }
}

}  // namespace c06
