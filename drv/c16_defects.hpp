// c16_defects.hpp - listed library defects of the C16 property: for each a stable id, a *witness* (one minimal pool on which the defect is
// asserted strictly) and a *narrow predicate* that recognises mismatches in the big spaces which are explained by exactly that defect.
// A predicate is only active in a process when its witness fails in that process (evaluated once, before the workers are forked): when the
// library is repaired the witness passes, the predicate is disabled and every such mismatch is an ordinary violation again.
// Anything a predicate does not explain completely keeps failing.
#pragma once

struct Defect {
    const char* id;
    const char* what;
    bool active = false;        // witness failed in this process => predicate enabled
    std::string repro;          // JSON fields describing the failing witness
};
enum { D_DATETIME = 0, D_NOTATION_ANN = 1, N_DEFECTS = 2 };
static Defect DEFECTS[N_DEFECTS] = {
    {"xmldatetime-fraction-lost", "XMLDateTime::serialize omits fMilliSecond/fHasTime: xs:time / xs:dateTime facet values lose their fractional seconds in the restored pool"},
    {"notation-annotation-dropped", "the XSAnnotation of an xs:notation declaration is not serialised (notation declarations are not registered in the engine's store pool)"},
};

static const char* const W_TIME_XSD =
    "<xs:schema xmlns:xs='http://www.w3.org/2001/XMLSchema' targetNamespace='urn:t' xmlns:t='urn:t' elementFormDefault='qualified'>\n"
    "<xs:simpleType name='T'><xs:restriction base='xs:time'><xs:enumeration value='01:00:00Z'/><xs:enumeration value='23:59:59.5Z'/></xs:restriction></xs:simpleType>\n"
    "<xs:element name='e' type='t:T'/>\n</xs:schema>\n";
static const char* const W_TIME_DOC = "<t:e xmlns:t='urn:t'>23:59:59.5Z</t:e>";
static const char* const W_NOT_XSD =
    "<xs:schema xmlns:xs='http://www.w3.org/2001/XMLSchema' targetNamespace='urn:t' xmlns:t='urn:t'>\n"
    "<xs:notation name='n' public='p'><xs:annotation><xs:documentation>about n</xs:documentation></xs:annotation></xs:notation>\n</xs:schema>\n";

// returns false when the witness cannot be evaluated at all (harness problem)
static bool witness_pools(const char* xsd, Pool& A, Pool& B, std::string& err) {
    g_vfs->clear();
    LoadResult L = load_grammar(A.p, xsd, "/v/w.xsd", true);
    if (!L.ok || !L.r.errors.empty() || !L.r.exc.empty()) { err = "witness schema does not load: " + L.r.exc + (L.r.errors.empty() ? "" : L.r.errors[0]); return false; }
    std::string sa, exc;
    if (!pool_serialize(A.p, sa, exc)) { err = "serialize: " + exc; return false; }
    exc = pool_deserialize(B.p, sa);
    if (!exc.empty()) { err = "deserialize: " + exc; return false; }
    return true;
}

static std::string g_witness_error;
static void evaluate_witnesses() {
    {   // xmldatetime-fraction-lost: an enumerated xs:time value with fractional seconds must stay valid under the restored pool
        Pool A, B; std::string err;
        if (!witness_pools(W_TIME_XSD, A, B, err)) g_witness_error += std::string(DEFECTS[D_DATETIME].id) + ": " + err + "; ";
        else {
            Verdict va = validate(A.p, W_TIME_DOC, true, 1, false), vb = validate(B.p, W_TIME_DOC, true, 1, false);
            if (!va.valid) g_witness_error += std::string(DEFECTS[D_DATETIME].id) + ": witness instance invalid under the original pool; ";
            else if (va.text != vb.text) {
                DEFECTS[D_DATETIME].active = true;
                DEFECTS[D_DATETIME].repro = "\"schema\":" + jstr(W_TIME_XSD) + ",\"instance\":" + jstr(W_TIME_DOC) +
                                            ",\"call_sequence\":\"A=loadGrammar(schema); B=deserializeGrammars(serializeGrammars(A)); validate instance with useCachedGrammarInParse against A and against B\"," +
                                            "\"expected\":\"valid under B as under A\",\"observed\":" + jstr(vb.text) + ",\"responsible\":\"XMLDateTime::serialize (fMilliSecond, fHasTime not stored)\"";
            }
        }
    }
    {   // notation-annotation-dropped
        Pool A, B; std::string err;
        if (!witness_pools(W_NOT_XSD, A, B, err)) g_witness_error += std::string(DEFECTS[D_NOTATION_ANN].id) + ": " + err + "; ";
        else {
            bool ch = false;
            XSModel* ma = A.p->getXSModel(ch); XSModel* mb = B.p->getXSModel(ch);
            XSNotationDeclaration* na = ma ? ma->getNotationDeclaration(X16("n").p(), X16("urn:t").p()) : 0;
            XSNotationDeclaration* nb = mb ? mb->getNotationDeclaration(X16("n").p(), X16("urn:t").p()) : 0;
            if (!na || !na->getAnnotation()) g_witness_error += std::string(DEFECTS[D_NOTATION_ANN].id) + ": original pool has no notation annotation; ";
            else if (!nb || !nb->getAnnotation() || !XMLString::equals(na->getAnnotation()->getAnnotationString(), nb->getAnnotation()->getAnnotationString())) {
                DEFECTS[D_NOTATION_ANN].active = true;
                DEFECTS[D_NOTATION_ANN].repro = "\"schema\":" + jstr(W_NOT_XSD) +
                                                ",\"call_sequence\":\"A=loadGrammar(schema); B=deserializeGrammars(serializeGrammars(A)); getXSModel()->getNotationDeclaration('n','urn:t')->getAnnotation()\"," +
                                                "\"expected\":" + jstr(esc16(na->getAnnotation()->getAnnotationString())) + ",\"observed\":" + jstr(nb ? (nb->getAnnotation() ? esc16(nb->getAnnotation()->getAnnotationString()) : std::string("null annotation")) : std::string("no notation declaration")) +
                                                ",\"responsible\":\"XTemplateSerializer::storeObject(RefHashTableOf<XSAnnotation,PtrHasher>*) skips keys not in the store pool; storeObject(NameIdPool<XMLNotationDecl>*) writes the declarations with data.serialize()\"";
            }
        }
    }
    g_vfs->clear();
}

// ---- narrow predicates ---------------------------------------------------------------------------------------------------------------
static bool grammar_matches(const GCase& g, const std::regex& re) {
    for (auto& f : g.files) if (std::regex_search(f.text, re)) return true;
    return false;
}

// behaviour mismatch explained by xmldatetime-fraction-lost: the pool has an xs:time / xs:dateTime based facet value with fractional seconds, and
// every dump line that differs between the original and the restored pool carries a lexical value with fractional seconds
static bool explained_by_datetime(const GCase& g, const std::string& dumpA, const std::string& dumpB) {
    if (!DEFECTS[D_DATETIME].active) return false;
    static const std::regex base("base='xs:(time|dateTime|duration)'");   // duration: fractional seconds take part in comparisons since /repo "take fractional seconds into account when comparing durations"
    static const std::regex facet("<xs:(enumeration|minInclusive|maxInclusive|minExclusive|maxExclusive) value='[^']*([0-9][0-9]:[0-9][0-9]:[0-9][0-9]\\.[0-9]|[0-9]\\.[0-9]+S')");
    const bool dbg = getenv("C16_DEBUG_PRED") != nullptr;
    if (!grammar_matches(g, base) || !grammar_matches(g, facet)) { if (dbg) fprintf(stderr, "datetime predicate: grammar does not qualify\n"); return false; }
    static const std::regex frac("[0-9][0-9]:[0-9][0-9]:[0-9][0-9]\\.[0-9]|[0-9]\\.[0-9]+S\\b");
    std::vector<std::string> oa, ob;
    line_symdiff(dumpA, dumpB, oa, ob);
    if (oa.empty() && ob.empty()) return false;
    // lines without such a value are only accepted as the propagated consequence: the PSVI / DOM type-info line of an owner or ancestor element
    // that is identical in both pools except that its validity went from valid (v2) to invalid (v1) in the restored pool
    std::multiset<std::string> restB;
    size_t direct = 0;
    for (auto& l : ob) { if (std::regex_search(l, frac)) direct++; else restB.insert(l); }
    for (auto& l : oa) {
        if (std::regex_search(l, frac)) { direct++; continue; }
        bool isPsvi = l.compare(0, 3, "PE|") == 0 || l.compare(0, 3, "DT|") == 0;
        size_t p = l.find("|v2a");
        std::string flipped = l;
        if (isPsvi && p != std::string::npos) flipped[p + 2] = '1';
        auto it = isPsvi && p != std::string::npos ? restB.find(flipped) : restB.end();
        if (it == restB.end()) { if (dbg) fprintf(stderr, "datetime predicate: unexplained line (original pool): %s\n", l.c_str()); return false; }
        restB.erase(it);
    }
    if (!restB.empty()) { if (dbg) fprintf(stderr, "datetime predicate: unexplained line (restored pool): %s\n", restB.begin()->c_str()); return false; }
    return direct > 0;
}

// model mismatch explained by notation-annotation-dropped: the schema annotates an xs:notation, and the only differing dump lines are notation
// declaration lines that are identical up to their annotation, which is absent in the restored pool
static bool explained_by_notation_annotation(const GCase& g, const std::string& dumpA, const std::string& dumpB) {
    if (!DEFECTS[D_NOTATION_ANN].active) return false;
    static const std::regex src("<xs:notation [^>]*>\\s*<xs:annotation");
    if (!grammar_matches(g, src)) return false;
    std::vector<std::string> oa, ob;
    line_symdiff(dumpA, dumpB, oa, ob);
    if (oa.empty() || oa.size() != ob.size()) return false;
    auto head = [](const std::string& l, std::string& h, std::string& ann) {
        if (l.compare(0, 5, "comp ") != 0) return false;
        size_t n = l.find(" N {"), a = l.find(" ann=");
        if (n == std::string::npos || a == std::string::npos || a < n) return false;
        h = l.substr(0, a); ann = l.substr(a + 5);
        return true;
    };
    for (size_t i = 0; i < oa.size(); i++) {   // both vectors are sorted, the heads sort identically
        std::string ha, hb, aa, ab;
        if (!head(oa[i], ha, aa) || !head(ob[i], hb, ab)) return false;
        if (ha != hb || aa == "~" || ab != "~") return false;
    }
    return true;
}
