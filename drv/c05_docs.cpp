// c05_docs - document-level half of property C05: encoding auto-detection (XMLRecognizer::basicEncodingProbe, XMLReader::doInitDecode),
// reconciliation with the encoding declaration (XMLReader::setEncoding) and rejection of illegal input inside real documents.
// Spaces (--space):
//   docs   documents x encodings x BOM {absent,present} x declaration {absent, canonical, alias spellings, generic family name,
//          contradictory family}: the SAX2 event dump must equal the dump of the same document in plain UTF-8, or a fatal error must be
//          reported; legal combinations must succeed; a contradictory declaration must be reported (warning/error/fatal)
//   bad    documents carrying one illegal / over-long / surrogate-encoding / out-of-range / truncated sequence at every syntactic
//          position x encodings: a fatal error is required
//   surr   UTF-16LE/BE documents whose text is one pair of 16-bit units (class representatives x all units): accepted with exactly
//          that text iff the pair is well-formed UTF-16 of XML Chars, otherwise fatal; same for UCS-4 values
#include "xv_xml.hpp"
#include "c05_enc.hpp"

typedef std::u32string Doc;  // scalar values

static Doc D(const char* utf8) {  // harness literals are written in UTF-8
    Doc d; const uint8_t* s = (const uint8_t*)utf8; size_t n = strlen(utf8);
    RefParse rp = ref_utf8_parse(s, n);
    for (auto& it : rp.items) d.push_back(it.cp);
    return d;
}
static std::vector<Doc> g_docs;
static void init_docs() {
    g_docs.push_back(D("<a/>"));
    g_docs.push_back(D("<a>text</a>"));
    g_docs.push_back(D("<a b=\"v\">\xC3\xA9</a>"));
    g_docs.push_back(D("<a>\xE2\x82\xAC</a>"));
    g_docs.push_back(D("<a>\xD0\x96\xD1\x8F</a>"));
    g_docs.push_back(D("<a>\xE3\x81\x82\xE4\xB8\x80</a>"));
    g_docs.push_back(D("<a>x\xF0\x90\x80\x80y\xF4\x8F\xBF\xBD</a>"));
    g_docs.push_back(D("<\xC3\xA9>x</\xC3\xA9>"));
    g_docs.push_back(D("<a \xC3\xA9=\"\xC3\xBC\"/>"));
    g_docs.push_back(D("<!--\xC3\xA9--><a/>"));
    g_docs.push_back(D("<?pi \xC3\xA9?><a/>"));
    g_docs.push_back(D("<!DOCTYPE a [<!ENTITY e \"\xC3\xA9\">]><a>&e;</a>"));
    g_docs.push_back(D("<a>\n<b/>\r\n<c/>\r</a>"));
    g_docs.push_back(D("<a>x\xC2\x85y</a>"));
    g_docs.push_back(D("<a><![CDATA[\xC3\xA9<&]]></a>"));
    g_docs.push_back(D("<a>\xEF\xBF\xBD</a>"));
    g_docs.push_back(D("<a>\xC2\xA0\xC3\xBF</a>"));
    g_docs.push_back(D("<a>\xC2\x80\xC2\x9F</a>"));
    g_docs.push_back(D("<a>\xE3\x81\x82</a><!--\xE4\xB8\x80-->"));
    {
        Doc d = D("<a> !\"#$%'()*+,-./0123456789:;=?@ABCDEFGHIJKLMNOPQRSTUVWXYZ[\\]^_`abcdefghijklmnopqrstuvwxyz{|}~</a>");
        g_docs.push_back(d);
    }
    {   // larger than every internal buffer in every encoding: 20000 characters (80 KB in UCS-4; raw buffer 48 KB, char buffer 16 K chars),
        // one non-ASCII Latin-1 character every 7 characters so that multi-byte sequences land on every buffer boundary
        Doc d = D("<a>");
        for (int i = 0; i < 20000; i++) d.push_back(i % 7 == 3 ? 0xE9 : (i % 61 == 60 ? '\n' : 'a' + (i % 26)));
        Doc e = D("</a>"); d += e;
        g_docs.push_back(d);
    }
    {   // same with supplementary characters (4-byte UTF-8, surrogate pairs in UTF-16) on the boundaries
        Doc d = D("<a>");
        for (int i = 0; i < 17000; i++) d.push_back(i % 5 == 2 ? 0x10000 + i : 'a' + (i % 26));
        Doc e = D("</a>"); d += e;
        g_docs.push_back(d);
    }
}

static bool encode_doc(int ei, const Doc& d, Bytes& out) {
    out.clear();
    if (ENCS[ei].kind == R_ICU) {  // whole string at once (fast)
        U16 u; for (uint32_t cp : d) append_scalar(u, cp);
        if (!g_icu[ei]->encode(u.data(), u.size(), out)) return false;
        U16 back;
        return g_icu[ei]->decode((const uint8_t*)out.data(), out.size(), back) && back == u;  // round trip: no ignorable dropped, no one-way mapping
    }
    for (uint32_t cp : d) { Bytes b; if (!ref_encode(ei, cp, b)) return false; out += b; }
    return true;
}
static Bytes bom_of(int ei) {
    switch (ENCS[ei].kind) {
    case R_UTF8: return Bytes("\xEF\xBB\xBF", 3);
    case R_UTF16LE: return Bytes("\xFF\xFE", 2);
    case R_UTF16BE: return Bytes("\xFE\xFF", 2);
    case R_UCS4LE: return Bytes("\xFF\xFE\x00\x00", 4);
    case R_UCS4BE: return Bytes("\x00\x00\xFE\xFF", 4);
    default: return "";
    }
}
static Doc with_decl(const Doc& body, const std::string& encname) {
    if (encname.empty()) return body;
    std::string d = "<?xml version=\"1.0\" encoding=\"" + encname + "\"?>";
    Doc o; for (unsigned char ch : d) o.push_back(ch);
    return o + body;
}

enum Expect { LEGAL, CONTRA, SAFETY_ONLY };
struct DocCase { int doc, enc; bool bom; std::string declname; Expect exp; const char* declkind; };
static std::vector<DocCase> g_cases;

static const char* family(int ei) {
    switch (ENCS[ei].kind) { case R_UTF8: return "utf8"; case R_UTF16LE: case R_UTF16BE: return "utf16"; case R_UCS4LE: case R_UCS4BE: return "ucs4"; default: break; }
    if (!strncmp(ENCS[ei].xname, "IBM", 3)) return "ebcdic";   // IBM037, IBM1047, IBM1140, IBM500
    return "ascii";  // ASCII-compatible single/multi-byte code page
}
static std::string lower(std::string s) { for (auto& ch : s) ch = (char)tolower(ch); return s; }

static void init_cases(bool thorough) {
    for (int di = 0; di < (int)g_docs.size(); di++) for (int ei : g_encsel) {
        Bytes tmp;
        if (!encode_doc(ei, g_docs[di], tmp)) continue;   // some character of the document has no round-trip mapping in this encoding
        std::string fam = family(ei), name = ENCS[ei].xname;
        bool has_bom = !bom_of(ei).empty();
        for (int bom = 0; bom <= (has_bom ? 1 : 0); bom++) {
            // --- declaration absent
            {
                Expect e = SAFETY_ONLY;
                if (fam == "utf8") e = LEGAL;
                if ((fam == "utf16" || fam == "ucs4") && bom) e = LEGAL;
                g_cases.push_back(DocCase{di, ei, bom != 0, "", e, "absent"});
            }
            // --- matching declarations: canonical, lower case, aliases, generic family name
            std::vector<std::string> names = {name, lower(name)};
            if (fam == "utf8") names.push_back("UTF8");
            if (fam == "utf16") { names.push_back("UTF-16"); names.push_back("utf-16"); names.push_back("UCS-2"); names.push_back("ISO-10646-UCS-2"); }
            if (fam == "ucs4") { names.push_back("UCS-4"); names.push_back("UTF-32"); names.push_back("ISO-10646-UCS-4"); }
            if (name == "ISO-8859-1") { names.push_back("LATIN1"); names.push_back("ISO_8859-1"); names.push_back("L1"); names.push_back("IBM819"); }
            if (name == "US-ASCII") { names.push_back("ASCII"); names.push_back("USASCII"); }
            if (name == "IBM037") { names.push_back("EBCDIC-CP-US"); names.push_back("ebcdic-cp-us"); }
            if (name == "IBM1047") names.push_back("IBM-1047");
            if (name == "IBM1140") { names.push_back("IBM01140"); names.push_back("CP01140"); names.push_back("CCSID01140"); }
            if (name == "Shift_JIS") names.push_back("SJIS");
            for (size_t k = 0; k < names.size(); k++) g_cases.push_back(DocCase{di, ei, bom != 0, names[k], LEGAL, k == 0 ? "canonical" : "alias"});
            // --- contradictory declarations (a different family than the bytes are in)
            std::vector<std::string> contra;
            if (fam == "utf8") contra = {"UTF-16", "UTF-16LE", "UCS-4", "UTF-32", "UCS-4BE", "IBM037"};
            if (fam == "utf16") contra = {"UTF-8", "ISO-8859-1", "UCS-4", name == "UTF-16LE" ? "UTF-16BE" : "UTF-16LE", "IBM1140", "Shift_JIS"};
            if (fam == "ucs4") contra = {"UTF-8", "UTF-16", "US-ASCII", name == "UCS-4LE" ? "UCS-4BE" : "UCS-4LE", "WINDOWS-1252"};
            if (fam == "ebcdic") contra = {"UTF-8", "UTF-16", "UCS-4", "ISO-8859-1", "Shift_JIS"};
            if (fam == "ascii") contra = {"UTF-16", "UTF-16BE", "UCS-4", "UCS-4LE", "IBM037", "IBM1047"};
            if (!thorough && contra.size() > 4) contra.resize(4);
            for (auto& cn : contra) g_cases.push_back(DocCase{di, ei, bom != 0, cn, CONTRA, "contradictory"});
        }
    }
}

// the locator lines ("L|line|col") are dropped: a declaration or BOM in front of the root element legitimately shifts columns
static std::vector<std::string> nolines(const std::vector<std::string>& in) { std::vector<std::string> o; for (auto& l : in) if (l.compare(0, 2, "L|") != 0) o.push_back(l); return o; }
static std::string first_diff(const std::vector<std::string>& a0, const std::vector<std::string>& b0) {
    std::vector<std::string> a = nolines(a0), b = nolines(b0);
    size_t n = std::min(a.size(), b.size());
    for (size_t i = 0; i < n; i++) if (a[i] != b[i]) return "line " + std::to_string(i) + ": expected " + a[i].substr(0, 120) + " observed " + b[i].substr(0, 120);
    if (a.size() != b.size()) return "line " + std::to_string(n) + ": " + (a.size() > n ? "expected " + a[n].substr(0, 120) + " observed <end>" : "expected <end> observed " + b[n].substr(0, 120));
    return "";
}
static ParseResult parse_bytes(const Bytes& b) {
    g_vfs->clear();
    Config cfg; cfg.api = SAX2; cfg.scanner = IG; cfg.ns = false; cfg.val = 0; cfg.loadExtDTD = false;
    ParseIO io; io.bytes = b;
    return parse_xerces(cfg, io);
}
static bool g_ucs4bom_witness = false, g_misaligned_witness = false;
static std::vector<std::vector<std::string>> g_baseline;  // per document: dump of the plain UTF-8 form (computed before fork)

static std::string doc_label(int di) {
    const Doc& d = g_docs[di];
    std::string o;
    for (size_t i = 0; i < d.size() && i < 40; i++) { char b[16]; if (d[i] >= 0x20 && d[i] < 0x7F) o += (char)d[i]; else { snprintf(b, sizeof b, "\\u{%X}", (unsigned)d[i]); o += b; } }
    if (d.size() > 40) o += "...(" + std::to_string(d.size()) + " chars)";
    return o;
}

static void run_docs(uint64_t idx, Ctx& c) {
    const DocCase& k = g_cases[idx];
    const Enc& E = ENCS[k.enc];
    Bytes body;
    if (!encode_doc(k.enc, with_decl(g_docs[k.doc], k.declname), body)) { c.count("unencodable"); return; }
    Bytes bytes = (k.bom ? bom_of(k.enc) : Bytes()) + body;
    // (the guards that skipped documents hitting the former defects ucs4-bom-shift-overread and contradictory-endian-decl-misaligned-read were removed when
    // the defects were repaired: a guard for a repaired defect would hide its return)
    ParseResult r = parse_bytes(bytes);
    std::string where = "\"doc\":" + jstr(doc_label(k.doc)) + ",\"encoding\":" + jstr(encdesc(k.enc)) + ",\"bom\":" + (k.bom ? "true" : "false") + ",\"declared\":" + jstr(k.declname) +
                        ",\"decl_kind\":" + jstr(k.declkind) + ",\"bytes_head_hex\":" + jstr(hexs(bytes.substr(0, 64)));
    if (r.exc.compare(0, 7, "FOREIGN") == 0) { c.violation("foreign-exception", where + ",\"exc\":" + jstr(r.exc)); return; }
    bool fatal = r.fatals > 0 || !r.exc.empty();
    int reports = r.fatals + r.errs + r.warns + (r.exc.empty() ? 0 : 1);
    std::string diff = fatal ? "" : first_diff(g_baseline[k.doc], r.d.lines);
    std::string firsterr = r.errors.empty() ? r.exc : r.errors[0];
    c.count(std::string("docs_") + k.declkind + (fatal ? ":fatal" : reports ? ":reported_and_content_equal" : ":clean"));
    if (c.verbose) printf("fatal=%d reports=%d firsterr=%s diff=%s\n", fatal, reports, firsterr.c_str(), diff.c_str());
    // safety for every variant: never silently different content
    if (!fatal && !diff.empty()) {
        bool nel = !strcmp(E.xname, "IBM1047") && g_docs[k.doc].find(0x85) != Doc::npos && diff.find("\\u0085") != std::string::npos && diff.find("\\u000A") != std::string::npos;
        if (nel) known_or_violation(c, "ibm1047-nl-decodes-to-lf", where + ",\"diff\":" + jstr(diff));
        else c.violation("content-differs-from-utf8-baseline", where + ",\"diff\":" + jstr(diff) + ",\"reports\":" + std::to_string(reports));
        return;
    }
    if (k.exp == LEGAL) {
        if (fatal || reports) c.violation("legal-encoding-variant-rejected", where + ",\"first_error\":" + jstr(firsterr));
        else c.count("legal_variants_equal_to_baseline");
    } else if (k.exp == CONTRA) {
        if (!reports) c.violation("contradictory-declaration-not-reported", where);
        else c.count(fatal ? "contradiction_reported_fatal" : "contradiction_reported_content_kept");
    } else c.count(fatal ? "undetectable_variant_fatal" : "undetectable_variant_equal");
    if (idx % 499 == 0) c.sample("{" + where + "}");
}

// ------------------------------------------------------------------------------------------------ space bad
struct BadSeq { int enc; Bytes seq; const char* what; const char* known; int only_pos; };
static std::vector<BadSeq> g_bad;
struct BadCase { int seq; int pos; };
static std::vector<BadCase> g_badcases;
static const char* BAD_POS[] = {"element content", "attribute value", "comment", "PI data", "element name", "CDATA section", "after the root element", "end of input (truncated)"};
static const int NPOS = 8;

static void add_bad(const char* enc, const Bytes& b, const char* what, const char* known = nullptr, int only_pos = -1) {
    int ei = enc_index(enc);
    bool sel = false; for (int x : g_encsel) if (x == ei) sel = true;
    if (ei >= 0 && sel) g_bad.push_back(BadSeq{ei, b, what, known, only_pos});
}
static Bytes B(std::initializer_list<int> l) { Bytes b; for (int x : l) b += (char)x; return b; }
static void init_bad() {
    // UTF-8 (Table 3-7 violations)
    add_bad("UTF-8", B({0xC0, 0x80}), "over-long NUL");
    add_bad("UTF-8", B({0xC1, 0xBF}), "over-long 2-byte");
    add_bad("UTF-8", B({0xE0, 0x80, 0x80}), "over-long 3-byte");
    add_bad("UTF-8", B({0xE0, 0x9F, 0xBF}), "over-long 3-byte (E0 9F)");
    add_bad("UTF-8", B({0xF0, 0x80, 0x80, 0x80}), "over-long 4-byte");
    add_bad("UTF-8", B({0xF0, 0x8F, 0xBF, 0xBF}), "over-long 4-byte (F0 8F)");
    add_bad("UTF-8", B({0xED, 0xA0, 0x80}), "surrogate D800");
    add_bad("UTF-8", B({0xED, 0xBF, 0xBF}), "surrogate DFFF");
    add_bad("UTF-8", B({0xED, 0xA0, 0x80, 0xED, 0xB0, 0x80}), "CESU-8 pair");
    add_bad("UTF-8", B({0xF4, 0x90, 0x80, 0x80}), "U+110000");
    add_bad("UTF-8", B({0xF5, 0x80, 0x80, 0x80}), "lead F5");
    add_bad("UTF-8", B({0xF8, 0x88, 0x80, 0x80, 0x80}), "5-byte form");
    add_bad("UTF-8", B({0xFC, 0x84, 0x80, 0x80, 0x80, 0x80}), "6-byte form");
    add_bad("UTF-8", B({0x80}), "stray continuation");
    add_bad("UTF-8", B({0xBF}), "stray continuation BF");
    add_bad("UTF-8", B({0xFE}), "FE");
    add_bad("UTF-8", B({0xFF}), "FF");
    add_bad("UTF-8", B({0xC3, 0x28}), "bad continuation");
    add_bad("UTF-8", B({0xE2, 0x82, 0x28}), "bad 3rd byte");
    add_bad("UTF-8", B({0xF0, 0x90, 0x80, 0x28}), "bad 4th byte");
    add_bad("UTF-8", B({0xE2, 0x82}), "truncated 3-byte (followed by ASCII)");
    // UTF-16: unpaired surrogates
    add_bad("UTF-16LE", B({0x00, 0xD8}), "lone high surrogate");
    add_bad("UTF-16LE", B({0x00, 0xDC}), "lone low surrogate");
    add_bad("UTF-16LE", B({0x00, 0xDC, 0x00, 0xD8}), "reversed pair");
    add_bad("UTF-16LE", B({0xFF, 0xFF}), "U+FFFF");
    add_bad("UTF-16BE", B({0xD8, 0x00}), "lone high surrogate");
    add_bad("UTF-16BE", B({0xDF, 0xFF}), "lone low surrogate");
    add_bad("UTF-16BE", B({0xD8, 0x00, 0xD8, 0x00}), "two high surrogates");
    add_bad("UTF-16BE", B({0xFF, 0xFE}), "U+FFFE");
    // UCS-4
    add_bad("UCS-4LE", B({0x00, 0x00, 0x11, 0x00}), "0x110000");
    add_bad("UCS-4LE", B({0x00, 0x00, 0x01, 0x04}), "0x04010000 (aliases U+10000)", "ucs4-out-of-range-decoded");
    add_bad("UCS-4LE", B({0x00, 0xD8, 0x00, 0x00}), "lone surrogate value");
    add_bad("UCS-4LE", B({0x00, 0xD8, 0x00, 0x00, 0x00, 0xDC, 0x00, 0x00}), "two surrogate values forming a pair", "ucs4-surrogate-decoded");
    add_bad("UCS-4BE", B({0x7F, 0xFF, 0xFF, 0xFF}), "0x7FFFFFFF");
    add_bad("UCS-4BE", B({0x00, 0x00, 0xD8, 0x00, 0x00, 0x00, 0xDC, 0x00}), "two surrogate values forming a pair", "ucs4-surrogate-decoded");
    add_bad("UCS-4BE", B({0xFF, 0xFF, 0xFF, 0xFF}), "0xFFFFFFFF");
    add_bad("UCS-4BE", B({0x00, 0x00, 0xFF, 0xFF}), "U+FFFF");
    // single byte
    add_bad("US-ASCII", B({0x80}), "byte 80");
    add_bad("US-ASCII", B({0xE9}), "byte E9");
    // ICU-provided multi-byte encodings: illegal / unassigned sequences
    add_bad("Shift_JIS", B({0xA0}), "unassigned single byte A0", "icu-illegal-input-substituted");
    add_bad("Shift_JIS", B({0x81, 0x20}), "lead byte + illegal trail byte", "icu-illegal-input-substituted");
    add_bad("Shift_JIS", B({0xFD}), "illegal byte FD", "icu-illegal-input-substituted");
    add_bad("EUC-JP", B({0xA1, 0x20}), "lead byte + illegal trail byte", "icu-illegal-input-substituted");
    add_bad("EUC-JP", B({0x8F, 0xA1, 0x20}), "3-byte form with illegal 3rd byte", "icu-illegal-input-substituted");
    add_bad("GB2312", B({0xB0, 0x20}), "lead byte + illegal trail byte", "icu-illegal-input-substituted");
    add_bad("Big5", B({0xA4, 0x20}), "lead byte + illegal trail byte", "icu-illegal-input-substituted");
    add_bad("EUC-KR", B({0xB0, 0x20}), "lead byte + illegal trail byte", "icu-illegal-input-substituted");
    add_bad("GB18030", B({0x81, 0x30, 0x81, 0x20}), "4-byte form with illegal 4th byte", "icu-illegal-input-substituted");
    add_bad("GB18030", B({0xFF}), "illegal byte FF", "icu-illegal-input-substituted");
    // input that ENDS inside a multi-byte sequence, after a complete document (only meaningful as the last bytes of the entity)
    const int END = NPOS - 1;
    add_bad("UTF-8", B({0xC3}), "truncated 2-byte form", nullptr, END);
    add_bad("UTF-8", B({0xE2}), "truncated 3-byte form (1 of 3)", nullptr, END);
    add_bad("UTF-8", B({0xF0, 0x90}), "truncated 4-byte form (2 of 4)", nullptr, END);
    add_bad("UTF-8", B({0xF0, 0x90, 0x80}), "truncated 4-byte form (3 of 4)", nullptr, END);
    add_bad("UTF-16LE", B({0x41}), "odd trailing byte", nullptr, END);
    add_bad("UTF-16BE", B({0x00}), "odd trailing byte", nullptr, END);
    add_bad("UTF-16LE", B({0x41, 0x00, 0x00}), "unit + odd trailing byte", nullptr, END);
    add_bad("UCS-4LE", B({0x41}), "1 of 4 bytes", nullptr, END);
    add_bad("UCS-4LE", B({0x41, 0x00, 0x00}), "3 of 4 bytes", nullptr, END);
    add_bad("UCS-4BE", B({0x00, 0x00}), "2 of 4 bytes", nullptr, END);
    add_bad("Shift_JIS", B({0x88}), "lead byte only", "icu-truncated-input-swallowed", END);
    add_bad("EUC-JP", B({0xA4}), "lead byte only", "icu-truncated-input-swallowed", END);
    add_bad("EUC-JP", B({0x8F, 0xB0}), "2 of 3 bytes", "icu-truncated-input-swallowed", END);
    add_bad("GB2312", B({0xB0}), "lead byte only", "icu-truncated-input-swallowed", END);
    add_bad("Big5", B({0xA4}), "lead byte only", "icu-truncated-input-swallowed", END);
    add_bad("EUC-KR", B({0xB0}), "lead byte only", "icu-truncated-input-swallowed", END);
    add_bad("GB18030", B({0x81}), "1 of 4 bytes", "icu-truncated-input-swallowed", END);
    add_bad("GB18030", B({0x81, 0x30}), "2 of 4 bytes", "icu-truncated-input-swallowed", END);
    add_bad("GB18030", B({0x81, 0x30, 0x81}), "3 of 4 bytes", "icu-truncated-input-swallowed", END);
    for (int i = 0; i < (int)g_bad.size(); i++) for (int p = 0; p < NPOS; p++) if (g_bad[i].only_pos < 0 || g_bad[i].only_pos == p) g_badcases.push_back(BadCase{i, p});
}
static void run_bad(uint64_t idx, Ctx& c) {
    const BadCase& k = g_badcases[idx];
    const BadSeq& s = g_bad[k.seq];
    const Enc& E = ENCS[s.enc];
    std::string fam = family(s.enc);
    std::string decl = fam == "utf8" ? "" : std::string("<?xml version=\"1.0\" encoding=\"") + E.xname + "\"?>";
    auto enc = [&](const std::string& ascii) { Doc d; for (unsigned char ch : ascii) d.push_back(ch); Bytes b; encode_doc(s.enc, d, b); return b; };
    Bytes pre, post;
    switch (k.pos) {
    case 0: pre = enc(decl + "<a>x"); post = enc("y</a>"); break;
    case 1: pre = enc(decl + "<a b=\"x"); post = enc("y\"/>"); break;
    case 2: pre = enc(decl + "<!--x"); post = enc("y--><a/>"); break;
    case 3: pre = enc(decl + "<?p x"); post = enc("y?><a/>"); break;
    case 4: pre = enc(decl + "<a"); post = enc("b/>"); break;
    case 5: pre = enc(decl + "<a><![CDATA[x"); post = enc("y]]></a>"); break;
    case 6: pre = enc(decl + "<a/>"); post = enc("<!--c-->"); break;
    default: pre = enc(decl + "<a/><!--c-->"); post = ""; break;   // the bad bytes are the last bytes of the entity
    }
    Bytes seq = s.seq;
    Bytes bytes = (fam == "utf16" || fam == "ucs4" ? bom_of(s.enc) : Bytes()) + pre + seq + post;
    ParseResult r = parse_bytes(bytes);
    bool fatal = r.fatals > 0 || !r.exc.empty();
    std::string where = "\"encoding\":" + jstr(encdesc(s.enc)) + ",\"sequence_hex\":" + jstr(hexs(s.seq)) + ",\"what\":" + jstr(s.what) + ",\"position\":" + jstr(BAD_POS[k.pos]) + ",\"doc_hex\":" + jstr(hexs(bytes));
    if (r.exc.compare(0, 7, "FOREIGN") == 0) { c.violation("foreign-exception", where + ",\"exc\":" + jstr(r.exc)); return; }
    if (c.verbose) printf("fatal=%d err=%s dump=%s\n", fatal, r.errors.empty() ? r.exc.c_str() : r.errors[0].c_str(), join(r.d.lines).c_str());
    if (fatal) { c.count("bad_sequence_rejected"); c.count(std::string("bad_rejected_at:") + BAD_POS[k.pos]); return; }
    if (s.known && is_known_id(s.known)) { known_or_violation(c, s.known, where + ",\"observed\":\"document accepted\""); return; }
    c.violation("illegal-sequence-accepted", where + ",\"dump\":" + jstr(join(r.d.lines).substr(0, 300)));
}

// ------------------------------------------------------------------------------------------------ space trunc
// every document of the docs space (small ones) in every multi-byte encoding, cut after every byte offset that falls inside a character:
// a fatal error is required (the input ends inside a multi-byte sequence)
struct TruncCase { int doc, enc; };
static std::vector<TruncCase> g_trunc;
static void init_trunc() {
    for (int di = 0; di < (int)g_docs.size(); di++) {
        if (g_docs[di].size() > 200) continue;
        for (int ei : g_encsel) {
            if (ENCS[ei].maxlen == 1) continue;
            Bytes tmp; if (!encode_doc(ei, g_docs[di], tmp)) continue;
            g_trunc.push_back(TruncCase{di, ei});
        }
    }
}
static void run_trunc(uint64_t idx, Ctx& c) {
    const TruncCase& k = g_trunc[idx];
    const Enc& E = ENCS[k.enc];
    std::string fam = family(k.enc);
    // trailing comment with multi-byte text so that cuts inside characters exist after the root element as well
    Doc d = with_decl(g_docs[k.doc], fam == "utf8" ? "" : E.xname);
    Doc tail = D("<!--\xC3\xA9\xE2\x82\xAC-->");
    Bytes tb; if (encode_doc(k.enc, tail, tb)) d += tail;
    Bytes body; encode_doc(k.enc, d, body);
    Bytes bom = (fam == "utf16" || fam == "ucs4") ? bom_of(k.enc) : Bytes();
    RefParse rp = ref_parse(k.enc, (const uint8_t*)body.data(), body.size());
    std::set<size_t> bounds; size_t pos = 0; bounds.insert(0);
    for (auto& it : rp.items) { pos += it.nbytes; bounds.insert(pos); }
    // in UTF-16 a cut between the two units of a surrogate pair also ends inside a character
    if (fam == "utf16") { bounds.clear(); pos = 0; bounds.insert(0); for (size_t i = 0; i < rp.items.size(); i++) { pos += 2; uint32_t u = rp.items[i].cp; if (!(u >= 0xD800 && u <= 0xDBFF)) bounds.insert(pos); } }
    for (size_t cut = 1; cut < body.size(); cut++) {
        if (bounds.count(cut)) continue;
        Bytes bytes = bom + body.substr(0, cut);
        ParseResult r = parse_bytes(bytes);
        bool fatal = r.fatals > 0 || !r.exc.empty();
        std::string where = "\"doc\":" + jstr(doc_label(k.doc)) + ",\"encoding\":" + jstr(encdesc(k.enc)) + ",\"cut_at_byte\":" + std::to_string(cut) + ",\"of\":" + std::to_string(body.size()) + ",\"tail_hex\":" + jstr(hexs(bytes.substr(bytes.size() > 12 ? bytes.size() - 12 : 0)));
        if (r.exc.compare(0, 7, "FOREIGN") == 0) { c.violation("foreign-exception", where + ",\"exc\":" + jstr(r.exc)); continue; }
        if (fatal) { c.count("truncated_inside_character_rejected"); continue; }
        if (!E.intrinsic) known_or_violation(c, "icu-truncated-input-swallowed", where);
        else c.violation("truncated-input-accepted", where + ",\"dump\":" + jstr(join(r.d.lines).substr(0, 200)));
    }
}

// ------------------------------------------------------------------------------------------------ space surr
static std::vector<uint32_t> g_surr_first;
static bool xml_char(uint32_t cp) { return cp == 9 || cp == 0xA || cp == 0xD || (cp >= 0x20 && cp <= 0xD7FF) || (cp >= 0xE000 && cp <= 0xFFFD) || (cp >= 0x10000 && cp <= 0x10FFFF); }
static std::vector<uint32_t> g_surr_second;
static void run_surr(uint64_t idx, Ctx& c) {
    int be = (int)(idx & 1);
    uint32_t u1 = g_surr_first[idx >> 1];
    int ei = enc_index(be ? "UTF-16BE" : "UTF-16LE");
    Bytes pre, post; { Doc a = D("<a>"), b = D("</a>"); encode_doc(ei, a, pre); encode_doc(ei, b, post); }
    std::map<std::string, uint64_t> cnt;
    for (uint32_t u2 : g_surr_second) {
        uint16_t w[2] = {(uint16_t)u1, (uint16_t)u2};
        Bytes mid;
        for (int k = 0; k < 2; k++) { if (be) { mid += (char)(w[k] >> 8); mid += (char)(w[k] & 0xFF); } else { mid += (char)(w[k] & 0xFF); mid += (char)(w[k] >> 8); } }
        // reference: is [u1,u2] well-formed UTF-16, and which scalar values does it denote
        bool wf = true; Doc scal;
        if (u1 >= 0xD800 && u1 <= 0xDBFF) { if (u2 >= 0xDC00 && u2 <= 0xDFFF) scal.push_back(0x10000 + ((u1 - 0xD800) << 10) + (u2 - 0xDC00)); else wf = false; }
        else if (u1 >= 0xDC00 && u1 <= 0xDFFF) wf = false;
        else { scal.push_back(u1); if (u2 >= 0xD800 && u2 <= 0xDFFF) wf = false; else scal.push_back(u2); }
        bool chars_ok = wf; for (uint32_t cp : scal) if (!xml_char(cp)) chars_ok = false;
        ParseResult r = parse_bytes(bom_of(ei) + pre + mid + post);
        bool fatal = r.fatals > 0 || !r.exc.empty();
        char hb[32]; snprintf(hb, sizeof hb, "%04X %04X", u1, u2);
        std::string where = std::string("\"encoding\":") + jstr(ENCS[ei].xname) + ",\"units\":" + jstr(hb);
        if (!chars_ok) {
            if (!fatal) c.violation(wf ? "non-xml-char-accepted" : "ill-formed-utf16-accepted", where + ",\"dump\":" + jstr(join(r.d.lines).substr(0, 200)));
            else cnt[wf ? "surr_nonchar_rejected" : "surr_illformed_utf16_rejected"]++;
            continue;
        }
        // well-formed and XML Chars: same verdict and same content as the UTF-8 form of the same scalar values
        Doc d = D("<a>"); d += scal; d += D("</a>");
        Bytes u8; encode_doc(enc_index("UTF-8"), d, u8);
        ParseResult rb = parse_bytes(u8);
        bool bfatal = rb.fatals > 0 || !rb.exc.empty();
        if (bfatal != fatal) c.violation("utf16-vs-utf8-verdict", where + ",\"utf8_fatal\":" + (bfatal ? "true" : "false"));
        else if (!fatal) { std::string df = first_diff(rb.d.lines, r.d.lines); if (!df.empty()) c.violation("utf16-vs-utf8-content", where + ",\"diff\":" + jstr(df)); else cnt[scal.size() == 1 ? "surr_pair_accepted_as_supplementary" : "surr_two_bmp_chars_accepted"]++; }
        else cnt["surr_markup_char_both_fatal"]++;
    }
    for (auto& kv : cnt) c.count(kv.first, kv.second);
    if (idx % 7 == 0) c.sample("{\"first_unit\":" + std::to_string(u1) + ",\"be\":" + std::to_string(be) + "}");
}

// ------------------------------------------------------------------------------------------ tiny external entities
// The document entity can never be shorter than "<a/>"; a second parsed entity can.  External general entities (content) and external DTD subsets
// whose whole payload is 1..8 characters, in UTF-8 / UTF-16LE / UTF-16BE / UCS-4LE / UCS-4BE, without BOM (UTF-8 only) and with BOM: the content
// delivered must be the payload, the same with and without byte-order mark.
struct TinyCase { int enc; bool bom; int payload; int site; };
static std::vector<TinyCase> g_tiny;
static std::vector<Doc> g_tinyPayload;
static void init_tiny() {
    const char* P[] = {"x", "hi", "\xC3\xA9", "abc", "a\xE2\x82\xAC", "abcd", "abcde", "abcdef", "abcdefg", "\xF0\x90\x80\x80z", " ", "\n\n"};
    for (const char* p : P) g_tinyPayload.push_back(D(p));
    const char* encs[] = {"UTF-8", "UTF-16LE", "UTF-16BE", "UCS-4LE", "UCS-4BE"};
    for (const char* e : encs) { int ei = enc_index(e); if (ei < 0) continue; for (int b = 0; b < 2; b++) { if (!b && strcmp(e, "UTF-8")) continue; for (int p = 0; p < (int)g_tinyPayload.size(); p++) for (int site = 0; site < 2; site++) g_tiny.push_back({ei, b != 0, p, site}); } }
}
static void run_tiny(uint64_t idx, Ctx& c) {
    const TinyCase& k = g_tiny[idx];
    const Doc& pay = g_tinyPayload[k.payload];
    bool blank = true; for (uint32_t cp : pay) if (cp != ' ' && cp != '\n') blank = false;
    if ((k.site == 1) != blank) { c.count("tiny_skipped_payload_not_for_site"); return; }   // site 1 (external subset) takes the blank payloads, site 0 (content) the others
    Bytes ent; encode_doc(k.enc, pay, ent);
    if (k.bom) ent = bom_of(k.enc) + ent;
    g_vfs->clear();
    g_vfs->put(k.site == 0 ? "/v/e.ent" : "/v/e.dtd", ent);
    std::string main = k.site == 0 ? "<!DOCTYPE r [<!ENTITY e SYSTEM 'e.ent'>]><r>&e;</r>" : "<!DOCTYPE r SYSTEM 'e.dtd'><r>ok</r>";
    Config cfg; cfg.api = SAX2; cfg.scanner = IG; cfg.ns = false; cfg.val = 0; cfg.loadExtDTD = true;
    ParseIO io; io.bytes = main;
    ParseResult r = parse_xerces(cfg, io);
    // expected: the same document with the payload inline
    std::string inl; { Bytes u8; encode_doc(enc_index("UTF-8"), pay, u8); inl = k.site == 0 ? "<r>" + std::string(u8) + "</r>" : "<r>ok</r>"; }
    g_vfs->clear();
    ParseIO io2; io2.bytes = inl; ParseResult want = parse_xerces(cfg, io2);
    auto text = [](const ParseResult& x) { std::string t; for (auto& l : x.d.lines) if (l.compare(0, 2, "T|") == 0) t += l.substr(2); return t; };
    std::string where = std::string("\"encoding\":") + jstr(ENCS[k.enc].xname) + ",\"bom\":" + (k.bom ? "true" : "false") + ",\"payload_hex\":" + jstr(hexs(ent)) + ",\"site\":" + jstr(k.site == 0 ? "external general entity" : "external DTD subset");
    c.count("tiny_entities_parsed");
    if (r.fatals || !r.exc.empty()) c.violation("tiny-entity-rejected", where + ",\"errors\":" + jstr(r.errors.empty() ? r.exc : r.errors[0]));
    else if (text(r) != text(want)) c.violation("tiny-entity-content", where + ",\"expected\":" + jstr(text(want)) + ",\"observed\":" + jstr(text(r)));
    else c.count(k.bom ? "tiny_with_bom_ok" : "tiny_without_bom_ok");
}

int main(int argc, char** argv) {
    Args a(argc, argv);
    std::string space = a.str("space", "docs");
    g_strict = a.num("strict", 0) != 0;
    bool thorough = a.str("mode", "quick") == "thorough";
    xml_init();
    select_encs(a);
    init_docs();
    Runner R;
    R.name = space;
    if (space == "docs" || space == "ucs4bom" || space == "misaligned") {
        init_cases(thorough);
        if (space == "misaligned") {  // single witness: large ISO-8859-1 document declaring UTF-16BE
            g_misaligned_witness = true;
            std::vector<DocCase> one;
            for (auto& k : g_cases) if (!strcmp(ENCS[k.enc].xname, "ISO-8859-1") && g_docs[k.doc].size() > 16384 && k.declname == "UTF-16BE") { one.push_back(k); break; }
            g_cases = one;
        }
        if (space == "ucs4bom") {  // single witness: the first large UCS-4 document with BOM and canonical declaration
            g_ucs4bom_witness = true;
            std::vector<DocCase> one;
            for (auto& k : g_cases) if (k.bom && !strcmp(family(k.enc), "ucs4") && g_docs[k.doc].size() > 12288 && !strcmp(k.declkind, "canonical")) { one.push_back(k); break; }
            g_cases = one;
        }
        for (auto& d : g_docs) { Bytes u8; encode_doc(enc_index("UTF-8"), d, u8); ParseResult r = parse_bytes(u8); if (r.fatals || !r.exc.empty() || r.errs) { fprintf(stderr, "baseline document does not parse\n"); return 2; } g_baseline.push_back(r.d.lines); }
        R.total = g_cases.size(); R.fn = run_docs;
        R.describe = [](uint64_t i) { return "{\"doc\":" + std::to_string(g_cases[i].doc) + ",\"enc\":" + jstr(ENCS[g_cases[i].enc].xname) + ",\"decl\":" + jstr(g_cases[i].declname) + "}"; };
        R.extra_json = "\"bounds\":" + jstr(std::to_string(g_docs.size()) + " documents x " + std::to_string(g_encsel.size()) + " encodings x BOM x declaration variants");
    } else if (space == "tinyent") {
        init_tiny();
        R.total = g_tiny.size(); R.fn = run_tiny;
        R.describe = [](uint64_t i) { return "{\"enc\":" + jstr(ENCS[g_tiny[i].enc].xname) + ",\"bom\":" + std::to_string(g_tiny[i].bom) + ",\"payload\":" + std::to_string(g_tiny[i].payload) + "}"; };
        R.extra_json = "\"bounds\":\"12 payloads of 1..8 characters x 5 encodings x BOM x {external general entity, external subset}\"";
    } else if (space == "bad") {
        init_bad();
        R.total = g_badcases.size(); R.fn = run_bad;
        R.describe = [](uint64_t i) { return "{\"seq\":" + jstr(hexs(g_bad[g_badcases[i].seq].seq)) + ",\"pos\":" + std::to_string(g_badcases[i].pos) + "}"; };
        R.extra_json = "\"bounds\":" + jstr(std::to_string(g_bad.size()) + " illegal sequences x " + std::to_string(NPOS) + " positions");
    } else if (space == "trunc") {
        init_trunc();
        R.total = g_trunc.size(); R.fn = run_trunc;
        R.describe = [](uint64_t i) { return "{\"doc\":" + std::to_string(g_trunc[i].doc) + ",\"enc\":" + jstr(ENCS[g_trunc[i].enc].xname) + "}"; };
        R.extra_json = "\"bounds\":\"every cut inside a character of every small document x multi-byte encodings\"";
    } else if (space == "surr") {
        static const uint32_t REP[] = {0x0041, 0x0020, 0x001F, 0x007F, 0x0085, 0xD7FF, 0xD800, 0xD801, 0xDBFF, 0xDC00, 0xDC01, 0xDFFF, 0xE000, 0xFFFD, 0xFFFE, 0xFFFF, 0x2028, 0x3C00};
        for (uint32_t u : REP) g_surr_first.push_back(u);
        if (thorough) for (uint32_t u = 0; u < 65536; u++) g_surr_second.push_back(u);
        else { for (uint32_t u : REP) g_surr_second.push_back(u); for (uint32_t u = 0xD7F0; u < 0xE010; u += 1) if ((u & 0xFF) < 2 || (u & 0xFF) > 0xFD) g_surr_second.push_back(u); for (uint32_t u = 0; u < 0x80; u++) g_surr_second.push_back(u); }
        R.total = g_surr_first.size() * 2; R.fn = run_surr;
        R.describe = [](uint64_t i) { return "{\"first_unit\":" + std::to_string(g_surr_first[i >> 1]) + "}"; };
        R.extra_json = "\"bounds\":" + jstr(std::to_string(g_surr_first.size()) + " first units x " + std::to_string(g_surr_second.size()) + " second units x {LE,BE}");
    } else { fprintf(stderr, "unknown space\n"); return 2; }
    return R.main_tail(a);
}
