// c16_spaces.hpp - the stream-level spaces of the C16 driver (included by c16_pool.cpp after the round-trip core):
// level stamp mutations, truncation ladders, block-boundary pad ladders, locked pools.
#pragma once

// ------------------------------------------------------------------------------------------------ rich grammars
static std::vector<GCase> RICH;
static void build_rich() {
    std::vector<GCase> all;
    build_family(all, "all", true);
    const std::pair<const char*, const char*> pick[] = {
        {"xsd-annotation", "all positions except notation body 2 [tns]"},
        {"xsd-namespace-import", "efd=qualified afd=unqualified mode1 [tns]"},
        {"mixed-pool", "variant 3"},
        {"dtd-entity-notation", "0,1,2,3,4,5,6,7,8,"},
        {"xsd-identity-constraint", "key+keyref sel=.//%i fields=@k,@j [tns]"},
        {"xsd-union", "variant 6 [tns]"},
        {"xsd-complex-content-kind", "kind 4 [tns]"},
        {"dtd-attribute", "k NOTATION (n1|n2) #FIXED 'n1'; j ENTITIES 'u1 u2'"},
    };
    for (auto& p : pick) {
        bool found = false;
        for (auto& g : all) if (g.family == p.first && g.label == p.second) { RICH.push_back(g); found = true; break; }
        if (!found) { fprintf(stderr, "rich grammar not found: %s / %s\n", p.first, p.second); exit(2); }
    }
}

// pad modes: 0 = none, 1 = target namespace URI lengthened by L characters (string pool: first thing in the stream; every later
// occurrence shifts too), 2 = one enumeration value / entity value of L characters in an extra declaration, 3 = L extra short enumeration
// values / attribute enumeration tokens (list-length ladder), 4 = schema-level annotation with L characters of documentation
static const char* const PAD_NAME[5] = {"none", "tns-uri", "long-value", "many-values", "long-annotation"};
static bool pad_applicable(const GCase& g, int mode) {
    bool dtdOnly = !case_schema(g);
    if (mode == 1) return !dtdOnly && g.files.size() >= 1 && g.label.find("[tns]") != std::string::npos;
    if (mode == 4) return !dtdOnly;
    return true;
}
static GCase pad_case(const GCase& base, int mode, int L) {
    GCase g = base;
    g.label += " pad=" + std::string(PAD_NAME[mode]) + ":" + std::to_string(L);
    std::string xs(L, 'x');
    if (mode == 1) {
        for (auto& f : g.files) f.text = rep(f.text, "urn:t", "urn:t" + xs);
        for (auto& i : g.instances) i = rep(i, "urn:t", "urn:t" + xs);
        return g;
    }
    for (auto& f : g.files) {
        bool isXsd = f.sysId.size() > 4 && f.sysId.compare(f.sysId.size() - 4, 4, ".xsd") == 0;
        if (isXsd && f.sysId != "/v/s.xsd" && base.files.size() > 1 && base.files[0].sysId != f.sysId) continue;   // pad only the main schema
        if (isXsd) {
            std::string add;
            if (mode == 2) add = "<xs:simpleType name='aaPad'><xs:restriction base='xs:string'><xs:enumeration value='" + xs + "'/></xs:restriction></xs:simpleType>\n";
            if (mode == 3) { add = "<xs:simpleType name='aaPad'><xs:restriction base='xs:token'><xs:enumeration value='v'/>"; for (int i = 0; i < L; i++) add += "<xs:enumeration value='v" + std::to_string(i) + "'/>"; add += "</xs:restriction></xs:simpleType>\n"; }
            if (mode == 4) add = "<xs:annotation><xs:documentation>" + xs + "</xs:documentation></xs:annotation>\n";
            if (mode == 4) { size_t p = f.text.find(">\n"); f.text.insert(p + 2, add); }
            else { size_t p = f.text.rfind("</xs:schema>"); f.text.insert(p, add); }
            break;
        } else {
            if (mode == 2) f.text += "<!ENTITY aaPad '" + xs + "'>\n";
            if (mode == 3) { std::string e = "<!ATTLIST r aaPad (v"; for (int i = 0; i < L; i++) e += "|v" + std::to_string(i); f.text += e + ") #IMPLIED>\n"; }
            if (mode == 4) continue;
            break;
        }
    }
    return g;
}

struct PadCase { int rich, mode, L; };
static std::vector<PadCase> PADS;
static void build_pads(int lo, int hi, int step, const std::vector<int>& modes, size_t nrich, int onlyRich = -1) {
    for (size_t r = 0; r < RICH.size() && r < nrich; r++) for (int m : modes) {
        if (onlyRich >= 0 && (int)r != onlyRich) continue;
        if (!pad_applicable(RICH[r], m)) continue;
        for (int L = lo; L < hi; L += step) PADS.push_back({(int)r, m, L});
    }
}

// ------------------------------------------------------------------------------------------------ ladder: full round trip of padded grammars
static void run_ladder_case(uint64_t idx, Ctx& c) {
    PadCase pc = PADS[idx];
    GCase g = pad_case(RICH[pc.rich], pc.mode, pc.L);
    RT rt;
    roundtrip(g, c, rt, false);
    if (rt.loaded) {
        c.count("ladder_blocks:" + std::to_string(rt.sa.size() / 8192));
        c.count(std::string("ladder_mode:") + PAD_NAME[pc.mode]);
        // position of the last non-zero byte relative to its block: witnesses that the end of data sweeps the block boundary
        size_t last = rt.sa.size();
        while (last > 0 && rt.sa[last - 1] == 0) last--;
        c.count("ladder_data_end_mod8:" + std::to_string(last % 8));
        if (last % 8192 < 16 || last % 8192 > 8192 - 16) c.count("ladder_data_end_within_16_of_block_boundary");
        c.distinct.insert(fnv(std::to_string(pc.rich) + "/" + std::to_string(rt.sa.size() / 8192) + "/" + std::to_string(last % 8192)));
    }
    if (idx % 997 == 0) c.sample("{\"label\":" + jstr(g.label) + ",\"stream_bytes\":" + std::to_string(rt.sa.size()) + "}");
}

// ------------------------------------------------------------------------------------------------ truncation
static std::vector<size_t> cut_ladder(size_t total) {
    std::set<size_t> s = {0, 1, 2, 3, 4, 5, 7, 8, 9, 12, 16, 100, 4096};
    for (size_t b = 8192; b <= total; b += 8192) for (long d : {-4097L, -9L, -8L, -7L, -4L, -1L, 0L, 1L, 4L, 7L, 8L, 9L, 4096L}) { long v = (long)b + d; if (v >= 0) s.insert((size_t)v); }
    std::vector<size_t> v;
    for (size_t x : s) if (x < total) v.push_back(x);
    return v;
}

static void run_trunc_case(uint64_t idx, Ctx& c) {
    PadCase pc = PADS[idx];
    GCase g = pad_case(RICH[pc.rich], pc.mode, pc.L);
    Pool A;
    if (!load_case(g, A.p, c)) { c.count("grammar_rejected_at_load"); return; }
    c.count("grammars_loaded");
    std::string sa, exc;
    if (!pool_serialize(A.p, sa, exc)) { c.violation("serialize-exception", "\"label\":" + jstr(g.label) + ",\"exception\":" + jstr(exc)); return; }
    // reference: the pool restored from the complete stream
    Pool B;
    exc = pool_deserialize(B.p, sa);
    if (!exc.empty()) { c.violation("deserialize-exception", "\"label\":" + jstr(g.label) + ",\"exception\":" + jstr(exc)); return; }
    std::string db = pool_dump(B.p, nullptr);
    c.count("trunc_blocks:" + std::to_string(sa.size() / 8192));
    size_t dataEnd = sa.size();
    while (dataEnd > 0 && sa[dataEnd - 1] == 0) dataEnd--;
    bool first = true;
    for (size_t cut : cut_ladder(sa.size())) {
        Pool T;
        std::string e = pool_deserialize(T.p, sa.substr(0, cut));
        c.count("truncated_streams");
        if (cut % 8192 == 0 && cut > 0) c.count("truncated_at_block_boundary");
        if (cut % 8192 == 0 && cut > 0 && cut < dataEnd) c.count("truncated_at_block_boundary_inside_data");
        const std::string in = "\"label\":" + jstr(g.label) + ",\"cut\":" + std::to_string(cut) + ",\"total\":" + std::to_string(sa.size()) + ",\"last_nonzero_byte\":" + std::to_string(dataEnd);
        if (e.empty()) {
            // only legitimate when nothing was lost: the cut removed nothing but zero padding, and the pool is identical
            std::string dt = pool_dump(T.p, nullptr);
            if (dt == db && cut >= dataEnd) c.count("truncated_only_zero_padding_accepted");
            else c.violation("truncated-stream-accepted", in + ",\"diff\":" + jstr(first_diff(db, dt)));
        } else if (e.compare(0, 8, "FOREIGN:") == 0) {
            c.violation("truncated-stream-foreign-exception", in + ",\"exception\":" + jstr(e));
        } else {
            size_t p = e.find(':'), q = e.find(':', p + 1);
            c.count("truncated_rejected:" + e.substr(0, q == std::string::npos ? e.size() : q));
            RefHashTableOfEnumerator<Grammar> en = T.p->getGrammarEnumerator();
            if (en.hasMoreElements()) c.violation("pool-not-empty-after-rejected-stream", in);
            if (first || cut % 8192 == 0) {   // can the pool be loaded again after a rejected stream? (documented as not guaranteed: counted, not judged)
                std::string e2 = pool_deserialize(T.p, sa);
                if (e2.empty()) { if (pool_dump(T.p, nullptr) == db) c.count("pool_reusable_after_rejected_stream"); else c.violation("pool-corrupt-after-rejected-stream", in); }
                else c.count("pool_refuses_second_deserialize:" + e2.substr(0, 70));
            }
            first = false;
        }
    }
    if (idx % 997 == 0) c.sample("{\"label\":" + jstr(g.label) + ",\"stream_bytes\":" + std::to_string(sa.size()) + "}");
}

// ------------------------------------------------------------------------------------------------ level stamp
struct LevelCase { int rich; uint32_t value; std::string how; };
static std::vector<LevelCase> LEVELS;
static uint32_t g_cur_level = 0;
static void build_levels(bool thorough) {
    // current level = first 4 bytes of any stream produced by this build
    Ctx dummy;
    Pool A;
    load_case(RICH[3], A.p, dummy);
    std::string sa, exc;
    pool_serialize(A.p, sa, exc);
    if (sa.size() < 4) { fprintf(stderr, "cannot serialize probe pool: %s\n", exc.c_str()); exit(2); }
    memcpy(&g_cur_level, sa.data(), 4);
    for (size_t r = 0; r < RICH.size(); r++) {
        if (!thorough && !(r == 0 || r == 2 || r == 3)) continue;   // quick: a schema pool, a mixed pool, a DTD pool
        for (uint32_t v = 0; v < 16; v++) if (v != g_cur_level) LEVELS.push_back({(int)r, v, "value " + std::to_string(v)});
        for (int b = 0; b < 32; b++) LEVELS.push_back({(int)r, g_cur_level ^ (1u << b), "bit " + std::to_string(b) + " flipped"});
        LEVELS.push_back({(int)r, g_cur_level, "unchanged (control)"});
    }
}
static void run_level_case(uint64_t idx, Ctx& c) {
    const LevelCase& lc = LEVELS[idx];
    const GCase& g = RICH[lc.rich];
    Pool A;
    if (!load_case(g, A.p, c)) { c.count("grammar_rejected_at_load"); return; }
    std::string sa, exc;
    if (!pool_serialize(A.p, sa, exc)) { c.violation("serialize-exception", "\"label\":" + jstr(g.label) + ",\"exception\":" + jstr(exc)); return; }
    uint32_t cur;
    memcpy(&cur, sa.data(), 4);
    if (cur != g_cur_level) { c.violation("level-field-not-leading", "\"label\":" + jstr(g.label)); return; }
    std::string s = sa;
    memcpy(&s[0], &lc.value, 4);
    Pool T;
    std::string e = pool_deserialize(T.p, s);
    const std::string in = "\"label\":" + jstr(g.label) + ",\"level_written\":" + std::to_string(lc.value) + ",\"current_level\":" + std::to_string(g_cur_level) + ",\"mutation\":" + jstr(lc.how);
    if (lc.value == g_cur_level) {
        c.count("level_control_accepted");
        if (!e.empty()) c.violation("control-stream-rejected", in + ",\"exception\":" + jstr(e));
        return;
    }
    c.count("level_mutations");
    if (e.empty()) c.violation("foreign-level-accepted", in);
    else if (e.rfind("XMLException:XSerializationException", 0) == 0) c.count("level_rejected_with_XSerializationException");
    else c.violation("foreign-level-wrong-exception", in + ",\"expected\":\"XSerializationException\",\"observed\":" + jstr(e));
    RefHashTableOfEnumerator<Grammar> en = T.p->getGrammarEnumerator();
    if (en.hasMoreElements()) c.violation("pool-not-empty-after-level-mismatch", in);
}

// ------------------------------------------------------------------------------------------------ locked pools
static std::vector<int> LOCKED;
static void run_locked_case(uint64_t idx, Ctx& c) {
    const GCase& g = RICH[LOCKED[idx]];
    const std::string in = "\"grammar\":" + case_json(g) + ",\"scenario\":\"pool locked with lockPool() before serializeGrammars\"";
    Pool A;
    if (!load_case(g, A.p, c)) { c.count("grammar_rejected_at_load"); return; }
    A.p->lockPool();
    std::string sa, exc;
    if (!pool_serialize(A.p, sa, exc)) { c.count("locked_pool_serialize_refused:" + exc.substr(0, 60)); return; }
    c.count("locked_pools_serialized");
    Pool D;
    exc = pool_deserialize(D.p, sa);
    if (!exc.empty()) { c.violation("locked-pool-deserialize-exception", in + ",\"exception\":" + jstr(exc)); return; }
    if (D.p->getURIStringPool() == nullptr) { c.violation("locked-pool-null-string-pool", in + ",\"observed\":\"getURIStringPool() returns NULL on the restored pool (fLocked restored, fSynchronizedStringPool not created)\""); return; }
    std::string da = pool_dump(A.p, nullptr), dd = pool_dump(D.p, nullptr);
    if (da != dd) c.violation("model-differs", in + ",\"diff\":" + jstr(first_diff(da, dd)));
    bool schema = case_schema(g);
    for (size_t i = 0; i < g.instances.size(); i++) {
        if (c.verbose) { printf("validating instance %zu against the ORIGINAL locked pool A\n", i); fflush(stdout); }
        // no PSVI handler: a fresh parser on a *locked* pool always receives an empty XSModel (GrammarResolver::getXSModel never adopts the pool's
        // model when XSModelWasChanged is false), and IGXMLScanner::buildAttList then dereferences fModel->getXSObject(attrDataType) == 0 for a valid
        // attribute of a user-defined simple type - with the ORIGINAL locked pool as well, i.e. unrelated to serialisation
        Verdict va = validate(A.p, g.instances[i], schema, 1, false);
        if (c.verbose) { printf("validating instance %zu against the restored locked pool D\n", i); fflush(stdout); }
        Verdict vd = validate(D.p, g.instances[i], schema, 1, false);
        Verdict wa = validate(A.p, g.instances[i], schema, 0, false), wd = validate(D.p, g.instances[i], schema, 0, false);
        if (wa.text != wd.text) { c.violation("behaviour-differs", in + ",\"api\":\"DOM\",\"instance\":" + jstr(g.instances[i]) + ",\"diff\":" + jstr(first_diff(wa.text, wd.text))); break; }
        c.count("validations");
        if (va.text != vd.text) { c.violation("behaviour-differs", in + ",\"instance\":" + jstr(g.instances[i]) + ",\"diff\":" + jstr(first_diff(va.text, vd.text))); break; }
    }
    c.count("locked_pools_restored");
}

// ------------------------------------------------------------------------------------------------ witnesses of the listed defects
static void run_witness_case(uint64_t idx, Ctx& c) {
    // the witnesses were evaluated before the fork; evaluate again here so that the runner's identical-twice confirmation is meaningful
    Defect saved[N_DEFECTS];
    for (int i = 0; i < N_DEFECTS; i++) { saved[i] = DEFECTS[i]; DEFECTS[i].active = false; DEFECTS[i].repro.clear(); }
    evaluate_witnesses();
    const Defect& d = DEFECTS[idx];
    c.count("witnesses_evaluated");
    if (d.active) { c.count(std::string("witness_failed:") + d.id); c.violation(std::string("defect:") + d.id, "\"what\":" + jstr(d.what) + "," + d.repro); }
    else c.count(std::string("witness_passed:") + d.id);
    for (int i = 0; i < N_DEFECTS; i++) DEFECTS[i] = saved[i];
}

static bool setup_space(const std::string& space, const Args& a, bool thorough, Runner& R) {
    if (space == "witness") {
        R.total = N_DEFECTS;
        R.fn = run_witness_case;
        R.describe = [](uint64_t i) { return "{\"defect\":" + jstr(DEFECTS[i].id) + "}"; };
        std::string ids;
        for (int i = 0; i < N_DEFECTS; i++) ids += (i ? "," : "") + jstr(DEFECTS[i].id);
        R.extra_json = "\"defects\":[" + ids + "]";
        return true;
    }
    build_rich();
    R.extra_json = "\"tier\":" + jstr(thorough ? "thorough" : "quick");
    if (space == "ladder" || space == "trunc") {
        int lo = (int)a.num("lo", 0), hi = (int)a.num("hi", thorough ? 4200 : 160), step = (int)a.num("step", 1);
        std::vector<int> modes;
        std::string ms = a.str("modes", space == "ladder" ? "1,2,3,4" : "1,2");
        for (char ch : ms) if (ch >= '0' && ch <= '9') modes.push_back(ch - '0');
        int onlyRich = (int)a.num("only-rich", -1);
        if (a.has("align-window") && onlyRich >= 0) {
            // ladder around the pad length at which the long value (> one block) ends exactly on a block boundary: the value's start offset
            // does not depend on its length, so probe it once and solve start + 2*L = 0 (mod 8192) for the smallest L > 4096
            Ctx dummy;
            Pool P;
            GCase probe = pad_case(RICH[onlyRich], 2, 4200);
            std::string sp, exc;
            if (!load_case(probe, P.p, dummy) || !pool_serialize(P.p, sp, exc)) { fprintf(stderr, "align-window probe failed\n"); exit(2); }
            std::string run(400, 0);
            for (size_t i = 0; i < run.size(); i += 2) run[i] = 'x';
            size_t st = sp.find(run);
            if (st == std::string::npos) { fprintf(stderr, "align-window: pad value not found in stream\n"); exit(2); }
            int L = (int)(((8192 - st % 8192) % 8192) / 2);
            while (L <= 4096) L += 4096;
            int W = (int)a.num("align-window", 32);
            lo = L - W; hi = L + W + 1; step = 1;
            R.extra_json += ",\"aligned_pad_length\":" + std::to_string(L) + ",\"value_start_offset\":" + std::to_string(st);
        }
        build_pads(lo, hi, step, modes, (size_t)a.num("rich", thorough ? 8 : 4), onlyRich);
        g_sax_only = a.num("sax-only", 0) != 0;
        R.total = PADS.size();
        R.fn = space == "ladder" ? run_ladder_case : run_trunc_case;
        R.describe = [](uint64_t i) { return case_json(pad_case(RICH[PADS[i].rich], PADS[i].mode, PADS[i].L)); };
        R.extra_json += ",\"pad_lo\":" + std::to_string(lo) + ",\"pad_hi\":" + std::to_string(hi) + ",\"pad_step\":" + std::to_string(step) + ",\"rich_grammars\":" + std::to_string(RICH.size());
        return true;
    }
    if (space == "level") {
        build_levels(thorough);
        R.total = LEVELS.size();
        R.fn = run_level_case;
        R.describe = [](uint64_t i) { return "{\"label\":" + jstr(RICH[LEVELS[i].rich].label) + ",\"mutation\":" + jstr(LEVELS[i].how) + "}"; };
        R.extra_json += ",\"current_level\":" + std::to_string(g_cur_level);
        return true;
    }
    if (space == "locked") {
        // quick: one schema pool with user-defined simple types, one DTD pool, one schema pool without user-defined simple types (a crashing
        // case costs ~10 s of sanitizer report symbolisation); thorough: all rich grammars
        if (thorough) for (size_t i = 0; i < RICH.size(); i++) LOCKED.push_back((int)i);
        else LOCKED = {0, 3, 4};
        R.total = LOCKED.size();
        R.fn = run_locked_case;
        R.describe = [](uint64_t i) { return "{\"scenario\":\"lockPool() before serializeGrammars, then deserializeGrammars\",\"grammar\":" + case_json(RICH[LOCKED[i]]) + "}"; };
        return true;
    }
    return false;
}
