// schedx - C17: stateless schedule exploration with iterated preemption bound over real threads of the real library.
// Build flavors: tsan (deciding: data races on every explored schedule + result equality + deadlock) and asan (memory errors).
// The scheduler itself lives in sched_core.c (compiled without sanitizers).  One execution = one fork()ed child.
#include "sched_core.h"
#include "xv_run.hpp"

#include <deque>
#include <pthread.h>
#include <sstream>
#include <xercesc/dom/DOM.hpp>
#include <xercesc/framework/MemBufInputSource.hpp>
#include <xercesc/framework/MemBufFormatTarget.hpp>
#include <xercesc/framework/XMLGrammarPoolImpl.hpp>
#include <xercesc/framework/XMLPScanToken.hpp>
#include <xercesc/parsers/SAXParser.hpp>
#include <xercesc/parsers/SAX2XMLReaderImpl.hpp>
#include <xercesc/sax2/Attributes.hpp>
#include <xercesc/sax2/DefaultHandler.hpp>
#include <xercesc/util/XMLUni.hpp>
#include <xercesc/parsers/XercesDOMParser.hpp>
#include <xercesc/sax/HandlerBase.hpp>
#include <xercesc/sax/EntityResolver.hpp>
#include <xercesc/util/PlatformUtils.hpp>
#include <xercesc/util/TransService.hpp>
#include <xercesc/util/XMLMutexMgr.hpp>
#include <xercesc/util/XMLString.hpp>
#include <xercesc/util/regx/RegularExpression.hpp>
#include <xercesc/validators/common/Grammar.hpp>
#include <unicode/ucnv.h>
#include <dlfcn.h>
#include <atomic>
#include <clocale>
#include <xercesc/framework/psvi/PSVIHandler.hpp>
#include <xercesc/framework/psvi/PSVIElement.hpp>
#include <xercesc/framework/psvi/PSVIAttribute.hpp>
#include <xercesc/framework/psvi/PSVIAttributeList.hpp>
#include <xercesc/framework/psvi/XSElementDeclaration.hpp>
#include <xercesc/framework/psvi/XSAttributeDeclaration.hpp>
#include <xercesc/framework/psvi/XSTypeDefinition.hpp>
#include <xercesc/framework/psvi/XSSimpleTypeDefinition.hpp>
#include <xercesc/framework/psvi/XSComplexTypeDefinition.hpp>
#include <xercesc/framework/psvi/XSModel.hpp>
#include <xercesc/framework/psvi/XSNamedMap.hpp>

using namespace xercesc;
using namespace xv;

// ------------------------------------------------------------------ mutex seam (existing public static XMLPlatformUtils::fgMutexMgr)
struct SchedMutexMgr : public XMLMutexMgr {
    XMLMutexMgr* real;
    explicit SchedMutexMgr(XMLMutexMgr* r) : real(r) {}
    XMLMutexHandle create(MemoryManager* const m) override { return real->create(m); }
    void destroy(XMLMutexHandle h, MemoryManager* const m) override { real->destroy(h, m); }
    void lock(XMLMutexHandle h) override { sc_lock(h); real->lock(h); }      // the model guarantees the real lock is free here
    void unlock(XMLMutexHandle h) override { real->unlock(h); sc_unlock(h); }
};

// ------------------------------------------------------------------ helpers
static std::string narrow16(const XMLCh* s) { std::string o; if (s) for (; *s; s++) o += (*s < 0x80) ? (char)*s : '?'; return o; }
struct W { std::vector<XMLCh> v; W(const char* s) { for (; *s; s++) v.push_back((unsigned char)*s); v.push_back(0); } operator const XMLCh*() const { return v.data(); } };

struct CountH : public HandlerBase {
    std::string log; int elems = 0, errs = 0;
    void startElement(const XMLCh* const n, AttributeList& a) override { elems++; log += "<" + narrow16(n); for (XMLSize_t i = 0; i < a.getLength(); i++) log += " " + narrow16(a.getName(i)) + "=" + narrow16(a.getValue(i)); log += ">"; }
    void characters(const XMLCh* const c, const XMLSize_t n) override { for (XMLSize_t i = 0; i < n; i++) log += (c[i] < 0x80 ? (char)c[i] : '?'); }
    void error(const SAXParseException& e) override { errs++; log += "[E:" + narrow16(e.getMessage()) + "]"; }
    void fatalError(const SAXParseException& e) override { errs++; log += "[F:" + narrow16(e.getMessage()) + "]"; }
    void warning(const SAXParseException&) override {}
};

static const char* SCHEMA =
    "<xs:schema xmlns:xs='http://www.w3.org/2001/XMLSchema' targetNamespace='urn:t' xmlns='urn:t' elementFormDefault='qualified'>"
    "<xs:element name='r' type='T'/>"
    "<xs:complexType name='T'><xs:sequence><xs:element name='a' type='U' maxOccurs='3'/><xs:element name='b' type='xs:int' minOccurs='0'/></xs:sequence><xs:attribute name='d' type='xs:string' default='dv'/></xs:complexType>"
    "<xs:complexType name='U'><xs:choice minOccurs='0' maxOccurs='unbounded'><xs:element name='c' type='xs:token'/><xs:element name='e' type='S'/></xs:choice></xs:complexType>"
    "<xs:simpleType name='S'><xs:restriction base='xs:string'><xs:pattern value='\\p{Lu}\\p{Ll}*'/></xs:restriction></xs:simpleType>"
    "</xs:schema>";
static const char* DTD_TEXT = "<!ELEMENT r (a+,b?)><!ELEMENT a (#PCDATA|c)*><!ELEMENT b EMPTY><!ELEMENT c EMPTY><!ATTLIST r d CDATA 'dv'>";


// ------------------------------------------------------------------ ICU converters made visible to ThreadSanitizer
// The system ICU is not instrumented, so TSan cannot see what ucnv_* do to a UConverter.  The driver interposes the conversion entry points the
// library uses: each call first writes (plain, instrumented store) to a shadow cell that belongs to the converter object, then forwards.  Two calls
// on the same converter that are not ordered by the library's own synchronisation are then reported by TSan as a race on the cell - exactly the
// discipline ICU demands (a UConverter must not be used by two threads at once).  Cells are never reused: a converter closed and another one opened
// at the same address gets a fresh cell, so private converters of different threads can never collide.
#define XV_STR2(x) #x
#define XV_STR(x) XV_STR2(x)
static const int ICU_SLOTS = 512; static const int ICU_CELLS = 1 << 16;
static std::atomic<const void*> g_icuKey[ICU_SLOTS];
static std::atomic<int> g_icuCellOf[ICU_SLOTS];
static std::atomic<int> g_icuNext{0};
static char g_icuCell[ICU_CELLS];
static void icu_touch(const void* cnv) {
    for (int i = 0; i < ICU_SLOTS; i++) {
        const void* k = g_icuKey[i].load(std::memory_order_acquire);
        if (k == cnv) { int c = g_icuCellOf[i].load(std::memory_order_acquire); if (c >= 0 && c < ICU_CELLS) g_icuCell[c]++; return; }
        if (k == nullptr) {
            int c = g_icuNext.fetch_add(1);
            if (c >= ICU_CELLS) return;   // table exhausted: stop tracking (loses coverage, never a false report)
            g_icuCellOf[i].store(c, std::memory_order_release);
            const void* exp = nullptr;
            if (g_icuKey[i].compare_exchange_strong(exp, cnv, std::memory_order_acq_rel)) { g_icuCell[c]++; return; }
            if (exp == cnv) { int c2 = g_icuCellOf[i].load(std::memory_order_acquire); if (c2 >= 0 && c2 < ICU_CELLS) g_icuCell[c2]++; return; }
        }
    }
}
static void icu_forget(const void* cnv) {
    for (int i = 0; i < ICU_SLOTS; i++) if (g_icuKey[i].load(std::memory_order_acquire) == cnv) { g_icuKey[i].store((const void*)1, std::memory_order_release); return; }   // tombstone: slot not reused
}
extern "C" {
int32_t ucnv_fromUChars(UConverter* cnv, char* dest, int32_t destCapacity, const UChar* src, int32_t srcLength, UErrorCode* pErrorCode) {
    static auto real = (int32_t (*)(UConverter*, char*, int32_t, const UChar*, int32_t, UErrorCode*))dlsym(RTLD_NEXT, XV_STR(ucnv_fromUChars));
    icu_touch(cnv); return real(cnv, dest, destCapacity, src, srcLength, pErrorCode);
}
int32_t ucnv_toUChars(UConverter* cnv, UChar* dest, int32_t destCapacity, const char* src, int32_t srcLength, UErrorCode* pErrorCode) {
    static auto real = (int32_t (*)(UConverter*, UChar*, int32_t, const char*, int32_t, UErrorCode*))dlsym(RTLD_NEXT, XV_STR(ucnv_toUChars));
    icu_touch(cnv); return real(cnv, dest, destCapacity, src, srcLength, pErrorCode);
}
void ucnv_fromUnicode(UConverter* cnv, char** target, const char* targetLimit, const UChar** source, const UChar* sourceLimit, int32_t* offsets, UBool flush, UErrorCode* err) {
    static auto real = (void (*)(UConverter*, char**, const char*, const UChar**, const UChar*, int32_t*, UBool, UErrorCode*))dlsym(RTLD_NEXT, XV_STR(ucnv_fromUnicode));
    icu_touch(cnv); real(cnv, target, targetLimit, source, sourceLimit, offsets, flush, err);
}
void ucnv_toUnicode(UConverter* cnv, UChar** target, const UChar* targetLimit, const char** source, const char* sourceLimit, int32_t* offsets, UBool flush, UErrorCode* err) {
    static auto real = (void (*)(UConverter*, UChar**, const UChar*, const char**, const char*, int32_t*, UBool, UErrorCode*))dlsym(RTLD_NEXT, XV_STR(ucnv_toUnicode));
    icu_touch(cnv); real(cnv, target, targetLimit, source, sourceLimit, offsets, flush, err);
}
void ucnv_reset(UConverter* cnv) {
    static auto real = (void (*)(UConverter*))dlsym(RTLD_NEXT, XV_STR(ucnv_reset));
    icu_touch(cnv); real(cnv);
}
void ucnv_close(UConverter* cnv) {
    static auto real = (void (*)(UConverter*))dlsym(RTLD_NEXT, XV_STR(ucnv_close));
    if (cnv) { icu_touch(cnv); icu_forget(cnv); }
    real(cnv);
}
}

// a second grammar of the locked pool with the remaining kinds of shared schema components: identity constraints (shared selector / field XPaths),
// a substitution group, a lax wildcard, union and list types, a derivation used through xsi:type, a fixed and a defaulted attribute
static const char* SCHEMA2 =
    "<xs:schema xmlns:xs='http://www.w3.org/2001/XMLSchema' targetNamespace='urn:u' xmlns='urn:u' elementFormDefault='qualified'>"
    "<xs:element name='r'><xs:complexType><xs:choice minOccurs='0' maxOccurs='unbounded'>"
      "<xs:element name='k' type='K'/><xs:element name='f' type='F'/><xs:element ref='h'/><xs:element name='t' type='B'/><xs:element name='v' type='V'/><xs:element name='l' type='L'/>"
      "<xs:element name='n' type='xs:int' nillable='true'/><xs:any namespace='##other' processContents='lax'/>"
    "</xs:choice></xs:complexType>"
      "<xs:key name='KK'><xs:selector xpath='.//k'/><xs:field xpath='@id'/></xs:key>"
      "<xs:keyref name='FF' refer='KK'><xs:selector xpath='f'/><xs:field xpath='@ref'/></xs:keyref>"
      "<xs:unique name='UU'><xs:selector xpath='t'/><xs:field xpath='@x'/></xs:unique>"
    "</xs:element>"
    "<xs:complexType name='K'><xs:attribute name='id' type='xs:decimal' use='required'/><xs:attribute name='fx' type='xs:string' fixed='F'/></xs:complexType>"
    "<xs:complexType name='F'><xs:attribute name='ref' type='xs:integer'/></xs:complexType>"
    "<xs:complexType name='B'><xs:attribute name='x' type='xs:string'/></xs:complexType>"
    "<xs:complexType name='D'><xs:complexContent><xs:extension base='B'><xs:sequence><xs:element name='c' type='xs:date' minOccurs='0'/></xs:sequence><xs:attribute name='y' type='xs:string' default='yd'/></xs:extension></xs:complexContent></xs:complexType>"
    "<xs:simpleType name='V'><xs:union memberTypes='xs:int xs:boolean'><xs:simpleType><xs:restriction base='xs:string'><xs:enumeration value='none'/></xs:restriction></xs:simpleType></xs:union></xs:simpleType>"
    "<xs:simpleType name='L'><xs:list itemType='V'/></xs:simpleType>"
    "<xs:element name='h' type='xs:string'/><xs:element name='hs' type='xs:token' substitutionGroup='h'/><xs:element name='ht' type='xs:NCName' substitutionGroup='hs'/>"
    "</xs:schema>";

static XMLGrammarPoolImpl* g_pool = nullptr;  // shared locked pool, prepared in the parent before fork

static void prepare_pool() {
    g_pool = new XMLGrammarPoolImpl(XMLPlatformUtils::fgMemoryManager);
    {
        SAXParser p(0, XMLPlatformUtils::fgMemoryManager, g_pool);
        p.setDoNamespaces(true); p.setDoSchema(true);
        MemBufInputSource s((const XMLByte*)SCHEMA, strlen(SCHEMA), "s.xsd");
        p.loadGrammar(s, Grammar::SchemaGrammarType, true);
        MemBufInputSource s2((const XMLByte*)SCHEMA2, strlen(SCHEMA2), "u.xsd");
        p.loadGrammar(s2, Grammar::SchemaGrammarType, true);
        MemBufInputSource d((const XMLByte*)DTD_TEXT, strlen(DTD_TEXT), "d.dtd");
        p.loadGrammar(d, Grammar::DTDGrammarType, true);
    }
    g_pool->lockPool();
}

struct Sax2CountH : public DefaultHandler {
    std::string log;
    void startElement(const XMLCh* const uri, const XMLCh* const local, const XMLCh* const, const Attributes& a) override {
        log += "<{" + narrow16(uri) + "}" + narrow16(local);
        for (XMLSize_t i = 0; i < a.getLength(); i++) log += " {" + narrow16(a.getURI(i)) + "}" + narrow16(a.getLocalName(i)) + "=" + narrow16(a.getValue(i));
        log += ">";
    }
    void characters(const XMLCh* const c, const XMLSize_t n) override { for (XMLSize_t i = 0; i < n; i++) log += (c[i] < 0x80 ? (char)c[i] : '?'); }
    void startPrefixMapping(const XMLCh* const p, const XMLCh* const u) override { log += "[+" + narrow16(p) + "=" + narrow16(u) + "]"; }
    void error(const SAXParseException& e) override { log += "[E:" + narrow16(e.getMessage()) + "]"; }
    void fatalError(const SAXParseException& e) override { log += "[F:" + narrow16(e.getMessage()) + "]"; }
    void warning(const SAXParseException&) override {}
};
// parsers on the shared locked pool use SAX2 with namespaces: every element/attribute event resolves URI ids to text through the
// pool's (synchronized) URI string pool, and documents bring namespace URIs the pool did not know when it was locked
static std::string parse_with_pool(const char* doc, bool schema) {
    SAX2XMLReaderImpl p(XMLPlatformUtils::fgMemoryManager, g_pool);
    Sax2CountH h;
    p.setContentHandler(&h); p.setErrorHandler(&h);
    p.setFeature(XMLUni::fgSAX2CoreNameSpaces, true);
    p.setFeature(XMLUni::fgSAX2CoreValidation, true);
    p.setFeature(XMLUni::fgXercesSchema, schema);
    p.setFeature(XMLUni::fgXercesUseCachedGrammarInParse, true);
    MemBufInputSource s((const XMLByte*)doc, strlen(doc), "doc.xml");
    try { p.parse(s); } catch (const XMLException& e) { h.log += "[X:" + narrow16(e.getMessage()) + "]"; } catch (...) { h.log += "[X?]"; }
    return h.log;
}
// the same with a PSVI handler: every element / attribute item reads declarations and type definitions out of the XSModel shared through the pool
struct PsviH : public PSVIHandler {
    std::string* log;
    static std::string ty(XSTypeDefinition* t) { return t ? (t->getAnonymous() ? std::string("(anon)") : narrow16(t->getName())) + (t->getBaseType() ? "<" + narrow16(t->getBaseType()->getName()) : std::string()) : std::string("-"); }
    void handleElementPSVI(const XMLCh* const local, const XMLCh* const, PSVIElement* e) override {
        *log += "{E " + narrow16(local) + " v" + std::to_string((int)e->getValidity()) + "/" + std::to_string((int)e->getValidationAttempted()) + " " + ty(e->getTypeDefinition());
        if (e->getElementDeclaration()) *log += " decl=" + narrow16(e->getElementDeclaration()->getName()) + (e->getElementDeclaration()->getSubstitutionGroupAffiliation() ? "^" + narrow16(e->getElementDeclaration()->getSubstitutionGroupAffiliation()->getName()) : std::string());
        if (e->getMemberTypeDefinition()) *log += " member=" + ty(e->getMemberTypeDefinition());
        if (e->getSchemaNormalizedValue()) *log += " nv=" + narrow16(e->getSchemaNormalizedValue());
        *log += "}";
    }
    void handlePartialElementPSVI(const XMLCh* const, const XMLCh* const, PSVIElement*) override {}
    void handleAttributesPSVI(const XMLCh* const, const XMLCh* const, PSVIAttributeList* l) override {
        for (XMLSize_t i = 0; i < l->getLength(); i++) {
            PSVIAttribute* a = l->getAttributePSVIAtIndex(i);
            *log += "{A " + narrow16(l->getAttributeNameAtIndex(i)) + " v" + std::to_string((int)a->getValidity()) + " " + ty(a->getTypeDefinition()) + (a->getIsSchemaSpecified() ? " dflt" : "") + "}";
        }
    }
};
static const XMLCh URN_U[] = {'u', 'r', 'n', ':', 'u', 0};
static std::string parse_with_pool_psvi(const char* doc) {
    SAX2XMLReaderImpl p(XMLPlatformUtils::fgMemoryManager, g_pool);
    Sax2CountH h; PsviH ph; ph.log = &h.log;
    p.setContentHandler(&h); p.setErrorHandler(&h); p.setPSVIHandler(&ph);
    p.setFeature(XMLUni::fgSAX2CoreNameSpaces, true);
    p.setFeature(XMLUni::fgSAX2CoreValidation, true);
    p.setFeature(XMLUni::fgXercesSchema, true);
    p.setFeature(XMLUni::fgXercesSchemaFullChecking, true);
    p.setFeature(XMLUni::fgXercesUseCachedGrammarInParse, true);
    MemBufInputSource s((const XMLByte*)doc, strlen(doc), "doc.xml");
    try { p.parse(s); } catch (const XMLException& e) { h.log += "[X:" + narrow16(e.getMessage()) + "]"; } catch (...) { h.log += "[X?]"; }
    // and a walk over the shared model itself
    bool changed = false;
    XSModel* m = g_pool->getXSModel(changed);
    if (m) {
        XSNamedMap<XSObject>* els = m->getComponentsByNamespace(XSConstants::ELEMENT_DECLARATION, URN_U);
        for (XMLSize_t i = 0; els && i < els->getLength(); i++) { XSElementDeclaration* d = (XSElementDeclaration*)els->item(i); h.log += "(" + narrow16(d->getName()) + ":" + PsviH::ty(d->getTypeDefinition()) + ")"; }
    }
    return h.log;
}
// parsers that try to ADD to the locked pool: cacheGrammarFromParse is legal on a locked pool (the pool declines, the grammar stays with the parser),
// so two threads that each bring their own schema document for the SAME new namespace must neither touch the pool's registry nor see each other's grammar
struct MemResolver : public EntityResolver {
    const char* name; const char* text;
    InputSource* resolveEntity(const XMLCh* const, const XMLCh* const systemId) override {
        std::string s = narrow16(systemId);
        if (s.size() >= strlen(name) && s.compare(s.size() - strlen(name), strlen(name), name) == 0) return new MemBufInputSource((const XMLByte*)text, strlen(text), name);
        return 0;
    }
};
static std::string parse_caching_on_locked_pool(const char* doc, const char* xsdName, const char* xsdText) {
    SAX2XMLReaderImpl p(XMLPlatformUtils::fgMemoryManager, g_pool);
    Sax2CountH h; MemResolver er; er.name = xsdName; er.text = xsdText;
    p.setContentHandler(&h); p.setErrorHandler(&h); p.setEntityResolver(&er);
    p.setFeature(XMLUni::fgSAX2CoreNameSpaces, true);
    p.setFeature(XMLUni::fgSAX2CoreValidation, true);
    p.setFeature(XMLUni::fgXercesSchema, true);
    p.setFeature(XMLUni::fgXercesCacheGrammarFromParse, true);
    for (int round = 0; round < 2; round++) {   // the second parse of the same document must find the same grammar situation
        MemBufInputSource s((const XMLByte*)doc, strlen(doc), "doc.xml");
        try { p.parse(s); } catch (const XMLException& e) { h.log += "[X:" + narrow16(e.getMessage()) + "]"; } catch (...) { h.log += "[X?]"; }
        h.log += "#";
    }
    return h.log;
}
static const char* XSD_B1 = "<xs:schema xmlns:xs='http://www.w3.org/2001/XMLSchema' targetNamespace='urn:nb' elementFormDefault='qualified'><xs:element name='r' type='xs:int'/></xs:schema>";
static const char* XSD_B2 = "<xs:schema xmlns:xs='http://www.w3.org/2001/XMLSchema' targetNamespace='urn:nb' elementFormDefault='qualified'><xs:element name='r' type='xs:string'/></xs:schema>";
static std::string s15_a() { return parse_caching_on_locked_pool("<r xmlns='urn:nb' xmlns:xsi='http://www.w3.org/2001/XMLSchema-instance' xsi:schemaLocation='urn:nb b1.xsd'>42</r>", "b1.xsd", XSD_B1); }
static std::string s15_b() { return parse_caching_on_locked_pool("<r xmlns='urn:nb' xmlns:xsi='http://www.w3.org/2001/XMLSchema-instance' xsi:schemaLocation='urn:nb b2.xsd'>hello</r>", "b2.xsd", XSD_B2); }
static std::string parse_plain(const char* doc) {
    SAXParser p;
    CountH h;
    p.setDocumentHandler(&h); p.setErrorHandler(&h);
    MemBufInputSource s((const XMLByte*)doc, strlen(doc), "doc.xml");
    try { p.parse(s); } catch (const XMLException& e) { h.log += "[X:" + narrow16(e.getMessage()) + "]"; } catch (...) { h.log += "[X?]"; }
    return h.log;
}
static std::string regex_body(const char* pat, const char* opt, std::initializer_list<const char*> strs) {
    std::string out;
    try {
        RegularExpression r(pat, opt);
        for (const char* s : strs) out += r.matches(s) ? '1' : '0';
    } catch (const XMLException& e) { out += "[X:" + narrow16(e.getMessage()) + "]"; } catch (...) { out += "[X?]"; }
    return out;
}

// ------------------------------------------------------------------ scenarios: each is a list of thread bodies
typedef std::string (*Body)();
struct Scenario { const char* name; const char* what; std::vector<Body> bodies; bool needs_pool; };

static std::string s1_a() { return regex_body("\\p{L}+\\p{Nd}", "X", {"ab1", "a", "1"}); }
static std::string s1_b() { return regex_body("[\\P{L}-[0-9]]+", "X", {"--", "a", "1"}); }
static std::string s1_c() { return regex_body("\\p{IsGreek}|\\p{Lu}x", "X", {"Ax", "ax", "\xCE"}); }
static std::string s2_a() { return parse_with_pool("<r xmlns='urn:t' xmlns:m='urn:m1' m:q='1'><a><c>x</c><e>Ab</e><m:x xmlns:m2='urn:m2' m2:y='2'/></a><b>1</b></r>", true); }
static std::string s2_b() { return parse_with_pool("<r xmlns='urn:t' xmlns:n='urn:new1'><a><e>ab</e><n:x n:k='v' xmlns:n3='urn:new3'><n3:y/></n:x></a><a/><a/><a/></r>", true); }
static std::string s2_c() { return parse_with_pool("<!DOCTYPE r SYSTEM 'd.dtd'><r xmlns:o='urn:o1' o:z='1'><a>t<c/></a><b/><b/></r>", false); }
static std::string s2_d() { return parse_with_pool("<!DOCTYPE r SYSTEM 'd.dtd'><r xmlns:n='urn:new2' n:w='2'><a/><a xmlns:n4='urn:new4' n4:v='3'>u</a></r>", false); }
static const char* XSI = "xmlns:xsi='http://www.w3.org/2001/XMLSchema-instance'";
static std::string s13_a() { return parse_with_pool_psvi((std::string("<r xmlns='urn:u' ") + XSI + "><k id='1'/><k id='2.0'/><f ref='2'/><hs> a  b </hs><t xsi:type='D' x='1'><c>2020-01-01</c></t><v>true</v><l>1 none false</l><n xsi:nil='true'/><o:z xmlns:o='urn:o9' q='1'/></r>").c_str()); }
static std::string s13_b() { return parse_with_pool_psvi((std::string("<r xmlns='urn:u' ") + XSI + "><ht>nc</ht><k id='1'/><k id='1.0'/><f ref='7'/><t x='1'/><t x='1'/><v>none</v><v>nope</v><l>x</l><n>5</n><t xsi:type='D'><c>bad</c></t></r>").c_str()); }
static std::string s3_a() {
    std::string o;
    DOMImplementation* impl = DOMImplementationRegistry::getDOMImplementation(W("Core"));
    for (int i = 0; i < 2; i++) {
        DOMDocumentType* dt = impl->createDocumentType(W("root"), W("pub"), W("sys.dtd"));
        o += narrow16(dt->getName()); o += narrow16(dt->getSystemId());
        dt->release();
    }
    return o;
}
static std::string s3_b() {
    DOMImplementation* impl = DOMImplementationRegistry::getDOMImplementation(W("Core"));
    DOMDocumentType* dt = impl->createDocumentType(W("other"), 0, W("o.dtd"));
    DOMDocument* doc = impl->createDocument(0, W("other"), dt);
    std::string o = narrow16(doc->getDoctype()->getName());
    doc->release();
    return o;
}
static std::string s4_a() { DOMImplementation* i = DOMImplementationRegistry::getDOMImplementation(W("LS")); return i ? "LS" : "null"; }
static std::string s4_b() { DOMImplementation* i = DOMImplementationRegistry::getDOMImplementation(W("XML 3.0 Traversal")); DOMImplementation* j = DOMImplementationRegistry::getDOMImplementation(W("NoSuchFeature")); return std::string(i ? "T" : "null") + (j ? "?" : "-"); }
static std::string s5_a() {
    std::string o;
    for (const char* s : {"hello", "w\xC3\xB6rld", ""}) { XMLCh* x = XMLString::transcode(s); char* b = XMLString::transcode(x); o += b; o += '|'; XMLString::release(&x); XMLString::release(&b); }
    return o;
}
static std::string s5_b() {
    std::string o; XMLCh buf[16];
    XMLString::transcode("abcdefghijklmno", buf, 15);
    char* b = XMLString::transcode(buf); o += b; XMLString::release(&b);
    return o;
}
// strings that are mostly non-ASCII: in a UTF-8 locale their native form is longer than the 1.25 x guess of ICULCPTranscoder::transcode(XMLCh*),
// so the conversion takes its retry path; each thread owns its strings, only the process-wide converter is shared
static std::string lcp_multibyte(std::initializer_list<const char*> strs) {
    std::string o;
    for (const char* s : strs) {
        XMLCh* x = XMLString::transcode(s);
        char* b = XMLString::transcode(x);
        o += b ? b : "(null)"; o += '|'; o += std::to_string(XMLString::stringLen(x)); o += '|';
        char small[64]; bool ok = XMLString::transcode(x, small, 63); o += ok ? small : "(no)"; o += '|';
        XMLString::release(&x); if (b) XMLString::release(&b);
    }
    return o;
}
static std::string s14_a() { return lcp_multibyte({"\xE6\x97\xA5\xE6\x9C\xAC\xE8\xAA\x9E\xE3\x81\xAE\xE3\x83\x86\xE3\x82\xAD\xE3\x82\xB9\xE3\x83\x88", "\xD0\x9F\xD1\x80\xD0\xB8\xD0\xB2\xD0\xB5\xD1\x82 \xD0\xBC\xD0\xB8\xD1\x80", "a\xF0\x9F\x98\x80\xF0\x9F\x98\x81\xF0\x9F\x98\x82"}); }
static std::string s14_b() { return lcp_multibyte({"\xE4\xB8\xAD\xE6\x96\x87\xE6\x96\x87\xE6\x9C\xAC\xE6\xB5\x8B\xE8\xAF\x95", "\xCE\xB1\xCE\xB2\xCE\xB3\xCE\xB4\xCE\xB5\xCE\xB6", "\xE2\x82\xAC\xE2\x82\xAC\xE2\x82\xAC"}); }
static std::string s6_a() { std::string o; for (int i = 0; i < 2; i++) { SAXParser p; XercesDOMParser q; o += "p"; } return o; }
static std::string s6_b() {
    SAXParser p; CountH h; p.setDocumentHandler(&h); p.setErrorHandler(&h);
    const char* d = "<a><b/><c/></a>";
    MemBufInputSource s((const XMLByte*)d, strlen(d), "d.xml");
    XMLPScanToken tok; std::string o;
    if (p.parseFirst(s, tok)) { int n = 0; while (p.parseNext(tok)) n++; o += std::to_string(n); }
    return o + h.log;
}
static std::string s7_a() { return parse_plain("<a><b></a>"); }
static std::string s7_b() { return parse_plain("<a x='1' x='2'/>"); }
static std::string s7_c() { return parse_with_pool("<r xmlns='urn:t'><zz/></r>", true); }
static std::string s8_a() {
    XercesDOMParser p; const char* d = "<a x='1'>t<b/><!--c--></a>";
    MemBufInputSource s((const XMLByte*)d, strlen(d), "d.xml");
    p.parse(s);
    DOMDocument* doc = p.getDocument();
    DOMImplementationLS* impl = (DOMImplementationLS*)DOMImplementationRegistry::getDOMImplementation(W("LS"));
    DOMLSSerializer* ser = impl->createLSSerializer();
    XMLCh* out = ser->writeToString(doc);
    std::string o = narrow16(out);
    XMLString::release(&out); ser->release();
    return o;
}
static std::string s8_b() {
    DOMImplementation* impl = DOMImplementationRegistry::getDOMImplementation(W("Core"));
    DOMDocument* doc = impl->createDocument(W("urn:x"), W("p:r"), 0);
    doc->getDocumentElement()->appendChild(doc->createTextNode(W("t")));
    doc->getDocumentElement()->setAttribute(W("k"), W("v"));
    std::string o = narrow16(doc->getDocumentElement()->getTextContent()) + narrow16(doc->getDocumentElement()->getAttribute(W("k")));
    doc->release();
    return o;
}

// named transcoders: first use of the transcoding service's encoding-name mapping and of an ICU converter, encode + decode
static std::string named_transcoder_body(const char* enc, const char* bytes) {
    std::string o;
    try {
        TranscodeFromStr from((const XMLByte*)bytes, strlen(bytes), enc);
        TranscodeToStr to(from.str(), enc);
        o = std::string((const char*)to.str(), to.length()) + "|" + std::to_string(from.length());
    } catch (const XMLException& e) { o += "[X:" + narrow16(e.getMessage()) + "]"; } catch (...) { o += "[X?]"; }
    return o;
}
static std::string s9_a() { return named_transcoder_body("ISO-8859-15", "a\xA4z") + named_transcoder_body("UTF-8", "w\xC3\xB6"); }
static std::string s9_b() { return named_transcoder_body("windows-1252", "a\x80z") + named_transcoder_body("ISO-8859-15", "\xA4"); }
// private parsers that each build a schema grammar from memory: first use of whatever the schema traverser initialises lazily
static std::string schema_private(const char* type, const char* value) {
    std::string xsd = std::string("<xs:schema xmlns:xs='http://www.w3.org/2001/XMLSchema'><xs:element name='r'><xs:simpleType><xs:restriction base='xs:") + type +
                      "'><xs:pattern value='\\p{L}*\\d*'/></xs:restriction></xs:simpleType></xs:element></xs:schema>";
    std::string doc = std::string("<r xmlns:xsi='http://www.w3.org/2001/XMLSchema-instance' xsi:noNamespaceSchemaLocation='s.xsd'>") + value + "</r>";
    SAX2XMLReaderImpl p;
    Sax2CountH h;
    p.setContentHandler(&h); p.setErrorHandler(&h);
    p.setFeature(XMLUni::fgSAX2CoreNameSpaces, true);
    p.setFeature(XMLUni::fgSAX2CoreValidation, true);
    p.setFeature(XMLUni::fgXercesSchema, true);
    MemBufInputSource xs((const XMLByte*)xsd.data(), xsd.size(), "s.xsd");
    try {
        p.loadGrammar(xs, Grammar::SchemaGrammarType, true);
        p.setFeature(XMLUni::fgXercesUseCachedGrammarInParse, true);
        MemBufInputSource s((const XMLByte*)doc.data(), doc.size(), "doc.xml");
        p.parse(s);
    } catch (const XMLException& e) { h.log += "[X:" + narrow16(e.getMessage()) + "]"; } catch (...) { h.log += "[X?]"; }
    return h.log;
}
static std::string s10_a() { return schema_private("string", "abc12"); }
static std::string s10_b() { return schema_private("token", "12ab"); }

// case-insensitive use of a shared category token: RangeToken::getCaseInsensitiveToken() caches its result in the token
static std::string s11_a() { return regex_body("\\p{Lu}+x", "i", {"ABx", "abX", "1x"}); }
static std::string s11_b() { return regex_body("[\\p{Lu}]y", "i", {"Ay", "ay", "1y"}); }

// complement-of-block escapes used as atoms refer to process-wide shared range tokens directly
static std::string s12_a() { return regex_body("\\P{IsGreek}x", "X", {"ax", "x", "1x"}); }
static std::string s12_b() { return regex_body("\\P{IsGreek}y|\\P{IsThai}+z", "X", {"ay", "bbz", "z"}); }

static std::vector<Scenario> SCENARIOS = {
    {"regex-negated-blocks", "two threads match with the same shared \\P{IsBlock} token for the first time", {s12_a, s12_b}, false},
    {"regex-icase-categories", "two threads compile case-insensitive expressions over the same shared category token", {s11_a, s11_b}, false},
    {"named-transcoders", "first use of named transcoders (service mapping, ICU converters), decode and encode", {s9_a, s9_b}, false},
    {"private-schema-build", "two private parsers each build a schema grammar with a pattern facet and validate", {s10_a, s10_b}, false},
    {"shared-pool-schema-psvi", "two parsers with PSVI handlers validate against identity constraints, substitution groups, unions, xsi:type of one locked pool and walk its XSModel", {s13_a, s13_b}, true},
    {"shared-pool-cache-from-parse", "two parsers with cacheGrammarFromParse on one locked pool bring different schema documents for the same new namespace", {s15_a, s15_b}, true},
    {"regex-categories", "first use of the same lazily built regex character categories", {s1_a, s1_b}, false},
    {"regex-categories-3", "three threads, first use of categories and a block", {s1_a, s1_b, s1_c}, false},
    {"shared-pool-schema", "two parsers validate against the same complex type of one locked pool for the first time", {s2_a, s2_b}, true},
    {"shared-pool-dtd", "two parsers validate against the same DTD element declarations of one locked pool for the first time", {s2_c, s2_d}, true},
    {"shared-pool-mixed", "schema and DTD parsers on one locked pool, new namespace URIs", {s2_b, s2_d}, true},
    {"doctype-ownerless", "owner-less DOMDocumentType creation and release (shared static document)", {s3_a, s3_b}, false},
    {"dom-registry", "DOMImplementationRegistry lookup from two threads", {s4_a, s4_b}, false},
    {"lcp-transcode", "local code page transcoding in both directions", {s5_a, s5_b}, false},
    {"lcp-transcode-multibyte", "local code page transcoding of mostly non-ASCII strings in a UTF-8 locale (retry path of the shared ICU converter)", {s14_a, s14_b}, false},
    {"parser-lifecycle", "parser construction/destruction and progressive scan tokens (scanner id)", {s6_a, s6_b}, false},
    {"message-loading", "the same and different error messages loaded from two threads", {s7_a, s7_b}, false},
    {"message-loading-validity", "well-formedness and validity messages", {s7_a, s7_c}, true},
    {"private-objects", "private parse/build/serialise without intended sharing", {s8_a, s8_b}, false},
};

// ------------------------------------------------------------------ executions
// A forked worker process runs a chunk of schedules one after the other.  Before each schedule the library is brought into the
// state of a freshly started application (XMLPlatformUtils::Initialize + pool preparation) and torn down afterwards
// (Terminate), so every execution starts with all lazily built facilities unbuilt.  fork() per execution would give the same
// isolation but costs ~1 s per execution on this sandbox (page-table copy and COW faults of the sanitizer shadow).
struct ThreadArg { int tid; Body body; std::string result; };
static void* thread_main(void* p) {
    ThreadArg* a = (ThreadArg*)p;
    sc_thread_begin(a->tid);
    a->result = a->body();
    sc_thread_end();
    return nullptr;
}
static volatile int g_tsan_reports = 0;
extern "C" void __tsan_on_report(void*) { g_tsan_reports++; }   // weak hook of the ThreadSanitizer runtime

struct Slot {                 // lives in shared memory: one per scheduled execution of a chunk
    volatile int state;       // 0 pending, 1 running, 2 done
    int nprefix; int prefix[SC_MAX_POINTS];
    int tsan_reports; long log_from, log_to;
    sc_trace trace;
};

static void run_one(const Scenario& sc, const std::vector<int>& bodyIdx, Slot* slot) {
    int n = (int)bodyIdx.size();
    XMLPlatformUtils::Initialize();
    if (sc.needs_pool) prepare_pool();
    XMLMutexMgr* realMgr = XMLPlatformUtils::fgMutexMgr;
    SchedMutexMgr mgr(realMgr);
    sc_init(&slot->trace, slot->prefix, slot->nprefix, n);
    XMLPlatformUtils::fgMutexMgr = &mgr;
    int before = g_tsan_reports;
    std::vector<ThreadArg> args(n);
    std::vector<pthread_t> th(n);
    for (int i = 0; i < n; i++) { args[i].tid = i; args[i].body = sc.bodies[bodyIdx[i]]; pthread_create(&th[i], nullptr, thread_main, &args[i]); }
    sc_run_all();
    for (int i = 0; i < n; i++) pthread_join(th[i], nullptr);
    XMLPlatformUtils::fgMutexMgr = realMgr;
    for (int i = 0; i < n; i++) {
        std::string r = args[i].result;
        if (r.size() > 250) { char b[32]; snprintf(b, sizeof b, "#%016llx", (unsigned long long)fnv(r)); r = r.substr(0, 200) + b; }
        strncpy(slot->trace.digest[i], r.c_str(), 255);
    }
    slot->tsan_reports = g_tsan_reports - before;
    if (g_pool) { g_pool->unlockPool(); delete g_pool; g_pool = nullptr; }
    XMLPlatformUtils::Terminate();
}

struct Exec { std::vector<int> prefix; int cost; };
struct Outcome { bool race, deadlock, crash, diverged, overflow; std::vector<sc_point> points; std::vector<std::string> digests; std::string report; int contended; };

static std::string g_tmpdir;
static std::string read_range(const std::string& path, long from, long to) {
    FILE* f = fopen(path.c_str(), "r"); if (!f) return "";
    if (to < from) to = from;
    long n = std::min<long>(to - from, 40000);
    std::string s(n, 0); fseek(f, from, SEEK_SET); size_t r = fread(&s[0], 1, n, f); s.resize(r); fclose(f); return s;
}

int main(int argc, char** argv) {
    // a multi-byte local code page: ICU derives the default converter of XMLString::transcode from the C locale
    if (!setlocale(LC_ALL, "C.utf8")) setlocale(LC_ALL, "C.UTF-8");
    Args a(argc, argv);
    std::string only = a.str("scenario", "");
    int maxBound = (int)a.num("bound", 2);
    long budget = a.num("budget", 4000);       // max executions per scenario
    int par = (int)a.num("workers", 6);
    if (par > 16) par = 16;
    int chunk = (int)a.num("chunk", 40);
    int maxThreads = (int)a.num("max-threads", 3);
    std::string out = a.str("out", "/dev/stdout");
    g_tmpdir = a.str("tmp", "/verif/build/run");
    mkdir(g_tmpdir.c_str(), 0755);
    std::vector<int> replay;
    bool doReplay = a.has("replay");
    if (doReplay) { std::stringstream ss(a.str("replay")); std::string t; while (std::getline(ss, t, ',')) if (!t.empty()) replay.push_back(atoi(t.c_str())); }

    struct timespec ts; clock_gettime(CLOCK_MONOTONIC, &ts); double t0 = ts.tv_sec + ts.tv_nsec * 1e-9;
    size_t nslots = (size_t)par * chunk;
    Slot* slots = (Slot*)mmap(nullptr, sizeof(Slot) * nslots, PROT_READ | PROT_WRITE, MAP_SHARED | MAP_ANONYMOUS, -1, 0);

    std::map<std::string, uint64_t> cnt;
    std::vector<std::string> viol, samples;
    std::string perScenario = "";

    // runs the executions of `batch` (<= par*chunk) in `par` forked workers; fills outs
    auto run_batch = [&](const Scenario& sc, const std::vector<int>& bodyIdx, std::vector<Exec>& batch, std::vector<Outcome>& outs) {
        size_t nb = batch.size();
        for (size_t i = 0; i < nb; i++) {
            Slot& s = slots[i];
            s.state = 0; s.nprefix = (int)batch[i].prefix.size(); s.tsan_reports = 0; s.log_from = s.log_to = 0;
            for (int k = 0; k < s.nprefix && k < SC_MAX_POINTS; k++) s.prefix[k] = batch[i].prefix[k];
            memset(&s.trace, 0, sizeof(sc_trace));
        }
        // worker w handles slots w, w+par, ...
        std::vector<pid_t> pids(par, 0);
        std::vector<std::string> logs(par);
        auto spawn = [&](int w) {
            logs[w] = g_tmpdir + "/schedx." + std::to_string(getpid()) + "." + std::to_string(w) + ".err";
            fflush(nullptr);
            pid_t p = fork();
            if (p == 0) {
                int fd = open(logs[w].c_str(), O_WRONLY | O_CREAT | O_APPEND, 0644);
                if (fd >= 0) { dup2(fd, 2); close(fd); }
                for (size_t i = w; i < nb; i += par) {
                    if (slots[i].state != 0) continue;
                    slots[i].state = 1;
                    slots[i].log_from = lseek(2, 0, SEEK_END);
                    alarm(120);
                    run_one(sc, bodyIdx, &slots[i]);
                    alarm(0);
                    fflush(stderr);
                    slots[i].log_to = lseek(2, 0, SEEK_END);
                    slots[i].state = 2;
                }
                _exit(0);
            }
            pids[w] = p;
        };
        for (int w = 0; w < par && (size_t)w < nb; w++) { unlink((g_tmpdir + "/schedx." + std::to_string(getpid()) + "." + std::to_string(w) + ".err").c_str()); spawn(w); }
        int live = 0; for (int w = 0; w < par; w++) if (pids[w]) live++;
        std::vector<int> crashStatus(nb, 0);
        while (live > 0) {
            int st = 0; pid_t p = wait(&st);
            if (p < 0) break;
            int w = -1; for (int i = 0; i < par; i++) if (pids[i] == p) w = i;
            if (w < 0) continue;
            pids[w] = 0; live--;
            if (WIFEXITED(st) && WEXITSTATUS(st) == 0) continue;
            // the worker died inside the slot whose state is 1 (or exited with the deadlock code)
            bool more = false;
            for (size_t i = w; i < nb; i += par) {
                if (slots[i].state == 1) { slots[i].state = 3; crashStatus[i] = st; struct stat sb; slots[i].log_to = stat(logs[w].c_str(), &sb) == 0 ? sb.st_size : 0; }
                else if (slots[i].state == 0) more = true;
            }
            if (more) { spawn(w); live++; }
        }
        outs.assign(nb, Outcome());
        for (size_t i = 0; i < nb; i++) {
            Slot& s = slots[i]; Outcome& o = outs[i];
            int w = (int)(i % par);
            int st = crashStatus[i];
            int code = (s.state == 3 && WIFEXITED(st)) ? WEXITSTATUS(st) : -1;
            o.deadlock = s.trace.deadlock || (s.state == 3 && code == SC_EXIT_DEADLOCK);
            o.crash = (s.state == 3 && !o.deadlock) || s.state == 0 || s.state == 1;
            o.race = s.tsan_reports > 0;
            o.diverged = s.trace.diverged; o.overflow = s.trace.overflow; o.contended = s.trace.ncontended;
            int np = (int)s.trace.npoints; if (np > SC_MAX_POINTS) np = SC_MAX_POINTS;
            o.points.assign(s.trace.points, s.trace.points + np);
            for (size_t t = 0; t < bodyIdx.size(); t++) o.digests.push_back(s.trace.digest[t]);
            if (o.race || o.crash || o.deadlock) o.report = read_range(logs[w], s.log_from, s.log_to);
        }
        for (int w = 0; w < par; w++) unlink(logs[w].c_str());
    };

    for (const Scenario& sc : SCENARIOS) {
        if (!only.empty() && only != sc.name) continue;
        int n = (int)sc.bodies.size();
        if (n > maxThreads) continue;
        std::vector<int> all(n); for (int i = 0; i < n; i++) all[i] = i;
        // solo reference digests
        std::vector<std::string> ref(n);
        bool soloBad = false;
        for (int i = 0; i < n; i++) {
            std::vector<Exec> b = {{{}, 0}}; std::vector<Outcome> o;
            run_batch(sc, {i}, b, o);
            ref[i] = o[0].digests[0];
            if (o[0].crash || o[0].race || o[0].deadlock) { soloBad = true; viol.push_back("{\"case\":0,\"kind\":\"solo-run-failed\",\"scenario\":" + jstr(sc.name) + ",\"thread\":" + std::to_string(i) + ",\"report\":" + jstr(o[0].report.substr(0, 1500)) + "}"); cnt["violations"]++; }
        }
        if (soloBad) continue;
        if (doReplay) {
            std::vector<Exec> b = {{replay, 0}}; std::vector<Outcome> o;
            run_batch(sc, all, b, o);
            printf("replay scenario=%s race=%d deadlock=%d crash=%d diverged=%d points=%zu\n", sc.name, o[0].race, o[0].deadlock, o[0].crash, o[0].diverged, o[0].points.size());
            for (int i = 0; i < n; i++) printf("  thread %d digest=%s reference=%s\n", i, o[0].digests[i].c_str(), ref[i].c_str());
            for (auto& p : o[0].points) printf("  point kind=%d running=%d enabled=%d choice=%d -> thread %d obj=%d\n", p.kind, p.running, p.nenabled, p.choice, p.enabled[(int)p.choice], p.obj);
            printf("%s\n", o[0].report.c_str());
            return (o[0].race || o[0].deadlock || o[0].crash) ? 1 : 0;
        }
        std::vector<std::deque<Exec>> level(maxBound + 1);
        level[0].push_back({{}, 0});
        long execs = 0; uint64_t pointsMax = 0, contendedSchedules = 0;
        std::set<uint64_t> signatures; std::set<std::string> outcomes;
        std::vector<long> perLevel(maxBound + 1, 0);
        int completedBound = -1; bool capped = false;
        for (int b = 0; b <= maxBound && !capped; b++) {
            while (!level[b].empty()) {
                if (execs >= budget) { capped = true; break; }
                std::vector<Exec> batch;
                while (!level[b].empty() && batch.size() < nslots && execs + (long)batch.size() < budget) { batch.push_back(level[b].front()); level[b].pop_front(); }
                std::vector<Outcome> outs;
                run_batch(sc, all, batch, outs);
                for (size_t k = 0; k < batch.size(); k++) {
                    Outcome& o = outs[k]; Exec& e = batch[k];
                    execs++; perLevel[b]++;
                    pointsMax = std::max<uint64_t>(pointsMax, o.points.size());
                    if (o.contended) contendedSchedules++;
                    cnt["scheduling_points"] += o.points.size();
                    uint64_t sig = 1469598103934665603ULL;
                    for (auto& p : o.points) { int chosen = p.enabled[(int)p.choice]; sig = (sig ^ (uint64_t)(chosen + 1)) * 1099511628211ULL; sig = (sig ^ (uint64_t)(p.kind + 7)) * 1099511628211ULL; }
                    signatures.insert(sig);
                    std::string choices; for (size_t i = 0; i < o.points.size(); i++) choices += std::to_string((int)o.points[i].choice) + ",";
                    std::string oc; for (auto& d : o.digests) oc += d + "\x1f"; outcomes.insert(oc);
                    auto report = [&](const std::string& kind, const std::string& extra) {
                        cnt["violations"]++; cnt["violations:" + kind]++;
                        if (viol.size() < 400) viol.push_back("{\"case\":" + std::to_string(execs) + ",\"kind\":" + jstr(kind) + ",\"scenario\":" + jstr(sc.name) + ",\"preemptions\":" + std::to_string(e.cost) + ",\"schedule\":" + jstr(choices) + extra + "}");
                    };
                    if (o.diverged) { cnt["harness_flaky"]++; report("replay-diverged", ""); }
                    if (o.overflow) cnt["trace_overflow"]++;
                    if (o.race) {
                        // one violation per distinct racing pair (top frames of the two accesses) reported in this execution
                        std::string r = o.report; std::set<std::string> seenPairs; size_t pos = 0; int nrep = 0;
                        while ((pos = r.find("WARNING: ThreadSanitizer", pos)) != std::string::npos) {
                            size_t endp = r.find("WARNING: ThreadSanitizer", pos + 10);
                            std::string blk = r.substr(pos, endp == std::string::npos ? std::string::npos : endp - pos);
                            pos += 10; nrep++;
                            auto fn = [&](size_t from, size_t& after) { size_t p1 = blk.find("#0 ", from); if (p1 == std::string::npos) { after = std::string::npos; return std::string(); }
                                size_t e1 = blk.find('\n', p1); after = e1; std::string line = blk.substr(p1 + 3, e1 - p1 - 3); size_t par = line.find(" /"); if (par != std::string::npos) line = line.substr(0, par);
                                if (line.compare(0, 9, "icu_touch") == 0) {   // shadow cell of an ICU converter: name the library function that made the ICU call (frame #2)
                                    size_t p2 = blk.find("#2 ", e1); size_t blank = blk.find("\n\n", e1);
                                    if (p2 != std::string::npos && (blank == std::string::npos || p2 < blank)) { size_t e2 = blk.find('\n', p2); std::string l2 = blk.substr(p2 + 3, e2 - p2 - 3); size_t q = l2.find(" /"); if (q != std::string::npos) l2 = l2.substr(0, q); line = "unsynchronised use of an ICU converter in " + l2; }
                                }
                                return line; };
                            size_t aft = 0; std::string f1 = fn(0, aft), f2 = aft == std::string::npos ? std::string() : fn(aft, aft);
                            std::string kindLine = blk.substr(0, blk.find('\n'));
                            std::string where = f1 + " <-> " + f2;
                            if (seenPairs.insert(where).second) report("data-race", ",\"where\":" + jstr(where) + ",\"tsan\":" + jstr(kindLine) + ",\"report\":" + jstr(blk.substr(0, 2200)));
                        }
                        if (nrep == 0) report("data-race", ",\"where\":\"unparsed\",\"report\":" + jstr(r.substr(0, 2200)));
                    }
                    if (o.deadlock) report("deadlock", ",\"report\":" + jstr(o.report.substr(0, 500)));
                    if (o.crash) report("crash", ",\"report\":" + jstr(o.report.substr(0, 2500)));
                    if (!o.crash && !o.deadlock)
                        for (int i = 0; i < n; i++) if (o.digests[i] != ref[i]) { report("result-differs-from-single-threaded", ",\"thread\":" + std::to_string(i) + ",\"expected\":" + jstr(ref[i]) + ",\"observed\":" + jstr(o.digests[i])); break; }
                    if (o.crash || o.deadlock) continue;  // no successors of a broken execution
                    int pre = e.cost;
                    for (size_t i = e.prefix.size(); i < o.points.size(); i++) {
                        const sc_point& p = o.points[i];
                        for (int alt = 1; alt < p.nenabled; alt++) {
                            int c = pre + (p.running_enabled ? 1 : 0);
                            if (c > maxBound) continue;
                            Exec ne; ne.cost = c;
                            for (size_t j = 0; j < i; j++) ne.prefix.push_back(o.points[j].choice);
                            ne.prefix.push_back(alt);
                            level[c].push_back(ne);
                        }
                    }
                    if (samples.size() < 6 && (execs % 97 == 1)) samples.push_back("{\"scenario\":" + jstr(sc.name) + ",\"preemptions\":" + std::to_string(e.cost) + ",\"schedule\":" + jstr(choices.substr(0, 200)) + ",\"points\":" + std::to_string(o.points.size()) + "}");
                }
            }
            if (!capped) completedBound = b;
        }
        cnt["evaluations"] += execs; cnt["schedules"] += execs; cnt["distinct_schedule_signatures"] += signatures.size();
        cnt["contended_schedules"] += contendedSchedules; cnt["scenarios"]++;
        cnt["distinct_outcomes"] += outcomes.size();
        if (capped) cnt["deadline_skipped"]++;
        std::string pl; for (int b = 0; b <= maxBound; b++) pl += (b ? "," : "") + std::to_string(perLevel[b]);
        perScenario += std::string(perScenario.empty() ? "" : ",") + jstr(sc.name) + ":{\"threads\":" + std::to_string(n) + ",\"schedules\":" + std::to_string(execs) + ",\"per_preemption_level\":[" + pl + "],\"bound_completed\":" + std::to_string(completedBound) +
                       ",\"points_max\":" + std::to_string(pointsMax) + ",\"contended_schedules\":" + std::to_string(contendedSchedules) + ",\"distinct_outcomes\":" + std::to_string(outcomes.size()) + ",\"capped\":" + (capped ? "true" : "false") + "}";
    }
    clock_gettime(CLOCK_MONOTONIC, &ts); double wall = ts.tv_sec + ts.tv_nsec * 1e-9 - t0;
    FILE* f = fopen(out.c_str(), "w");
    fprintf(f, "{\"space\":\"schedules\",\"total\":%llu,\"wall_s\":%.2f,\"bound\":%d,\"scenarios\":{%s},\"counters\":{", (unsigned long long)cnt["evaluations"], wall, maxBound, perScenario.c_str());
    bool first = true; for (auto& kv : cnt) { fprintf(f, "%s%s:%llu", first ? "" : ",", jstr(kv.first).c_str(), (unsigned long long)kv.second); first = false; }
    fprintf(f, "},\"violations\":["); for (size_t i = 0; i < viol.size(); i++) fprintf(f, "%s%s", i ? "," : "", viol[i].c_str());
    fprintf(f, "],\"samples\":["); for (size_t i = 0; i < samples.size(); i++) fprintf(f, "%s%s", i ? "," : "", samples[i].c_str());
    fprintf(f, "]}\n"); fclose(f);
    if (cnt["harness_flaky"]) return 3;
    return cnt["violations"] ? 1 : 0;
}
