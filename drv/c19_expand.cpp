// c19_expand - C19 space B: SecurityManager entity-expansion limit and recursion detection.
//
//   --space ge     every definition graph on n <= N general entities e0..e(n-1) in which each entity's replacement text references a multiset
//                  of <= 2 entities (self references and cycles included): 3 + 36 + 1000 (+ 50625 for N=4) labelled graphs, referenced as &e0;
//                  from element content / from an attribute value / from both; variant "last entity is external" for the content site.
//                  Per graph: no SecurityManager (baseline), limits 0..T+1 (T = reference expansion count, capped at 40; 0..n+2 when a cycle is reachable)
//                  and 50000.  Graphs on 4 entities are run on the first --parsers4 parser(s) only.
//   --space pe     the same graphs on <= N parameter entities (references written &#37;pK; so that they are expanded when the containing PE is
//                  included), referenced as %p0; from the internal subset.
//   --space schema the same graphs (n <= 2 by default) in the internal subset of the *schema document* named by xsi:noNamespaceSchemaLocation.
//   --space predef k predefined-entity references (&lt;), limits 0..k+1, all four scanners.
// Reference (computed on the graph, independent of the library): T = number of entity references expanded when the document is processed completely
// (infinite if a cycle is reachable).  Oracle: acyclic => fatal "expansion limit" error iff T > limit, at most `limit` startEntity events before it,
// result identical to the baseline when T <= limit; cycle reachable => fatal error (recursive entity, or the limit if that strikes first) and
// termination (runner watchdog); at most `limit` startEntity events in every case.
#include "xv_xml.hpp"
using namespace xv;

struct KnownDefect { const char* id; const char* what; };
static const KnownDefect KNOWN_DEFECTS[] = {
    {"pe-expansion-not-counted",
     "parameter-entity references are entity references (XML 1.0 4.1), but DTDScanner::expandPERef has no SecurityManager counter: a document whose processing "
     "expands more PE references than the configured limit is accepted"},
    {"schema-document-expansions-not-limited",
     "the internal XSDDOMParser that reads schema documents does not inherit the SecurityManager: entity references expanded while a schema document named by "
     "xsi:schemaLocation / noNamespaceSchemaLocation (or import/include/redefine) is read are not counted against the limit"},
};
static bool g_strict = false;

// ------------------------------------------------------------------------------------------------ graphs
static int g_N = 3;
struct GraphId { int n; uint64_t code; };
static std::vector<uint64_t> g_cum;  // cumulative number of graphs for n = 1..N
static int nopts(int n) { return 1 + n + n * (n + 1) / 2; }
static std::vector<int> multiset_at(int n, int o) {  // o in [0, nopts(n))
    if (o == 0) return {};
    o -= 1;
    if (o < n) return {o};
    o -= n;
    for (int a = 0; a < n; a++)
        for (int b2 = a; b2 < n; b2++) { if (o == 0) return {a, b2}; o--; }
    return {};
}
static uint64_t ipow(uint64_t b, int e) { uint64_t r = 1; while (e--) r *= b; return r; }
static uint64_t ngraphs() { uint64_t t = 0; g_cum.clear(); for (int n = 1; n <= g_N; n++) { t += ipow(nopts(n), n); g_cum.push_back(t); } return t; }
static std::vector<std::vector<int>> graph_at(uint64_t g) {
    int n = 1; uint64_t prev = 0;
    for (size_t i = 0; i < g_cum.size(); i++) { if (g < g_cum[i]) { n = (int)i + 1; break; } prev = g_cum[i]; }
    uint64_t code = g - prev;
    std::vector<std::vector<int>> ch(n);
    for (int i = 0; i < n; i++) { ch[i] = multiset_at(n, (int)(code % nopts(n))); code /= nopts(n); }
    return ch;
}
static std::string graph_str(const std::vector<std::vector<int>>& ch) {
    std::string s;
    for (size_t i = 0; i < ch.size(); i++) { s += "e" + std::to_string(i) + "->("; for (size_t k = 0; k < ch[i].size(); k++) { if (k) s += ","; s += "e" + std::to_string(ch[i][k]); } s += ") "; }
    return s;
}
// reference expansion count of one reference to e (UINT64_MAX: a cycle is reachable)
static const uint64_t INF = UINT64_MAX;
static uint64_t count_from(const std::vector<std::vector<int>>& ch, int e, std::vector<int>& onpath) {
    if (onpath[e]) return INF;
    onpath[e] = 1;
    uint64_t t = 1;
    for (int c : ch[e]) { uint64_t s = count_from(ch, c, onpath); if (s == INF) { onpath[e] = 0; return INF; } t += s; }
    onpath[e] = 0;
    return t;
}

static int rs_count(const ParseResult& r) { int n = 0; for (auto& l : r.d.lines) if (l.compare(0, 3, "RS|") == 0) n++; return n; }
static bool has_msg(const ParseResult& r, const char* sub) { for (auto& e : r.errors) if (e[0] == 'F' && e.find(sub) != std::string::npos) return true; return false; }
static const char* MSG_LIMIT = "entity expansions in the document";
static const char* MSG_REC = "recursive entity expansion";

struct PCfg { int api, scanner; bool erefs; const char* name; };
static const PCfg PCFG[] = {{SAX2, IG, false, "SAX2/IG"}, {SAX2, DG, false, "SAX2/DG"}, {DOM, IG, true, "DOM+entrefs/IG"}, {SAX1, DG, false, "SAX1/DG"}};
static int g_npcfg = 3;
static int g_npcfg4 = 1;  // parsers used for the 50625 graphs on 4 entities (budget)

// ------------------------------------------------------------------------------------------------ space ge
enum Site { S_CONTENT, S_ATTR, S_BOTH, S_CONTENT_EXT, NSITE };
static const char* SiteName[] = {"content", "attribute", "attribute+content", "content, last entity external"};

static void run_ge(uint64_t idx, Ctx& cx) {
    int site = (int)(idx % NSITE);
    auto ch = graph_at(idx / NSITE);
    int n = (int)ch.size();
    std::string subset, doc;
    g_vfs->clear();
    for (int i = 0; i < n; i++) {
        std::string text = "t";
        for (int c : ch[i]) text += "&e" + std::to_string(c) + ";";
        if (site == S_CONTENT_EXT && i == n - 1) { subset += "<!ENTITY e" + std::to_string(i) + " SYSTEM \"e" + std::to_string(i) + ".ent\">"; g_vfs->put("/v/e" + std::to_string(i) + ".ent", text); }
        else subset += "<!ENTITY e" + std::to_string(i) + " \"" + text + "\">";
    }
    doc = "<!DOCTYPE r [" + subset + "]>";
    if (site == S_CONTENT || site == S_CONTENT_EXT) doc += "<r>&e0;</r>";
    else if (site == S_ATTR) doc += "<r x=\"&e0;\"/>";
    else doc += "<r x=\"&e0;\">&e0;</r>";
    std::vector<int> onpath(n, 0);
    uint64_t one = count_from(ch, 0, onpath);
    uint64_t T = one == INF ? INF : (site == S_BOTH ? 2 * one : one);
    bool cyclic = (T == INF);
    cx.count(cyclic ? "graphs_cycle_reachable" : "graphs_acyclic_reachable");
    std::string where = "\"graph\":" + jstr(graph_str(ch)) + ",\"site\":" + jstr(SiteName[site]) + ",\"doc\":" + jstr(doc) + ",\"reference_count\":" + (cyclic ? std::string("\"infinite\"") : std::to_string((unsigned long long)T));
    ParseIO io; io.bytes = doc;
    for (int pc = 0; pc < (n >= 4 ? g_npcfg4 : g_npcfg); pc++) {
        Config c; c.api = PCFG[pc].api; c.scanner = PCFG[pc].scanner; c.entRefNodes = PCFG[pc].erefs;
        auto viol = [&](const std::string& kind, int limit, const ParseResult& r, const std::string& what) {
            cx.violation(kind, where + ",\"parser\":" + jstr(PCFG[pc].name) + ",\"limit\":" + std::to_string(limit) + ",\"what\":" + jstr(what) + ",\"errors\":" + jstr(join(r.errors)) +
                                   ",\"startEntity_events\":" + std::to_string(rs_count(r)));
        };
        c.secLimit = -1;
        ParseResult base = parse_xerces(c, io);
        cx.count("parses");
        if (base.exc.compare(0, 7, "FOREIGN") == 0) viol("foreign-exception", -1, base, base.exc);
        if (cyclic) {
            if (!(base.fatals && has_msg(base, MSG_REC))) viol("cycle-not-reported", -1, base, "a self-referential entity must be reported as a fatal 'recursive entity' error");
            else cx.count("cycle_reported_without_limit");
        } else {
            if (base.fatals || !base.exc.empty()) viol("harness-baseline-fails", -1, base, "acyclic document must parse without SecurityManager");
            else cx.count("baseline_ok");
        }
        // limits 0..T+1 (capped), a limit far above, and the SecurityManager default
        std::vector<int> limits;
        uint64_t top = cyclic ? (uint64_t)(n + 2) : std::min<uint64_t>(T + 1, 40);
        for (uint64_t L = 0; L <= top; L++) limits.push_back((int)L);
        limits.push_back(50000);
        for (int L : limits) {
            c.secLimit = L;
            ParseResult r = parse_xerces(c, io);
            cx.count("parses");
            int rs = rs_count(r);
            bool lim = r.fatals && has_msg(r, MSG_LIMIT), rec = r.fatals && has_msg(r, MSG_REC);
            if (r.exc.compare(0, 7, "FOREIGN") == 0) viol("foreign-exception", L, r, r.exc);
            if (rs > L) viol("more-expansions-started-than-limit", L, r, "startEntity events exceed the limit");
            if (cyclic) {
                if (!(lim || rec)) viol("cycle-not-rejected", L, r, "cyclic entity definition must end in a fatal error");
                else cx.count(lim ? "cyclic_stopped_by_limit" : "cyclic_stopped_by_recursion_check");
            } else if (T > (uint64_t)L) {
                if (!lim) viol("limit-not-enforced", L, r, "reference count exceeds the limit but no expansion-limit fatal error");
                else { cx.count("rejected_over_limit"); if ((uint64_t)L + 1 == T) cx.count("rejected_at_limit_plus_one"); }
            } else {
                if (lim || rec || r.fatals) viol("rejected-within-limit", L, r, "reference count is within the limit but the document was rejected");
                else if (r.d.lines != base.d.lines || r.errors != base.errors || r.exc != base.exc) viol("result-differs-with-security-manager", L, r, "dump differs from the parse without SecurityManager");
                else { cx.count("accepted_within_limit"); if ((uint64_t)L == T) cx.count("accepted_at_exact_limit"); }
            }
        }
    }
    cx.count(std::string("site:") + SiteName[site]);
    if (idx % 997 == 0) cx.sample("{" + where + "}");
    if (cx.verbose) printf("graph %s site %s\ndoc %s\nreference count %s\n", graph_str(ch).c_str(), SiteName[site], doc.c_str(), cyclic ? "infinite" : std::to_string((unsigned long long)T).c_str());
}

// ------------------------------------------------------------------------------------------------ space pe
static void run_pe(uint64_t idx, Ctx& cx) {
    auto ch = graph_at(idx);
    int n = (int)ch.size();
    std::string subset;
    for (int i = 0; i < n; i++) {
        std::string text;
        for (int c : ch[i]) text += "&#37;p" + std::to_string(c) + ";";
        text += "<!--c" + std::to_string(i) + "-->";
        subset += "<!ENTITY % p" + std::to_string(i) + " \"" + text + "\">";
    }
    std::string doc = "<!DOCTYPE r [" + subset + "%p0;]><r/>";
    std::vector<int> onpath(n, 0);
    uint64_t T = count_from(ch, 0, onpath);
    bool cyclic = (T == INF);
    cx.count(cyclic ? "graphs_cycle_reachable" : "graphs_acyclic_reachable");
    std::string where = "\"graph\":" + jstr(graph_str(ch)) + ",\"doc\":" + jstr(doc) + ",\"reference_count\":" + (cyclic ? std::string("\"infinite\"") : std::to_string((unsigned long long)T));
    ParseIO io; io.bytes = doc;
    for (int pc = 0; pc < 2; pc++) {  // SAX2 x {IG, DG}
        Config c; c.api = PCFG[pc].api; c.scanner = PCFG[pc].scanner;
        auto viol = [&](const std::string& kind, int limit, const ParseResult& r, const std::string& what) {
            cx.violation(kind, where + ",\"parser\":" + jstr(PCFG[pc].name) + ",\"limit\":" + std::to_string(limit) + ",\"what\":" + jstr(what) + ",\"errors\":" + jstr(join(r.errors)));
        };
        c.secLimit = -1;
        ParseResult base = parse_xerces(c, io);
        cx.count("parses");
        if (cyclic) {
            if (!(base.fatals && has_msg(base, MSG_REC))) viol("pe-cycle-not-reported", -1, base, "a self-referential parameter entity must be reported as a fatal 'recursive entity' error");
            else cx.count("cycle_reported_without_limit");
        } else if (base.fatals || !base.exc.empty()) viol("harness-baseline-fails", -1, base, "acyclic document must parse without SecurityManager");
        else cx.count("baseline_ok");
        uint64_t top = cyclic ? (uint64_t)(n + 2) : std::min<uint64_t>(T + 1, 40);
        for (uint64_t L = 0; L <= top; L++) {
            c.secLimit = (int)L;
            ParseResult r = parse_xerces(c, io);
            cx.count("parses");
            bool lim = r.fatals && has_msg(r, MSG_LIMIT), rec = r.fatals && has_msg(r, MSG_REC);
            if (cyclic) {
                if (!(lim || rec)) viol("pe-cycle-not-rejected", (int)L, r, "cyclic parameter-entity definition must end in a fatal error");
                else cx.count(lim ? "cyclic_stopped_by_limit" : "cyclic_stopped_by_recursion_check");
            } else if (T > L) {
                if (!lim) {
                    if (g_strict) viol(std::string("known-defect:") + KNOWN_DEFECTS[0].id, (int)L, r, "parameter-entity reference count exceeds the limit but the document is accepted");
                    else cx.count(std::string("known_defect:") + KNOWN_DEFECTS[0].id);
                } else cx.count("rejected_over_limit");
            } else {
                if (r.fatals) viol("pe-rejected-within-limit", (int)L, r, "reference count is within the limit but the document was rejected");
                else if (r.d.lines != base.d.lines || r.errors != base.errors) viol("result-differs-with-security-manager", (int)L, r, "dump differs from the parse without SecurityManager");
                else cx.count("accepted_within_limit");
            }
        }
    }
    if (idx % 97 == 0) cx.sample("{" + where + "}");
    if (cx.verbose) printf("graph %s\ndoc %s\nreference count %s\n", graph_str(ch).c_str(), doc.c_str(), cyclic ? "infinite" : std::to_string((unsigned long long)T).c_str());
}

// ------------------------------------------------------------------------------------------------ space schema
// the entity graph lives in the internal subset of a *schema document* that the instance names through xsi:noNamespaceSchemaLocation
static void run_schema(uint64_t idx, Ctx& cx) {
    int scanner = (idx % 2) ? SG : IG;
    auto ch = graph_at(idx / 2);
    int n = (int)ch.size();
    std::string subset;
    for (int i = 0; i < n; i++) {
        std::string text = "t";
        for (int c : ch[i]) text += "&e" + std::to_string(c) + ";";
        subset += "<!ENTITY e" + std::to_string(i) + " \"" + text + "\">";
    }
    std::string xsd = "<!DOCTYPE xs:schema [" + subset + "]><xs:schema xmlns:xs=\"http://www.w3.org/2001/XMLSchema\"><xs:annotation><xs:documentation>&e0;</xs:documentation></xs:annotation>"
                      "<xs:element name=\"r\" type=\"xs:string\"/></xs:schema>";
    std::string doc = "<r xmlns:xsi=\"http://www.w3.org/2001/XMLSchema-instance\" xsi:noNamespaceSchemaLocation=\"s.xsd\">x</r>";
    std::vector<int> onpath(n, 0);
    uint64_t T = count_from(ch, 0, onpath);
    bool cyclic = (T == INF);
    cx.count(cyclic ? "graphs_cycle_reachable" : "graphs_acyclic_reachable");
    std::string where = "\"graph\":" + jstr(graph_str(ch)) + ",\"schema_document\":" + jstr(xsd) + ",\"doc\":" + jstr(doc) + ",\"scanner\":" + jstr(ScnName[scanner]) +
                        ",\"reference_count\":" + (cyclic ? std::string("\"infinite\"") : std::to_string((unsigned long long)T));
    ParseIO io; io.bytes = doc;
    Config c; c.api = SAX2; c.scanner = scanner; c.ns = true; c.schema = true; c.val = 1;
    auto viol = [&](const std::string& kind, int limit, const ParseResult& r, const std::string& what) {
        cx.violation(kind, where + ",\"limit\":" + std::to_string(limit) + ",\"what\":" + jstr(what) + ",\"errors\":" + jstr(join(r.errors)));
    };
    auto fresh = [&]() { g_vfs->clear(); g_vfs->put("/v/s.xsd", xsd); };
    fresh();
    c.secLimit = -1;
    ParseResult base = parse_xerces(c, io);
    cx.count("parses");
    bool opened = std::find(g_vfs->log.begin(), g_vfs->log.end(), "open /v/s.xsd") != g_vfs->log.end();
    if (!opened) viol("harness-schema-not-read", -1, base, "the schema document was not opened");
    if (cyclic) {
        if (!(base.fatals && has_msg(base, MSG_REC))) viol("schema-cycle-not-reported", -1, base, "a self-referential entity in a schema document must be reported as a fatal error");
        else cx.count("cycle_reported_without_limit");
    } else if (base.fatals || base.errs || !base.exc.empty()) viol("harness-baseline-fails", -1, base, "acyclic schema document must load and validate the instance");
    else cx.count("baseline_ok");
    uint64_t top = cyclic ? (uint64_t)(n + 2) : std::min<uint64_t>(T + 1, 40);
    for (uint64_t L = 0; L <= top; L++) {
        fresh();
        c.secLimit = (int)L;
        ParseResult r = parse_xerces(c, io);
        cx.count("parses");
        bool lim = r.fatals && has_msg(r, MSG_LIMIT), rec = r.fatals && has_msg(r, MSG_REC);
        if (cyclic) {
            if (!(lim || rec)) viol("schema-cycle-not-rejected", (int)L, r, "cyclic entity definition in a schema document must end in a fatal error");
            else cx.count(lim ? "cyclic_stopped_by_limit" : "cyclic_stopped_by_recursion_check");
        } else if (T > L) {
            if (!lim) {
                if (g_strict) viol(std::string("known-defect:") + KNOWN_DEFECTS[1].id, (int)L, r, "entity references expanded in the schema document exceed the limit but the parse is accepted");
                else cx.count(std::string("known_defect:") + KNOWN_DEFECTS[1].id);
            } else cx.count("rejected_over_limit");
        } else {
            if (r.fatals) viol("rejected-within-limit", (int)L, r, "reference count is within the limit but the document was rejected");
            else if (r.d.lines != base.d.lines || r.errors != base.errors) viol("result-differs-with-security-manager", (int)L, r, "dump differs from the parse without SecurityManager");
            else cx.count("accepted_within_limit");
        }
    }
    if (idx % 97 == 0) cx.sample("{" + where + "}");
    if (cx.verbose) printf("graph %s\nschema %s\ndoc %s\n", graph_str(ch).c_str(), xsd.c_str(), doc.c_str());
}

// ------------------------------------------------------------------------------------------------ space predef (observation + "within the limit unaffected")
static int g_predefK = 4;
static void run_predef(uint64_t idx, Ctx& cx) {
    int scanner = (int)(idx % 4), site = (int)((idx / 4) % 2), k = (int)(idx / 8);
    std::string refs;
    for (int i = 0; i < k; i++) refs += (i % 2) ? "&amp;" : "&lt;";
    std::string doc = site == 0 ? "<r>" + refs + "</r>" : "<r x=\"" + refs + "\"/>";
    ParseIO io; io.bytes = doc;
    Config c; c.api = SAX2; c.scanner = scanner; c.ns = (scanner == SG);
    ParseResult base = parse_xerces(c, io);
    cx.count("parses");
    for (int L = 0; L <= k + 1; L++) {
        c.secLimit = L;
        ParseResult r = parse_xerces(c, io);
        cx.count("parses");
        bool lim = r.fatals && has_msg(r, MSG_LIMIT);
        if (k <= L) {
            if (r.fatals || r.d.lines != base.d.lines) cx.violation("rejected-within-limit", "\"doc\":" + jstr(doc) + ",\"scanner\":" + jstr(ScnName[scanner]) + ",\"limit\":" + std::to_string(L));
            else cx.count("accepted_within_limit");
        } else cx.count(std::string(lim ? "observation:predefined_refs_counted:" : "observation:predefined_refs_not_counted:") + ScnName[scanner]);
    }
}

int main(int argc, char** argv) {
    Args a(argc, argv);
    xml_init();
    std::string space = a.str("space", "ge");
    g_N = (int)a.num("n", 3);
    g_strict = a.num("strict", 0) != 0;
    g_npcfg = (int)a.num("parsers", 3);
    g_npcfg4 = (int)a.num("parsers4", 1);
    g_predefK = (int)a.num("refs", 4);
    Runner R;
    R.name = space;
    uint64_t ng = ngraphs();
    if (space == "ge") { R.total = ng * NSITE; R.fn = run_ge; R.describe = [](uint64_t i) { return "{\"graph\":" + jstr(graph_str(graph_at(i / NSITE))) + ",\"site\":" + jstr(SiteName[i % NSITE]) + "}"; }; }
    else if (space == "pe") { R.total = ng; R.fn = run_pe; R.describe = [](uint64_t i) { return "{\"graph\":" + jstr(graph_str(graph_at(i))) + "}"; }; }
    else if (space == "schema") { R.total = ng * 2; R.fn = run_schema; R.describe = [](uint64_t i) { return "{\"graph\":" + jstr(graph_str(graph_at(i / 2))) + "}"; }; }
    else if (space == "predef") { R.total = 8ull * (g_predefK + 1); R.fn = run_predef; R.describe = [](uint64_t i) { return "{\"idx\":" + std::to_string((unsigned long long)i) + "}"; }; }
    else { fprintf(stderr, "unknown space\n"); return 2; }
    R.extra_json = "\"entities\":" + std::to_string(g_N) + ",\"graphs\":" + std::to_string((unsigned long long)ng);
    return R.main_tail(a);
}
