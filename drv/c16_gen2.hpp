// c16_gen2.hpp - schema component families (attribute uses, simple type facets, lists/unions, complex types, groups,
// identity constraints, annotations, namespaces/imports, mixed pools) and the family registry.
#pragma once
#include "c16_gen.hpp"

namespace c16 {

// ================================================================================================ attribute uses
inline std::string attr_type_xml(int ty, std::string& inlineType) {
    inlineType.clear();
    switch (ty) {
    case 0: return " type='xs:string'";
    case 1: return " type='xs:int'";
    case 2: return " type='xs:ID'";
    case 3: return " type='xs:boolean'";
    case 4: return " type='xs:QName'";
    case 5: return " type='%st'";
    case 6: inlineType = "<xs:simpleType><xs:restriction base='xs:int'><xs:maxInclusive value='10'/></xs:restriction></xs:simpleType>"; return "";
    default: inlineType = "<xs:simpleType><xs:list itemType='xs:int'/></xs:simpleType>"; return "";
    }
}
static const char* const ATTR_TYPE_NAME[8] = {"string", "int", "ID", "boolean", "QName", "user-enum", "anon-restriction", "anon-list"};
static const char* const ATTR_GOOD[8] = {"hello", "7", "id1", "true", "o:q", "x", "7", "7 8"};

inline void gen_xsd_attr(std::vector<GCase>& out, bool thorough) {
    // (use, value-constraint) combinations that are legal
    struct UV { const char* use; const char* vc; };
    const UV uvs[6] = {{"optional", ""}, {"optional", "default"}, {"optional", "fixed"}, {"required", ""}, {"required", "fixed"}, {"prohibited", ""}};
    for (int t = 0; t < 2; t++) {
        Ns ns{t == 0};
        for (int uv = 0; uv < 6; uv++) for (int ty = 0; ty < 8; ty++) for (int decl = 0; decl < 3; decl++) {
            if (ty == 2 && uvs[uv].vc[0]) continue;   // ID attributes may not carry a value constraint
            if (!thorough && t == 1 && !(ty == 1 || ty == 5 || ty == 7)) continue;
            std::string inl;
            std::string ta = attr_type_xml(ty, inl);
            std::string vc = uvs[uv].vc[0] ? std::string(" ") + uvs[uv].vc + "='" + ATTR_GOOD[ty] + "'" : "";
            std::string body = XSD_R_AND_AB;
            body += "<xs:simpleType name='st'><xs:restriction base='xs:string'><xs:enumeration value='x'/><xs:enumeration value='y'/></xs:restriction></xs:simpleType>\n";
            std::string use;
            if (decl == 2) {  // global declaration + ref (value constraint on the use)
                body += "<xs:attribute name='k'" + ta + ">" + inl + "</xs:attribute>\n";
                use = "<xs:attribute ref='%k' use='" + std::string(uvs[uv].use) + "'" + vc + "/>";
            } else
                use = "<xs:attribute name='k'" + ta + (decl == 1 ? " form='qualified'" : "") + " use='" + uvs[uv].use + "'" + vc + ">" + inl + "</xs:attribute>";
            body += "<xs:element name='e'><xs:complexType>" + use + "<xs:attribute name='z' type='xs:string'/></xs:complexType></xs:element>\n";
            GCase g = xsd_case("xsd-attribute-use", std::string(uvs[uv].use) + "/" + uvs[uv].vc + "/" + ATTR_TYPE_NAME[ty] + (decl == 0 ? "/local" : decl == 1 ? "/local-qualified" : "/global-ref"), ns, body);
            std::string d = "<%r>\n<%e/>\n";
            const char* vals[] = {"hello", "7", "id1", "true", "o:q", "x", "7 8", "11", "zz zz", " 7 ", "id1"};
            for (auto v : vals) {
                d += std::string("<%e k='") + v + "'/>\n";
                if (ns.tns || decl == 1) d += std::string("<%e %k='") + v + "'/>\n";
            }
            d += "<%e z='1' q='undeclared'/>\n<%e o:f='foreign'/>\n</%r>\n";
            g.instances.push_back(ns.inst(d));
            if (uv == 5) g.psvi = false;   // prohibited attribute present + PSVI handler: null PSVIAttribute dereference in IGXMLScanner::buildAttList (unrelated defect)
            out.push_back(g);
        }
        // attribute wildcards
        const char* nsc[5] = {"##any", "##other", "##local", "##targetNamespace", "urn:o urn:p"};
        const char* pc[3] = {"lax", "skip", "strict"};
        for (int n = 0; n < 5; n++) for (int p = 0; p < 3; p++) for (int withAttr = 0; withAttr < 2; withAttr++) for (int viaGroup = 0; viaGroup < 2; viaGroup++) {
            if (!thorough && t == 1 && p != 0) continue;
            std::string body = XSD_R_AND_AB;
            body += "<xs:attribute name='ga' type='xs:int'/>\n";
            std::string w = std::string("<xs:anyAttribute namespace='") + nsc[n] + "' processContents='" + pc[p] + "'/>";
            std::string at = withAttr ? "<xs:attribute name='k' type='xs:int' default='3'/>" : "";
            if (viaGroup) {
                body += "<xs:attributeGroup name='ag'>" + at + w + "</xs:attributeGroup>\n";
                body += "<xs:attributeGroup name='ag2'><xs:attribute name='m' type='xs:boolean' use='required'/><xs:attributeGroup ref='%ag'/></xs:attributeGroup>\n";
                body += "<xs:element name='e'><xs:complexType><xs:attributeGroup ref='%ag2'/></xs:complexType></xs:element>\n";
            } else
                body += "<xs:element name='e'><xs:complexType>" + at + w + "</xs:complexType></xs:element>\n";
            GCase g = xsd_case("xsd-attribute-wildcard", std::string(nsc[n]) + "/" + pc[p] + (withAttr ? "/+attr" : "") + (viaGroup ? "/attributeGroup" : ""), ns, body);
            std::string d = "<%r>\n<%e/>\n<%e m='true'/>\n<%e m='1' k='4'/>\n<%e m='1' k='bad'/>\n<%e m='1' o:f='foreign'/>\n<%e m='1' q='local'/>\n";
            if (ns.tns) d += "<%e m='1' t:ga='5'/>\n<%e m='1' t:ga='bad'/>\n<%e m='1' t:nn='5'/>\n";
            else d += "<%e m='1' ga='5'/>\n<%e m='1' ga='bad'/>\n";
            d += "<%e m='1' xmlns:p='urn:p' p:f='p'/>\n</%r>\n";
            g.instances.push_back(ns.inst(d));
            out.push_back(g);
        }
        // restriction of attribute uses in a derived type
        const char* restr[5] = {"<xs:attribute name='k' type='xs:int' use='prohibited'/>", "<xs:attribute name='k' type='xs:int' use='required'/>", "<xs:attribute name='k' type='xs:int' fixed='5'/>",
                                "<xs:attribute name='k'><xs:simpleType><xs:restriction base='xs:int'><xs:maxInclusive value='9'/></xs:restriction></xs:simpleType></xs:attribute>", ""};
        for (int r = 0; r < 5; r++) {
            std::string body = XSD_R_AND_AB;
            body += "<xs:complexType name='B'><xs:attribute name='k' type='xs:int'/><xs:attribute name='z' type='xs:string' default='zd'/><xs:anyAttribute namespace='##other' processContents='lax'/></xs:complexType>\n";
            body += "<xs:complexType name='D'><xs:complexContent><xs:restriction base='%B'>" + std::string(restr[r]) + "</xs:restriction></xs:complexContent></xs:complexType>\n";
            body += "<xs:element name='e' type='%B'/>\n";
            GCase g = xsd_case("xsd-attribute-restriction", "variant " + std::to_string(r), ns, body);
            g.instances.push_back(ns.inst("<%r>\n<%e/>\n<%e k='5'/>\n<%e k='12'/>\n<%e xsi:type='%D'/>\n<%e xsi:type='%D' k='5'/>\n<%e xsi:type='%D' k='12'/>\n<%e xsi:type='%D' o:f='1'/>\n</%r>\n"));
            out.push_back(g);
        }
    }
}

// ================================================================================================ simple type facets
struct BaseT {
    const char* name;
    const char* v1; const char* v2; const char* v3;  // valid lexical values, v1 < v2 < v3 for ordered types
    int lenKind;     // 0 none, 1 length facets apply
    int ordered;     // bounds apply
    int digits;      // 1 totalDigits only (integer family), 2 totalDigits + fractionDigits
    int ws;          // 0 collapse only, 1 replace|collapse, 2 preserve|replace|collapse
};
static const BaseT BASES[] = {
    {"string", "ab", "abc", "abcd  e", 1, 0, 0, 2},
    {"normalizedString", "ab", "abc", "abcd  e", 1, 0, 0, 1},
    {"token", "ab", "abc", "abcd e", 1, 0, 0, 0},
    {"language", "en", "en-US", "fr", 1, 0, 0, 0},
    {"NMTOKEN", "ab", "abc", "a.b-c", 1, 0, 0, 0},
    {"Name", "ab", "abc", "a:b", 1, 0, 0, 0},
    {"NCName", "ab", "abc", "a.b", 1, 0, 0, 0},
    {"ID", "ab", "abc", "abcd", 1, 0, 0, 0},
    {"anyURI", "ab", "u:c", "http://x/y", 1, 0, 0, 0},
    {"hexBinary", "0A", "0A0B", "0a0b0c", 1, 0, 0, 0},
    {"base64Binary", "QQ==", "QUI=", "QUJD", 1, 0, 0, 0},
    {"QName", "o:a", "o:ab", "abc", 0, 0, 0, 0},
    {"boolean", "true", "false", "1", 0, 0, 0, 0},
    {"decimal", "1.5", "20.25", "300", 0, 1, 2, 0},
    {"integer", "-5", "20", "300", 0, 1, 1, 0},
    {"int", "-5", "20", "300", 0, 1, 1, 0},
    {"long", "-5", "20", "3000000000", 0, 1, 1, 0},
    {"short", "-5", "20", "300", 0, 1, 1, 0},
    {"byte", "-5", "20", "100", 0, 1, 1, 0},
    {"unsignedByte", "5", "20", "200", 0, 1, 1, 0},
    {"unsignedLong", "5", "20", "18446744073709551615", 0, 1, 1, 0},
    {"nonNegativeInteger", "0", "20", "300", 0, 1, 1, 0},
    {"positiveInteger", "1", "20", "300", 0, 1, 1, 0},
    {"negativeInteger", "-300", "-20", "-1", 0, 1, 1, 0},
    {"float", "-1.5E2", "2.5", "INF", 0, 1, 0, 0},
    {"double", "-1.5E2", "2.5", "1.0E300", 0, 1, 0, 0},
    {"duration", "P1D", "P1M", "P1Y2M3DT4H5M6.7S", 0, 1, 0, 0},
    {"dateTime", "2000-01-01T00:00:00", "2001-06-15T12:30:00Z", "2002-12-31T23:59:59.5+01:00", 0, 1, 0, 0},
    {"date", "2000-01-01", "2001-06-15Z", "2002-12-31", 0, 1, 0, 0},
    {"time", "01:00:00Z", "12:30:00Z", "23:59:59.5Z", 0, 1, 0, 0},
    {"gYearMonth", "2000-01", "2001-06", "2002-12", 0, 1, 0, 0},
    {"gYear", "2000", "2001", "2002", 0, 1, 0, 0},
    {"gMonthDay", "--01-01", "--06-15", "--12-31", 0, 1, 0, 0},
    {"gDay", "---01", "---15", "---31", 0, 1, 0, 0},
    {"gMonth", "--01", "--06", "--12", 0, 1, 0, 0},
};
static const int NBASES = sizeof(BASES) / sizeof(BASES[0]);

inline std::string rx_quote(const std::string& s) {
    std::string o;
    for (char c : s) { if (strchr("\\|.-^?*+{}()[]", c)) o += '\\'; o += c; }
    return o;
}
inline std::string xml_attr_esc(const std::string& s) { return rep(rep(rep(s, "&", "&amp;"), "<", "&lt;"), "'", "&apos;"); }

struct FacetSpec { std::string label; std::string xml; };   // xml: the facet children of xs:restriction ('@F' replaced by the fixed attribute)

inline std::vector<FacetSpec> facets_for(const BaseT& b) {
    std::vector<FacetSpec> v;
    auto F = [&](const std::string& label, const std::string& xml) { v.push_back({label, xml}); };
    std::string v1 = xml_attr_esc(b.v1), v2 = xml_attr_esc(b.v2), v3 = xml_attr_esc(b.v3);
    F("none", "");
    if (b.lenKind) {
        size_t l2 = strcmp(b.name, "hexBinary") == 0 ? 2 : strcmp(b.name, "base64Binary") == 0 ? 2 : strlen(b.v2);
        F("length", "<xs:length value='" + std::to_string(l2) + "'@F/>");
        F("minLength", "<xs:minLength value='" + std::to_string(l2) + "'@F/>");
        F("maxLength", "<xs:maxLength value='" + std::to_string(l2) + "'@F/>");
        F("minLength+maxLength", "<xs:minLength value='1'@F/><xs:maxLength value='" + std::to_string(l2) + "'/>");
    }
    F("pattern", "<xs:pattern value='" + xml_attr_esc(rx_quote(b.v1)) + "'/>");
    F("pattern-x2", "<xs:pattern value='" + xml_attr_esc(rx_quote(b.v1)) + "'/><xs:pattern value='" + xml_attr_esc(rx_quote(b.v3)) + "'/>");
    bool isBool = strcmp(b.name, "boolean") == 0;   // xs:boolean has no enumeration facet
    if (!isBool) {
        F("enumeration", "<xs:enumeration value='" + v1 + "'/><xs:enumeration value='" + v3 + "'/>");
        F("enumeration-x1", "<xs:enumeration value='" + v2 + "'/>");
    }
    if (b.ws == 2) { F("whiteSpace-preserve", "<xs:whiteSpace value='preserve'@F/>"); F("whiteSpace-replace", "<xs:whiteSpace value='replace'@F/>"); }
    if (b.ws == 1) F("whiteSpace-replace", "<xs:whiteSpace value='replace'@F/>");
    F("whiteSpace-collapse", "<xs:whiteSpace value='collapse'@F/>");
    if (b.ordered) {
        F("minInclusive", "<xs:minInclusive value='" + v2 + "'@F/>");
        F("maxInclusive", "<xs:maxInclusive value='" + v2 + "'@F/>");
        F("minExclusive", "<xs:minExclusive value='" + v2 + "'@F/>");
        F("maxExclusive", "<xs:maxExclusive value='" + v2 + "'@F/>");
        F("minInclusive+maxInclusive", "<xs:minInclusive value='" + v1 + "'@F/><xs:maxInclusive value='" + v3 + "'/>");
        F("minExclusive+maxExclusive", "<xs:minExclusive value='" + v1 + "'/><xs:maxExclusive value='" + v3 + "'@F/>");
    }
    if (b.digits) F("totalDigits", "<xs:totalDigits value='2'@F/>");
    if (b.digits == 2) { F("fractionDigits", "<xs:fractionDigits value='1'@F/>"); F("totalDigits+fractionDigits", "<xs:totalDigits value='4'/><xs:fractionDigits value='2'@F/>"); }
    return v;
}

inline std::string value_doc(const Ns& ns, const std::vector<std::string>& vals, bool withAttr) {
    std::string d = "<%r>\n";
    for (auto& v : vals) {
        std::string e = rep(rep(v, "&", "&amp;"), "<", "&lt;");
        d += "<%e>" + e + "</%e>\n";
        if (withAttr && !v.empty()) d += "<%f at='" + xml_attr_esc(v) + "'/>\n";   // empty list-typed attribute value + PSVI: heap overflow in ListDatatypeValidator::getCanonicalRepresentation (unrelated defect)
    }
    d += "<%e/>\n<%f/>\n</%r>\n";
    return ns.inst(d);
}

static const char* const XSD_R_EF =
    "<xs:element name='r'><xs:complexType><xs:choice minOccurs='0' maxOccurs='unbounded'><xs:element ref='%e'/><xs:element ref='%f'/></xs:choice></xs:complexType></xs:element>\n"
    "<xs:element name='e' type='%T'/>\n<xs:element name='f'><xs:complexType><xs:attribute name='at' type='%T'/></xs:complexType></xs:element>\n";

inline void gen_xsd_facet(std::vector<GCase>& out, bool thorough) {
    for (int t = 0; t < 2; t++) {
        Ns ns{t == 0};
        for (int bi = 0; bi < NBASES; bi++) {
            const BaseT& b = BASES[bi];
            if (!thorough && t == 1 && bi % 6 != 0) continue;
            std::vector<FacetSpec> fs = facets_for(b);
            std::vector<std::string> vals = {b.v1, b.v2, b.v3, std::string("  ") + b.v1 + " ", std::string(b.v2) + "\t", "#bad#", ""};
            bool isId = strcmp(b.name, "ID") == 0;
            for (size_t fi = 0; fi < fs.size(); fi++) for (int fixed = 0; fixed < 2; fixed++) {
                if (fixed && fs[fi].xml.find("@F") == std::string::npos) continue;
                if (!thorough && fixed && (bi + fi) % 5 != 0) continue;
                std::string body = XSD_R_EF;
                body += "<xs:simpleType name='T'><xs:restriction base='xs:" + std::string(b.name) + "'>" + rep(fs[fi].xml, "@F", fixed ? " fixed='true'" : "") + "</xs:restriction></xs:simpleType>\n";
                GCase g = xsd_case("xsd-facet", std::string(b.name) + "/" + fs[fi].label + (fixed ? "/fixed" : ""), ns, body);
                g.instances.push_back(value_doc(ns, vals, !isId));
                out.push_back(g);
            }
            // two-step derivations
            std::vector<std::pair<std::string, std::string>> steps;
            std::string v1 = xml_attr_esc(b.v1), v2 = xml_attr_esc(b.v2), v3 = xml_attr_esc(b.v3);
            bool isBool = strcmp(b.name, "boolean") == 0;
            if (!isBool) steps.push_back({"<xs:enumeration value='" + v1 + "'/><xs:enumeration value='" + v2 + "'/>", "<xs:pattern value='" + xml_attr_esc(rx_quote(b.v1)) + "'/>"});
            steps.push_back({"<xs:pattern value='[^#]*'/>", isBool ? std::string("<xs:pattern value='[^!]*'/>") : "<xs:pattern value='[^!]*'/><xs:enumeration value='" + v2 + "'/><xs:enumeration value='" + v3 + "'/>"});
            if (b.ordered) steps.push_back({"<xs:minInclusive value='" + v1 + "'/>", "<xs:maxInclusive value='" + v2 + "'/>"});
            if (b.lenKind) steps.push_back({"<xs:maxLength value='10'/>", "<xs:minLength value='1'/><xs:maxLength value='3'/>"});
            if (b.ws == 2) steps.push_back({"<xs:whiteSpace value='replace'/>", "<xs:whiteSpace value='collapse'/>"});
            for (size_t si = 0; si < steps.size(); si++) for (int anon = 0; anon < 2; anon++) {
                if (!thorough && (anon || t == 1) && si > 0) continue;
                std::string body = XSD_R_EF;
                if (anon)
                    body += "<xs:simpleType name='T'><xs:restriction><xs:simpleType><xs:restriction base='xs:" + std::string(b.name) + "'>" + steps[si].first + "</xs:restriction></xs:simpleType>" + steps[si].second + "</xs:restriction></xs:simpleType>\n";
                else {
                    body += "<xs:simpleType name='S1'><xs:restriction base='xs:" + std::string(b.name) + "'>" + steps[si].first + "</xs:restriction></xs:simpleType>\n";
                    body += "<xs:simpleType name='T'><xs:restriction base='%S1'>" + steps[si].second + "</xs:restriction></xs:simpleType>\n";
                }
                GCase g = xsd_case("xsd-facet-2step", std::string(b.name) + "/step" + std::to_string(si) + (anon ? "/anon-base" : "/named-base"), ns, body);
                g.instances.push_back(value_doc(ns, vals, !isId));
                out.push_back(g);
            }
        }
        // NOTATION: needs declared notations and an enumeration
        {
            std::string body = XSD_R_EF;
            body += "<xs:notation name='n1' public='pub1'/><xs:notation name='n2' public='pub2' system='sys2'/><xs:notation name='n3' system='sys3'/>\n";
            body += "<xs:simpleType name='T'><xs:restriction base='xs:NOTATION'><xs:enumeration value='%n1'/><xs:enumeration value='%n2'/></xs:restriction></xs:simpleType>\n";
            GCase g = xsd_case("xsd-notation", "NOTATION enumeration + 3 notation declarations", ns, body);
            g.instances.push_back(value_doc(ns, {ns.fix("%n1"), ns.fix("%n2"), ns.fix("%n3"), "o:n1", "zz"}, true));
            out.push_back(g);
        }
    }
}

// ================================================================================================ lists and unions
inline void gen_xsd_listunion(std::vector<GCase>& out, bool thorough) {
    struct Item { const char* label; const char* ref; const char* inl; const char* a; const char* b; };
    const Item items[8] = {
        {"int", "xs:int", "", "1", "22"}, {"NMTOKEN", "xs:NMTOKEN", "", "ab", "c-d"}, {"boolean", "xs:boolean", "", "true", "0"}, {"date", "xs:date", "", "2000-01-01", "2001-06-15Z"},
        {"QName", "xs:QName", "", "o:a", "b"}, {"user-enum", "%st", "", "x", "y"},
        {"anon-int<=50", "", "<xs:simpleType><xs:restriction base='xs:int'><xs:maxInclusive value='50'/></xs:restriction></xs:simpleType>", "1", "22"},
        {"double", "xs:double", "", "1.5", "-INF"}};
    const char* ST = "<xs:simpleType name='st'><xs:restriction base='xs:string'><xs:enumeration value='x'/><xs:enumeration value='y'/></xs:restriction></xs:simpleType>\n";
    for (int t = 0; t < 2; t++) {
        Ns ns{t == 0};
        for (int it = 0; it < 8; it++) for (int f = 0; f < 8; f++) {
            if (!thorough && t == 1 && (it + f) % 3 != 0) continue;
            const Item& I = items[it];
            std::string a = I.a, b = I.b;
            std::string facet;
            switch (f) {
            case 0: break;
            case 1: facet = "<xs:length value='2'/>"; break;
            case 2: facet = "<xs:minLength value='2'/>"; break;
            case 3: facet = "<xs:maxLength value='2' fixed='true'/>"; break;
            case 4: facet = "<xs:enumeration value='" + a + " " + b + "'/><xs:enumeration value='" + b + "'/>"; break;
            case 5: facet = "<xs:pattern value='[^ ]+( [^ ]+)?'/>"; break;
            case 6: facet = "<xs:whiteSpace value='collapse'/>"; break;
            default: facet = "<xs:minLength value='1'/><xs:maxLength value='3'/><xs:pattern value='.*'/>";
            }
            std::string list = std::string("<xs:list") + (I.ref[0] ? std::string(" itemType='") + I.ref + "'" : "") + ">" + I.inl + "</xs:list>";
            std::string body = std::string(XSD_R_EF) + ST;
            if (f == 0) body += "<xs:simpleType name='T'>" + list + "</xs:simpleType>\n";
            else body += "<xs:simpleType name='L'>" + list + "</xs:simpleType>\n<xs:simpleType name='T'><xs:restriction base='%L'>" + facet + "</xs:restriction></xs:simpleType>\n";
            GCase g = xsd_case("xsd-list", std::string("list of ") + I.label + " facet" + std::to_string(f), ns, body);
            g.instances.push_back(value_doc(ns, {a, b, a + " " + b, a + "  " + b + " " + a, a + " " + b + " " + a + " " + b, "#bad#", a + " #bad#", "99"}, true));
            out.push_back(g);
        }
        // unions
        const char* mem[6] = {"xs:int", "xs:boolean", "xs:date", "xs:NMTOKEN", "%st", "%li"};
        const char* LI = "<xs:simpleType name='li'><xs:list itemType='xs:int'/></xs:simpleType>\n";
        std::vector<std::string> uvals = {"1", "true", "2000-01-01", "ab", "x", "1 2 3", "y", "#bad#", " 22 ", "1.5", ""};
        for (int m1 = 0; m1 < 6; m1++) for (int m2 = 0; m2 < 6; m2++) {
            if (m1 == m2) continue;
            if (!thorough && t == 1 && (m1 + m2) % 2) continue;
            std::string body = std::string(XSD_R_EF) + ST + LI + "<xs:simpleType name='T'><xs:union memberTypes='" + mem[m1] + " " + mem[m2] + "'/></xs:simpleType>\n";
            GCase g = xsd_case("xsd-union", std::string("union(") + mem[m1] + "," + mem[m2] + ")", ns, body);
            g.instances.push_back(value_doc(ns, uvals, true));
            out.push_back(g);
        }
        const char* uvar[] = {
            "<xs:simpleType name='T'><xs:union memberTypes='xs:int xs:boolean %st'/></xs:simpleType>",
            "<xs:simpleType name='T'><xs:union memberTypes='xs:date'><xs:simpleType><xs:restriction base='xs:int'><xs:minInclusive value='10'/></xs:restriction></xs:simpleType><xs:simpleType><xs:list itemType='xs:boolean'/></xs:simpleType></xs:union></xs:simpleType>",
            "<xs:simpleType name='U'><xs:union memberTypes='xs:int %st'/></xs:simpleType><xs:simpleType name='T'><xs:restriction base='%U'><xs:enumeration value='1'/><xs:enumeration value='x'/></xs:restriction></xs:simpleType>",
            "<xs:simpleType name='U'><xs:union memberTypes='xs:int %st'/></xs:simpleType><xs:simpleType name='T'><xs:restriction base='%U'><xs:pattern value='[1x]'/></xs:restriction></xs:simpleType>",
            "<xs:simpleType name='U'><xs:union memberTypes='xs:int xs:boolean'/></xs:simpleType><xs:simpleType name='T'><xs:list itemType='%U'/></xs:simpleType>",
            "<xs:simpleType name='U'><xs:union memberTypes='xs:int xs:boolean'/></xs:simpleType><xs:simpleType name='T'><xs:union memberTypes='%U xs:date'/></xs:simpleType>",
            "<xs:simpleType name='U'><xs:union memberTypes='xs:int xs:boolean'/></xs:simpleType><xs:simpleType name='L'><xs:list itemType='%U'/></xs:simpleType><xs:simpleType name='T'><xs:restriction base='%L'><xs:maxLength value='2'/></xs:restriction></xs:simpleType>",
            "<xs:simpleType name='T' final='#all'><xs:union memberTypes='%st xs:QName'/></xs:simpleType>",
            "<xs:simpleType name='T' final='list'><xs:restriction base='xs:int'/></xs:simpleType><xs:simpleType name='T2' final='restriction union'><xs:list itemType='xs:int'/></xs:simpleType>",
        };
        for (size_t i = 0; i < sizeof(uvar) / sizeof(uvar[0]); i++) {
            std::string body = std::string(XSD_R_EF) + ST + LI + uvar[i] + "\n";
            GCase g = xsd_case("xsd-union", "variant " + std::to_string(i), ns, body);
            g.instances.push_back(value_doc(ns, uvals, true));
            out.push_back(g);
        }
    }
}

}  // namespace c16
#include "c16_gen3.hpp"
