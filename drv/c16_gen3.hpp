// c16_gen3.hpp - complex types / element flags / substitution groups / named groups / identity constraints / annotations /
// namespaces, imports and mixed pools; family registry.
#pragma once
#include "c16_gen.hpp"

namespace c16 {

static const char* const XSD_R_ANY =
    "<xs:element name='r'><xs:complexType><xs:sequence><xs:any namespace='##any' processContents='strict' minOccurs='0' maxOccurs='unbounded'/></xs:sequence></xs:complexType></xs:element>\n";

// ================================================================================================ complex types
inline void gen_xsd_ctype(std::vector<GCase>& out, bool thorough) {
    const char* blk[4] = {"", "extension", "restriction", "#all"};
    for (int t = 0; t < 2; t++) {
        Ns ns{t == 0};
        // type flags: abstract x block x final x mixed on the base type B; D1 extends (if allowed), D2 restricts (if allowed)
        for (int ab = 0; ab < 2; ab++) for (int b = 0; b < 4; b++) for (int f = 0; f < 4; f++) for (int mx = 0; mx < 2; mx++) {
            if (!thorough && t == 1 && (b + f + ab + mx) % 2) continue;
            std::string body = XSD_R_ANY;
            body += "<xs:element name='a' type='xs:int'/>\n<xs:element name='b' type='xs:string'/>\n";
            body += std::string("<xs:complexType name='B'") + (ab ? " abstract='true'" : "") + (b ? std::string(" block='") + blk[b] + "'" : "") + (f ? std::string(" final='") + blk[f] + "'" : "") + (mx ? " mixed='true'" : "") +
                    "><xs:sequence><xs:element ref='%a' maxOccurs='2'/></xs:sequence><xs:attribute name='p' type='xs:int'/></xs:complexType>\n";
            bool canExt = !(f == 1 || f == 3), canRes = !(f == 2 || f == 3);
            if (canExt) body += std::string("<xs:complexType name='D1'") + (mx ? " mixed='true'" : "") + "><xs:complexContent><xs:extension base='%B'><xs:sequence><xs:element ref='%b' minOccurs='0'/></xs:sequence><xs:attribute name='q' type='xs:string' default='qd'/></xs:extension></xs:complexContent></xs:complexType>\n";
            if (canRes) body += std::string("<xs:complexType name='D2'") + (mx ? " mixed='true'" : "") + "><xs:complexContent><xs:restriction base='%B'><xs:sequence><xs:element ref='%a'/></xs:sequence><xs:attribute name='p' type='xs:int' use='required'/></xs:restriction></xs:complexContent></xs:complexType>\n";
            body += "<xs:element name='e' type='%B'/>\n";
            GCase g = xsd_case("xsd-complex-type-flags", std::string(ab ? "abstract " : "") + "block=" + blk[b] + " final=" + blk[f] + (mx ? " mixed" : ""), ns, body);
            g.instances.push_back(ns.inst("<%r>\n<%e><%a>1</%a></%e>\n<%e p='3'><%a>1</%a><%a>2</%a></%e>\n<%e>text<%a>1</%a></%e>\n<%e xsi:type='%D1'><%a>1</%a><%b>s</%b></%e>\n"
                                          "<%e xsi:type='%D1' q='z'><%a>1</%a></%e>\n<%e xsi:type='%D2' p='1'><%a>1</%a></%e>\n<%e xsi:type='%D2'><%a>1</%a><%a>2</%a></%e>\n<%e xsi:type='%Nope'/>\n<%e/>\n</%r>\n"));
            out.push_back(g);
        }
        // content kinds
        const char* kinds[] = {
            // simple content: extension of a built-in, restriction of that
            "<xs:complexType name='B'><xs:simpleContent><xs:extension base='xs:int'><xs:attribute name='p' type='xs:int' default='1'/></xs:extension></xs:simpleContent></xs:complexType>"
            "<xs:complexType name='D1'><xs:simpleContent><xs:restriction base='%B'><xs:maxInclusive value='10'/><xs:attribute name='p' type='xs:int' fixed='1'/></xs:restriction></xs:simpleContent></xs:complexType>"
            "<xs:complexType name='D2'><xs:simpleContent><xs:extension base='%B'><xs:attribute name='q' type='xs:string'/></xs:extension></xs:simpleContent></xs:complexType>",
            // simple content over a user-defined list type with enumeration
            "<xs:simpleType name='L'><xs:list itemType='xs:NMTOKEN'/></xs:simpleType>"
            "<xs:complexType name='B'><xs:simpleContent><xs:extension base='%L'/></xs:simpleContent></xs:complexType>"
            "<xs:complexType name='D1'><xs:simpleContent><xs:restriction base='%B'><xs:maxLength value='2'/></xs:restriction></xs:simpleContent></xs:complexType>",
            // empty content, restriction of anyType, with attributes only
            "<xs:complexType name='B'><xs:attribute name='p' type='xs:int'/></xs:complexType>"
            "<xs:complexType name='D1'><xs:complexContent><xs:extension base='%B'><xs:sequence><xs:element name='x' type='xs:date' minOccurs='0'/></xs:sequence></xs:extension></xs:complexContent></xs:complexType>",
            // explicit restriction of anyType with wildcard
            "<xs:complexType name='B'><xs:complexContent><xs:restriction base='xs:anyType'><xs:sequence><xs:any processContents='skip' minOccurs='0' maxOccurs='2'/></xs:sequence><xs:anyAttribute processContents='skip'/></xs:restriction></xs:complexContent></xs:complexType>"
            "<xs:complexType name='D1'><xs:complexContent><xs:restriction base='%B'><xs:sequence><xs:any processContents='skip' minOccurs='0' maxOccurs='1'/></xs:sequence></xs:restriction></xs:complexContent></xs:complexType>",
            // mixed content extension chain (three levels) with choice / nested local elements of the enclosing type (recursion)
            "<xs:complexType name='B' mixed='true'><xs:choice minOccurs='0' maxOccurs='unbounded'><xs:element name='x' type='%B'/><xs:element name='y' type='xs:int'/></xs:choice></xs:complexType>"
            "<xs:complexType name='D1' mixed='true'><xs:complexContent><xs:extension base='%B'><xs:sequence><xs:element name='z' type='%D1' minOccurs='0'/></xs:sequence></xs:extension></xs:complexContent></xs:complexType>"
            "<xs:complexType name='D2' mixed='true'><xs:complexContent><xs:extension base='%D1'><xs:attribute name='q' type='xs:ID'/></xs:extension></xs:complexContent></xs:complexType>",
            // all-group base extended? (not allowed) -> all group with attributes, restriction making members required
            "<xs:complexType name='B'><xs:all><xs:element name='x' type='xs:int' minOccurs='0'/><xs:element name='y' type='xs:string' minOccurs='0'/></xs:all><xs:attribute name='p' type='xs:int'/></xs:complexType>"
            "<xs:complexType name='D1'><xs:complexContent><xs:restriction base='%B'><xs:all><xs:element name='x' type='xs:int'/><xs:element name='y' type='xs:string' minOccurs='0'/></xs:all></xs:restriction></xs:complexContent></xs:complexType>",
            // anonymous nested complex types, local elements with same name and different scope
            "<xs:complexType name='B'><xs:sequence><xs:element name='x'><xs:complexType><xs:sequence><xs:element name='x' type='xs:int' maxOccurs='unbounded'/></xs:sequence><xs:attribute name='p' type='xs:boolean'/></xs:complexType></xs:element>"
            "<xs:element name='y' minOccurs='0'><xs:simpleType><xs:restriction base='xs:string'><xs:maxLength value='3'/></xs:restriction></xs:simpleType></xs:element></xs:sequence></xs:complexType>",
        };
        const char* kdocs[] = {
            "<%r>\n<%e>5</%e>\n<%e p='2'>50</%e>\n<%e xsi:type='%D1'>5</%e>\n<%e xsi:type='%D1'>50</%e>\n<%e xsi:type='%D1' p='2'>5</%e>\n<%e xsi:type='%D2' q='s'>5</%e>\n<%e>x</%e>\n</%r>\n",
            "<%r>\n<%e>a b c</%e>\n<%e xsi:type='%D1'>a b</%e>\n<%e xsi:type='%D1'>a b c</%e>\n<%e/>\n</%r>\n",
            "<%r>\n<%e/>\n<%e p='1'/>\n<%e p='x'/>\n<%e>t</%e>\n<%e xsi:type='%D1'><%x>2000-01-01</%x></%e>\n<%e xsi:type='%D1'><%x>bad</%x></%e>\n</%r>\n",
            "<%r>\n<%e/>\n<%e q='1'><o:z/><o:z/></%e>\n<%e><o:z/><o:z/><o:z/></%e>\n<%e xsi:type='%D1'><o:z/></%e>\n<%e xsi:type='%D1'><o:z/><o:z/></%e>\n<%e xsi:type='%D1' q='1'/>\n</%r>\n",
            "<%r>\n<%e>t<%x>u<%y>1</%y></%x><%y>2</%y></%e>\n<%e><%y>bad</%y></%e>\n<%e xsi:type='%D1'><%y>1</%y><%z><%x/><%z/></%z></%e>\n<%e xsi:type='%D2' q='i1'><%z/></%e>\n<%e xsi:type='%D2' q='i1'/>\n<%e><%z/></%e>\n</%r>\n",
            "<%r>\n<%e/>\n<%e><%y>s</%y><%x>1</%x></%e>\n<%e><%x>1</%x><%x>1</%x></%e>\n<%e xsi:type='%D1'><%y>s</%y></%e>\n<%e xsi:type='%D1' p='1'><%y>s</%y><%x>1</%x></%e>\n</%r>\n",
            "<%r>\n<%e><%x><%x>1</%x><%x>2</%x></%x></%e>\n<%e><%x p='true'><%x>bad</%x></%x><%y>abc</%y></%e>\n<%e><%x><%x>1</%x></%x><%y>abcd</%y></%e>\n<%e><%x>1</%x></%e>\n</%r>\n",
        };
        for (size_t k = 0; k < sizeof(kinds) / sizeof(kinds[0]); k++) {
            std::string body = std::string(XSD_R_ANY) + kinds[k] + "\n<xs:element name='e' type='%B'/>\n";
            GCase g = xsd_case("xsd-complex-content-kind", "kind " + std::to_string(k), ns, body);
            g.instances.push_back(ns.inst(kdocs[k]));
            out.push_back(g);
        }
        // element flags: nillable x abstract x block x final x value constraint
        const char* eblk[4] = {"", "substitution", "extension", "#all"};
        for (int nil = 0; nil < 2; nil++) for (int ab = 0; ab < 2; ab++) for (int b = 0; b < 4; b++) for (int f = 0; f < 4; f++) for (int vc = 0; vc < 3; vc++) {
            if (!thorough && (t == 1 || (nil + ab + b + f + vc) % 2)) continue;
            std::string body = XSD_R_ANY;
            body += std::string("<xs:element name='e' type='xs:int'") + (nil ? " nillable='true'" : "") + (ab ? " abstract='true'" : "") + (b ? std::string(" block='") + eblk[b] + "'" : "") + (f ? std::string(" final='") + blk[f] + "'" : "") +
                    (vc == 1 ? " default='42'" : vc == 2 ? " fixed='42'" : "") + "/>\n";
            bool canSub = !(f == 1 || f == 3) ;
            (void)canSub;
            body += "<xs:simpleType name='small'><xs:restriction base='xs:int'><xs:maxInclusive value='50'/></xs:restriction></xs:simpleType>\n";
            if (f == 0) body += "<xs:element name='m' type='%small' substitutionGroup='%e'/>\n";
            GCase g = xsd_case("xsd-element-flags", std::string(nil ? "nillable " : "") + (ab ? "abstract " : "") + "block=" + eblk[b] + " final=" + blk[f] + (vc == 1 ? " default" : vc == 2 ? " fixed" : ""), ns, body);
            g.instances.push_back(ns.inst("<%r>\n<%e>42</%e>\n<%e>7</%e>\n<%e/>\n<%e xsi:nil='true'/>\n<%e xsi:nil='true'>1</%e>\n<%e xsi:type='%small'>7</%e>\n<%e xsi:type='%small'>70</%e>\n<%m>42</%m>\n<%m>70</%m>\n<%m/>\n<%e>x</%e>\n</%r>\n"));
            out.push_back(g);
        }
        // substitution groups
        for (int hb = 0; hb < 4; hb++) for (int hab = 0; hab < 2; hab++) for (int tb = 0; tb < 3; tb++) {
            if (!thorough && t == 1 && (hb + hab + tb) % 2) continue;
            const char* hblk[4] = {"", "substitution", "extension", "restriction"};
            const char* tblk[3] = {"", "extension", "restriction"};
            std::string body;
            body += "<xs:element name='r'><xs:complexType><xs:sequence><xs:element ref='%h' minOccurs='0' maxOccurs='unbounded'/></xs:sequence></xs:complexType></xs:element>\n";
            body += std::string("<xs:complexType name='B'") + (tb ? std::string(" block='") + tblk[tb] + "'" : "") + "><xs:sequence><xs:element name='x' type='xs:int' minOccurs='0' maxOccurs='2'/></xs:sequence></xs:complexType>\n";
            body += "<xs:complexType name='DE'><xs:complexContent><xs:extension base='%B'><xs:attribute name='q' type='xs:string'/></xs:extension></xs:complexContent></xs:complexType>\n";
            body += "<xs:complexType name='DR'><xs:complexContent><xs:restriction base='%B'><xs:sequence><xs:element name='x' type='xs:int' minOccurs='0'/></xs:sequence></xs:restriction></xs:complexContent></xs:complexType>\n";
            body += std::string("<xs:element name='h' type='%B'") + (hb ? std::string(" block='") + hblk[hb] + "'" : "") + (hab ? " abstract='true'" : "") + "/>\n";
            body += "<xs:element name='m1' type='%B' substitutionGroup='%h'/>\n<xs:element name='m2' type='%DE' substitutionGroup='%h'/>\n<xs:element name='m3' type='%DR' substitutionGroup='%h'/>\n<xs:element name='m4' substitutionGroup='%m2'/>\n";
            GCase g = xsd_case("xsd-substitution-group", std::string("head block=") + hblk[hb] + (hab ? " abstract" : "") + " type block=" + tblk[tb], ns, body);
            g.instances.push_back(ns.inst("<%r>\n<%h/>\n<%m1><%x>1</%x></%m1>\n<%m2 q='s'/>\n<%m3><%x>1</%x><%x>2</%x></%m3>\n<%m4 q='s'><%x>1</%x></%m4>\n<%h xsi:type='%DE' q='s'/>\n<%h xsi:type='%DR'/>\n<%m9/>\n</%r>\n"));
            out.push_back(g);
        }
    }
}

// ================================================================================================ named groups
inline void gen_xsd_group(std::vector<GCase>& out, bool thorough) {
    const char* comps[3] = {"sequence", "choice", "all"};
    for (int t = 0; t < 2; t++) {
        Ns ns{t == 0};
        for (int c = 0; c < 3; c++) for (int o = 0; o < 7; o++) for (int ctx = 0; ctx < 4; ctx++) {
            if (c == 2 && (o > 1 || ctx != 0)) continue;  // all groups: only as the whole content, occurrence (0|1,1)
            if (!thorough && t == 1 && (c + o + ctx) % 2) continue;
            std::string body = XSD_R_AND_AB;
            body += std::string("<xs:group name='g'><xs:") + comps[c] + "><xs:element ref='%a'/><xs:element name='l' type='xs:date' minOccurs='0'/></xs:" + comps[c] + "></xs:group>\n";
            if (c != 2) body += "<xs:group name='g2'><xs:sequence><xs:group ref='%g'/><xs:element ref='%b' minOccurs='0'/></xs:sequence></xs:group>\n";
            std::string ref = "<xs:group ref='%g'" + occ_attrs(OCCS[o]) + "/>";
            std::string content;
            switch (ctx) {
            case 0: content = ref; break;
            case 1: content = "<xs:sequence>" + ref + "<xs:element ref='%b'/></xs:sequence>"; break;
            case 2: content = "<xs:choice maxOccurs='2'>" + ref + "<xs:element ref='%b'/></xs:choice>"; break;
            default: content = "<xs:group ref='%g2'" + occ_attrs(OCCS[o]) + "/>";
            }
            body += "<xs:element name='e'><xs:complexType>" + content + "</xs:complexType></xs:element>\n";
            GCase g = xsd_case("xsd-named-group", std::string(comps[c]) + occ_str(OCCS[o]) + " ctx" + std::to_string(ctx), ns, body);
            g.instances.push_back(word_doc(ns, 2));
            g.instances.push_back(ns.inst("<%r>\n<%e><%a>1</%a><%l>2000-01-01</%l></%e>\n<%e><%l>2000-01-01</%l><%a>1</%a></%e>\n<%e><%a>1</%a><%l>bad</%l><%b>s</%b></%e>\n</%r>\n"));
            out.push_back(g);
        }
    }
}

// ================================================================================================ identity constraints
inline void gen_xsd_idc(std::vector<GCase>& out, bool thorough) {
    const char* sels[6] = {"%i", ".//%i", "%i|%j", "*", "%w/%i", "./%i"};
    struct Fld { const char* label; std::vector<const char*> f; };
    const Fld flds[6] = {{"@k", {"@k"}}, {".", {"."}}, {"child", {"%c"}}, {"@k|@j", {"@k|@j"}}, {"@k,@j", {"@k", "@j"}}, {"child/@k", {"%c/@k"}}};
    for (int t = 0; t < 2; t++) {
        Ns ns{t == 0};
        for (int kind = 0; kind < 3; kind++) for (int s = 0; s < 6; s++) for (int f = 0; f < 6; f++) {
            if (!thorough && (t == 1 ? (kind + s + f) % 3 != 0 : (s + f) % 2 != 0)) continue;
            std::string item = "<xs:complexType mixed='true'><xs:sequence><xs:element name='c' minOccurs='0'><xs:complexType><xs:simpleContent><xs:extension base='xs:int'><xs:attribute name='k' type='xs:string'/></xs:extension></xs:simpleContent></xs:complexType></xs:element></xs:sequence>"
                               "<xs:attribute name='k' type='xs:int'/><xs:attribute name='j' type='xs:string'/><xs:attribute name='ref' type='xs:int'/></xs:complexType>";
            std::string fields;
            for (auto x : flds[f].f) fields += std::string("<xs:field xpath='") + x + "'/>";
            std::string cons;
            if (kind == 0) cons = std::string("<xs:unique name='u1'><xs:selector xpath='") + sels[s] + "'/>" + fields + "</xs:unique>";
            else if (kind == 1) cons = std::string("<xs:key name='k1'><xs:selector xpath='") + sels[s] + "'/>" + fields + "</xs:key>";
            else {
                std::string rf;
                for (size_t i = 0; i < flds[f].f.size(); i++) rf += "<xs:field xpath='@ref'/>";
                cons = std::string("<xs:key name='k1'><xs:selector xpath='") + sels[s] + "'/>" + fields + "</xs:key><xs:keyref name='kr1' refer='%k1'><xs:selector xpath='%q'/>" + rf + "</xs:keyref>";
            }
            std::string body = "<xs:element name='r'><xs:complexType><xs:sequence><xs:element ref='%e' minOccurs='0' maxOccurs='unbounded'/></xs:sequence></xs:complexType></xs:element>\n";
            body += "<xs:element name='e'><xs:complexType><xs:choice minOccurs='0' maxOccurs='unbounded'><xs:element name='i'>" + item + "</xs:element><xs:element name='j'>" + item + "</xs:element>"
                    "<xs:element name='w'><xs:complexType><xs:sequence><xs:element name='i' maxOccurs='unbounded'>" + item + "</xs:element></xs:sequence></xs:complexType></xs:element>"
                    "<xs:element name='q'>" + item + "</xs:element></xs:choice></xs:complexType>" + cons + "</xs:element>\n";
            GCase g = xsd_case("xsd-identity-constraint", std::string(kind == 0 ? "unique" : kind == 1 ? "key" : "key+keyref") + " sel=" + sels[s] + " fields=" + flds[f].label, ns, body);
            g.instances.push_back(ns.inst(
                "<%r>\n<%e><%i k='1' j='a'>1<%c k='x'>1</%c></%i><%i k='2' j='b'>2<%c k='y'>2</%c></%i><%q ref='1'/></%e>\n"
                "<%e><%i k='1' j='a'>1<%c k='x'>1</%c></%i><%i k='1' j='a'>1<%c k='x'>1</%c></%i></%e>\n"
                "<%e><%i j='a'/><%j k='1' j='a'>1<%c k='x'>1</%c></%j><%q ref='9'/></%e>\n"
                "<%e><%w><%i k='1' j='a'>1<%c k='x'>1</%c></%i><%i k='1' j='b'>1<%c k='x'>1</%c></%i></%w><%i k='3' j='c'>3<%c k='z'>3</%c></%i><%q ref='3'/><%q ref='1'/></%e>\n"
                "<%e><%i k='01' j='a'>01<%c k='x'>01</%c></%i><%i k='1' j='a'>1<%c k='x'>1</%c></%i></%e>\n</%r>\n"));
            out.push_back(g);
        }
    }
}

// ================================================================================================ annotations
inline void gen_xsd_annot(std::vector<GCase>& out, bool thorough, bool withSynthetic = false) {
    // a schema with 16 annotation positions @0..@15; each case fills a subset of them with one of 4 annotation bodies
    const char* tmpl =
        "@0<xs:import namespace='urn:o'>@1</xs:import>\n"
        "<xs:notation name='n' public='p'>@2</xs:notation>\n"
        "<xs:simpleType name='st'>@3<xs:restriction base='xs:string'>@4<xs:enumeration value='x'>@5</xs:enumeration><xs:enumeration value='y'/><xs:maxLength value='3'>@6</xs:maxLength><xs:pattern value='.*'>@13</xs:pattern></xs:restriction></xs:simpleType>\n"
        "<xs:attribute name='ga' type='xs:int'>@7</xs:attribute>\n"
        "<xs:attributeGroup name='ag'>@8<xs:attribute name='k' type='%st'>@9</xs:attribute><xs:anyAttribute namespace='##other' processContents='lax'>@10</xs:anyAttribute></xs:attributeGroup>\n"
        "<xs:group name='g'>@11<xs:sequence>@12<xs:element name='l' type='xs:int' minOccurs='0'>@14</xs:element><xs:any namespace='##other' processContents='lax' minOccurs='0'>@15</xs:any></xs:sequence></xs:group>\n"
        "<xs:complexType name='ct'>@16<xs:group ref='%g'/><xs:attributeGroup ref='%ag'/></xs:complexType>\n"
        "<xs:element name='e' type='%ct'>@17<xs:unique name='u'>@18<xs:selector xpath='%l'>@19</xs:selector><xs:field xpath='.'>@20</xs:field></xs:unique></xs:element>\n"
        "<xs:element name='r'><xs:complexType><xs:sequence><xs:element ref='%e' minOccurs='0' maxOccurs='unbounded'/></xs:sequence></xs:complexType></xs:element>\n";
    const int NP = 21;
    const char* bodies[4] = {
        "<xs:annotation><xs:documentation>doc @N</xs:documentation></xs:annotation>",
        "<xs:annotation><xs:appinfo source='urn:src'><o:meta v='@N'>app &amp; info</o:meta></xs:appinfo></xs:annotation>",
        "<xs:annotation id='an@N' o:foreign='f'><xs:documentation xml:lang='en'>d1</xs:documentation><xs:appinfo>a1</xs:appinfo><xs:documentation source='urn:s2'>d2 <b xmlns='urn:html'>bold</b></xs:documentation></xs:annotation>",
        "<xs:annotation/>",
    };
    auto make = [&](const Ns& ns, uint32_t mask, int bodyKind, bool synth, const std::string& label) {
        std::string s = tmpl;
        for (int i = NP - 1; i >= 0; i--) {
            std::string b = (mask >> i) & 1 ? rep(bodies[bodyKind], "@N", std::to_string(i)) : "";
            s = rep(s, "@" + std::to_string(i), b);
        }
        if (synth) s = rep(rep(s, "<xs:element name='e'", "<xs:element o:syn='1' name='e'"), "<xs:simpleType name='st'", "<xs:simpleType o:syn='2' name='st'");
        GCase g = xsd_case("xsd-annotation", label, ns, s);
        g.synthAnn = synth;
        g.instances.push_back(ns.inst("<%r>\n<%e k='x'><%l>1</%l><o:z/></%e>\n<%e k='zzzz' o:f='1'/>\n</%r>\n"));
        out.push_back(g);
    };
    for (int t = 0; t < 2; t++) {
        Ns ns{t == 0};
        for (int bk = 0; bk < 4; bk++) {
            for (int p = 0; p < NP; p++) {
                if (!thorough && (t == 1 || (bk != 0 && (p + bk) % 4 != 0))) continue;
                make(ns, 1u << p, bk, false, "position " + std::to_string(p) + " body " + std::to_string(bk));
            }
            make(ns, (1u << NP) - 1, bk, false, "all positions body " + std::to_string(bk));
            make(ns, 0x155555, bk, false, "even positions body " + std::to_string(bk));
        }
        make(ns, 0, 0, false, "no annotations");
        make(ns, ((1u << NP) - 1) & ~4u, 2, false, "all positions except notation body 2");
        // generateSyntheticAnnotations: TraverseSchema::generateSyntheticAnnotation casts the DOMDocument to DOMElement* (UBSan vptr abort, unrelated defect)
        if (withSynthetic) { make(ns, 0, 0, true, "synthetic annotations only"); make(ns, (1u << NP) - 1, 2, true, "all positions + synthetic"); }
        if (thorough) for (int p = 0; p + 1 < NP; p++) make(ns, 3u << p, 0, false, "positions " + std::to_string(p) + "," + std::to_string(p + 1));
    }
}

// ================================================================================================ namespaces, imports, includes, mixed pools
inline void gen_xsd_ns(std::vector<GCase>& out, bool thorough) {
    (void)thorough;
    const char* other =
        "<xs:schema xmlns:xs='http://www.w3.org/2001/XMLSchema' targetNamespace='urn:o' xmlns:o='urn:o' elementFormDefault='qualified'>\n"
        "<xs:simpleType name='code'><xs:restriction base='xs:string'><xs:pattern value='[A-Z]{2}'/></xs:restriction></xs:simpleType>\n"
        "<xs:complexType name='oct'><xs:sequence><xs:element name='in' type='o:code' maxOccurs='2'/></xs:sequence><xs:attribute name='oa' type='xs:int' default='9'/></xs:complexType>\n"
        "<xs:element name='x' type='o:oct'/>\n<xs:attribute name='ga' type='o:code'/>\n<xs:attributeGroup name='oag'><xs:attribute ref='o:ga'/></xs:attributeGroup>\n"
        "<xs:group name='og'><xs:choice><xs:element name='z' type='xs:date'/><xs:element name='y' type='xs:int'/></xs:choice></xs:group>\n</xs:schema>\n";
    const char* nons =
        "<xs:schema xmlns:xs='http://www.w3.org/2001/XMLSchema'>\n"
        "<xs:simpleType name='nt'><xs:restriction base='xs:int'><xs:minInclusive value='0'/></xs:restriction></xs:simpleType>\n<xs:element name='nx' type='nt'/>\n</xs:schema>\n";
    const char* incl_t = "<xs:schema xmlns:xs='http://www.w3.org/2001/XMLSchema' targetNamespace='urn:t' xmlns:t='urn:t' elementFormDefault='qualified'>\n"
                         "<xs:simpleType name='it'><xs:restriction base='xs:token'><xs:enumeration value='i1'/><xs:enumeration value='i2'/></xs:restriction></xs:simpleType>\n<xs:element name='ix' type='t:it'/>\n</xs:schema>\n";
    const char* chameleon = "<xs:schema xmlns:xs='http://www.w3.org/2001/XMLSchema'>\n"
                            "<xs:simpleType name='it'><xs:restriction base='xs:token'><xs:enumeration value='i1'/><xs:enumeration value='i2'/></xs:restriction></xs:simpleType>\n<xs:element name='ix' type='it'/>\n</xs:schema>\n";
    for (int t = 0; t < 2; t++) for (int efd = 0; efd < 2; efd++) for (int afd = 0; afd < 2; afd++) for (int mode = 0; mode < 6; mode++) {
        Ns ns{t == 0};
        // mode: 0 stand-alone, 1 import urn:o, 2 import no-namespace grammar, 3 include same-tns, 4 chameleon include, 5 import urn:o loaded separately (two loadGrammar calls)
        if (mode == 2 && !ns.tns) continue;    // importing "no namespace" from a no-namespace schema is not allowed
        if (mode == 3 && !ns.tns) continue;
        std::string head = afd ? "attributeFormDefault='qualified'" : "";
        std::string body;
        std::string uses;
        if (mode == 1 || mode == 5) { body += "<xs:import namespace='urn:o' schemaLocation='o.xsd'/>\n"; uses = "<xs:element ref='o:x' minOccurs='0'/><xs:group ref='o:og' minOccurs='0'/>"; }
        if (mode == 2) { body += "<xs:import schemaLocation='n.xsd'/>\n"; uses = "<xs:element ref='nx' minOccurs='0'/>"; }
        if (mode == 3) { body += "<xs:include schemaLocation='i.xsd'/>\n"; uses = "<xs:element ref='%ix' minOccurs='0'/>"; }
        if (mode == 4) { body += "<xs:include schemaLocation='c.xsd'/>\n"; uses = "<xs:element ref='%ix' minOccurs='0'/>"; }
        body += "<xs:element name='r'><xs:complexType><xs:sequence><xs:element ref='%e' minOccurs='0' maxOccurs='unbounded'/></xs:sequence></xs:complexType></xs:element>\n";
        body += "<xs:element name='e'><xs:complexType><xs:sequence><xs:element name='loc' type='xs:int' minOccurs='0'/>" + uses + "</xs:sequence><xs:attribute name='la' type='xs:int'/>" +
                ((mode == 1 || mode == 5) ? "<xs:attributeGroup ref='o:oag'/><xs:attribute name='c' type='o:code'/>" : "") + "</xs:complexType></xs:element>\n";
        GCase g = xsd_case("xsd-namespace-import", std::string("efd=") + (efd ? "qualified" : "unqualified") + " afd=" + (afd ? "qualified" : "unqualified") + " mode" + std::to_string(mode), ns, body, head, efd == 1);
        if (mode == 5) {
            // two grammars loaded by two loadGrammar calls: urn:o first, then the importing one (import resolved from the pool)
            g.files.insert(g.files.begin(), {"/v/o.xsd", other});
            g.load.insert(g.load.begin(), "/v/o.xsd");
        } else if (mode == 1) g.files.push_back({"/v/o.xsd", other});
        if (mode == 2) g.files.push_back({"/v/n.xsd", nons});
        if (mode == 3) g.files.push_back({"/v/i.xsd", incl_t});
        if (mode == 4) g.files.push_back({"/v/c.xsd", chameleon});
        std::string d = "<%r>\n<%e/>\n<%e la='1'><%loc>1</%loc></%e>\n<%e><loc>1</loc></%e>\n";
        if (ns.tns) d += "<%e t:la='1'/>\n";
        if (mode == 1 || mode == 5) d += "<%e o:ga='AB' c='CD'><o:x oa='1'><o:in>AB</o:in></o:x></%e>\n<%e o:ga='ab'><o:x><o:in>ab</o:in><o:in>AB</o:in></o:x><o:y>1</o:y></%e>\n<%e><o:x/><o:x><o:in>AB</o:in></o:x></%e>\n";
        if (mode == 2) d += "<%e><nx>5</nx></%e>\n<%e><nx>-5</nx></%e>\n";
        if (mode == 3 || mode == 4) d += "<%e><%ix>i1</%ix></%e>\n<%e><%ix>i3</%ix></%e>\n";
        d += "</%r>\n";
        g.instances.push_back(ns.inst(d));
        if (mode == 1 || mode == 5) g.instances.push_back("<o:x xmlns:o='urn:o' oa='2'><o:in>XY</o:in><o:in>xy</o:in></o:x>");
        if (mode == 2) g.instances.push_back("<nx>-1</nx>");
        out.push_back(g);
    }
    // mixed pools: DTD + schema, two DTDs, DTD + two schemas
    for (int v = 0; v < 4; v++) {
        GCase g;
        g.family = "mixed-pool"; g.label = "variant " + std::to_string(v); g.isSchema = true;
        std::string dtd1 = "<!ELEMENT r (a|b)*>\n<!ELEMENT a (#PCDATA)>\n<!ELEMENT b EMPTY>\n<!ATTLIST b k (x|y) 'x' i ID #IMPLIED>\n<!ENTITY ent 'hello'>\n<!NOTATION n SYSTEM 'nn'>\n";
        std::string dtd2 = "<!ELEMENT r2 (c+)>\n<!ELEMENT c (#PCDATA|r2)*>\n<!ATTLIST c m NMTOKENS #REQUIRED>\n";
        Ns ns{true};
        std::string xsd = ns.head() + ns.fix(std::string(XSD_R_AND_AB) + "<xs:element name='e'><xs:complexType><xs:sequence><xs:element ref='%a'/><xs:element ref='%b' minOccurs='0'/></xs:sequence><xs:attribute name='p' type='xs:int' default='3'/></xs:complexType></xs:element>\n") + "</xs:schema>\n";
        g.files.push_back({"/v/g.dtd", dtd1});
        g.files.push_back({"/v/s.xsd", xsd});
        if (v == 0) { g.load = {"/v/g.dtd", "/v/s.xsd"}; g.loadIsSchema = {0, 1}; }
        if (v == 1) { g.load = {"/v/s.xsd", "/v/g.dtd"}; g.loadIsSchema = {1, 0}; }
        if (v == 2) { g.files.push_back({"/v/h.dtd", dtd2}); g.load = {"/v/g.dtd", "/v/h.dtd"}; g.loadIsSchema = {0, 0}; g.isSchema = false; }
        if (v == 3) { g.files.push_back({"/v/h.dtd", dtd2}); g.files.push_back({"/v/o.xsd", other}); g.load = {"/v/h.dtd", "/v/o.xsd", "/v/g.dtd", "/v/s.xsd"}; g.loadIsSchema = {0, 1, 0, 1}; }
        g.instances.push_back("<!DOCTYPE r SYSTEM 'g.dtd'><r><a>&ent;</a><b/><b k='z'/><c/></r>");
        g.instances.push_back("<!DOCTYPE r2 SYSTEM 'h.dtd'><r2><c m='a b'>t<r2><c/></r2></c></r2>");
        if (v != 2) g.instances.push_back(ns.inst("<%r>\n<%e><%a>1</%a></%e>\n<%e p='x'><%b>s</%b></%e>\n</%r>\n"));
        if (v == 3) g.instances.push_back("<o:x xmlns:o='urn:o'><o:in>XY</o:in><o:in>xy</o:in></o:x>");
        out.push_back(g);
    }
}

// ================================================================================================ registry
inline void build_family(std::vector<GCase>& out, const std::string& fam, bool thorough) {
    auto want = [&](const char* f) { return fam == "all" || fam == f; };
    if (want("dtd-cm") || fam == "dtd") gen_dtd_cm(out, thorough);
    if (want("dtd-att") || fam == "dtd") gen_dtd_att(out, thorough);
    if (want("dtd-ent") || fam == "dtd") gen_dtd_ent(out, thorough);
    if (want("particle")) gen_xsd_particle(out, thorough);
    if (want("attr")) gen_xsd_attr(out, thorough);
    if (want("facet")) gen_xsd_facet(out, thorough);
    if (want("listunion")) gen_xsd_listunion(out, thorough);
    if (want("ctype")) gen_xsd_ctype(out, thorough);
    if (want("group")) gen_xsd_group(out, thorough);
    if (want("idc")) gen_xsd_idc(out, thorough);
    if (want("annot")) gen_xsd_annot(out, thorough, getenv("C16_SYNTHETIC") != nullptr);
    if (want("ns")) gen_xsd_ns(out, thorough);
}

}  // namespace c16
