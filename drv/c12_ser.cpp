// c12_ser - DOMLSSerializer round trip and XMLFormatter escaping (property C12).
//   --space parsed : every DOM obtained by parsing the well-formed words of length <= k over a document-token alphabet
//   --space built  : every tree built by <= n construction steps (two base documents) with a short data list
//   --space data   : one data-bearing node (Text, CDATA, Comment, PI, attribute value) in a fixed context x every string
//                    of <= k symbols over the 18-symbol character-data alphabet
//   --space fmt    : XMLFormatter driven directly: escape mode x unrep mode x encoding x XML version x ~300 characters
// Every tree is crossed with the listed serializer configurations (encoding x features x XML version x target).
#include "c12_model.hpp"
#include <xercesc/framework/MemBufFormatTarget.hpp>
#include <xercesc/framework/XMLFormatter.hpp>
#include <xercesc/util/TranscodingException.hpp>
using namespace xv;
using namespace c12;

// KNOWN_DEFECTS: genuine library defects found by this check on the pinned tree (see docs/c12.md, "Findings").  With
// --known 1 (what the registered tiers use) a violation that is attributable to one of them - by a *reference-side*
// predicate over (tree, configuration) plus the listed violation kinds - is reported exactly once, at the listed minimal
// witness (kind "defect:<id>"), and merely counted ("known_defect:<id>") everywhere else, so that the remainder of the
// space is still explored instead of drowning in repeats.  With --known 0 every occurrence is a violation.
struct KnownDefect { const char* id; const char* kinds; std::string witnessTree; const char* witnessCfg; };
static const char* DTD_TOKEN2 = "<!DOCTYPE a [<!ELEMENT a ANY><!ENTITY e 'v'><!ENTITY f '&#60;&#38;'><!NOTATION n SYSTEM 'n'><!ENTITY u SYSTEM 'u' NDATA n><!-- c --><?p q?>]>";
static const KnownDefect KNOWN_DEFECTS[] = {
    {"namespace-fixup-prefix-conflict", "output-not-wellformed-expat output-not-wellformed-xerces reparsed-tree-differs", "base=empty document ; steps: E(q:a) A(q:y{uz}=x)",
     "write/UTF-8/1.0/decl/split/discard/nobom"},
    {"empty-default-namespace-binding-ignored", "reparsed-tree-differs", "parsed(entities expanded): <a xmlns='ud'><b xmlns=''><c/></b></a>", "write/UTF-8/1.0/decl/split/discard/nobom"},
    {"internal-subset-entity-value-not-escaped", "output-not-wellformed-expat output-not-wellformed-xerces", std::string("parsed(entities expanded): ") + DTD_TOKEN2 + "<a/>",
     "write/UTF-8/1.0/decl/split/discard/nobom"},
    {"comment-double-hyphen-emitted", "illformed-content-emitted-silently", "<a> with Comment data=-- [data case 74]", "write/UTF-8/1.0/decl/split/discard/nobom"},
    {"pi-end-marker-emitted", "illformed-content-emitted-silently", "<a> with PI data=?> [data case 81]", "write/UTF-8/1.0/decl/split/discard/nobom"},
    {"cdata-illegal-char-emitted-when-splitting", "illformed-content-emitted-silently output-not-wellformed-expat output-not-wellformed-xerces", "<a> with CDATA data=\\u0001 [data case 109]",
     "write/UTF-8/1.0/decl/split/discard/nobom"},
    {"cdata-end-marker-dropped-when-splitting", "content-differs-expat reparsed-tree-differs", "<a> with CDATA data=]]> [data case 61]", "write/UTF-8/1.0/decl/split/discard/nobom"},
    {"cdata-split-surrogate-halves-as-references", "output-not-wellformed-expat output-not-wellformed-xerces", "<a> with CDATA data=\\uD800\\uDC00 [data case 97]",
     "write/ISO-8859-1/1.0/decl/split/discard/nobom"},
    {"icu-transcoder-lone-surrogate-representable", "output-not-wellformed-expat output-not-wellformed-xerces spurious-failure reparsed-tree-differs content-differs-expat formatter-escape-mismatch",
     "<a> with Text data=\\uD800\\uDC00 [data case 96]", "write/ISO-8859-15/1.0/decl/split/discard/nobom"},
    {"xml11-nel-written-literally", "reparsed-tree-differs content-differs-expat", "<a> with Text data=\\u0085 [data case 102]", "write/UTF-8/1.1/decl/split/discard/nobom"},
    {"xml11-restricted-char-refused", "spurious-failure", "<a> with Text data=\\u0001 [data case 108]", "write/UTF-8/1.1/decl/split/discard/nobom"},
};
static const char* FMT_WITNESS = "ISO-8859-15/1.0/CharEscapes/UnRep_CharRef U+10000 0";
static bool g_known = false;
static bool g_witness = true;   // --witness 0: count known defects only (their witnesses are reported by another run of the same tier)
// Only defects that are still open may absorb a discrepancy.  The entries of repaired defects stay in the table for their witnesses (a witness
// that fails again is reported), but a discrepancy on a tree that merely *could* have shown a repaired defect is an ordinary violation.
static bool kd_open(const std::string& id) { return id == "namespace-fixup-prefix-conflict"; }
static const KnownDefect* kd_find(const std::string& id) { for (auto& k : KNOWN_DEFECTS) if (id == k.id) return &k; return nullptr; }
static bool kd_kind(const KnownDefect* k, const std::string& kind) {
    std::string ks = std::string(" ") + k->kinds + " ";
    return ks.find(" " + kind + " ") != std::string::npos;
}

// =========================================================================================== configurations
struct Cfg {
    int enc; bool xmldecl, split, discard, bom, v11; int target;  // target 0: writeToString, 1: write() to MemBufFormatTarget
    std::string str() const {
        return std::string(target ? "write/" : "writeToString/") + ENC[enc].xname + (v11 ? "/1.1" : "/1.0") + (xmldecl ? "/decl" : "/nodecl") + (split ? "/split" : "/nosplit") +
               (discard ? "/discard" : "/keepdflt") + (bom ? "/bom" : "/nobom");
    }
};
static std::vector<Cfg> CFGS;
static void init_cfgs(const std::string& mode) {
    for (int target = 0; target < 2; target++)
        for (int enc = 0; enc < NENC; enc++) {
            if (target == 0 && enc != ENC_INTERNAL) continue;  // writeToString ignores the encoding (documented)
            for (int v = 0; v < 2; v++)
                for (int f = 0; f < 16; f++) {
                    Cfg c{enc, (f & 1) != 0, (f & 2) != 0, (f & 4) != 0, (f & 8) != 0, v != 0, target};
                    if (mode == "core") {  // defaults + every single-feature flip (defaults: decl, split, discard on; bom off)
                        int flips = (!c.xmldecl) + (!c.split) + (!c.discard) + (c.bom);
                        if (flips > 1) continue;
                    }
                    if (mode == "defaults" && !(c.xmldecl && c.split && c.discard && !c.bom)) continue;
                    CFGS.push_back(c);
                }
        }
}

// =========================================================================================== serializer invocation
static DOMImplementationLS* g_impl = nullptr;
static DOMImplementation* g_core = nullptr;

struct SerErrH : public DOMErrorHandler {
    int warns = 0, errs = 0, fatals = 0;
    std::string log;
    bool handleError(const DOMError& e) override {
        int s = e.getSeverity();
        if (s == DOMError::DOM_SEVERITY_WARNING) warns++; else if (s == DOMError::DOM_SEVERITY_ERROR) errs++; else fatals++;
        if (log.size() < 300) log += (s == DOMError::DOM_SEVERITY_WARNING ? "W:" : s == DOMError::DOM_SEVERITY_ERROR ? "E:" : "F:") + esc16(e.getMessage()) + ";";
        return true;  // "continue": only a library-decided fatal error may abort
    }
};
struct SerOut {
    bool ok = false;        // write() returned true / writeToString returned non-null
    std::string bytes;
    int warns = 0, errs = 0, fatals = 0;
    std::string exc, log;
    bool signalled() const { return !ok || errs || fatals || !exc.empty(); }
    bool foreign() const { return exc.compare(0, 7, "FOREIGN") == 0; }
};
static SerOut do_serialize(DOMDocument* doc, const Cfg& c) {
    SerOut o;
    DOMLSSerializer* ser = g_impl->createLSSerializer();
    SerErrH eh;
    struct R { DOMLSSerializer* s; ~R() { s->release(); } } rel{ser};
    try {
        DOMConfiguration* dc = ser->getDomConfig();
        dc->setParameter(XMLUni::fgDOMErrorHandler, (const void*)&eh);
        dc->setParameter(XMLUni::fgDOMXMLDeclaration, c.xmldecl);
        dc->setParameter(XMLUni::fgDOMWRTSplitCdataSections, c.split);
        dc->setParameter(XMLUni::fgDOMWRTDiscardDefaultContent, c.discard);
        dc->setParameter(XMLUni::fgDOMWRTBOM, c.bom);
        dc->setParameter(XMLUni::fgDOMWRTFormatPrettyPrint, false);
        if (c.target == 0) {
            XMLCh* s = ser->writeToString(doc);
            o.ok = s != nullptr;
            if (s) { o.bytes.assign((const char*)s, XMLString::stringLen(s) * sizeof(XMLCh)); XMLString::release(&s); }
        } else {
            MemBufFormatTarget tgt(64);
            DOMLSOutput* out = g_impl->createLSOutput();
            struct R2 { DOMLSOutput* s; ~R2() { s->release(); } } rel2{out};
            out->setByteStream(&tgt);
            out->setEncoding(X16(ENC[c.enc].xname).p());
            o.ok = ser->write(doc, out);
            o.bytes.assign((const char*)tgt.getRawBuffer(), tgt.getLen());
        }
    }
    catch (const OutOfMemoryException&) { o.exc = "FOREIGN:OutOfMemoryException"; }
    catch (const DOMLSException& e) { o.exc = "DOMLSException:" + std::to_string((int)e.code); }
    catch (const DOMException& e) { o.exc = "FOREIGN:DOMException:" + std::to_string((int)e.code); }
    catch (const XMLException& e) { o.exc = "FOREIGN:XMLException:" + esc16(e.getType()); }
    catch (const std::exception& e) { o.exc = std::string("FOREIGN:std:") + e.what(); }
    catch (...) { o.exc = "FOREIGN:unknown"; }
    o.warns = eh.warns; o.errs = eh.errs; o.fatals = eh.fatals; o.log = eh.log;
    return o;
}

// =========================================================================================== parsing (original documents and re-parse)
struct PErr : public HandlerBase {
    int fatals = 0, errs = 0; std::string first;
    void note(const SAXParseException& e) { if (first.empty()) first = esc16(e.getMessage()) + "@" + std::to_string((unsigned long)e.getLineNumber()) + ":" + std::to_string((unsigned long)e.getColumnNumber()); }
    void error(const SAXParseException& e) override { errs++; note(e); }
    void fatalError(const SAXParseException& e) override { fatals++; note(e); }
    void warning(const SAXParseException&) override {}
};
// returns an adopted document (caller releases) or null; err receives the first error
static DOMDocument* parse_doc(const std::string& bytes, const char* forcedEnc, bool entRefNodes, std::string& err) {
    // A fresh parser per document: a reused XercesDOMParser keeps the XML version of the previous document when the next one
    // has no XML declaration (observed: NEL normalised in a 1.0 document parsed after a 1.1 document) - a parser-reuse
    // defect outside C12 that would make cases depend on their predecessors.
    XercesDOMParser p;
    PErr h;
    p.setDoNamespaces(true);
    p.setValidationScheme(XercesDOMParser::Val_Never);
    p.setLoadExternalDTD(false);
    p.setCreateEntityReferenceNodes(entRefNodes);
    p.setErrorHandler(&h);
    try {
        MemBufInputSource src((const XMLByte*)bytes.data(), bytes.size(), X16("/v/doc.xml").p(), false);
        if (forcedEnc) src.setEncoding(X16(forcedEnc).p());
        p.parse(src);
    }
    catch (const OutOfMemoryException&) { err = "OutOfMemoryException"; return nullptr; }
    catch (const XMLException& e) { err = "XMLException:" + esc16(e.getMessage()); return nullptr; }
    catch (const SAXException& e) { err = "SAXException:" + esc16(e.getMessage()); return nullptr; }
    catch (const DOMException& e) { err = "DOMException:" + std::to_string((int)e.code); return nullptr; }
    catch (...) { err = "FOREIGN"; return nullptr; }
    if (h.fatals || h.errs) { err = h.first; return nullptr; }
    DOMDocument* d = p.adoptDocument();
    if (!d) err = "no document";
    return d;
}

// =========================================================================================== normal form of a DOM tree (own normalising comparison)
struct NFItem { std::string strict, loose, strictAlt, looseAlt, looseEol, looseMap; bool isRun = false, looseOk = false; };
struct NFOpts {
    bool dropNs = false;   // drop namespace-declaration attributes (trees that need fix-up get additional declarations)
    bool v11 = false, split = true; int enc = 0;
    bool exact = false;    // no merging/normalisation at all (used to decide whether isEqualNode must agree)
    bool standalone = true;
};
static bool is_ws(char16_t c) { return c == 0x20 || c == 9 || c == 0xA || c == 0xD; }
static U16 pi_norm(const U16& d, bool v11) {  // S between target and data is a separator: leading white space cannot be expressed
    U16 n = eolNorm(d, v11);
    size_t i = 0;
    while (i < n.size() && (is_ws(n[i]))) i++;
    return n.substr(i);
}
static void nf_node(DOMNode* n, const NFOpts& o, std::vector<NFItem>& out);
static void nf_children(DOMNode* parent, const NFOpts& o, std::vector<NFItem>& out) {
    DOMNode* c = parent->getFirstChild();
    while (c) {
        int t = c->getNodeType();
        if (!o.exact && (t == DOMNode::TEXT_NODE || t == DOMNode::CDATA_SECTION_NODE)) {
            std::vector<std::pair<char, U16>> items;
            std::vector<U16> raw;   // CDATA data before end-of-line normalisation (what survives if the character was written as a reference)
            bool looseOk = false;
            while (c && (c->getNodeType() == DOMNode::TEXT_NODE || c->getNodeType() == DOMNode::CDATA_SECTION_NODE)) {
                U16 d = u16(c->getNodeValue());
                if (c->getNodeType() == DOMNode::TEXT_NODE) {
                    if (!items.empty() && items.back().first == 'T') { items.back().second += d; raw.back() += d; }
                    else { items.push_back({'T', d}); raw.push_back(d); }
                } else {
                    if (o.split && (contains(d, "]]>") || !g_icu.repAll(o.enc, d))) looseOk = true;
                    items.push_back({'C', eolNorm(d, o.v11)});  // literal CR (NEL, LSEP in 1.1) cannot be expressed inside a CDATA section
                    raw.push_back(d);
                }
                c = c->getNextSibling();
            }
            NFItem it; it.isRun = true; it.looseOk = looseOk;
            U16 all, allRaw;
            for (size_t i = 0; i < items.size(); i++) {
                auto& p = items[i];
                if (p.first == 'T' && p.second.empty()) continue;
                it.strict += (p.first == 'T' ? "T(" : "CD(") + e16(p.second) + ")";
                it.strictAlt += (p.first == 'T' ? "T(" : "CD(") + e16(raw[i]) + ")";
                all += p.second; allRaw += raw[i];
            }
            // a split CDATA section may carry some end-of-line characters literally (normalised on re-parse) and others as references:
            // looseEol treats CR, NEL, LSEP and LF alike - used only for runs whose CDATA section had to be split
            it.loose = e16(all); it.looseAlt = e16(allRaw); it.looseEol = e16(eolNorm(allRaw, true));
            { U16 m = allRaw; for (auto& ch : m) if (ch == 0xD || ch == 0x85 || ch == 0x2028) ch = 0xA; it.looseMap = e16(m); }   // ... and without pairing CR with a following LF/NEL
            if (!it.strict.empty()) out.push_back(it);
            continue;
        }
        nf_node(c, o, out);
        c = c->getNextSibling();
    }
}
static bool is_nsdecl(DOMNode* a) {
    const XMLCh* nm = a->getNodeName();
    return XMLString::equals(nm, XMLUni::fgXMLNSString) || XMLString::startsWith(nm, X16("xmlns:").p());
}
static void nf_node(DOMNode* n, const NFOpts& o, std::vector<NFItem>& out) {
    auto add = [&](const std::string& s) { NFItem it; it.strict = s; out.push_back(it); };
    switch (n->getNodeType()) {
    case DOMNode::DOCUMENT_NODE: {
        DOMDocument* d = (DOMDocument*)n;
        add(std::string("DOC|standalone=") + (o.standalone ? (d->getXmlStandalone() ? "yes" : "no") : "?"));   // travels in the XML declaration only
        nf_children(n, o, out);
        break;
    }
    case DOMNode::DOCUMENT_TYPE_NODE: {
        DOMDocumentType* dt = (DOMDocumentType*)n;
        auto ne = [&](const XMLCh* x) { return o.exact || (x && *x) ? esc16(x) : std::string(""); };   // absent and empty identifiers are written (and read back) alike
        add("DT|" + esc16(dt->getName()) + "|" + ne(dt->getPublicId()) + "|" + ne(dt->getSystemId()) + "|" + ne(dt->getInternalSubset()));
        break;
    }
    case DOMNode::ELEMENT_NODE: {
        add("S|" + esc16(n->getNamespaceURI()) + "|" + esc16(n->getLocalName()) + "|" + esc16(n->getPrefix()) + "|" + esc16(n->getNodeName()));
        DOMNamedNodeMap* am = n->getAttributes();
        std::vector<std::string> as;
        for (XMLSize_t i = 0; i < am->getLength(); i++) {
            DOMAttr* a = (DOMAttr*)am->item(i);
            if (o.dropNs && is_nsdecl(a)) continue;
            std::string s = "A|" + esc16(a->getNamespaceURI()) + "|" + esc16(a->getLocalName()) + "|" + esc16(a->getNodeName()) + "|" + esc16(a->getValue()) + "|";
            for (DOMNode* k = a->getFirstChild(); k; k = k->getNextSibling())
                if (k->getNodeType() == DOMNode::ENTITY_REFERENCE_NODE) s += "ER(" + esc16(k->getNodeName()) + ")";
            as.push_back(s);
        }
        std::sort(as.begin(), as.end());
        for (auto& s : as) add(s);
        nf_children(n, o, out);
        add("E");
        break;
    }
    case DOMNode::TEXT_NODE: add("T(" + esc16(n->getNodeValue()) + ")"); break;             // exact mode only
    case DOMNode::CDATA_SECTION_NODE: add("CD(" + esc16(n->getNodeValue()) + ")"); break;   // exact mode only
    case DOMNode::COMMENT_NODE: add("C|" + (o.exact ? esc16(n->getNodeValue()) : e16(eolNorm(u16(n->getNodeValue()), o.v11)))); break;
    case DOMNode::PROCESSING_INSTRUCTION_NODE:
        add("PI|" + esc16(n->getNodeName()) + "|" + (o.exact ? esc16(n->getNodeValue()) : e16(pi_norm(u16(n->getNodeValue()), o.v11))));
        break;
    case DOMNode::ENTITY_REFERENCE_NODE:
        // documented: "Child nodes (the expansion) of the entity reference are ignored" - the expansion of the re-parsed
        // reference comes from the declaration, so only the reference itself is compared (exact mode: everything)
        add("RS|" + esc16(n->getNodeName()));
        if (o.exact) nf_children(n, o, out);
        add("RE");
        break;
    default: add("?|" + std::to_string((int)n->getNodeType()));
    }
}
static std::string nf_join(const std::vector<NFItem>& v) { std::string s; for (auto& i : v) { s += i.strict; s += '\n'; } return s; }
// -1 equal, otherwise index of first difference
static int nf_diff(const std::vector<NFItem>& a, const std::vector<NFItem>& b, bool& usedLoose) {
    size_t n = std::min(a.size(), b.size());
    for (size_t i = 0; i < n; i++) {
        if (a[i].strict == b[i].strict) continue;
        if (a[i].isRun && b[i].isRun && a[i].looseOk && (a[i].loose == b[i].loose || a[i].looseAlt == b[i].loose || a[i].looseEol == b[i].looseEol || a[i].looseMap == b[i].looseMap)) { usedLoose = true; continue; }
        return (int)i;
    }
    return a.size() == b.size() ? -1 : (int)n;
}

// =========================================================================================== flat content (for the comparison with expat's event stream)
static void flat_dom(DOMNode* n, Dump& d, bool v11) {
    switch (n->getNodeType()) {
    case DOMNode::DOCUMENT_NODE:
    case DOMNode::ENTITY_REFERENCE_NODE:
        for (DOMNode* c = n->getFirstChild(); c; c = c->getNextSibling()) flat_dom(c, d, v11);
        break;
    case DOMNode::ELEMENT_NODE: {
        d.add("S|" + esc16(n->getNodeName()));
        DOMNamedNodeMap* am = n->getAttributes();
        std::vector<std::string> as;
        for (XMLSize_t i = 0; i < am->getLength(); i++) {
            DOMNode* a = am->item(i);
            if (is_nsdecl(a)) continue;
            as.push_back("A|" + esc16(a->getNodeName()) + "|" + esc16(a->getNodeValue()));
        }
        std::sort(as.begin(), as.end());
        for (auto& s : as) d.add(s);
        for (DOMNode* c = n->getFirstChild(); c; c = c->getNextSibling()) flat_dom(c, d, v11);
        d.add("E|" + esc16(n->getNodeName()));
        break;
    }
    case DOMNode::TEXT_NODE: d.chars(esc16(n->getNodeValue())); break;
    case DOMNode::CDATA_SECTION_NODE: d.chars(e16(eolNorm(u16(n->getNodeValue()), v11))); break;
    case DOMNode::COMMENT_NODE: d.add("C|" + e16(eolNorm(u16(n->getNodeValue()), v11))); break;
    case DOMNode::PROCESSING_INSTRUCTION_NODE: d.add("PI|" + esc16(n->getNodeName()) + "|" + e16(pi_norm(u16(n->getNodeValue()), v11))); break;
    default: break;
    }
}
struct ExpatFlat {
    Dump d; bool inDtd = false;
    static void XMLCALL start(void* ud, const XML_Char* name, const XML_Char** atts) {
        ExpatFlat* s = (ExpatFlat*)ud;
        s->d.add("S|" + esc8(name));
        std::vector<std::string> as;
        for (int i = 0; atts[i]; i += 2) {
            if (strcmp(atts[i], "xmlns") == 0 || strncmp(atts[i], "xmlns:", 6) == 0) continue;
            as.push_back("A|" + esc8(atts[i]) + "|" + esc8(atts[i + 1]));
        }
        std::sort(as.begin(), as.end());
        for (auto& a : as) s->d.add(a);
    }
    static void XMLCALL end(void* ud, const XML_Char* name) { ((ExpatFlat*)ud)->d.add("E|" + esc8(name)); }
    static void XMLCALL chars(void* ud, const XML_Char* c, int n) { ((ExpatFlat*)ud)->d.chars(esc8(c, n)); }
    static void XMLCALL pi(void* ud, const XML_Char* t, const XML_Char* dd) { ExpatFlat* s = (ExpatFlat*)ud; if (!s->inDtd) s->d.add("PI|" + esc8(t) + "|" + esc8(dd)); }
    static void XMLCALL comment(void* ud, const XML_Char* c) { ExpatFlat* s = (ExpatFlat*)ud; if (!s->inDtd) s->d.add("C|" + esc8(c)); }
    static void XMLCALL sdt(void* ud, const XML_Char*, const XML_Char*, const XML_Char*, int) { ((ExpatFlat*)ud)->inDtd = true; }
    static void XMLCALL edt(void* ud) { ((ExpatFlat*)ud)->inDtd = false; }
    // returns well-formedness verdict
    bool run(const std::string& bytes, const char* enc, std::string& err) {
        XML_Parser p = XML_ParserCreate(enc);
        XML_SetHashSalt(p, 12345);
        XML_SetUserData(p, this);
        XML_SetElementHandler(p, start, end);
        XML_SetCharacterDataHandler(p, chars);
        XML_SetProcessingInstructionHandler(p, pi);
        XML_SetCommentHandler(p, comment);
        XML_SetDoctypeDeclHandler(p, sdt, edt);
        int st = XML_Parse(p, bytes.data(), (int)bytes.size(), 1);
        d.flush();
        bool ok = st != XML_STATUS_ERROR;
        if (!ok) err = std::string(XML_ErrorString(XML_GetErrorCode(p))) + " @" + std::to_string((unsigned long)XML_GetCurrentLineNumber(p)) + ":" + std::to_string((unsigned long)XML_GetCurrentColumnNumber(p));
        XML_ParserFree(p);
        return ok;
    }
};
static std::vector<std::string> no_empty_text(const std::vector<std::string>& in) { std::vector<std::string> o; for (auto& l : in) if (l != "T|") o.push_back(l); return o; }

// =========================================================================================== expectation (reference model of what must / may be refused)
enum { MUST_OK = 0, MAY_FAIL = 1, MUST_FAIL = 2 };
struct Expect {
    int verdict = MUST_OK; std::string why;
    bool undeclaredER = false;   // reference to an entity the document does not declare: documented to be written as &name; regardless
    bool has11only = false;      // contains characters whose treatment differs between XML 1.0 and 1.1 (C0/C1 controls, NEL, LSEP)
    int unrepData = 0;           // number of Text/attribute/CDATA(split) data strings containing a character the encoding cannot represent
    bool hasER = false;          // tree holds EntityReference nodes (their expansion is not serialized: expat content comparison not applicable)
    bool lossy = false;          // contains detail XML cannot express (empty Text node, literal CR/NEL in comment/PI/CDATA, leading white space of PI data)
    std::set<std::string> kd;    // known-defect predicates that hold for this (tree, configuration)
    void fail(const std::string& w) { if (verdict < MUST_FAIL) { verdict = MUST_FAIL; why = w; } }
    void may(const std::string& w) { if (verdict < MAY_FAIL) { verdict = MAY_FAIL; why = w; } }
};
static void scan11(const U16& s, Expect& e) { for (char16_t c : s) if ((c < 0x20 && c != 9 && c != 0xA && c != 0xD) || (c >= 0x7F && c <= 0x9F) || c == 0x2028) e.has11only = true; }
static bool has_supp(const U16& s) { for (char16_t c : s) if (c >= 0xD800 && c < 0xDC00) return true; return false; }
static bool has_unrep_supp(int enc, const U16& s) { for (uint32_t c : cps(s)) if (c >= 0x10000 && !g_icu.rep(enc, c)) return true; return false; }
// reference-side predicates of the known defects for character data that may be written as references (Text, attribute values)
static void kd_refdata(const U16& v, const Cfg& c, int enc, Expect& e) {
    if (enc == 7 && has_supp(v)) e.kd.insert("icu-transcoder-lone-surrogate-representable");
    if (c.v11) for (char16_t ch : v) {
        if (ch == 0x85 || ch == 0x2028) e.kd.insert("xml11-nel-written-literally");
        if (isRestricted11(ch)) e.kd.insert("xml11-restricted-char-refused");
    }
}
static void expect_name(const U16& nm, const Cfg& c, Expect& e, const char* what) {
    if (!literalOk(nm, c.v11)) e.fail(std::string(what) + "-illegal-char");
    else if (!g_icu.repAll(c.enc, nm)) e.fail(std::string(what) + "-unrepresentable");
}
static bool entity_declared(DOMNode* ref) {
    DOMDocument* d = ref->getOwnerDocument();
    DOMDocumentType* dt = d ? d->getDoctype() : nullptr;
    return dt && dt->getEntities() && dt->getEntities()->getNamedItem(ref->getNodeName());
}
static void expect_walk(DOMNode* n, const Cfg& c, Expect& e) {
    int enc = c.target == 0 ? ENC_INTERNAL : c.enc;
    Cfg cc = c; cc.enc = enc;
    switch (n->getNodeType()) {
    case DOMNode::DOCUMENT_NODE: break;
    case DOMNode::DOCUMENT_TYPE_NODE: {
        DOMDocumentType* dt = (DOMDocumentType*)n;
        expect_name(u16(dt->getName()), cc, e, "doctype-name");
        {   // known defect: the internal subset string the parser hands to the DOM holds entity values with their character references expanded
            U16 is = u16(dt->getInternalSubset());
            size_t p = 0;
            while ((p = is.find(u16("<!ENTITY "), p)) != U16::npos) {
                size_t q = is.find(u'"', p), r = q == U16::npos ? q : is.find(u'"', q + 1);
                if (r == U16::npos) break;
                for (size_t i = q + 1; i < r; i++)
                    if (is[i] == '%' || (is[i] == '&' && is.find(u';', i) > r)) e.kd.insert("internal-subset-entity-value-not-escaped");
                p = r;
            }
        }
        bool pub = dt->getPublicId() && *dt->getPublicId(), sys = dt->getSystemId() && *dt->getSystemId();
        if (pub && !sys) e.fail("doctype-public-without-system");
        return;
    }
    case DOMNode::ELEMENT_NODE: {
        expect_name(u16(n->getNodeName()), cc, e, "element-name");
        DOMNamedNodeMap* am = n->getAttributes();
        {   // known defect: one prefix needed for two namespaces on the same element
            std::map<U16, U16> need;
            auto want = [&](DOMNode* x) {
                const XMLCh* pf = x->getPrefix(); const XMLCh* ns = x->getNamespaceURI();
                if (!pf || !*pf || !ns || XMLString::equals(ns, XMLUni::fgXMLNSURIName) || XMLString::equals(ns, XMLUni::fgXMLURIName)) return;
                auto it = need.find(u16(pf));
                if (it == need.end()) need[u16(pf)] = u16(ns);
                else if (it->second != u16(ns)) e.kd.insert("namespace-fixup-prefix-conflict");
            };
            want(n);
            for (XMLSize_t i = 0; i < am->getLength(); i++) want(am->item(i));
        }
        {   // known defect: an unprefixed no-namespace element (needs xmlns="") below a non-empty default namespace, with element children
            const XMLCh* pf = n->getPrefix(); const XMLCh* ns = n->getNamespaceURI();
            bool plain = (!pf || !*pf) && (!ns || !*ns), kid = false, outer = false;
            for (DOMNode* k = n->getFirstChild(); k; k = k->getNextSibling()) if (k->getNodeType() == DOMNode::ELEMENT_NODE) kid = true;
            for (DOMNode* a = n->getParentNode(); a && a->getNodeType() == DOMNode::ELEMENT_NODE; a = a->getParentNode()) {
                const XMLCh* apf = a->getPrefix(); const XMLCh* ans = a->getNamespaceURI();
                if ((!apf || !*apf) && ans && *ans) outer = true;
            }
            if (plain && kid && outer) e.kd.insert("empty-default-namespace-binding-ignored");
        }
        for (XMLSize_t i = 0; i < am->getLength(); i++) {
            DOMAttr* a = (DOMAttr*)am->item(i);
            if (c.discard && !a->getSpecified()) continue;
            expect_name(u16(a->getNodeName()), cc, e, "attr-name");
            U16 v = u16(a->getValue());
            scan11(v, e);
            kd_refdata(v, c, enc, e);
            if (!refOk(v, c.v11)) e.fail("attr-value-illegal-char");
            else if (!g_icu.repAll(enc, v)) e.unrepData++;
            for (DOMNode* k = a->getFirstChild(); k; k = k->getNextSibling())
                if (k->getNodeType() == DOMNode::ENTITY_REFERENCE_NODE) { e.hasER = true; if (!entity_declared(k)) e.undeclaredER = true; }
        }
        break;
    }
    case DOMNode::TEXT_NODE: {
        U16 v = u16(n->getNodeValue());
        scan11(v, e);
        kd_refdata(v, c, enc, e);
        if (v.empty()) e.lossy = true;
        if (!refOk(v, c.v11)) e.fail("text-illegal-char");
        else if (!g_icu.repAll(enc, v)) e.unrepData++;
        return;
    }
    case DOMNode::CDATA_SECTION_NODE: {
        U16 v = u16(n->getNodeValue());
        scan11(v, e);
        if (eolNorm(v, c.v11) != v) e.lossy = true;
        if (c.split) {
            if (contains(v, "]]>")) e.kd.insert("cdata-end-marker-dropped-when-splitting");
            if (has_unrep_supp(enc, v)) e.kd.insert("cdata-split-surrogate-halves-as-references");
            if (enc == 7 && has_supp(v)) e.kd.insert("icu-transcoder-lone-surrogate-representable");
            if (!literalOk(v, c.v11)) e.kd.insert("cdata-illegal-char-emitted-when-splitting");
        }
        if (!c.split) {
            if (contains(v, "]]>")) e.fail("cdata-end-marker-nosplit");
            else if (!literalOk(v, c.v11)) e.fail("cdata-illegal-char");
            else if (!g_icu.repAll(enc, v)) e.fail("cdata-unrepresentable-nosplit");
        } else {
            if (!refOk(v, c.v11)) e.fail("cdata-illegal-char");
            else if (!literalOk(v, c.v11)) e.may("cdata-restricted-char-split");  // expressible only by splitting and writing a reference
            else if (!g_icu.repAll(enc, v)) e.unrepData++;
        }
        return;
    }
    case DOMNode::COMMENT_NODE: {
        U16 v = u16(n->getNodeValue());
        scan11(v, e);
        if (eolNorm(v, c.v11) != v) e.lossy = true;
        if (contains(v, "--") || (!v.empty() && v.back() == '-')) { e.fail("comment-double-hyphen"); e.kd.insert("comment-double-hyphen-emitted"); }
        else if (!literalOk(v, c.v11)) e.fail("comment-illegal-char");
        else if (!g_icu.repAll(enc, v)) e.fail("comment-unrepresentable");
        return;
    }
    case DOMNode::PROCESSING_INSTRUCTION_NODE: {
        expect_name(u16(n->getNodeName()), cc, e, "pi-target");
        U16 v = u16(n->getNodeValue());
        scan11(v, e);
        if (pi_norm(v, c.v11) != v) e.lossy = true;
        if (contains(v, "?>")) { e.fail("pi-end-marker"); e.kd.insert("pi-end-marker-emitted"); }
        else if (!literalOk(v, c.v11)) e.fail("pi-illegal-char");
        else if (!g_icu.repAll(enc, v)) e.fail("pi-unrepresentable");
        return;
    }
    case DOMNode::ENTITY_REFERENCE_NODE:
        expect_name(u16(n->getNodeName()), cc, e, "entity-name");
        e.hasER = true;
        if (!entity_declared(n)) e.undeclaredER = true;
        return;  // children (the expansion) are documented to be ignored
    default: return;
    }
    for (DOMNode* k = n->getFirstChild(); k; k = k->getNextSibling()) expect_walk(k, c, e);
}

// =========================================================================================== the per-tree check
struct TreeOpts { bool dropNs; std::string label; };

static bool starts(const std::string& s, const char* p, size_t n) { return s.size() >= n && memcmp(s.data(), p, n) == 0; }

static void check_tree(DOMDocument* doc, const TreeOpts& to, Ctx& c) {
    std::map<std::string, bool> memo;   // (forced-encoding flag + bytes) -> oracles 1/2 already passed
    std::map<std::string, DOMDocument*> reCache;   // same key -> re-parsed document (kept for oracle 3 of the other configurations)
    struct RelAll { std::map<std::string, DOMDocument*>& m; ~RelAll() { for (auto& kv : m) if (kv.second) kv.second->release(); } } relAll{reCache};
    U16 origVersion = u16(doc->getXmlVersion());
    for (const Cfg& cfg : CFGS) {
        int enc = cfg.target == 0 ? ENC_INTERNAL : cfg.enc;
        doc->setXmlVersion(cfg.v11 ? X16("1.1").p() : X16("1.0").p());
        Expect ex;
        expect_walk(doc, cfg, ex);
        SerOut out = do_serialize(doc, cfg);
        c.count("serializations");
        auto detail = [&](const std::string& extra) {
            return "\"tree\":" + jstr(to.label) + ",\"config\":" + jstr(cfg.str()) + ",\"output_hex\":" + jstr(hexs(out.bytes.substr(0, 200))) + ",\"reports\":" + jstr(out.log + out.exc) +
                   (extra.empty() ? "" : "," + extra);
        };
        // known-defect attribution (see KNOWN_DEFECTS)
        auto report = [&](const std::string& kind, const std::string& det) {
            if (g_known)
                for (const std::string& id : ex.kd) {
                    const KnownDefect* k = kd_find(id);
                    if (!k || !kd_kind(k, kind) || !kd_open(id)) continue;
                    if (kind == "illformed-content-emitted-silently") {   // attribute only when the reference reason is this defect's
                        bool mine = (id == "comment-double-hyphen-emitted" && ex.why == "comment-double-hyphen") || (id == "pi-end-marker-emitted" && ex.why == "pi-end-marker") ||
                                    (id == "cdata-illegal-char-emitted-when-splitting" && ex.why == "cdata-illegal-char");
                        if (!mine) continue;
                    }
                    if (g_witness && to.label == k->witnessTree && cfg.str() == k->witnessCfg) c.violation("defect:" + id, det + ",\"oracle\":" + jstr(kind));
                    else c.count("known_defect:" + id);
                    return;
                }
            c.violation(kind, det);
        };
        if (out.foreign()) { c.violation("foreign-exception", detail("\"exc\":" + jstr(out.exc))); continue; }
        if (!out.exc.empty()) c.count("exception:" + out.exc);
        if (out.warns) c.count("warnings_reported");
        // ---- oracle 5 / 4b: what must be refused is refused (and reported), what is expressible is not refused
        if (ex.verdict == MUST_FAIL) {
            if (out.signalled()) {
                c.count("refused_as_required:" + ex.why);
                if (out.errs + out.fatals == 0) c.count("refused_without_handler_report");
            } else {
                report("illformed-content-emitted-silently", detail("\"why\":" + jstr(ex.why)));
            }
            continue;
        }
        if (out.signalled()) {
            if (ex.verdict == MAY_FAIL) { c.count("refused_optional:" + ex.why); continue; }
            report("spurious-failure", detail(""));
            continue;
        }
        c.count("serialized_ok");
        if (ex.verdict == MAY_FAIL) c.count("accepted_optional:" + ex.why);
        // ---- BOM and XML declaration
        {
            const std::string& b = out.bytes;
            std::string bom;
            if (cfg.target == 1 && cfg.bom) bom = enc == 0 ? "\xEF\xBB\xBF" : enc == 1 ? "\xFF\xFE" : enc == 2 ? "\xFE\xFF" : "";
            bool has8 = starts(b, "\xEF\xBB\xBF", 3), hasLE = starts(b, "\xFF\xFE", 2), hasBE = starts(b, "\xFE\xFF", 2);
            bool okb = bom.empty() ? !(has8 || ((enc == 1 || enc == 2) && (hasLE || hasBE))) : starts(b, bom.data(), bom.size());
            if (!okb) { c.violation("bom-mismatch", detail("\"expected_bom\":" + jstr(hexs(bom)))); continue; }
            if (!bom.empty()) c.count("bom_written");
        }
        size_t bomLen = (cfg.target == 1 && cfg.bom) ? (enc == 0 ? 3 : (enc == 1 || enc == 2) ? 2 : 0) : 0;
        U16 text;
        if (!g_icu.decode(enc, out.bytes.substr(bomLen), text)) { c.violation("output-not-in-encoding", detail("")); continue; }
        {
            U16 want = u16("<?xml version=\"") + u16(cfg.v11 ? "1.1" : "1.0") + u16("\" encoding=\"") + u16(ENC[enc].xname) + u16("\"");
            bool has = text.compare(0, 6, u16("<?xml ")) == 0;
            if (has != cfg.xmldecl || (has && text.compare(0, want.size(), want) != 0)) { c.violation("xml-declaration-mismatch", detail("\"text\":" + jstr(show(text.substr(0, 80))))); continue; }
        }
        if (text.find(u16("&#x")) != U16::npos) c.count("outputs_with_charref");
        if (ex.unrepData) {
            c.count("unrepresentable_data_serialized");
            // oracle 4a, direct form: everything in the output is representable by construction (decode succeeded) and the
            // characters the encoding lacks can only have survived as references - verified by the re-parse below.
        }
        if (ex.undeclaredER) {   // documented: "Entity refs are always serialized as &foo;" - such output cannot be well-formed
            c.count("narrowed:undeclared_entity_reference");
            continue;
        }
        if (cfg.v11 && !cfg.xmldecl && ex.has11only) { c.count("narrowed:xml11_chars_without_declaration"); continue; }
        // ---- oracles 1 and 2 (memoised on the output bytes), 3
        const char* forced = nullptr;
        if (!cfg.xmldecl && enc != 0) forced = ENC[enc].icu;   // no declaration: the encoding is external information ("UTF-16LE" for enc 1)
        if (cfg.target == 0 && !cfg.xmldecl) forced = "UTF-16LE";
        std::string key = std::string(forced ? forced : "-") + "|" + out.bytes;
        NFOpts no; no.dropNs = to.dropNs; no.v11 = cfg.v11; no.split = cfg.split; no.enc = enc; no.standalone = cfg.xmldecl;
        std::vector<NFItem> nfo;
        nf_node(doc, no, nfo);
        std::string err;
        // oracle 1: expat
        bool expatApplicable = ENC[enc].expat && !(cfg.v11 && ex.has11only);
        if (!memo.count(key)) {
            if (expatApplicable) {
                ExpatFlat ef;
                const char* eenc = forced ? (enc == 1 ? "UTF-16LE" : ENC[enc].expat) : nullptr;
                bool wf = ef.run(out.bytes, eenc, err);
                c.count("expat_checked");
                if (!wf) { report("output-not-wellformed-expat", detail("\"expat_error\":" + jstr(err) + ",\"text\":" + jstr(show(text.substr(0, 200))))); continue; }
                Dump dd; flat_dom(doc, dd, cfg.v11); dd.flush();
                std::vector<std::string> a = no_empty_text(dd.lines), b = no_empty_text(ef.d.lines);
                if (ex.hasER) c.count("expat_content_not_compared_entity_references");
                else c.count("expat_content_compared");
                if (!ex.hasER && a != b) {
                    size_t i = 0; while (i < a.size() && i < b.size() && a[i] == b[i]) i++;
                    report("content-differs-expat", detail("\"expected\":" + jstr(i < a.size() ? a[i] : "<end>") + ",\"observed\":" + jstr(i < b.size() ? b[i] : "<end>") +
                                                               ",\"text\":" + jstr(show(text.substr(0, 200)))));
                    continue;
                }
            } else c.count("expat_not_applicable");
        }
        // oracle 2: Xerces re-parse and normalising comparison
        DOMDocument* re = nullptr;
        auto rit = reCache.find(key);
        if (rit != reCache.end()) re = rit->second;
        else { re = parse_doc(out.bytes, forced, true, err); c.count("reparses"); if (re) reCache[key] = re; }
        if (!re) { report("output-not-wellformed-xerces", detail("\"parse_error\":" + jstr(err) + ",\"text\":" + jstr(show(text.substr(0, 200))))); continue; }
        re->setXmlVersion(cfg.v11 ? X16("1.1").p() : X16("1.0").p());
        if (!memo.count(key)) {
            std::vector<NFItem> nfr;
            NFOpts nr = no; nr.split = false;
            nf_node(re, nr, nfr);
            bool loose = false;
            int at = nf_diff(nfo, nfr, loose);
            if (at >= 0) {
                report("reparsed-tree-differs", detail("\"expected\":" + jstr(at < (int)nfo.size() ? nfo[at].strict : "<end>") + ",\"observed\":" + jstr(at < (int)nfr.size() ? nfr[at].strict : "<end>") +
                                                             ",\"text\":" + jstr(show(text.substr(0, 200)))));
                if (c.verbose) printf("--- original NF\n%s--- reparsed NF\n%s", nf_join(nfo).c_str(), nf_join(nfr).c_str());
                continue;
            }
            c.count("roundtrip_equal");
            if (loose) c.count("roundtrip_equal_modulo_cdata_split");
            // isEqualNode must agree whenever no normalisation at all was needed
            NFOpts xo; xo.exact = true; xo.standalone = false;   // (isEqualNode does not look at the standalone flag)
            std::vector<NFItem> ea, eb;
            nf_node(doc, xo, ea); nf_node(re, xo, eb);
            bool exactEq = nf_join(ea) == nf_join(eb);
            bool ien = doc->isEqualNode(re);
            c.count(ien ? "isEqualNode_true" : "isEqualNode_false");
            if (exactEq && !ien) { c.violation("isEqualNode-false-on-identical-trees", detail("")); continue; }
            if (!exactEq && ien) { c.violation("isEqualNode-true-on-different-trees", detail("")); continue; }
            memo[key] = true;
        } else c.count("oracle12_memoised");
        // oracle 3: second serialisation is byte-identical (not claimed for trees holding detail XML cannot express: the
        // re-parsed tree then legitimately differs in exactly that detail, and so does its serialisation)
        if (ex.lossy) { c.count("narrowed:oracle3_inexpressible_detail"); c.count("configs_checked_oracle12_only"); continue; }
        SerOut out2 = do_serialize(re, cfg);
        c.count("serializations");
        if (out2.signalled() || out2.bytes != out.bytes) {
            c.violation("second-serialization-differs", detail("\"second_hex\":" + jstr(hexs(out2.bytes.substr(0, 200))) + ",\"second_reports\":" + jstr(out2.log + out2.exc)));
            continue;
        }
        c.count("second_serialization_identical");
        c.count("configs_fully_checked");
    }
    doc->setXmlVersion(origVersion.empty() ? X16("1.0").p() : xs(origVersion));
}

// =========================================================================================== space "parsed"
static std::vector<std::string> TOK;
static int g_k = 3;
static void init_tokens() {
    auto T = [&](const std::string& s) { TOK.push_back(s); };
    T("<a>"); T("</a>"); T("<a/>"); T("<b/>"); T("<a><b/></a>");
    T("<p:a xmlns:p='up'>"); T("</p:a>"); T("<p:b xmlns:p='up' p:x='1'/>"); T("<a xmlns='ud'>"); T("<b xmlns=''/>"); T("<a xmlns='ud'><b xmlns=''><c/></b></a>");
    T("<a x='1' y=\"2\"/>"); T("<a x='&lt;&amp;&gt;&quot;&apos;'/>"); T("<a x='&#9;&#10;&#13; '/>"); T("<a x='\xC3\xA9\xE2\x82\xAC\xF0\x90\x80\x80'/>"); T("<a x=\"'\" y='\"'/>");
    T("<a xml:space='preserve' xml:lang='en'/>");
    T("x"); T("&lt;&amp;&gt;"); T("]]&gt;"); T("&#13;"); T("\n"); T("\t "); T("\xC3\xA9"); T("\xE2\x82\xAC"); T("\xF0\x90\x80\x80"); T("&#x85;"); T("\"'");
    T("<![CDATA[c<&]]>"); T("<![CDATA[]]>"); T("<![CDATA[\xE2\x82\xAC]]>"); T("<![CDATA[]]]]><![CDATA[>]]>");
    T("<!--c-->"); T("<!---->"); T("<!-- - -->"); T("<!--\xE2\x82\xAC<&-->");
    T("<?pi d?>"); T("<?pi?>"); T("<?pi \xE2\x82\xAC ?>");
    T("<?xml version='1.0'?>"); T("<?xml version='1.1'?>"); T("<?xml version='1.0' encoding='ISO-8859-1' standalone='yes'?>");
    T("<!DOCTYPE a>"); T("<!DOCTYPE a SYSTEM 's.dtd'>"); T("<!DOCTYPE a PUBLIC 'pub' 's.dtd'>");
    T("<!DOCTYPE a [<!ENTITY e 'v<b/>'><!ATTLIST a d CDATA 'dv'>]>");
    T(DTD_TOKEN2);
    T("&e;"); T("<a>&e;</a>"); T("<a x='&e;'/>"); T("<a d='k'>&e;x&e;</a>");
}
static std::string doc_of(uint64_t idx) { std::string d; for (int t : word_at(idx, TOK.size(), g_k)) d += TOK[t]; return d; }
static void run_parsed(uint64_t idx, Ctx& c) {
    uint64_t w = idx / 2; bool entRef = idx % 2;
    std::string doc = doc_of(w), err;
    DOMDocument* d = parse_doc(doc, nullptr, entRef, err);
    c.count("words_parsed");
    if (!d) { c.count("word_not_wellformed"); return; }
    struct RelDoc { DOMDocument* d; ~RelDoc() { d->release(); } } rel{d};
    c.count("trees"); c.count(entRef ? "trees_with_entref_nodes_enabled" : "trees_with_entities_expanded");
    TreeOpts to; to.dropNs = false; to.label = std::string(entRef ? "parsed(entity-reference-nodes): " : "parsed(entities expanded): ") + doc;
    check_tree(d, to, c);
    if (idx % 997 == 0) c.sample("{\"doc\":" + jstr(doc) + "}");
}

// =========================================================================================== character-data alphabet
static std::vector<U16> SYM;
static void init_sym() {
    for (const char* s : {"x", "<", "&", ">", "\"", "'", "\r", "\n", "\t", "]]>", "]]", "--", "?>"}) SYM.push_back(u16(s));
    SYM.push_back(U16(1, (char16_t)0xE9)); SYM.push_back(U16(1, (char16_t)0x20AC));
    U16 sup; sup += (char16_t)0xD800; sup += (char16_t)0xDC00; SYM.push_back(sup);
    SYM.push_back(U16(1, (char16_t)0x85)); SYM.push_back(U16(1, (char16_t)0x01));
}
static U16 data_at(uint64_t idx, int k) { U16 s; for (int t : word_at(idx, SYM.size(), k)) s += SYM[t]; return s; }

// =========================================================================================== space "built"
enum StepKind { K_DT, K_E, K_UP, K_A, K_T, K_CD, K_C, K_PI, K_ER };
struct Step { int kind, a, b; std::string name; };
static std::vector<Step> STEPS;
static std::vector<U16> DS;
static int g_steps = 3;
static const char* ELN[] = {"a", "p:a+decl", "q:a", "a{ud}", "\\u00E9", "p:b"};
static const char* ATN[] = {"x", "p:x", "q:x", "q:y{uz}"};
static void init_steps(const std::string& dset) {
    bool mini = dset == "mini";
    if (!mini) {
        DS.push_back(u16("x"));
        DS.push_back(u16("&<\r"));
        U16 n; n += (char16_t)0xE9; n += (char16_t)0x20AC; DS.push_back(n);
        DS.push_back(u16("]]>"));
    } else {
        DS.push_back(u16("x<"));
        U16 n; n += (char16_t)0x20AC; n += u16("\r]]>"); DS.push_back(n);
    }
    auto S = [&](int k, int a, int b, const std::string& nm) { STEPS.push_back(Step{k, a, b, nm}); };
    for (int i = 0; i < 4; i++) if (!mini || i == 0 || i == 2) S(K_DT, i, 0, std::string("DT") + std::to_string(i));
    for (int i = 0; i < 6; i++) if (!mini || i < 4) S(K_E, i, 0, std::string("E(") + ELN[i] + ")");
    S(K_UP, 0, 0, "UP");
    for (int i = 0; i < 4; i++) if (!mini || i != 1) for (size_t d = 0; d < DS.size(); d++) S(K_A, i, (int)d, std::string("A(") + ATN[i] + "=" + show(DS[d]) + ")");
    for (size_t d = 0; d < DS.size(); d++) S(K_T, 0, (int)d, "T(" + show(DS[d]) + ")");
    for (size_t d = 0; d < DS.size(); d++) S(K_CD, 0, (int)d, "CD(" + show(DS[d]) + ")");
    for (size_t d = 0; d < DS.size(); d++) S(K_C, 0, (int)d, "C(" + show(DS[d]) + ")");
    for (size_t d = 0; d < DS.size(); d++) S(K_PI, 0, (int)d, "PI(t " + show(DS[d]) + ")");
    S(K_ER, 0, 0, "ER(e)");
}
static const char* BASE1 = "<!DOCTYPE a [<!ENTITY e 'v<b/>'><!ATTLIST a d CDATA 'dv'>]><a/>";
static std::string steps_label(int base, const std::vector<int>& w) {
    std::string s = base ? std::string("base=parsed ") + BASE1 + " ; steps:" : "base=empty document ; steps:";
    for (int t : w) s += " " + STEPS[t].name;
    return s;
}
// returns null when the sequence is not a legal / canonical construction (why says which)
static DOMDocument* build(int base, const std::vector<int>& w, std::string& why) {
    DOMDocument* doc = nullptr;
    std::string err;
    if (base == 0) doc = g_core->createDocument();
    else doc = parse_doc(BASE1, nullptr, true, err);
    if (!doc) { why = "base-failed"; return nullptr; }
    DOMNode* cur = base == 0 ? (DOMNode*)doc : (DOMNode*)doc->getDocumentElement();
    int depth = 0;
    static const U16 up = u16("up"), uq = u16("uq"), ud = u16("ud"), uz = u16("uz");
    try {
        for (size_t i = 0; i < w.size(); i++) {
            const Step& s = STEPS[w[i]];
            switch (s.kind) {
            case K_DT: {
                if (cur != doc || doc->getDocumentElement() || doc->getDoctype()) { why = "illegal:doctype-position"; doc->release(); return nullptr; }
                DOMDocumentType* dt = s.a == 0 ? doc->createDocumentType(X16("a").p(), nullptr, nullptr)
                                    : s.a == 1 ? doc->createDocumentType(X16("a").p(), nullptr, X16("s.dtd").p())
                                    : s.a == 2 ? doc->createDocumentType(X16("a").p(), X16("pub").p(), X16("s.dtd").p())
                                               : doc->createDocumentType(X16("a").p(), X16("pub").p(), nullptr);
                doc->appendChild(dt);
                break;
            }
            case K_E: {
                DOMElement* e = nullptr;
                switch (s.a) {
                case 0: e = doc->createElementNS(nullptr, X16("a").p()); break;
                case 1: e = doc->createElementNS(xs(up), X16("p:a").p()); e->setAttributeNS(XMLUni::fgXMLNSURIName, X16("xmlns:p").p(), xs(up)); break;
                case 2: e = doc->createElementNS(xs(uq), X16("q:a").p()); break;
                case 3: e = doc->createElementNS(xs(ud), X16("a").p()); break;
                case 4: { U16 n(1, (char16_t)0xE9); e = doc->createElementNS(nullptr, xs(n)); break; }
                default: e = doc->createElementNS(xs(up), X16("p:b").p()); break;
                }
                cur->appendChild(e);
                cur = e; depth++;
                break;
            }
            case K_UP:
                if (depth == 0 || i + 1 == w.size() || (i > 0 && false)) { why = "noncanonical:up"; doc->release(); return nullptr; }
                cur = cur->getParentNode(); depth--;
                break;
            case K_A: {
                if (cur->getNodeType() != DOMNode::ELEMENT_NODE) { why = "illegal:attribute-on-non-element"; doc->release(); return nullptr; }
                DOMElement* e = (DOMElement*)cur;
                const XMLCh* v = xs(DS[s.b]);
                bool had;
                switch (s.a) {
                case 0: had = e->hasAttributeNS(nullptr, X16("x").p()); if (!had) e->setAttributeNS(nullptr, X16("x").p(), v); break;
                case 1: had = e->hasAttributeNS(xs(up), X16("x").p()); if (!had) e->setAttributeNS(xs(up), X16("p:x").p(), v); break;
                case 2: had = e->hasAttributeNS(xs(uq), X16("x").p()); if (!had) e->setAttributeNS(xs(uq), X16("q:x").p(), v); break;
                default: had = e->hasAttributeNS(xs(uz), X16("y").p()); if (!had) e->setAttributeNS(xs(uz), X16("q:y").p(), v); break;
                }
                if (had) { why = "noncanonical:attribute-overwrite"; doc->release(); return nullptr; }
                break;
            }
            case K_T: cur->appendChild(doc->createTextNode(xs(DS[s.b]))); break;
            case K_CD: cur->appendChild(doc->createCDATASection(xs(DS[s.b]))); break;
            case K_C: cur->appendChild(doc->createComment(xs(DS[s.b]))); break;
            case K_PI: cur->appendChild(doc->createProcessingInstruction(X16("t").p(), xs(DS[s.b]))); break;
            case K_ER: cur->appendChild(doc->createEntityReference(X16("e").p())); break;
            }
        }
    } catch (const DOMException& e) {
        why = "illegal:DOMException-" + std::to_string((int)e.code);
        doc->release();
        return nullptr;
    }
    if (!doc->getDocumentElement()) { why = "illegal:no-document-element"; doc->release(); return nullptr; }
    return doc;
}
static void run_built(uint64_t idx, Ctx& c) {
    int base = (int)(idx % 2);
    std::vector<int> w = word_at(idx / 2, STEPS.size(), g_steps);
    std::string why;
    DOMDocument* d = build(base, w, why);
    if (!d) { c.count("sequence_skipped:" + why.substr(0, why.find('-') == std::string::npos ? why.size() : why.size())); return; }
    struct RelDoc { DOMDocument* d; ~RelDoc() { d->release(); } } rel{d};
    c.count("trees");
    TreeOpts to; to.dropNs = true; to.label = steps_label(base, w);
    check_tree(d, to, c);
    if (idx % 9973 == 0) c.sample("{\"tree\":" + jstr(to.label) + "}");
}

// =========================================================================================== space "nsnest"
// Chains of API-built elements without any xmlns attribute: every declaration in the output comes from namespace fix-up.  Level choices:
// element {a, a{ua}, a{ub}, p:a{ua}, p:a{ub}} x attribute {none, p:x{ua}, p:x{ub}} (an element and its attribute never ask for two bindings of
// p: that is the listed namespace-fixup-prefix-conflict defect); all chains of depth 1..g_steps, so that a prefix (or the default namespace)
// bound to A, re-bound to B below and needed for A again further down is covered from depth 3.
static const char* NSE[] = {"a", "a{ua}", "a{ub}", "p:a{ua}", "p:a{ub}"};
static const char* NSA[] = {"", " @p:x{ua}", " @p:x{ub}"};
static std::vector<int> NSLEVELS;   // element*3 + attribute
static void init_nsnest() {
    for (int e = 0; e < 5; e++) for (int a = 0; a < 3; a++) {
        if (e >= 3 && a != 0 && (e - 3) != (a - 1)) continue;
        NSLEVELS.push_back(e * 3 + a);
    }
}
static std::string nsnest_label(uint64_t idx) {
    std::vector<int> w = word_at(idx + 1, NSLEVELS.size(), g_steps);   // +1: skip the empty word
    std::string s = "API-built chain, no xmlns attributes:";
    for (int t : w) s += std::string(" > ") + NSE[NSLEVELS[t] / 3] + NSA[NSLEVELS[t] % 3];
    return s;
}
static void run_nsnest(uint64_t idx, Ctx& c) {
    std::vector<int> w = word_at(idx + 1, NSLEVELS.size(), g_steps);
    static const U16 ua = u16("urn:a"), ub = u16("urn:b");
    DOMDocument* d = g_core->createDocument();
    struct RelDoc { DOMDocument* d; ~RelDoc() { d->release(); } } rel{d};
    DOMNode* cur = d;
    for (int t : w) {
        int e = NSLEVELS[t] / 3, a = NSLEVELS[t] % 3;
        DOMElement* el = e == 0 ? d->createElementNS(nullptr, X16("a").p())
                       : e <= 2 ? d->createElementNS(xs(e == 1 ? ua : ub), X16("a").p())
                                : d->createElementNS(xs(e == 3 ? ua : ub), X16("p:a").p());
        if (a) el->setAttributeNS(xs(a == 1 ? ua : ub), X16("p:x").p(), X16("v").p());
        cur->appendChild(el);
        cur = el;
    }
    cur->appendChild(d->createTextNode(X16("t").p()));
    c.count("trees");
    TreeOpts to; to.dropNs = true; to.label = nsnest_label(idx);
    check_tree(d, to, c);
    if (idx % 997 == 0) c.sample("{\"tree\":" + jstr(to.label) + "}");
}

// =========================================================================================== space "ladder"
// One long character-data item whose interesting character sits at, just before and just behind the block edges of XMLFormatter
// (kTmpBufSize = 16384 source units per transcodeTo call, 16384 output bytes): <a> + {Text, attribute value, CDATA, Comment} holding
// filler^(N+off) + special + "tail", N in {8192, 16384, 32768}, off in -3..+1, filler 'x' (1 byte in every encoding) or U+00E9 (2 bytes
// in UTF-8, a reference in US-ASCII), special in {U+10000, U+20AC, '&', CR, ']]>'}.
static const size_t LADN[] = {8192, 16384, 32768};
static const int LADOFF[] = {-3, -2, -1, 0, 1};
static const char* LADSPN[] = {"U+10000", "U+20AC", "&", "CR", "]]>"};
static const char* LADKN[] = {"Text", "Attr", "CDATA", "Comment"};
static uint64_t ladder_total() { return 3ULL * 5 * 5 * 2 * 4; }
static bool g_ladder_quick = false;   // quick tier: N = 16384 only, specials U+10000 and '&', Text and attribute value (40 of the 600 trees)
static std::string ladder_label(uint64_t i) {
    int kind = (int)(i % 4); i /= 4; int fill = (int)(i % 2); i /= 2; int sp = (int)(i % 5); i /= 5; int off = (int)(i % 5); i /= 5; int n = (int)i;
    return std::string("<a> with ") + LADKN[kind] + " = " + (fill ? "U+00E9" : "x") + "^(" + std::to_string(LADN[n]) + (LADOFF[off] < 0 ? "" : "+") + std::to_string(LADOFF[off]) + ") " + LADSPN[sp] + " tail";
}
static void run_ladder(uint64_t idx, Ctx& c) {
    uint64_t i = idx;
    int kind = (int)(i % 4); i /= 4; int fill = (int)(i % 2); i /= 2; int sp = (int)(i % 5); i /= 5; int off = (int)(i % 5); i /= 5; int n = (int)i;
    if (g_ladder_quick && !(n == 1 && (sp == 0 || sp == 2) && kind <= 1)) { c.count("ladder_not_in_quick_subset"); return; }
    U16 data((size_t)((long)LADN[n] + LADOFF[off]), fill ? (char16_t)0xE9 : u'x');
    switch (sp) {
    case 0: data += (char16_t)0xD800; data += (char16_t)0xDC00; break;
    case 1: data += (char16_t)0x20AC; break;
    case 2: data += u'&'; break;
    case 3: data += u'\r'; break;
    default: data += u16("]]>"); break;
    }
    data += u16("tail");
    if (kind == 3 && sp == 4) { c.count("ladder_skipped_comment_with_cdata_end"); }   // "]]>" is ordinary comment data; kept (no '--' in it)
    DOMDocument* d = g_core->createDocument();
    struct RelDoc { DOMDocument* d; ~RelDoc() { d->release(); } } rel{d};
    DOMElement* a = d->createElementNS(nullptr, X16("a").p());
    d->appendChild(a);
    switch (kind) {
    case 0: a->appendChild(d->createTextNode(xs(data))); break;
    case 1: a->setAttributeNS(nullptr, X16("x").p(), xs(data)); break;
    case 2: a->appendChild(d->createCDATASection(xs(data))); break;
    default: a->appendChild(d->createComment(xs(data))); break;
    }
    c.count("trees");
    TreeOpts to; to.dropNs = false; to.label = ladder_label(idx);
    check_tree(d, to, c);
    if (idx % 97 == 0) c.sample("{\"tree\":" + jstr(to.label) + "}");
}

// =========================================================================================== space "data"
static const char* CTXN[] = {"Text", "CDATA", "Comment", "PI", "Attr", "Text+CDATA+Text"};
static const int NCTX = 6;
static std::string data_label(uint64_t idx) { return std::string("<a> with ") + CTXN[idx % NCTX] + " data=" + show(data_at(idx / NCTX, g_k)) + " [data case " + std::to_string(idx) + "]"; }
static void run_data(uint64_t idx, Ctx& c) {
    int ctx = (int)(idx % NCTX);
    U16 data = data_at(idx / NCTX, g_k);
    DOMDocument* d = g_core->createDocument();
    struct RelDoc { DOMDocument* d; ~RelDoc() { d->release(); } } rel{d};
    DOMElement* a = d->createElementNS(nullptr, X16("a").p());
    d->appendChild(a);
    switch (ctx) {
    case 0: a->appendChild(d->createTextNode(xs(data))); break;
    case 1: a->appendChild(d->createCDATASection(xs(data))); break;
    case 2: a->appendChild(d->createComment(xs(data))); break;
    case 3: a->appendChild(d->createProcessingInstruction(X16("t").p(), xs(data))); break;
    case 4: a->setAttributeNS(nullptr, X16("x").p(), xs(data)); break;
    default: a->appendChild(d->createTextNode(X16("x]]").p())); a->appendChild(d->createCDATASection(xs(data))); a->appendChild(d->createTextNode(X16(">y").p())); break;
    }
    c.count("trees"); c.count(std::string("trees:") + CTXN[ctx]);
    TreeOpts to; to.dropNs = true; to.label = data_label(idx);
    check_tree(d, to, c);
    if (idx % 4099 == 0) c.sample("{\"tree\":" + jstr(to.label) + "}");
}

// =========================================================================================== space "fmt": XMLFormatter driven directly
static std::vector<uint32_t> FCH;
static void init_fch() {
    for (uint32_t c = 1; c <= 0xFF; c++) FCH.push_back(c);
    for (uint32_t c : {0x100u, 0x152u, 0x153u, 0x160u, 0x161u, 0x178u, 0x17Du, 0x17Eu, 0x192u, 0x2C6u, 0x2DCu, 0x391u, 0x436u, 0x5D0u, 0x2013u, 0x2014u, 0x2018u, 0x2019u, 0x201Au,
                       0x201Cu, 0x201Du, 0x201Eu, 0x2020u, 0x2021u, 0x2022u, 0x2026u, 0x2028u, 0x2029u, 0x2030u, 0x2039u, 0x203Au, 0x20ACu, 0x2122u, 0x3042u, 0x4E2Du, 0xAC00u, 0xD7FFu,
                       0xE000u, 0xFB01u, 0xFFFDu, 0x10000u, 0x1F600u, 0x2000Bu, 0x10FFFFu})
        FCH.push_back(c);
}
static U16 cp16(uint32_t cp) {
    U16 s;
    if (cp >= 0x10000) { s += (char16_t)(0xD800 + ((cp - 0x10000) >> 10)); s += (char16_t)(0xDC00 + ((cp - 0x10000) & 0x3FF)); }
    else s += (char16_t)cp;
    return s;
}
static const char* MODEN[] = {"NoEscapes", "StdEscapes", "AttrEscapes", "CharEscapes"};
static const char* UNREPN[] = {"UnRep_Fail", "UnRep_CharRef", "UnRep_Replace"};
// Escapes required of each mode.  StdEscapes as documented in XMLFormatter.hpp.  For AttrEscapes and CharEscapes the header's
// tables are defective (they list '>' where '<' is meant and omit '<'; following them literally yields ill-formed XML), so the
// reference is what XML 1.0 requires of a double-quoted attribute value (2.3 [10], 3.3.3) resp. of character data (2.4 [14], 2.11).
static bool fmt_escape(int mode, uint32_t cp, bool v11, U16& ref) {
    auto hex = [&](uint32_t v) { char b[16]; snprintf(b, sizeof b, "&#x%X;", v); ref = u16(b); return true; };
    if (mode == XMLFormatter::NoEscapes) return false;
    if (cp == '&') { ref = u16("&amp;"); return true; }
    if (cp == '<') { ref = u16("&lt;"); return true; }
    if (mode == XMLFormatter::StdEscapes) {
        if (cp == '>') { ref = u16("&gt;"); return true; }
        if (cp == '"') { ref = u16("&quot;"); return true; }
        if (cp == '\'') { ref = u16("&apos;"); return true; }
    } else if (mode == XMLFormatter::AttrEscapes) {
        if (cp == '"') { ref = u16("&quot;"); return true; }
        if (cp == 9 || cp == 0xA || cp == 0xD) return hex(cp);   // otherwise lost to attribute-value normalisation
    } else {
        if (cp == '>') { ref = u16("&gt;"); return true; }         // "]]>" must not appear in character data
        if (cp == 0xD) return hex(cp);                            // otherwise lost to end-of-line normalisation
    }
    if (v11 && isRestricted11(cp)) return hex(cp);               // XML 1.1: only as references
    // XML 1.1 2.11: literal NEL / LSEP are end-of-line characters and come back as LF (a space in attribute values), so wherever CR
    // needs a reference they need one too (the tree oracle of the data space demands the same)
    if (v11 && (cp == 0x85 || cp == 0x2028) && (mode == XMLFormatter::AttrEscapes || mode == XMLFormatter::CharEscapes)) return hex(cp);
    return false;
}
struct FmtCase { int enc, v11, mode, unrep; };
static FmtCase fmt_case(uint64_t idx) { FmtCase f; f.unrep = idx % 3; idx /= 3; f.mode = idx % 4; idx /= 4; f.v11 = idx % 2; idx /= 2; f.enc = (int)idx; return f; }
static std::string fmt_label(uint64_t idx) {
    FmtCase f = fmt_case(idx);
    return std::string(ENC[f.enc].xname) + (f.v11 ? "/1.1/" : "/1.0/") + MODEN[f.mode] + "/" + UNREPN[f.unrep];
}
static void run_fmt(uint64_t idx, Ctx& c) {
    FmtCase f = fmt_case(idx);
    std::string label = fmt_label(idx);
    for (uint32_t cp : FCH) {
        for (int context = 0; context < 3; context++) {
            // context 0: the character alone; 1: between representable characters; 2: after a character the encoding lacks (run handling)
            U16 pre, post;
            if (context == 1) { pre = u16("x"); post = u16("y"); }
            if (context == 2) { pre = cp16(0x4E2D); post = u16("y"); }
            U16 in = pre + cp16(cp) + post;
            // ---- reference
            bool expectThrow = false;
            U16 expText;
            bool usedReplace = false;
            for (uint32_t q : cps(in)) {
                U16 ref;
                if (fmt_escape(f.mode, q, f.v11, ref)) { expText += ref; continue; }
                if (g_icu.rep(f.enc, q)) { expText += cp16(q); continue; }
                if (f.unrep == XMLFormatter::UnRep_Fail) { expectThrow = true; break; }
                if (f.unrep == XMLFormatter::UnRep_CharRef) { char b[16]; snprintf(b, sizeof b, "&#x%X;", q); expText += u16(b); continue; }
                expText += (char16_t)(q >= 0x10000 ? 0xFFFE : 0xFFFF); usedReplace = true;   // placeholders: "the replacement character" of the encoding
            }
            // ---- implementation
            std::string got, exc;
            try {
                MemBufFormatTarget tgt(64);
                XMLFormatter fm(X16(ENC[f.enc].xname).p(), f.v11 ? X16("1.1").p() : X16("1.0").p(), &tgt, (XMLFormatter::EscapeFlags)f.mode, (XMLFormatter::UnRepFlags)f.unrep);
                if (context == 0 && (cp & 1)) fm << xs(in);    // both entry points
                else fm.formatBuf(xs(in), in.size());
                got.assign((const char*)tgt.getRawBuffer(), tgt.getLen());
            }
            catch (const TranscodingException&) { exc = "TranscodingException"; }
            catch (const XMLException& e) { exc = "FOREIGN:XMLException:" + esc16(e.getType()); }
            catch (...) { exc = "FOREIGN:unknown"; }
            c.count("formatter_calls");
            char cpb[16]; snprintf(cpb, sizeof cpb, "U+%04X", cp);
            auto detail = [&](const std::string& e, const std::string& o) {
                return "\"formatter\":" + jstr(label) + ",\"char\":" + jstr(cpb) + ",\"context\":" + std::to_string(context) + ",\"input\":" + jstr(show(in)) + ",\"expected\":" + jstr(e) + ",\"observed\":" + jstr(o);
            };
            if (expectThrow) {
                if (exc == "TranscodingException") c.count("unrep_fail_thrown");
                else c.violation("formatter-unrep-fail-not-thrown", detail("TranscodingException", exc.empty() ? "bytes " + hexs(got) : exc));
                continue;
            }
            if (!exc.empty()) { c.violation("formatter-unexpected-exception", detail(show(expText), exc)); continue; }
            U16 gotText;
            if (!g_icu.decode(f.enc, got, gotText)) { c.violation("formatter-output-not-in-encoding", detail(show(expText), hexs(got))); continue; }
            // "the replacement character" is encoding specific (SUB, '?', U+FFFD); the header does not say whether a surrogate
            // pair yields one or two of them - both accepted.
            auto isRepl = [](char16_t g) { return g == 0x1A || g == '?' || g == 0xFFFD; };
            bool same = true;
            size_t gi = 0;
            for (size_t i = 0; same && i < expText.size(); i++) {
                if (gi >= gotText.size()) { same = false; break; }
                if (expText[i] == 0xFFFF) same = isRepl(gotText[gi++]);
                else if (expText[i] == 0xFFFE) {   // supplementary character: one or two replacement characters
                    same = isRepl(gotText[gi++]);
                    if (same && gi < gotText.size() && isRepl(gotText[gi]) && (i + 1 >= expText.size() || expText[i + 1] != gotText[gi])) gi++;
                } else same = gotText[gi++] == expText[i];
            }
            if (gi != gotText.size()) same = false;
            if (!same) {
                bool icuSupp = f.enc == 7 && f.unrep == XMLFormatter::UnRep_CharRef && has_supp(in);
                if (g_known && icuSupp && kd_open("icu-transcoder-lone-surrogate-representable")) {
                    if (label + " " + cpb + " " + std::to_string(context) == FMT_WITNESS) c.violation("defect:icu-transcoder-lone-surrogate-representable", detail(show(expText), show(gotText)));
                    else c.count("known_defect:icu-transcoder-lone-surrogate-representable");
                    continue;
                }
                c.violation("formatter-escape-mismatch", detail(show(expText), show(gotText)));
                continue;
            }
            U16 dummy;
            if (fmt_escape(f.mode, cp, f.v11, dummy)) c.count("escaped"); else if (!g_icu.rep(f.enc, cp)) c.count(usedReplace ? "replaced" : "charref_for_unrepresentable"); else c.count("written_directly");
        }
    }
}

// =========================================================================================== space "params": the documented parameter names
// DOMLSSerializer.hpp lists the parameters a DOMLSSerializer recognises and which values are [required].  One case per
// documented (name, value): the name given as the *documented string* must be accepted by canSetParameter/setParameter.
struct ParamCase { const char* name; bool value; };
static const ParamCase PARAMS[] = {
    {"xml-declaration", true}, {"xml-declaration", false}, {"split-cdata-sections", true}, {"split-cdata-sections", false},
    {"discard-default-content", true}, {"discard-default-content", false}, {"format-pretty-print", false}, {"normalize-characters", false},
    {"canonical-form", false}, {"http://apache.org/xml/features/dom/byte-order-mark", true}, {"http://apache.org/xml/features/dom/byte-order-mark", false},
};
static void run_params(uint64_t idx, Ctx& c) {
    const ParamCase& pc = PARAMS[idx];
    DOMLSSerializer* ser = g_impl->createLSSerializer();
    struct R { DOMLSSerializer* s; ~R() { s->release(); } } rel{ser};
    DOMConfiguration* dc = ser->getDomConfig();
    bool can = dc->canSetParameter(X16(pc.name).p(), pc.value);
    std::string exc;
    try { dc->setParameter(X16(pc.name).p(), pc.value); } catch (const DOMException& e) { exc = "DOMException:" + std::to_string((int)e.code); }
    c.count("parameters_probed");
    if (can && exc.empty()) { c.count("parameter_accepted"); return; }
    std::string det = "\"parameter\":" + jstr(pc.name) + ",\"value\":" + (pc.value ? "true" : "false") + ",\"canSetParameter\":" + (can ? "true" : "false") + ",\"setParameter\":" + jstr(exc);
    if (g_known && std::string(pc.name) == "discard-default-content" && kd_open("discard-default-content-name-misspelled")) {
        if (pc.value) c.violation("defect:discard-default-content-name-misspelled", det); else c.count("known_defect:discard-default-content-name-misspelled");
        return;
    }
    c.violation("documented-parameter-not-recognised", det);
}

// =========================================================================================== main
int main(int argc, char** argv) {
    Args a(argc, argv);
    std::string space = a.str("space", "parsed");
    g_k = (int)a.num("k", 3);
    g_steps = (int)a.num("steps", 3);
    g_known = a.num("known", 0) != 0;
    g_witness = a.num("witness", 1) != 0;
    init_cfgs(a.str("configs", "full"));
    init_sym();
    xml_init();
    static const XMLCh ls[] = {'L', 'S', 0};
    g_core = DOMImplementationRegistry::getDOMImplementation(ls);
    g_impl = (DOMImplementationLS*)g_core;
    for (int e = 0; e < NENC; e++) g_icu.get(e);
    Runner R;
    R.name = space;
    std::string extra = "\"configs\":" + std::to_string(CFGS.size());
    if (space == "parsed") {
        init_tokens();
        R.total = words_upto(TOK.size(), g_k) * 2;
        R.fn = run_parsed;
        R.describe = [](uint64_t i) { std::string d = doc_of(i / 2); return "{\"doc\":" + jstr(d) + ",\"entref\":" + std::to_string(i % 2) + "}"; };
        extra += ",\"alphabet\":" + std::to_string(TOK.size()) + ",\"k\":" + std::to_string(g_k);
    } else if (space == "built") {
        init_steps(a.str("dataset", "std"));
        R.total = words_upto(STEPS.size(), g_steps) * 2;
        R.fn = run_built;
        R.describe = [](uint64_t i) { return "{\"tree\":" + jstr(steps_label((int)(i % 2), word_at(i / 2, STEPS.size(), g_steps))) + "}"; };
        extra += ",\"alphabet\":" + std::to_string(STEPS.size()) + ",\"depth\":" + std::to_string(g_steps);
    } else if (space == "ladder") {
        R.total = ladder_total();
        g_ladder_quick = a.str("ladder", "full") == "quick";
        R.fn = run_ladder;
        R.describe = [](uint64_t i) { return "{\"tree\":" + jstr(ladder_label(i)) + "}"; };
        extra += ",\"lengths\":[8192,16384,32768],\"offsets\":[-3,1]";
    } else if (space == "nsnest") {
        init_nsnest();
        R.total = words_upto(NSLEVELS.size(), g_steps) - 1;
        R.fn = run_nsnest;
        R.describe = [](uint64_t i) { return "{\"tree\":" + jstr(nsnest_label(i)) + "}"; };
        extra += ",\"alphabet\":" + std::to_string(NSLEVELS.size()) + ",\"depth\":" + std::to_string(g_steps);
    } else if (space == "data") {
        R.total = words_upto(SYM.size(), g_k) * NCTX;
        R.fn = run_data;
        R.describe = [](uint64_t i) { return "{\"tree\":" + jstr(data_label(i)) + "}"; };
        extra += ",\"alphabet\":" + std::to_string(SYM.size()) + ",\"k\":" + std::to_string(g_k);
    } else if (space == "params") {
        R.total = sizeof(PARAMS) / sizeof(PARAMS[0]);
        R.fn = run_params;
        R.describe = [](uint64_t i) { return "{\"parameter\":" + jstr(PARAMS[i].name) + "}"; };
    } else if (space == "fmt") {
        init_fch();
        R.total = (uint64_t)NENC * 2 * 4 * 3;
        R.fn = run_fmt;
        R.describe = [](uint64_t i) { return "{\"formatter\":" + jstr(fmt_label(i)) + "}"; };
        extra += ",\"alphabet\":" + std::to_string(FCH.size());
    } else {
        fprintf(stderr, "unknown space\n");
        return 2;
    }
    R.extra_json = extra;
    return R.main_tail(a);
}
