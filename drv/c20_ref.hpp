// c20_ref.hpp - reference XInclude 1.0 expander for property C20.
//
// Independent of the Xerces XInclude implementation: every file is parsed by expat (xv::ExpatRef event dump) into a small
// tree; the expander replaces xi:include elements per XInclude 1.0 (Second Edition):
//   * parse="xml" (default): the recursively processed top-level nodes of the target (DOCTYPE dropped),
//   * parse="text": one text node holding the decoded resource,
//   * resource error (target missing): the processed children of the single xi:fallback child, fatal error without one,
//   * the content of an xi:fallback whose xi:include succeeded is ignored (3.2) - in particular not processed,
//   * fatal errors: inclusion loop (the target is the document being processed or one of its including documents), more
//     than one xi:fallback / an xi:include / another XInclude-namespace element as child of xi:include, xi:fallback whose
//     parent is not xi:include, parse value other than xml|text, xpointer together with parse="text", no href and no
//     xpointer, an xi:include document element not replaced by exactly one element (+ comments / PIs).
//   * xpointer with parse="xml" is reported as error kind "xpointer" as well: Xerces documents XPointer as unsupported.
// Base URIs: every element keeps the base URI it had in its source document (computed from the document URI and the
// xml:base attributes there, RFC 3986 reference resolution on plain paths); this is what xml:base fix-up has to preserve.
#pragma once
#include "xv_xml.hpp"

namespace c20 {
using namespace xv;

static const char* XINS = "http://www.w3.org/2001/XInclude";
static const char* XMLNS_NS = "http://www.w3.org/2000/xmlns/";
static const char* XML_NS = "http://www.w3.org/XML/1998/namespace";

// ---------------------------------------------------------------- path / URI helpers (plain absolute paths)
inline std::string norm_path(const std::string& p) {
    std::vector<std::string> parts;
    bool trail = false;
    size_t i = 0;
    while (i <= p.size()) {
        size_t j = p.find('/', i);
        if (j == std::string::npos) j = p.size();
        std::string s = p.substr(i, j - i);
        bool last = (j == p.size());
        if (s == "..") { if (!parts.empty()) parts.pop_back(); if (last) trail = true; }
        else if (s == ".") { if (last) trail = true; }
        else if (s.empty()) { if (last && i > 0) trail = true; }
        else parts.push_back(s);
        i = j + 1;
    }
    std::string o;
    for (auto& s : parts) { o += "/"; o += s; }
    if (trail || o.empty()) o += "/";
    return o;
}
inline std::string dir_of(const std::string& p) { return p.substr(0, p.rfind('/') + 1); }
inline std::string resolve(const std::string& ref, const std::string& base) {
    if (ref.empty()) return base;
    if (ref[0] == '/') return norm_path(ref);
    return norm_path(dir_of(base) + ref);
}
// relative reference from directory `fromDir` (ends with '/') to absolute path `to`
inline std::string relpath(const std::string& fromDir, const std::string& to) {
    auto split = [](const std::string& s) {
        std::vector<std::string> v; size_t i = 1;
        while (i <= s.size()) { size_t j = s.find('/', i); if (j == std::string::npos) j = s.size(); v.push_back(s.substr(i, j - i)); i = j + 1; }
        return v;
    };
    std::vector<std::string> a = split(fromDir), b = split(to);
    if (!a.empty() && a.back().empty()) a.pop_back();  // trailing slash
    size_t k = 0;
    while (k < a.size() && k + 1 < b.size() && a[k] == b[k]) k++;
    std::string o;
    for (size_t i = k; i < a.size(); i++) o += "../";
    for (size_t i = k; i < b.size(); i++) { o += b[i]; if (i + 1 < b.size()) o += "/"; }
    return o;
}

// ---------------------------------------------------------------- reference tree
struct RAttr { std::string qn, val, uri, local; };
struct RNode {
    char kind = 'E';  // E element, T text, C comment, P processing instruction
    std::string qn, uri, local, text;
    std::vector<RAttr> attrs;
    std::vector<RNode> kids;
    std::string base;          // base URI (elements)
    bool underOwnBaseRoot = false;  // result only: is / descends from an included document element that carries its own xml:base
    const RAttr* attr(const std::string& q) const { for (auto& a : attrs) if (a.qn == q) return &a; return nullptr; }
    bool isXi(const char* l) const { return kind == 'E' && uri == XINS && local == l; }
};

inline std::vector<std::string> split_bar(const std::string& l) {
    std::vector<std::string> f; size_t i = 0;
    while (true) { size_t j = l.find('|', i); if (j == std::string::npos) { f.push_back(l.substr(i)); break; } f.push_back(l.substr(i, j - i)); i = j + 1; }
    return f;
}

// builds the children of `parent` from the expat event dump; returns false on an unexpected line
inline bool build_tree(const std::vector<std::string>& L, size_t& i, RNode& parent, const std::string& parentBase) {
    std::vector<RAttr> pendingNs;
    while (i < L.size()) {
        const std::string& l = L[i];
        std::vector<std::string> f = split_bar(l);
        const std::string& tag = f[0];
        if (tag == "NS+") { RAttr a; a.qn = f[1].empty() ? "xmlns" : "xmlns:" + f[1]; a.val = f[2]; a.uri = XMLNS_NS; a.local = f[1].empty() ? "xmlns" : f[1]; pendingNs.push_back(a); i++; }
        else if (tag == "NS-") i++;
        else if (tag == "S") {
            RNode e; e.kind = 'E'; e.qn = f[1]; e.uri = f[2]; e.local = f[3]; e.attrs = pendingNs; pendingNs.clear();
            i++;
            while (i < L.size() && L[i].compare(0, 2, "A|") == 0) {
                std::vector<std::string> g = split_bar(L[i]);
                RAttr a; a.qn = g[1]; a.val = g[2]; a.uri = g[5]; a.local = g[6]; e.attrs.push_back(a); i++;
            }
            if (i < L.size() && L[i].compare(0, 2, "L|") == 0) i++;
            e.base = parentBase;
            if (const RAttr* xb = e.attr("xml:base")) if (!xb->val.empty()) e.base = resolve(xb->val, parentBase);
            if (!build_tree(L, i, e, e.base)) return false;
            parent.kids.push_back(std::move(e));
        }
        else if (tag == "E") { i++; return true; }
        else if (tag == "T") { RNode t; t.kind = 'T'; t.text = l.substr(2); parent.kids.push_back(t); i++; }
        else if (tag == "C") { RNode t; t.kind = 'C'; t.text = l.substr(2); parent.kids.push_back(t); i++; }
        else if (tag == "PI") { RNode t; t.kind = 'P'; t.text = l.substr(3); parent.kids.push_back(t); i++; }
        else if (tag == "DE") { i++; return true; }
        else return false;  // DOCTYPE, CDATA ... are not generated
    }
    return true;
}

inline void render(const RNode& n, Dump& d, std::vector<std::string>* bases, std::vector<bool>* relFlags) {
    switch (n.kind) {
    case 'E': {
        d.add("S|" + n.qn + "|" + n.uri + "|" + n.local);
        std::vector<std::string> as;
        for (auto& a : n.attrs) as.push_back("A|" + a.qn + "|" + a.val + "|?|spec|" + a.uri + "|" + a.local);
        std::sort(as.begin(), as.end());
        for (auto& s : as) d.add(s);
        if (bases) bases->push_back(n.qn + "=" + n.base);
        if (relFlags) relFlags->push_back(n.underOwnBaseRoot);
        for (auto& k : n.kids) render(k, d, bases, relFlags);
        d.add("E|" + n.qn);
        break;
    }
    case 'T': d.chars(n.text); break;
    case 'C': d.add("C|" + n.text); break;
    case 'P': d.add("PI|" + n.text); break;
    }
}

// ---------------------------------------------------------------- expander
struct Expander {
    // environment
    const std::map<std::string, VFile>* files = nullptr;
    // results
    std::set<std::string> errs;            // error kinds (processing continues after an error to collect all of them)
    bool harness = false;                  // a generated file was rejected by expat / unexpected dump line
    std::string harnessWhy;
    std::map<std::string, uint64_t> cnt;   // non-vacuity
    bool unusedFallbackWouldError = false; // an ignored fallback contains includes that fail when processed on their own
    bool unusedFallbackHasInclude = false;
    bool usedBigEndianBom = false;
    bool includeUnderOwnBaseRoot = false;  // an xi:include whose base URI depends on the own xml:base of an included document element
    int maxDepth = 0;
    std::vector<std::string> chain;        // URIs of the documents being processed
    std::vector<bool> chainDirty;          // ... reached through an href with '.'/'..' segments (base + href is not a normalised path)
    bool loopViaUnnormalised = false;      // a loop was closed on a chain containing such a reference
    std::map<std::string, RNode> cache;

    const RNode* load(const std::string& uri) {
        auto it = cache.find(uri);
        if (it != cache.end()) return it->second.kind == 'X' ? nullptr : &it->second;
        auto f = files->find(uri);
        RNode doc; doc.kind = 'X';
        if (f != files->end()) {
            ExpatRef ex;
            ex.run(f->second.data, true, false, uri);
            if (!ex.ok) { harness = true; harnessWhy = "expat rejects " + uri + ": " + ex.err; }
            else {
                size_t i = 0; doc.kind = 'R';
                if (!build_tree(ex.d.lines, i, doc, uri)) { harness = true; harnessWhy = "unexpected dump line in " + uri; doc.kind = 'X'; }
            }
        }
        auto& slot = cache[uri]; slot = std::move(doc);
        return slot.kind == 'X' ? nullptr : &slot;
    }

    static std::string decode_text(const std::string& bytes, const std::string& enc, bool& ok, bool& beBom) {
        ok = true; beBom = false;
        if (enc.empty() || enc == "UTF-8") return esc8(bytes.data(), bytes.size());
        std::vector<XMLCh> u;
        if (enc == "ISO-8859-1") for (unsigned char c : bytes) u.push_back(c);
        else if (enc == "UTF-16") {
            size_t i = 0; bool le = false;  // RFC 2781: big-endian unless a BOM says otherwise
            if (bytes.size() >= 2 && (unsigned char)bytes[0] == 0xFF && (unsigned char)bytes[1] == 0xFE) { le = true; i = 2; }
            else if (bytes.size() >= 2 && (unsigned char)bytes[0] == 0xFE && (unsigned char)bytes[1] == 0xFF) { i = 2; beBom = true; }
            for (; i + 1 < bytes.size(); i += 2) {
                unsigned a = (unsigned char)bytes[i], b = (unsigned char)bytes[i + 1];
                u.push_back((XMLCh)(le ? (a | (b << 8)) : ((a << 8) | b)));
            }
        } else { ok = false; return ""; }
        return esc16(u.data(), u.size());
    }

    void process_list(const std::vector<RNode>& in, std::vector<RNode>& out, bool mark) {
        for (auto& n : in) process_node(n, out, mark);
    }
    void process_node(const RNode& n, std::vector<RNode>& out, bool mark) {
        if (n.isXi("include")) { do_include(n, out, mark); return; }
        if (n.isXi("fallback")) { errs.insert("orphan-fallback"); return; }
        RNode c; c.kind = n.kind; c.qn = n.qn; c.uri = n.uri; c.local = n.local; c.text = n.text; c.attrs = n.attrs; c.base = n.base; c.underOwnBaseRoot = mark;
        if (n.kind == 'E') process_list(n.kids, c.kids, mark);
        out.push_back(std::move(c));
    }
    void do_include(const RNode& n, std::vector<RNode>& out, bool mark) {
        cnt["ref_includes"]++;
        if (mark) includeUnderOwnBaseRoot = true;
        const RNode* fallback = nullptr;
        int nfb = 0; bool badChild = false;
        for (auto& k : n.kids) {
            if (k.kind != 'E') continue;
            if (k.isXi("fallback")) { nfb++; if (!fallback) fallback = &k; }
            else if (k.uri == XINS) badChild = true;
        }
        if (nfb > 1) { errs.insert("multi-fallback"); return; }
        if (badChild) { errs.insert("bad-child"); return; }
        const RAttr* href = n.attr("href");
        const RAttr* parse = n.attr("parse");
        const RAttr* xptr = n.attr("xpointer");
        const RAttr* enc = n.attr("encoding");
        if (!href && !xptr) { errs.insert("no-href"); return; }
        std::string pv = parse ? parse->val : "xml";
        if (pv != "xml" && pv != "text") { errs.insert("bad-parse"); return; }
        if (xptr) { errs.insert("xpointer"); return; }  // parse=text: fatal by the recommendation; parse=xml: unsupported by Xerces (documented)
        std::string uri = resolve(href->val, n.base);
        bool resourceError = false;
        if (pv == "xml") {
            bool dirty = (href->val[0] == '/' ? href->val : dir_of(n.base) + href->val) != uri;
            if (std::find(chain.begin(), chain.end(), uri) != chain.end()) {
                errs.insert("loop"); cnt["ref_loops"]++;
                if (dirty || std::find(chainDirty.begin(), chainDirty.end(), true) != chainDirty.end()) { loopViaUnnormalised = true; cnt["ref_loops_via_dotdot"]++; }
                // an implementation that notices the loop one level late includes the target once more: remember whether the
                // xml:base fix-up defect applies to that copy
                if (const RNode* d = load(uri)) for (auto& k : d->kids) if (k.kind == 'E') if (const RAttr* xb = k.attr("xml:base")) if (!xb->val.empty()) includeUnderOwnBaseRoot = true;
                return;
            }
            const RNode* doc = load(uri);
            if (!doc) resourceError = true;
            else {
                cnt["ref_xml_included"]++;
                chain.push_back(uri); chainDirty.push_back(dirty);
                maxDepth = std::max<int>(maxDepth, (int)chain.size() - 1);
                for (auto& k : doc->kids) {
                    bool m = mark;
                    if (k.kind == 'E') if (const RAttr* xb = k.attr("xml:base")) if (!xb->val.empty()) m = true;
                    process_node(k, out, m);
                }
                chain.pop_back(); chainDirty.pop_back();
            }
        } else {
            auto f = files->find(uri);
            if (f == files->end()) resourceError = true;
            else {
                bool ok, be;
                std::string t = decode_text(f->second.data, enc ? enc->val : "", ok, be);
                if (!ok) resourceError = true;
                else {
                    if (be) usedBigEndianBom = true;
                    cnt["ref_text_included"]++;
                    if (t.find('<') != std::string::npos || t.find('&') != std::string::npos) cnt["ref_text_with_markup_chars"]++;
                    RNode tn; tn.kind = 'T'; tn.text = t; out.push_back(tn);
                }
            }
        }
        if (!resourceError) {
            if (fallback) cnt["ref_fallback_ignored"]++;
            if (fallback && chain.size() == 1) {  // ignored (3.2); for the main document remember whether processing the fallback on
                                                  // its own (as a streaming processor would at the inner end tag) fails
                Expander sub; sub.files = files; sub.chain.push_back(chain.front()); sub.chainDirty.push_back(false);
                std::vector<RNode> tmp;
                sub.process_list(fallback->kids, tmp, false);
                if (sub.cnt["ref_includes"]) unusedFallbackHasInclude = true;
                if (!sub.errs.empty() || sub.includeUnderOwnBaseRoot) unusedFallbackWouldError = true;
            }
            return;
        }
        cnt["ref_resource_errors"]++;
        if (!fallback) { errs.insert("no-fallback"); return; }
        cnt["ref_fallback_used"]++;
        process_list(fallback->kids, out, mark);
    }

    // expands the document at `uri`; returns top-level nodes of the result
    std::vector<RNode> run(const std::string& uri) {
        std::vector<RNode> out;
        const RNode* doc = load(uri);
        if (!doc) { harness = true; harnessWhy = "main document missing"; return out; }
        chain.push_back(uri); chainDirty.push_back(false);
        bool rootIsXi = false;
        for (auto& k : doc->kids) if (k.kind == 'E' && k.uri == XINS) rootIsXi = true;
        process_list(doc->kids, out, false);
        chain.pop_back();
        if (rootIsXi && errs.empty()) {
            int elems = 0, texts = 0;
            for (auto& k : out) { if (k.kind == 'E') elems++; if (k.kind == 'T' && !k.text.empty()) texts++; }
            if (elems != 1 || texts) { errs.insert("docelem"); cnt[elems == 0 && !texts ? "ref_docelem_empty" : "ref_docelem_other"]++; }
        }
        return out;
    }
};

}  // namespace c20
