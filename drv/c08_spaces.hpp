// c08_spaces.hpp - the non-particle spaces of C08: attribute uses, content kinds, type hierarchy / xsi:type / xsi:nil /
// substitution groups, wildcard namespace constraints x processContents, and schema assembly variants (metamorphic).
// Every space is a list of BCase (one schema = one case) each carrying a batch of instance items (one per line) with the verdict
// computed by a direct implementation of the XML Schema 1.0 Structures rules for exactly the generated components.
#pragma once

static const std::string XSDNS = "http://www.w3.org/2001/XMLSchema";

struct Item {
    std::string xml;                 // the instance element (goes inside <t:w>...</t:w> on its own line)
    int expect = 0;                  // 0 valid, 1 invalid, 2 no claim
    std::string type;                // expected governing type "ns|name" when valid ("" = no claim)
    bool claimText = false;          // compare the character content delivered for the item element (element default / fixed)
    std::string text;
    bool claimAttrs = false;         // compare the delivered attribute list (attribute default / fixed)
    std::vector<std::string> attrs;  // "qname=value=spec|dflt"
    std::vector<std::string> attrTypes;  // "local|typeNs|typeName" that must be reported for the attribute when valid
    std::string why;                 // rule that decides the verdict (for reports)
};
struct BCase {
    std::string desc;
    std::map<std::string, std::string> files;   // VFS content (schemas)
    std::string docHead = DOC_HEAD;
    std::string wOpen = "<t:w>", wClose = "</t:w>", docTail = "</t:r>\n";
    std::vector<Item> items;
    int schemaExpect = 0;            // 0 must load without error, 1 must be reported as erroneous, 2 no claim, 3 erroneous under full checking only
    std::string schemaWhy;
    bool fullOff = true;             // also run with full checking off
};
static std::vector<BCase> BCASES;
static std::string g_bspace;
static bool g_all_cfgs = true;
static int g_types_mode = 1;   // 0 never, 1 with full checking on, 2 always

struct DumpItem { std::string text; std::vector<std::string> attrs; bool seen = false; };

// extract, for every element at depth 2 (the item elements), its attributes (without xmlns / xsi) and direct character content
static std::vector<DumpItem> dump_items(const std::vector<std::string>& lines, bool dom) {
    std::vector<DumpItem> out;
    int depth = -1;
    bool inItem = false;
    for (auto& l : lines) {
        if (l.compare(0, 2, "S|") == 0) {
            depth++;
            if (depth == 2) { out.push_back(DumpItem()); out.back().seen = true; inItem = true; }
            else inItem = false;
        } else if (l.compare(0, 2, "E|") == 0) { depth--; inItem = false; }
        else if (l.compare(0, 2, "A|") == 0) {
            if (!inItem || depth != 2) continue;
            std::vector<std::string> f; size_t p = 0;
            while (true) { size_t q = l.find('|', p); f.push_back(l.substr(p, q == std::string::npos ? q : q - p)); if (q == std::string::npos) break; p = q + 1; }
            if (f.size() < 7) continue;
            if (f[1].compare(0, 5, "xmlns") == 0 || f[1].compare(0, 4, "xsi:") == 0) continue;
            out.back().attrs.push_back(f[1] + "=" + f[2] + "=" + (dom ? f[4] : std::string("?")));
        } else if (l.compare(0, 2, "T|") == 0 || l.compare(0, 3, "IW|") == 0) {
            if (depth == 2 && !out.empty()) out.back().text += l.substr(l.find('|') + 1);
        }
    }
    return out;
}

static bool attrs_equal(const std::vector<std::string>& exp, const std::vector<std::string>& got, bool dom) {
    std::vector<std::string> a = exp, b = got;
    if (!dom) for (auto& s : a) s = s.substr(0, s.rfind('=')) + "=?";
    std::sort(a.begin(), a.end()); std::sort(b.begin(), b.end());
    return a == b;
}
// ---- diagnosed library defects (see docs/c08.md).  A violation that matches one of these predicates carries a "defect" field so that a
// known-finding entry can be keyed on it; with --known skip such cases are counted (known_defect:<id>) instead of reported, so that
// the remainder of the space can be explored.  Default is to report them (the check stays strict).
const char* const KNOWN_DEFECTS[] = {
    "C08-D1-counter-shared-by-same-name-particles",      // DFAContentModel::buildDFA keys occurrence counters by element name
    "C08-D2-value-constraint-ignored-for-mixed-content", // SchemaValidator::checkContent: default/fixed never applied/enforced for mixed or anyType content
    "C08-D3-whitespace-only-content-takes-default",      // SchemaValidator::checkContent: whitespace-only simple content is replaced by the default
    "C08-D4-fatal-error-for-invalid-value-with-fixed",   // SchemaValidator::checkContent: compare() throws before validate(); surfaces as fatal error
    "C08-D5-xsi-nil-false-leaks-to-next-element",        // SchemaValidator::validateElement / checkContent: fNilFound not cleared
    "C08-D6-processcontents-of-first-overlapping-wildcard",  // laxElementValidation ignores the leaf chosen by handleRepetitions
};
bool g_skip_known = false;
bool g_defect_active[6] = {true, true, true, true, true, true};   // set by probe_defects(): false = the witness passes (defect fixed)

// One minimal witness per diagnosed defect: schema body (inside the urn:t schema, r = (e*)), the instance element on line 2, the
// full-checking value under which it shows, and what XML Schema 1.0 demands for that line.
struct Witness { const char* slug; const char* body; const char* item; bool full; bool expectInvalid; const char* expected; const char* where; };
static const Witness WITNESSES[6] = {
    {"defect:counters-shared-by-same-name-particles",
     "<xs:element name=\"a\" type=\"xs:string\"/>\n<xs:element name=\"e\"><xs:complexType><xs:sequence><xs:element ref=\"t:a\"/><xs:element ref=\"t:a\" minOccurs=\"2\" maxOccurs=\"2\"/></xs:sequence></xs:complexType></xs:element>\n",
     "<t:e><t:a/><t:a/></t:e>", false, true, "validity error: (a, a{2,2}) needs three a", "DFAContentModel::buildDFA (elemOccurenceMap keyed by element-map entry)"},
    {"defect:value-constraint-ignored-for-mixed-content",
     "<xs:element name=\"a\"><xs:complexType/></xs:element>\n<xs:element name=\"e\" fixed=\"5\"><xs:complexType mixed=\"true\"><xs:sequence><xs:element ref=\"t:a\" minOccurs=\"0\"/></xs:sequence></xs:complexType></xs:element>\n",
     "<t:e>6</t:e>", true, true, "validity error: content differs from the fixed value (cvc-elt.5.2.2.2.1)", "SchemaValidator::checkContent (Mixed/Children branch ignores the value constraint)"},
    {"defect:whitespace-only-content-takes-default",
     "<xs:element name=\"e\" type=\"xs:integer\" default=\"5\"/>\n",
     "<t:e> </t:e>", true, true, "validity error: ' ' is not an xs:integer (default applies only without character children, cvc-elt.5.1)", "SchemaValidator::checkContent (tests the collapsed buffer for emptiness)"},
    {"defect:fatal-error-for-invalid-value-with-fixed",
     "<xs:element name=\"e\" type=\"xs:integer\" fixed=\"5\"/>\n",
     "<t:e>x</t:e>", true, true, "validity error (not a fatal error) for a well-formed document", "SchemaValidator::checkContent (compare() before validate(), exception escapes)"},
    {"defect:xsi-nil-false-leaks-to-next-element",
     "<xs:element name=\"a\"><xs:complexType/></xs:element>\n<xs:element name=\"e\" nillable=\"true\"><xs:complexType><xs:sequence><xs:element ref=\"t:a\" minOccurs=\"0\"/></xs:sequence></xs:complexType></xs:element>\n",
     "<t:e xsi:nil=\"false\"><t:a/></t:e>", true, false, "valid (nillable element, xsi:nil='false', content matches)", "SchemaValidator::validateElement / checkContent (fNilFound not cleared)"},
    {"defect:processcontents-of-first-overlapping-wildcard",
     "<xs:element name=\"e\"><xs:complexType><xs:sequence><xs:any namespace=\"##other\" processContents=\"lax\" minOccurs=\"2\" maxOccurs=\"2\"/>"
     "<xs:any namespace=\"##other\" processContents=\"strict\" minOccurs=\"0\" maxOccurs=\"1\"/></xs:sequence></xs:complexType></xs:element>\n",
     "<t:e><x:x/><x:x/><x:x/></t:e>", true, true, "validity error: third child is matched by the strict wildcard and has no declaration", "IGXMLScanner/SGXMLScanner::laxElementValidation (leaf index passed to handleRepetitions by value)"},
};
static std::string witness_schema(int i) {
    return std::string(XSD_HEAD) + "<xs:element name=\"r\"><xs:complexType><xs:sequence><xs:element ref=\"t:e\" minOccurs=\"0\" maxOccurs=\"unbounded\"/></xs:sequence></xs:complexType></xs:element>\n" +
           WITNESSES[i].body + "</xs:schema>\n";
}
static std::string witness_doc(int i) { return std::string(DOC_HEAD) + WITNESSES[i].item + "\n</t:r>\n"; }
// runs witness i strictly under one configuration; returns "" if the library behaves as demanded, otherwise a description of what was observed
static std::string witness_observed(int i, int scanner, int api) {
    const Witness& w = WITNESSES[i];
    Config cfg; cfg.api = api; cfg.scanner = scanner; cfg.ns = true; cfg.schema = true; cfg.val = 1; cfg.fullcheck = w.full;
    g_vfs->clear();
    g_vfs->put("/v/s.xsd", witness_schema(i));
    Parsed P = parse8(cfg, witness_doc(i), false, false);
    bool err2 = false, other = false; std::string first, fatal;
    for (auto& e : P.r.errors) {
        ErrRec er = split_err(e);
        if (er.sev == 'W') continue;
        if (er.sev == 'F') { if (fatal.empty()) fatal = e; continue; }
        if (ends_with(er.sysid, "doc.xml") && er.line == 2) { err2 = true; if (first.empty()) first = e; }
        else { other = true; if (first.empty()) first = e; }
    }
    if (!P.r.exc.empty()) return "exception " + P.r.exc;
    if (!fatal.empty()) return "fatal error: " + fatal;
    if (other) return "error outside the instance line: " + first;
    if (err2 != w.expectInvalid) return err2 ? "validity error reported: " + first : std::string("no error reported (instance accepted)");
    return "";
}
// start-up probe (parent process, before the workers are forked): a defect whose witness passes is no longer skipped anywhere
static void probe_defects() {
    for (int i = 0; i < 6; i++) g_defect_active[i] = !witness_observed(i, IG, SAX2).empty() || !witness_observed(i, SG, DOM).empty();
    g_vfs->clear();
}
static int defect_index(const std::string& tag);
static void run_witness(uint64_t idx, Ctx& c) {
    int i = (int)idx;
    const Witness& w = WITNESSES[i];
    std::string failing, observed;
    int nfail = 0;
    for (int sc : {IG, SG}) for (int api : {SAX2, DOM}) {
        std::string o = witness_observed(i, sc, api);
        c.count("parses");
        if (c.verbose) printf("%s %s/%s full=%d: %s\n", w.slug, ScnName[sc], ApiName[api], (int)w.full, o.empty() ? "as demanded" : o.c_str());
        if (o.empty()) continue;
        nfail++;
        if (observed.empty()) observed = o;
        failing += std::string(failing.empty() ? "" : ", ") + ApiName[api] + "/" + ScnName[sc];
    }
    c.count(nfail ? "witnesses_failing" : "witnesses_passing");
    if (nfail)
        c.violation(w.slug, "\"id\":" + jstr(KNOWN_DEFECTS[i]) + ",\"config\":" + jstr(failing + (w.full ? " / full checking on" : " / full checking off")) + ",\"instance\":" + jstr(w.item) +
                                ",\"expected\":" + jstr(w.expected) + ",\"observed\":" + jstr(observed) + ",\"where\":" + jstr(w.where) + ",\"schema\":" + jstr(witness_schema(i)));
}
static std::string defect_tag(const std::string& caseDesc, const std::string& kind, const std::string& instance, const std::string& err) {
    bool mixedish = caseDesc.find("type=mixed-aopt") != std::string::npos || caseDesc.find("type=anytype") != std::string::npos;
    bool vc = caseDesc.find("vc=none") == std::string::npos;
    if (err.find("'xsi:nil' specified for non-nillable element") != std::string::npos && kind == "valid-instance-rejected") return KNOWN_DEFECTS[4];
    if (kind == "fatal-or-exception" && err.find("invalid character encountered") != std::string::npos && caseDesc.find("vc=fixed") != std::string::npos) return KNOWN_DEFECTS[3];
    if (mixedish && vc && (kind == "wrong-element-content" || kind == "invalid-instance-accepted")) return KNOWN_DEFECTS[1];
    if (kind == "invalid-instance-accepted" && caseDesc.find("vc=default") != std::string::npos && (instance == "<t:e> </t:e>" || instance == "<t:e>&#32;</t:e>")) return KNOWN_DEFECTS[2];
    return "";
}
static int defect_index(const std::string& tag) { for (int i = 0; i < 6; i++) if (tag == KNOWN_DEFECTS[i]) return i; return -1; }
// returns true if the violation is to be reported; otherwise it has been counted as a skipped known defect
static bool report_or_skip(Ctx& c, const std::string& tag, std::string& fields) {
    if (tag.empty()) return true;
    int di = defect_index(tag);
    if (di >= 0 && !g_defect_active[di]) return true;   // the witness of this defect passes: nothing is explained away any more
    if (g_skip_known) { c.count("known_defect:" + tag); return false; }
    fields += ",\"defect\":" + jstr(tag);
    c.count("tagged:" + tag);
    return true;
}

static std::string joinv(const std::vector<std::string>& v) { std::string o; for (auto& s : v) { if (!o.empty()) o += " "; o += s; } return o; }

static void run_bcase(uint64_t idx, Ctx& c) {
    const BCase& bc = BCASES[idx];
    std::string doc = bc.docHead;
    for (auto& it : bc.items) doc += bc.wOpen + it.xml + bc.wClose + "\n";
    doc += bc.docTail;
    size_t nExpValid = 0, nExpInvalid = 0;
    for (auto& it : bc.items) { if (it.expect == 0) nExpValid++; else if (it.expect == 1) nExpInvalid++; }
    c.count("schemas");
    if (bc.schemaExpect == 0) { c.count("ref_items_valid", nExpValid); c.count("ref_items_invalid", nExpInvalid); c.count("ref_items_noclaim", bc.items.size() - nExpValid - nExpInvalid); }
    std::string filesJson = "{";
    for (auto& f : bc.files) filesJson += (filesJson.size() > 1 ? "," : "") + jstr(f.first) + ":" + jstr(f.second);
    filesJson += "}";
    for (int sc : {IG, SG}) for (int api : {SAX2, DOM}) for (int full = 1; full >= (bc.fullOff ? 0 : 1); full--) {
        // quick tier: four of the eight configurations, chosen so that each scanner, API and full-checking value occurs twice
        if (!g_all_cfgs && ((sc == IG) ^ (api == SAX2) ^ (full != 0)) == 0) continue;
        Config cfg; cfg.api = api; cfg.scanner = sc; cfg.ns = true; cfg.schema = true; cfg.val = 1; cfg.fullcheck = full != 0;
        g_vfs->clear();
        for (auto& f : bc.files) g_vfs->put(f.first, f.second);
        bool wantTypes = g_types_mode == 2 || (g_types_mode == 1 && full);   // type information is collected with full checking on only (cost)
        Parsed P = parse8(cfg, doc, true, wantTypes);
        c.count("parses");
        std::string base = "\"case\":" + jstr(bc.desc) + ",\"config\":" + jstr(cfg.str());
        if (c.verbose) {
            printf("== %s  %s\n", bc.desc.c_str(), cfg.str().c_str());
            for (auto& e : P.r.errors) printf("   %s\n", e.c_str());
        }
        if (!P.r.exc.empty() || P.r.fatals) {
            if (bc.schemaExpect == 1 || (bc.schemaExpect == 3 && full)) { c.count("schema_rejected_as_expected"); continue; }
            std::string ferr; long fline = 0;
            for (auto& e : P.r.errors) if (e[0] == 'F') { ferr = e; fline = split_err(e).line; break; }
            std::string finst = (fline >= 2 && (size_t)(fline - 2) < bc.items.size()) ? bc.items[fline - 2].xml : std::string();
            std::string fields = base + ",\"exc\":" + jstr(P.r.exc) + ",\"error\":" + jstr(ferr) + ",\"instance\":" + jstr(finst) + ",\"files\":" + filesJson;
            if (report_or_skip(c, defect_tag(bc.desc, "fatal-or-exception", finst, ferr), fields)) c.violation("fatal-or-exception", fields);
            continue;
        }
        size_t schemaErrs = 0; std::string firstSchemaErr, stray;
        std::vector<char> got(bc.items.size(), 0);
        std::vector<std::string> firstErr(bc.items.size());
        for (auto& e : P.r.errors) {
            ErrRec er = split_err(e);
            if (er.sev == 'W') continue;
            // schema traversal errors carry the schema document's system id; grammar-level checks (UPA, particle derivation) are
            // reported at the root start tag (line 1) where the grammar was loaded
            if (!ends_with(er.sysid, "doc.xml") || er.line == 1) { if (!schemaErrs) firstSchemaErr = e; schemaErrs++; continue; }
            long w = er.line - 2;
            if (w < 0 || (size_t)w >= bc.items.size()) { if (stray.empty()) stray = e; continue; }
            if (!got[w]) firstErr[w] = e;
            got[w] = 1;
        }
        bool expectErr = bc.schemaExpect == 1 || (bc.schemaExpect == 3 && full);
        if (expectErr) {
            c.count("expect_schema_rejected");
            if (!schemaErrs) {
                std::string fields = base + ",\"why\":" + jstr(bc.schemaWhy) + ",\"files\":" + filesJson;
                if (report_or_skip(c, defect_tag(bc.desc, "invalid-schema-accepted", "", ""), fields)) c.violation("invalid-schema-accepted", fields);
            }
            else c.count("schema_rejected_as_expected");
            continue;
        }
        if (bc.schemaExpect == 2 || (bc.schemaExpect == 3 && !full)) { c.count("schema_noclaim"); if (schemaErrs) continue; }
        else if (schemaErrs) { c.violation("valid-schema-rejected", base + ",\"error\":" + jstr(firstSchemaErr) + ",\"files\":" + filesJson); continue; }
        if (bc.schemaExpect != 0) continue;
        c.count("schema_accepted_as_expected");
        if (!stray.empty()) { c.violation("error-outside-instance-lines", base + ",\"error\":" + jstr(stray) + ",\"files\":" + filesJson); continue; }
        // type records of the items (depth 2) and of their wrappers (depth 1)
        std::vector<const TypeRec*> itemT, wrapT;
        for (auto& t : P.types) { if (t.depth == 2) itemT.push_back(&t); else if (t.depth == 1) wrapT.push_back(&t); }
        std::vector<DumpItem> di = dump_items(P.r.d.lines, api == DOM);
        bool aligned = (!wantTypes || (itemT.size() == bc.items.size() && wrapT.size() == bc.items.size())) && di.size() == bc.items.size();
        if (!aligned) { c.violation("harness-alignment", base + ",\"items\":" + std::to_string(bc.items.size()) + ",\"types\":" + std::to_string(itemT.size()) + ",\"dump\":" + std::to_string(di.size())); continue; }
        int reported = 0;
        for (size_t i = 0; i < bc.items.size(); i++) {
            const Item& it = bc.items[i];
            if (it.expect == 2) { c.count("items_noclaim"); continue; }
            std::string ib = base + ",\"instance\":" + jstr(it.xml) + ",\"rule\":" + jstr(it.why);
            c.count("instance_verdicts_compared");
            if (c.verbose && (bool)got[i] != (it.expect == 1))
                printf("   MISMATCH %-40s expected %s (%s) observed %s %s\n", it.xml.c_str(), it.expect == 1 ? "invalid" : "valid", it.why.c_str(), got[i] ? "invalid" : "valid", firstErr[i].c_str());
            if ((bool)got[i] != (it.expect == 1)) {
                std::string kind = it.expect == 1 ? "invalid-instance-accepted" : "valid-instance-rejected";
                std::string fields = ib + ",\"error\":" + jstr(firstErr[i]) + ",\"files\":" + filesJson;
                if (report_or_skip(c, defect_tag(bc.desc, kind, it.xml, firstErr[i]), fields)) c.violation(kind, fields);
                continue;
            }
            if (it.expect == 1) {
                if (!wantTypes) continue;
                // informational only: the PSVI [validity] property is not part of the property text (validity is reported through
                // the error handler); count how often PSVI still says "valid" for an item that was correctly reported invalid
                c.count(itemT[i]->validity != 1 && wrapT[i]->validity != 1 ? "info_psvi_validity_not_invalid_for_invalid_item" : "info_psvi_validity_invalid_for_invalid_item");
                continue;
            }
            if (wantTypes) c.count("psvi_valid_compared");
            if (wantTypes && itemT[i]->validity != 2 && reported++ < 8) c.violation("psvi-validity-not-valid", ib + ",\"item\":" + jstr(itemT[i]->str()) + ",\"files\":" + filesJson);
            if (wantTypes && !it.type.empty()) {
                c.count("type_names_compared");
                std::string gotType = itemT[i]->tns + "|" + itemT[i]->tname;
                // SAX2 PSVIElement::getTypeDefinition() is null for the ur-type (the DOM builder documents and applies the convention
                // "valid without a type definition = xs:anyType"); accept the null only there
                if (api == SAX2 && it.type == XSDNS + "|anyType" && gotType == "|") { c.count("sax2_psvi_null_type_for_anytype"); gotType = it.type; }
                if (gotType != it.type && reported++ < 8) c.violation("wrong-type-name", ib + ",\"expected\":" + jstr(it.type) + ",\"observed\":" + jstr(gotType) + ",\"files\":" + filesJson);
            }
            if (wantTypes) for (auto& at : it.attrTypes) {
                c.count("attr_type_names_compared");
                std::vector<std::string> f; size_t p = 0;
                while (true) { size_t q = at.find('|', p); f.push_back(at.substr(p, q == std::string::npos ? q : q - p)); if (q == std::string::npos) break; p = q + 1; }
                bool ok = false; std::string seen;
                for (auto& a : itemT[i]->attrs) {
                    std::vector<std::string> g; size_t p2 = 0;
                    while (true) { size_t q = a.find('|', p2); g.push_back(a.substr(p2, q == std::string::npos ? q : q - p2)); if (q == std::string::npos) break; p2 = q + 1; }
                    if (g.size() >= 4 && g[0] == f[0]) { seen = a; ok = g[2] == f[1] && g[3] == f[2]; }
                }
                if (!ok && reported++ < 8) c.violation("wrong-attribute-type", ib + ",\"expected\":" + jstr(at) + ",\"observed\":" + jstr(seen) + ",\"files\":" + filesJson);
            }
            if (it.claimText) {
                c.count("element_text_compared");
                if (di[i].text != it.text) {
                    std::string fields = ib + ",\"expected\":" + jstr(it.text) + ",\"observed\":" + jstr(di[i].text) + ",\"files\":" + filesJson;
                    if (report_or_skip(c, defect_tag(bc.desc, "wrong-element-content", it.xml, ""), fields)) c.violation("wrong-element-content", fields);
                }
            }
            if (it.claimAttrs) {
                c.count("attribute_lists_compared");
                if (!attrs_equal(it.attrs, di[i].attrs, api == DOM) && reported++ < 8)
                    c.violation("wrong-attribute-list", ib + ",\"expected\":" + jstr(joinv(it.attrs)) + ",\"observed\":" + jstr(joinv(di[i].attrs)) + ",\"files\":" + filesJson);
            }
        }
    }
    if (idx % 97 == 0) c.sample("{\"case\":" + jstr(bc.desc) + ",\"items\":" + std::to_string(bc.items.size()) + ",\"first_item\":" + jstr(bc.items.empty() ? "" : bc.items[0].xml) + "}");
}

static const char* const R_AND_W =
    "<xs:element name=\"r\"><xs:complexType><xs:sequence><xs:element ref=\"t:w\" minOccurs=\"0\" maxOccurs=\"unbounded\"/></xs:sequence></xs:complexType></xs:element>\n";
static std::string w_decl(const std::string& content) { return "<xs:element name=\"w\"><xs:complexType><xs:sequence>" + content + "</xs:sequence></xs:complexType></xs:element>\n"; }

static bool is_integer(const std::string& s) {
    size_t i = 0;
    if (i < s.size() && (s[i] == '+' || s[i] == '-')) i++;
    if (i >= s.size()) return false;
    for (; i < s.size(); i++) if (s[i] < '0' || s[i] > '9') return false;
    return true;
}
static std::string collapse(const std::string& s) {
    std::string o; bool sp = false;
    for (char ch : s) {
        if (ch == ' ' || ch == '\t' || ch == '\n' || ch == '\r') { sp = !o.empty(); continue; }
        if (sp) o += ' ';
        sp = false; o += ch;
    }
    return o;
}

// ================================================================================================ attribute uses
// element e: complexType{ attribute p : xs:integer, use x {none, default=5, fixed=5} ; optional anyAttribute }.  Global attribute t:g : xs:integer.
static void build_attrs(const std::string& tier) {
    (void)tier;
    const char* USES[3] = {"optional", "required", "prohibited"};
    const char* VCS[3] = {"", " default=\"5\"", " fixed=\"5\""};
    struct AW { const char* ns; int pc; };   // pc: 0 strict 1 lax 2 skip, -1 = no wildcard
    std::vector<AW> aws = {{"", -1}, {"##any", 0}, {"##any", 1}, {"##any", 2}, {"##other", 0}, {"##other", 1}, {"##local", 2}, {"##local", 1}, {"##targetNamespace", 0}, {"##targetNamespace", 1}};
    struct PV { const char* xml; int kind; };  // kind 0 absent 1 "5" 2 "6" 3 "x" 4 " 5 "
    std::vector<PV> pvs = {{"", 0}, {" p=\"5\"", 1}, {" p=\"6\"", 2}, {" p=\"x\"", 3}, {" p=\" 5 \"", 4}};
    struct EX { const char* xml; int nsclass; int decl; };  // nsclass 0 none,1 unqualified,2 other ns,3 target ns ; decl 0 none 1 global valid value 2 global invalid value
    std::vector<EX> exs = {{"", 0, 0}, {" q=\"1\"", 1, 0}, {" x:q=\"1\"", 2, 0}, {" t:g=\"7\"", 3, 1}, {" t:g=\"z\"", 3, 2}, {" t:u=\"1\"", 3, 0}};
    for (int use = 0; use < 3; use++) for (int vc = 0; vc < 3; vc++) for (auto& aw : aws) {
        BCase bc;
        bc.desc = std::string("attrs use=") + USES[use] + " vc=" + (vc == 0 ? "none" : vc == 1 ? "default" : "fixed") + " anyAttribute=" + (aw.pc < 0 ? "none" : std::string(aw.ns) + "/" + WPC_ATTR[aw.pc]);
        std::string s = XSD_HEAD;
        s += "<xs:attribute name=\"g\" type=\"xs:integer\"/>\n";
        s += R_AND_W + w_decl("<xs:element ref=\"t:e\"/>");
        s += "<xs:element name=\"e\"><xs:complexType>\n<xs:attribute name=\"p\" type=\"xs:integer\" use=\"" + std::string(USES[use]) + "\"" + VCS[vc] + "/>\n";
        if (aw.pc >= 0) s += std::string("<xs:anyAttribute namespace=\"") + aw.ns + "\" processContents=\"" + WPC_ATTR[aw.pc] + "\"/>\n";
        s += "</xs:complexType></xs:element>\n</xs:schema>\n";
        bc.files["/v/s.xsd"] = s;
        // src-attribute.2: default and use both present => use must be optional
        if (vc == 1 && use != 0) { bc.schemaExpect = 1; bc.schemaWhy = "src-attribute.2: default requires use=optional"; }
        auto admits = [&](int nsclass) {   // does the attribute wildcard admit an attribute of this namespace class
            if (aw.pc < 0) return false;
            std::string ns = aw.ns;
            if (ns == "##any") return true;
            if (ns == "##other") return nsclass == 2;             // not the target namespace and not absent
            if (ns == "##local") return nsclass == 1;
            return nsclass == 3;                                   // ##targetNamespace
        };
        for (auto& pv : pvs) for (auto& ex : exs) {
            Item it;
            it.xml = std::string("<t:e") + pv.xml + ex.xml + "/>";
            bool invalid = false; std::string why = "valid";
            bool pDeclared = use != 2;
            bool noclaim = false;
            // attribute p
            if (pv.kind != 0) {
                if (pDeclared) {
                    std::string v = collapse(pv.kind == 1 ? "5" : pv.kind == 2 ? "6" : pv.kind == 3 ? "x" : " 5 ");
                    if (!is_integer(v)) { invalid = true; why = "cvc-attribute.3: value not valid for xs:integer"; }
                    else if (vc == 2 && v != "5") { invalid = true; why = "cvc-au: value differs from fixed"; }
                } else {
                    // prohibited use = no attribute use at all: p is an undeclared unqualified attribute, admitted only through the wildcard
                    if (!admits(1)) { invalid = true; why = "cvc-complex-type.3.2: prohibited / undeclared attribute p without matching wildcard"; }
                    else if (aw.pc == 0) { invalid = true; why = "cvc-wildcard strict: no global declaration for p"; }
                    else { noclaim = true; why = "prohibited attribute admitted by the attribute wildcard (XSD 1.0: a prohibited use is no attribute use)"; }
                }
            } else if (use == 1) { invalid = true; why = "cvc-complex-type.4: required attribute missing"; }
            // extra attribute
            if (ex.nsclass != 0) {
                if (!admits(ex.nsclass)) { invalid = true; why = "cvc-complex-type.3.2.1: attribute not declared and not admitted by a wildcard"; }
                else if (aw.pc == 0 && ex.decl == 0) { invalid = true; why = "cvc-wildcard strict: no global attribute declaration"; }
                else if (aw.pc != 2 && ex.decl == 2) { invalid = true; why = "cvc-attribute.3: value of t:g not valid for xs:integer (strict/lax wildcard)"; }
            }
            it.expect = invalid ? 1 : noclaim ? 2 : 0;
            it.why = why;
            if (!invalid && !noclaim) {
                it.type = "|";  // anonymous complex type: name absent
                it.type.clear();
                it.claimAttrs = true;
                if (pv.kind != 0) it.attrs.push_back(std::string("p=") + (pv.kind == 1 ? "5" : pv.kind == 2 ? "6" : "5") + "=spec");
                else if (pDeclared && vc != 0) it.attrs.push_back("p=5=dflt");
                if (pv.kind == 4) it.claimAttrs = false;   // delivered value of ' 5 ' (schema-normalised or not) is a datatype-normalisation question (C09)
                if (ex.nsclass == 1) it.attrs.push_back("q=1=spec");
                if (ex.nsclass == 2) it.attrs.push_back("x:q=1=spec");
                if (ex.nsclass == 3 && ex.decl == 0) it.attrs.push_back("t:u=1=spec");
                if (ex.decl == 1) it.attrs.push_back("t:g=7=spec");
                if (ex.decl == 2) it.attrs.push_back("t:g=z=spec");
                if (pDeclared && (pv.kind != 0 || vc != 0)) it.attrTypes.push_back("p|" + XSDNS + "|integer");
                if (ex.decl == 1 && aw.pc != 2) it.attrTypes.push_back("g|" + XSDNS + "|integer");
            }
            bc.items.push_back(it);
        }
        BCASES.push_back(bc);
    }
}

// wide complex types: N attribute uses with N around the row size (64) of the scanners' attribute-presence bookkeeping; the last two uses are one
// required and one defaulted attribute; the first item gives all N attributes, the later items of the same type give subsets
static void build_wide_attrs() {
    for (int N : {10, 63, 64, 65, 66, 67, 70, 129, 130, 131}) {
        BCase bc;
        bc.desc = "attrs wide N=" + std::to_string(N) + " (a1..a" + std::to_string(N - 2) + " optional, req required, def default=7)";
        std::string s = XSD_HEAD;
        s += R_AND_W + w_decl("<xs:element ref=\"t:e\"/>");
        s += "<xs:element name=\"e\"><xs:complexType>\n";
        std::string all;
        for (int i = 1; i <= N - 2; i++) { s += "<xs:attribute name=\"a" + std::to_string(i) + "\" type=\"xs:integer\"/>\n"; all += " a" + std::to_string(i) + "=\"" + std::to_string(i) + "\""; }
        s += "<xs:attribute name=\"req\" type=\"xs:integer\" use=\"required\"/>\n<xs:attribute name=\"def\" type=\"xs:integer\" default=\"7\"/>\n";
        s += "</xs:complexType></xs:element>\n</xs:schema>\n";
        bc.files["/v/s.xsd"] = s;
        auto item = [&](const std::string& attrs, bool hasReq, int def /*0 absent,1 given 8*/, bool claim) {
            Item it; it.xml = "<t:e" + attrs + "/>";
            it.expect = hasReq ? 0 : 1; it.why = hasReq ? "valid" : "cvc-complex-type.4: required attribute missing";
            if (hasReq && claim) { it.claimAttrs = true; it.attrs.push_back("req=1=spec"); it.attrs.push_back(def ? "def=8=spec" : "def=7=dflt"); }
            bc.items.push_back(it);
        };
        item(all + " req=\"1\" def=\"8\"", true, 1, false);     // registers every declaration, in document order
        item(" req=\"1\" def=\"8\"", true, 1, true);
        item(" def=\"8\"", false, 1, false);
        item(" req=\"1\"", true, 0, true);
        item("", false, 0, false);
        item(all + " req=\"1\"", true, 0, false);
        item(" a1=\"1\" req=\"1\" def=\"8\"", true, 1, false);
        BCASES.push_back(bc);
    }
}

// derivation chains: T0 = (n0), T1 = extension of T0 by (n1), ... up to T3; the particle of every level is a LOCAL element declaration or a reference to a
// global one (all 2^(D+1) assignments), every level also adds an optional attribute.  Elements e0..eD are declared with T0..TD.  Items: every e_j, plain and with
// xsi:type = every type derived from T_j, x every sequence of <= D+2 children over {n0..nD}; valid iff the children are exactly n0..nk of the governing type
// T_k, in order, each an integer.  (A type must hand on to its own extensions what it inherited: local declarations of the grand-base are looked up under
// the scope of the most derived type.)
static void build_chains(const std::string& tier) {
    int maxD = tier == "thorough" ? 3 : 2;
    for (int D = 1; D <= maxD; D++) for (unsigned mask = 0; mask < (1u << (D + 1)); mask++) for (int order = 0; order < 2; order++) {
        if (order == 1 && (mask % 3) != 0) continue;   // bottom-up declaration order (forward references) for a third of the assignments
        BCase bc;
        std::vector<std::string> nm(D + 1);
        std::string kinds;
        for (int i = 0; i <= D; i++) { bool glob = (mask >> i) & 1; nm[i] = std::string(glob ? "g" : "l") + std::to_string(i); kinds += glob ? 'G' : 'L'; }
        bc.desc = "chain depth " + std::to_string(D) + " particles " + kinds + (order ? " declared bottom-up" : " declared top-down");
        std::string s = XSD_HEAD;
        std::string choice = "<xs:choice>";
        for (int j = 0; j <= D; j++) choice += "<xs:element name=\"e" + std::to_string(j) + "\" type=\"t:T" + std::to_string(j) + "\"/>";
        choice += "</xs:choice>";
        s += R_AND_W + w_decl(choice);
        for (int i = 0; i <= D; i++) if ((mask >> i) & 1) s += "<xs:element name=\"" + nm[i] + "\" type=\"xs:integer\"/>\n";
        std::vector<std::string> types;
        for (int i = 0; i <= D; i++) {
            std::string part = ((mask >> i) & 1) ? "<xs:element ref=\"t:" + nm[i] + "\"/>" : "<xs:element name=\"" + nm[i] + "\" type=\"xs:integer\"/>";
            std::string att = "<xs:attribute name=\"x" + std::to_string(i) + "\" type=\"xs:integer\"/>";
            std::string t = "<xs:complexType name=\"T" + std::to_string(i) + "\">";
            if (i == 0) t += "<xs:sequence>" + part + "</xs:sequence>" + att;
            else t += "<xs:complexContent><xs:extension base=\"t:T" + std::to_string(i - 1) + "\"><xs:sequence>" + part + "</xs:sequence>" + att + "</xs:extension></xs:complexContent>";
            t += "</xs:complexType>\n";
            types.push_back(t);
        }
        if (order) for (int i = D; i >= 0; i--) s += types[i]; else for (int i = 0; i <= D; i++) s += types[i];
        s += "</xs:schema>\n";
        bc.files["/v/s.xsd"] = s;
        int maxLen = D + 2;
        uint64_t nw = 0, p = 1; for (int l = 0; l <= maxLen; l++) { nw += p; p *= (uint64_t)(D + 1); }
        for (int j = 0; j <= D; j++) for (int k = j; k <= D; k++) for (int viaXsi = 0; viaXsi < 2; viaXsi++) {
            if (k > j && !viaXsi) continue;   // k == j: plain and explicit xsi:type of the declared type; k > j: xsi:type only
            for (uint64_t w = 0; w < nw; w++) {
                // decode word w over D+1 letters, lengths 0..maxLen
                std::vector<int> word; { uint64_t r = w, cnt = 1; int len = 0; while (r >= cnt) { r -= cnt; cnt *= (uint64_t)(D + 1); len++; } for (int q = 0; q < len; q++) { word.push_back((int)(r % (D + 1))); r /= (D + 1); } }
                bool shape = (int)word.size() == k + 1; for (int q = 0; shape && q <= k; q++) if (word[q] != q) shape = false;
                for (int bad = 0; bad < (shape ? 2 : 1); bad++) {
                    Item it;
                    std::string attrs = viaXsi ? " xsi:type=\"t:T" + std::to_string(k) + "\"" : "";
                    if (shape && !bad) attrs += " x" + std::to_string(k) + "=\"1\"" + (k ? " x0=\"2\"" : "");
                    std::string kids;
                    for (size_t q = 0; q < word.size(); q++) kids += "<t:" + nm[word[q]] + ">" + ((bad && q == 0) ? "x" : std::to_string(q + 1)) + "</t:" + nm[word[q]] + ">";
                    it.xml = "<t:e" + std::to_string(j) + attrs + ">" + kids + "</t:e" + std::to_string(j) + ">";
                    if (shape && !bad) { it.expect = 0; it.why = "valid: children are exactly the particles of T" + std::to_string(k) + " (inherited ones first)"; it.type = "urn:t|T" + std::to_string(k); }
                    else { it.expect = 1; it.why = shape ? "cvc-datatype-valid: inherited child is not an integer" : "cvc-complex-type.2.4: children do not match the content model of T" + std::to_string(k); }
                    bc.items.push_back(it);
                }
            }
        }
        BCASES.push_back(bc);
    }
}

// ================================================================================================ content kinds
static void build_content(const std::string& tier) {
    (void)tier;
    struct TK { const char* name; const char* typeXml; const char* typeAttr; int kind; bool vcAllowed; };
    // kind: 0 empty, 1 element-only (a), 2 element-only (a?), 3 mixed (a?), 4 mixed (a), 5 simple content integer, 6 simple integer, 7 simple string, 8 anyType
    std::vector<TK> tks = {
        {"empty", "<xs:complexType/>", "", 0, false},
        {"empty-seq", "<xs:complexType><xs:sequence/></xs:complexType>", "", 0, false},
        {"elemonly-a", "<xs:complexType><xs:sequence><xs:element ref=\"t:a\"/></xs:sequence></xs:complexType>", "", 1, false},
        {"elemonly-aopt", "<xs:complexType><xs:sequence><xs:element ref=\"t:a\" minOccurs=\"0\"/></xs:sequence></xs:complexType>", "", 2, false},
        {"mixed-aopt", "<xs:complexType mixed=\"true\"><xs:sequence><xs:element ref=\"t:a\" minOccurs=\"0\"/></xs:sequence></xs:complexType>", "", 3, true},
        {"mixed-a", "<xs:complexType mixed=\"true\"><xs:sequence><xs:element ref=\"t:a\"/></xs:sequence></xs:complexType>", "", 4, false},
        {"simplecontent-int", "<xs:complexType><xs:simpleContent><xs:extension base=\"xs:integer\"/></xs:simpleContent></xs:complexType>", "", 5, true},
        {"simple-int", "", " type=\"xs:integer\"", 6, true},
        {"simple-string", "", " type=\"xs:string\"", 7, true},
        {"anytype", "", "", 8, true},
    };
    struct CT { const char* xml; int nA; bool nonws, ws; const char* text; bool plainEmpty; };
    std::vector<CT> cts = {
        {"", 0, false, false, "", true}, {" ", 0, false, true, " ", false}, {"5", 0, true, false, "5", false}, {"6", 0, true, false, "6", false}, {"x", 0, true, false, "x", false},
        {" 5 ", 0, true, true, " 5 ", false},
        {"<t:a/>", 1, false, false, "", false}, {" <t:a/> ", 1, false, true, "  ", false}, {"5<t:a/>", 1, true, false, "5", false}, {"<t:a/>5", 1, true, false, "5", false},
        {"<t:a/><t:a/>", 2, false, false, "", false}, {"<!--c-->", 0, false, false, "", false}, {"<?p q?>", 0, false, false, "", false},
        {"<![CDATA[5]]>", 0, true, false, "5", false}, {"&#32;", 0, false, true, " ", false}, {"<t:d/>", -1, false, false, "", false},
    };
    for (auto& tk : tks) for (int vc = 0; vc < 3; vc++) {
        BCase bc;
        bc.desc = std::string("content type=") + tk.name + " vc=" + (vc == 0 ? "none" : vc == 1 ? "default" : "fixed");
        std::string s = XSD_HEAD;
        s += R_AND_W + w_decl("<xs:element ref=\"t:e\"/>");
        s += "<xs:element name=\"a\"><xs:complexType/></xs:element>\n";
        s += std::string("<xs:element name=\"e\"") + tk.typeAttr + (vc == 1 ? " default=\"5\"" : vc == 2 ? " fixed=\"5\"" : "") + (tk.typeXml[0] ? std::string(">") + tk.typeXml + "</xs:element>\n" : std::string("/>\n"));
        s += "</xs:schema>\n";
        bc.files["/v/s.xsd"] = s;
        if (vc != 0 && !tk.vcAllowed) { bc.schemaExpect = 1; bc.schemaWhy = "e-props-correct.2 / cos-valid-default: value constraint needs a simple type, simple content, or mixed content with emptiable particle"; }
        // the emptiable-particle clause (cos-valid-default.2.2.2) is implemented as part of schema full checking (TraverseSchema::emptiableParticle): claimed there only
        if (vc != 0 && tk.kind == 4) bc.schemaExpect = 3;
        for (auto& ct : cts) {
            Item it;
            it.xml = std::string("<t:e>") + ct.xml + "</t:e>";
            bool invalid = false, noclaim = false; std::string why = "valid";
            bool undeclaredChild = ct.nA < 0;
            int nA = undeclaredChild ? 1 : ct.nA;
            bool anyChars = ct.nonws || ct.ws;
            bool emptyForDefault = nA == 0 && !anyChars;          // neither element nor character children
            bool defaulted = vc != 0 && emptyForDefault;
            std::string value = defaulted ? "5" : ct.text;
            switch (tk.kind) {
            case 0: if (nA > 0 || anyChars) { invalid = true; why = "cvc-complex-type.2.1: empty content type allows no character or element children"; } break;
            case 1: case 2:
                if (ct.nonws) { invalid = true; why = "cvc-complex-type.2.3: non-whitespace characters in element-only content"; }
                else if (undeclaredChild || nA > 1 || (tk.kind == 1 && nA != 1)) { invalid = true; why = "cvc-complex-type.2.4: children do not match the particle"; }
                break;
            case 3: case 4:
                if (undeclaredChild || nA > 1 || (tk.kind == 4 && nA != 1)) { invalid = true; why = "cvc-complex-type.2.4 (mixed): children do not match the particle"; }
                else if (vc == 2 && !defaulted) {
                    if (nA > 0) { invalid = true; why = "cvc-elt.5.2.2.1: fixed + mixed: no element children allowed"; }
                    else if (ct.text != std::string("5")) { invalid = true; why = "cvc-elt.5.2.2.2.1: mixed content differs from fixed value"; }
                }
                break;
            case 5: case 6:
                if (nA > 0) { invalid = true; why = "cvc-complex-type.2.2 / cvc-type.3.1.2: no element children with simple content"; }
                else if (!is_integer(collapse(value))) { invalid = true; why = "cvc-datatype-valid: not an xs:integer"; }
                else if (vc == 2 && collapse(value) != "5") { invalid = true; why = "cvc-elt.5.2.2.2.2: value differs from fixed"; }
                break;
            case 7:
                if (nA > 0) { invalid = true; why = "cvc-type.3.1.2: no element children for a simple type"; }
                else if (vc == 2 && value != "5") { invalid = true; why = "cvc-elt.5.2.2.2.2: string value differs from fixed"; }
                break;
            case 8:
                if (vc == 2 && !defaulted) {
                    if (nA > 0) { invalid = true; why = "cvc-elt.5.2.2.1: fixed + mixed (anyType): no element children allowed"; }
                    else if (ct.text != std::string("5")) { invalid = true; why = "cvc-elt.5.2.2.2.1: anyType content differs from fixed value"; }
                }
                // lax assessment of children: t:a is declared (empty type) and valid, t:d undeclared is fine
                break;
            }
            it.expect = invalid ? 1 : noclaim ? 2 : 0;
            it.why = why;
            if (it.expect == 0) {
                if (tk.kind == 6) it.type = XSDNS + "|integer";
                if (tk.kind == 7) it.type = XSDNS + "|string";
                if (tk.kind == 8) it.type = XSDNS + "|anyType";
                // delivered character content: the default / fixed value when the element is empty (plain <e></e> only; comment/PI-only is claimed too)
                if (vc != 0 && emptyForDefault) { it.claimText = true; it.text = "5"; }
                else if (vc == 0 && ct.plainEmpty) { it.claimText = true; it.text = ""; }
            }
            bc.items.push_back(it);
        }
        BCASES.push_back(bc);
    }
}

// ================================================================================================ type hierarchy
// B = (a?) ; X = extension of B by (b) ; R = restriction of B to (a) ; U = (c?) unrelated.
// element e : B  [abstract] [block] [nillable] ; element m : {B,X,R}, substitutionGroup = e [nillable]
static unsigned block_set(const std::string& b) {   // bit0 extension, bit1 restriction, bit2 substitution
    if (b == "#all") return 7;
    unsigned m = 0;
    if (b.find("extension") != std::string::npos) m |= 1;
    if (b.find("restriction") != std::string::npos) m |= 2;
    if (b.find("substitution") != std::string::npos) m |= 4;
    return m;
}
// derivation methods used on the way from type `from` up to type `to`; returns false if `to` is not an ancestor-or-self of `from`
static bool derivation_methods(char from, char to, unsigned& methods) {
    methods = 0;
    char cur = from;
    while (cur != to) {
        if (cur == 'X') { methods |= 1; cur = 'B'; }
        else if (cur == 'R') { methods |= 2; cur = 'B'; }
        else if (cur == 'Y') { methods |= 2; cur = 'X'; }   // Y = restriction of X (thorough)
        else return false;  // B and U derive from anyType
    }
    return true;
}
static bool content_ok(char type, const std::string& content) {
    switch (type) {
    case 'B': return content == "" || content == "a";
    case 'X': return content == "ab" || content == "b";
    case 'R': return content == "a";
    case 'Y': return content == "ab";
    case 'U': return content == "";
    }
    return false;
}
static void build_types(const std::string& tier) {
    bool T = tier == "thorough";
    const std::vector<std::string> EBLOCK = {"", "extension", "restriction", "substitution", "#all"};
    const std::vector<std::string> TBLOCK = {"", "extension", "restriction", "#all"};
    const std::vector<char> MTYPES = T ? std::vector<char>{'B', 'X', 'R', 'Y'} : std::vector<char>{'B', 'X', 'R'};
    const std::vector<std::string> XSITYPES = T ? std::vector<std::string>{"", "B", "X", "R", "U", "Z", "Y"} : std::vector<std::string>{"", "B", "X", "R", "U", "Z"};
    const std::vector<std::string> CONTENTS = {"", "a", "ab", "b"};
    for (int babs = 0; babs < 2; babs++) for (auto& tb : TBLOCK) for (auto& eb : EBLOCK) for (int eabs = 0; eabs < 2; eabs++) for (int nillable = 0; nillable < 2; nillable++) for (char mt : MTYPES) {
        BCase bc;
        bc.desc = std::string("types B.abstract=") + (babs ? "1" : "0") + " B.block='" + tb + "' e.block='" + eb + "' e.abstract=" + (eabs ? "1" : "0") + " nillable=" + (nillable ? "1" : "0") + " m.type=" + mt;
        std::string s = XSD_HEAD;
        s += R_AND_W + w_decl("<xs:element ref=\"t:e\"/>");
        s += "<xs:element name=\"a\"><xs:complexType/></xs:element>\n<xs:element name=\"b\"><xs:complexType/></xs:element>\n<xs:element name=\"c\"><xs:complexType/></xs:element>\n";
        s += std::string("<xs:complexType name=\"B\"") + (babs ? " abstract=\"true\"" : "") + (tb.empty() ? "" : " block=\"" + tb + "\"") + "><xs:sequence><xs:element ref=\"t:a\" minOccurs=\"0\"/></xs:sequence></xs:complexType>\n";
        s += "<xs:complexType name=\"X\"><xs:complexContent><xs:extension base=\"t:B\"><xs:sequence><xs:element ref=\"t:b\"/></xs:sequence></xs:extension></xs:complexContent></xs:complexType>\n";
        s += "<xs:complexType name=\"R\"><xs:complexContent><xs:restriction base=\"t:B\"><xs:sequence><xs:element ref=\"t:a\"/></xs:sequence></xs:restriction></xs:complexContent></xs:complexType>\n";
        if (T) s += "<xs:complexType name=\"Y\"><xs:complexContent><xs:restriction base=\"t:X\"><xs:sequence><xs:sequence><xs:element ref=\"t:a\"/></xs:sequence><xs:sequence><xs:element ref=\"t:b\"/></xs:sequence></xs:sequence></xs:restriction></xs:complexContent></xs:complexType>\n";
        s += "<xs:complexType name=\"U\"><xs:sequence><xs:element ref=\"t:c\" minOccurs=\"0\"/></xs:sequence></xs:complexType>\n";
        s += std::string("<xs:element name=\"e\" type=\"t:B\"") + (eabs ? " abstract=\"true\"" : "") + (eb.empty() ? "" : " block=\"" + eb + "\"") + (nillable ? " nillable=\"true\"" : "") + "/>\n";
        s += std::string("<xs:element name=\"m\" type=\"t:") + mt + "\" substitutionGroup=\"t:e\"" + (nillable ? " nillable=\"true\"" : "") + "/>\n";
        s += "</xs:schema>\n";
        bc.files["/v/s.xsd"] = s;
        unsigned eBlock = block_set(eb), tBlock = block_set(tb) & 3;
        // xsi:nil="false" items last: see defect C08-D5 (the flag leaks into the following start tag), so that the leak cannot
        // disturb the verdicts of the other two thirds of the batch
        for (int nil = 0; nil < 3; nil++) for (const char* el : {"e", "m"}) for (auto& xt : XSITYPES) for (auto& ct : CONTENTS) {
            Item it;
            std::string xml = std::string("<t:") + el;
            if (!xt.empty()) xml += " xsi:type=\"t:" + xt + "\"";
            if (nil == 1) xml += " xsi:nil=\"true\"";
            if (nil == 2) xml += " xsi:nil=\"false\"";
            xml += ">";
            for (char ch : ct) xml += std::string("<t:") + ch + "/>";
            xml += std::string("</t:") + el + ">";
            it.xml = xml;
            bool invalid = false; std::string why = "valid";
            bool isM = el[0] == 'm';
            char declType = isM ? mt : 'B';
            auto fail = [&](const std::string& w) { if (!invalid) { invalid = true; why = w; } };
            if (isM) {
                // cos-equiv-derived-ok-rec: substitution blocked by e.{disallowed substitutions}, or by the derivation methods between the
                // types intersecting block(e) + block(B) (prohibited substitutions of the head's type; intermediate types carry no block)
                unsigned meth = 0;
                derivation_methods(mt, 'B', meth);
                if (eBlock & 4) fail("cos-equiv-derived-ok-rec.2.1: head blocks substitution");
                else if (meth & ((eBlock & 3) | tBlock)) fail("cos-equiv-derived-ok-rec.2.3: derivation method of the member's type is blocked");
            } else if (eabs) fail("cvc-elt.2: abstract element declaration");
            if (!nillable && nil != 0) fail("cvc-elt.3.1: xsi:nil present but the declaration is not nillable");
            bool nilled = nillable && nil == 1;
            char actual = declType;
            if (!xt.empty()) {
                if (xt == "Z") fail("cvc-elt.4.2: xsi:type does not resolve to a type definition");
                else {
                    char lt = xt[0];
                    unsigned meth = 0;
                    bool derived = derivation_methods(lt, declType, meth);
                    // blocking set: {disallowed substitutions} of the governing declaration + {prohibited substitutions} of its type
                    unsigned blk = (isM ? 0u : (eBlock & 3)) | (declType == 'B' ? tBlock : 0u);
                    if (!derived) fail("cvc-elt.4.3: xsi:type is not derived from the declared type");
                    else if (meth & blk) fail("cvc-elt.4.3: derivation method blocked (cos-ct-derived-ok)");
                    else actual = lt;
                }
            }
            if (actual == 'B' && babs) fail("cvc-type.2: abstract type definition");
            if (nilled) { if (!ct.empty()) fail("cvc-elt.3.2.1: nilled element with children"); }
            else if (!content_ok(actual, ct)) fail("cvc-complex-type.2.4: children do not match the content model of the governing type");
            it.expect = invalid ? 1 : 0;
            it.why = why;
            if (!invalid) it.type = std::string("urn:t|") + actual;
            bc.items.push_back(it);
        }
        BCASES.push_back(bc);
    }
    // schema-level constraints on final: pairs (erroneous, clean sibling)
    struct FS { const char* bfinal; const char* efinal; char mt; bool bad; const char* why; };
    std::vector<FS> fs = {
        {"", "", 'X', false, ""}, {"extension", "", 'X', true, "cos-ct-extends.1.1: base is final for extension"}, {"restriction", "", 'X', true, "derivation-ok-restriction.1: base is final for restriction (type R)"},
        {"#all", "", 'B', true, "base final #all"}, {"", "extension", 'X', true, "e-props-correct.4 / cos-equiv-class: head is final for extension"},
        {"", "extension", 'R', false, ""}, {"", "restriction", 'R', true, "head is final for restriction"}, {"", "restriction", 'X', false, ""}, {"", "#all", 'B', false, ""}, {"", "#all", 'X', true, "head final #all"},
    };
    for (auto& f : fs) {
        BCase bc;
        bc.desc = std::string("final B.final='") + f.bfinal + "' e.final='" + f.efinal + "' m.type=" + f.mt;
        std::string s = XSD_HEAD;
        s += R_AND_W + w_decl("<xs:element ref=\"t:e\"/>");
        s += "<xs:element name=\"a\"><xs:complexType/></xs:element>\n<xs:element name=\"b\"><xs:complexType/></xs:element>\n";
        s += std::string("<xs:complexType name=\"B\"") + (f.bfinal[0] ? std::string(" final=\"") + f.bfinal + "\"" : std::string()) + "><xs:sequence><xs:element ref=\"t:a\" minOccurs=\"0\"/></xs:sequence></xs:complexType>\n";
        s += "<xs:complexType name=\"X\"><xs:complexContent><xs:extension base=\"t:B\"><xs:sequence><xs:element ref=\"t:b\"/></xs:sequence></xs:extension></xs:complexContent></xs:complexType>\n";
        s += "<xs:complexType name=\"R\"><xs:complexContent><xs:restriction base=\"t:B\"><xs:sequence><xs:element ref=\"t:a\"/></xs:sequence></xs:restriction></xs:complexContent></xs:complexType>\n";
        s += std::string("<xs:element name=\"e\" type=\"t:B\"") + (f.efinal[0] ? std::string(" final=\"") + f.efinal + "\"" : std::string()) + "/>\n";
        s += std::string("<xs:element name=\"m\" type=\"t:") + f.mt + "\" substitutionGroup=\"t:e\"/>\n</xs:schema>\n";
        bc.files["/v/s.xsd"] = s;
        bc.schemaExpect = f.bad ? 1 : 0;
        bc.schemaWhy = f.why;
        Item it; it.xml = "<t:e/>"; it.expect = 0; it.type = "urn:t|B"; it.why = "valid";
        bc.items.push_back(it);
        Item i2; i2.xml = std::string("<t:m>") + (f.mt == 'X' ? "<t:b/>" : f.mt == 'R' ? "<t:a/>" : "") + "</t:m>"; i2.expect = 0; i2.type = std::string("urn:t|") + f.mt; i2.why = "valid member";
        bc.items.push_back(i2);
        BCASES.push_back(bc);
    }
}

// ================================================================================================ element wildcards
// e = (any{namespace, processContents}) with exactly one child; schema for urn:x is available through xs:import.
static void build_wild(const std::string& tier) {
    (void)tier;
    struct NS { const char* attr; bool t, x, local, other; };   // admits: target ns, urn:x, no namespace, some other namespace urn:u
    std::vector<NS> nss = {{"##any", true, true, true, true}, {"##other", false, true, false, true}, {"##targetNamespace", true, false, false, false}, {"##local", false, false, true, false},
                           {"urn:x", false, true, false, false}, {"##local urn:x", false, true, true, false}, {"##targetNamespace ##local", true, false, true, false}};
    struct CH { const char* xml; char nsclass; int decl; };  // decl 0 none, 1 declared + valid, 2 declared + invalid content
    // no-namespace children: n has a global declaration (imported no-namespace schema n.xsd), m has none
    std::vector<CH> chs = {{"<t:a/>", 't', 1}, {"<t:a>z</t:a>", 't', 2}, {"<t:d/>", 't', 0}, {"<x:x>5</x:x>", 'x', 1}, {"<x:x>z</x:x>", 'x', 2}, {"<x:y/>", 'x', 0},
                           {"<n/>", 'l', 1}, {"<n>z</n>", 'l', 2}, {"<m/>", 'l', 0}, {"<u:z xmlns:u=\"urn:u\"/>", 'o', 0}, {"", '-', 0}, {"<t:a/><t:a/>", '2', 1}};
    for (auto& ns : nss) for (int pc = 0; pc < 3; pc++) {
        BCase bc;
        bc.desc = std::string("wild namespace='") + ns.attr + "' processContents=" + WPC_ATTR[pc];
        std::string s = XSD_HEAD;
        s += "<xs:import namespace=\"urn:x\" schemaLocation=\"x.xsd\"/>\n<xs:import schemaLocation=\"n.xsd\"/>\n";
        s += R_AND_W + w_decl("<xs:element ref=\"t:e\"/>");
        s += "<xs:element name=\"a\"><xs:complexType/></xs:element>\n";
        bc.files["/v/n.xsd"] = "<xs:schema xmlns:xs=\"http://www.w3.org/2001/XMLSchema\">\n<xs:element name=\"n\"><xs:complexType/></xs:element>\n</xs:schema>\n";
        s += std::string("<xs:element name=\"e\"><xs:complexType><xs:sequence><xs:any namespace=\"") + ns.attr + "\" processContents=\"" + WPC_ATTR[pc] + "\"/></xs:sequence></xs:complexType></xs:element>\n</xs:schema>\n";
        bc.files["/v/s.xsd"] = s;
        bc.files["/v/x.xsd"] = "<xs:schema xmlns:xs=\"http://www.w3.org/2001/XMLSchema\" targetNamespace=\"urn:x\" elementFormDefault=\"qualified\">\n<xs:element name=\"x\" type=\"xs:integer\"/>\n</xs:schema>\n";
        for (auto& ch : chs) {
            Item it;
            it.xml = std::string("<t:e>") + ch.xml + "</t:e>";
            bool invalid = false; std::string why = "valid";
            if (ch.nsclass == '-') { invalid = true; why = "cvc-complex-type.2.4: required wildcard particle missing"; }
            else if (ch.nsclass == '2') { invalid = true; why = "cvc-complex-type.2.4: two children for a (1,1) wildcard" ; }
            else {
                bool admitted = ch.nsclass == 't' ? ns.t : ch.nsclass == 'x' ? ns.x : ch.nsclass == 'l' ? ns.local : ns.other;
                if (!admitted) { invalid = true; why = "cvc-wildcard-namespace: namespace not admitted by the wildcard"; }
                else if (pc == 0 && ch.decl == 0) { invalid = true; why = "cvc-assess-elt / strict: no global declaration available"; }
                else if (pc != 2 && ch.decl == 2) { invalid = true; why = "declared element with invalid content under strict/lax"; }
            }
            it.expect = invalid ? 1 : 0;
            it.why = why;
            bc.items.push_back(it);
        }
        BCASES.push_back(bc);
    }
}

// the same without a target namespace (xsi:noNamespaceSchemaLocation): ##other = any namespace-qualified element, ##targetNamespace = ##local = absent
static const char* const NONS_DOC_HEAD = "<r xmlns:x=\"urn:x\" xmlns:xsi=\"http://www.w3.org/2001/XMLSchema-instance\" xsi:noNamespaceSchemaLocation=\"s.xsd\">\n";
static void build_wild_nons() {
    struct NS { const char* attr; bool local, x, other; };
    std::vector<NS> nss = {{"##any", true, true, true}, {"##other", false, true, true}, {"##targetNamespace", true, false, false}, {"##local", true, false, false}, {"urn:x", false, true, false}};
    struct CH { const char* xml; char nsclass; int decl; };
    std::vector<CH> chs = {{"<a/>", 'l', 1}, {"<a>z</a>", 'l', 2}, {"<d/>", 'l', 0}, {"<x:x>5</x:x>", 'x', 1}, {"<x:x>z</x:x>", 'x', 2}, {"<x:y/>", 'x', 0}, {"<u:z xmlns:u=\"urn:u\"/>", 'o', 0}, {"", '-', 0}};
    for (auto& ns : nss) for (int pc = 0; pc < 3; pc++) {
        BCase bc;
        bc.desc = std::string("wild-nons namespace='") + ns.attr + "' processContents=" + WPC_ATTR[pc];
        bc.docHead = NONS_DOC_HEAD; bc.wOpen = "<w>"; bc.wClose = "</w>"; bc.docTail = "</r>\n";
        std::string s = "<xs:schema xmlns:xs=\"http://www.w3.org/2001/XMLSchema\">\n<xs:import namespace=\"urn:x\" schemaLocation=\"x.xsd\"/>\n";
        s += "<xs:element name=\"r\"><xs:complexType><xs:sequence><xs:element ref=\"w\" minOccurs=\"0\" maxOccurs=\"unbounded\"/></xs:sequence></xs:complexType></xs:element>\n";
        s += "<xs:element name=\"w\"><xs:complexType><xs:sequence><xs:element ref=\"e\"/></xs:sequence></xs:complexType></xs:element>\n";
        s += "<xs:element name=\"a\"><xs:complexType/></xs:element>\n";
        s += std::string("<xs:element name=\"e\"><xs:complexType><xs:sequence><xs:any namespace=\"") + ns.attr + "\" processContents=\"" + WPC_ATTR[pc] + "\"/></xs:sequence></xs:complexType></xs:element>\n</xs:schema>\n";
        bc.files["/v/s.xsd"] = s;
        bc.files["/v/x.xsd"] = "<xs:schema xmlns:xs=\"http://www.w3.org/2001/XMLSchema\" targetNamespace=\"urn:x\" elementFormDefault=\"qualified\">\n<xs:element name=\"x\" type=\"xs:integer\"/>\n</xs:schema>\n";
        for (auto& ch : chs) {
            Item it;
            it.xml = std::string("<e>") + ch.xml + "</e>";
            bool invalid = false; std::string why = "valid";
            if (ch.nsclass == '-') { invalid = true; why = "cvc-complex-type.2.4: required wildcard particle missing"; }
            else {
                bool admitted = ch.nsclass == 'l' ? ns.local : ch.nsclass == 'x' ? ns.x : ns.other;
                if (!admitted) { invalid = true; why = "cvc-wildcard-namespace: namespace not admitted by the wildcard (no target namespace)"; }
                else if (pc == 0 && ch.decl == 0) { invalid = true; why = "strict: no global declaration available"; }
                else if (pc != 2 && ch.decl == 2) { invalid = true; why = "declared element with invalid content under strict/lax"; }
            }
            it.expect = invalid ? 1 : 0;
            it.why = why;
            bc.items.push_back(it);
        }
        BCASES.push_back(bc);
    }
}

// ================================================================================================ schema assembly (metamorphic + reference)
// The same abstract component  e : { (a, b?) ; attribute p : xs:integer required }  written in different ways.  Instances are
// abstract (child word over {a,b,d}, p present/absent) and rendered per variant; every variant must give the same verdict vector,
// which is also the one the reference computes.
static void build_assembly(const std::string& tier) {
    (void)tier;
    struct V { std::string name; std::map<std::string, std::string> files; std::string cns;  /* namespace prefix of the children: "t:", "u:" or "" */ std::string head; std::string typeName; };
    std::vector<V> vs;
    const std::string RW = std::string(R_AND_W);
    const std::string AB_GLOBAL = "<xs:element name=\"a\"><xs:complexType/></xs:element>\n<xs:element name=\"b\"><xs:complexType/></xs:element>\n";
    const std::string SEQ_REF = "<xs:sequence><xs:element ref=\"t:a\"/><xs:element ref=\"t:b\" minOccurs=\"0\"/></xs:sequence>";
    const std::string SEQ_LOCAL = "<xs:sequence><xs:element name=\"a\"><xs:complexType/></xs:element><xs:element name=\"b\" minOccurs=\"0\"><xs:complexType/></xs:element></xs:sequence>";
    const std::string ATT_P = "<xs:attribute name=\"p\" type=\"xs:integer\" use=\"required\"/>";
    const std::string END = "</xs:schema>\n";
    auto add = [&](const std::string& name, const std::string& main, const std::string& cns, const std::string& typeName, std::map<std::string, std::string> extra = {}, const std::string& head = DOC_HEAD) {
        V v; v.name = name; v.files = extra; v.files["/v/s.xsd"] = main; v.cns = cns; v.head = head; v.typeName = typeName; vs.push_back(v);
    };
    // V0: everything global and named
    add("global-named", std::string(XSD_HEAD) + RW + w_decl("<xs:element ref=\"t:e\"/>") + AB_GLOBAL + "<xs:complexType name=\"T\">" + SEQ_REF + ATT_P + "</xs:complexType>\n<xs:element name=\"e\" type=\"t:T\"/>\n" + END, "t:", "urn:t|T");
    // V1: local (qualified) element declarations inside the named type
    add("local-elements", std::string(XSD_HEAD) + RW + w_decl("<xs:element ref=\"t:e\"/>") + "<xs:complexType name=\"T\">" + SEQ_LOCAL + ATT_P + "</xs:complexType>\n<xs:element name=\"e\" type=\"t:T\"/>\n" + END, "t:", "urn:t|T");
    // V2: anonymous type
    add("anonymous-type", std::string(XSD_HEAD) + RW + w_decl("<xs:element ref=\"t:e\"/>") + AB_GLOBAL + "<xs:element name=\"e\"><xs:complexType>" + SEQ_REF + ATT_P + "</xs:complexType></xs:element>\n" + END, "t:", "");
    // V3: model group + attribute group
    add("groups", std::string(XSD_HEAD) + RW + w_decl("<xs:element ref=\"t:e\"/>") + AB_GLOBAL + "<xs:group name=\"G\">" + SEQ_REF + "</xs:group>\n<xs:attributeGroup name=\"AG\">" + ATT_P + "</xs:attributeGroup>\n" +
                      "<xs:complexType name=\"T\"><xs:group ref=\"t:G\"/><xs:attributeGroup ref=\"t:AG\"/></xs:complexType>\n<xs:element name=\"e\" type=\"t:T\"/>\n" + END, "t:", "urn:t|T");
    // V4: local element e inside the wrapper instead of a reference to a global one
    add("local-e", std::string(XSD_HEAD) + RW + AB_GLOBAL + "<xs:complexType name=\"T\">" + SEQ_REF + ATT_P + "</xs:complexType>\n" + w_decl("<xs:element name=\"e\" type=\"t:T\"/>") + END, "t:", "urn:t|T");
    // V5: type in an included document (same target namespace)
    add("include", std::string(XSD_HEAD) + "<xs:include schemaLocation=\"s2.xsd\"/>\n" + RW + w_decl("<xs:element ref=\"t:e\"/>") + "<xs:element name=\"e\" type=\"t:T\"/>\n" + END, "t:", "urn:t|T",
        {{"/v/s2.xsd", std::string(XSD_HEAD) + AB_GLOBAL + "<xs:complexType name=\"T\">" + SEQ_REF + ATT_P + "</xs:complexType>\n" + END}});
    // V6: chameleon include (included document without target namespace; references inside it are to no-namespace names that are coerced)
    add("chameleon-include", std::string(XSD_HEAD) + "<xs:include schemaLocation=\"s2.xsd\"/>\n" + RW + w_decl("<xs:element ref=\"t:e\"/>") + "<xs:element name=\"e\" type=\"t:T\"/>\n" + END, "t:", "urn:t|T",
        {{"/v/s2.xsd", "<xs:schema xmlns:xs=\"http://www.w3.org/2001/XMLSchema\" elementFormDefault=\"qualified\">\n<xs:complexType name=\"T\">" + SEQ_LOCAL + ATT_P + "</xs:complexType>\n" + END}});
    // V7: type imported from a second namespace, children qualified in urn:u
    add("import-qualified", std::string(XSD_HEAD) + "<xs:import namespace=\"urn:u\" schemaLocation=\"s2.xsd\"/>\n" + RW + w_decl("<xs:element ref=\"t:e\"/>") + "<xs:element name=\"e\" type=\"u:T\" xmlns:u=\"urn:u\"/>\n" + END, "u:", "urn:u|T",
        {{"/v/s2.xsd", "<xs:schema xmlns:xs=\"http://www.w3.org/2001/XMLSchema\" targetNamespace=\"urn:u\" elementFormDefault=\"qualified\">\n<xs:complexType name=\"T\">" + SEQ_LOCAL + ATT_P + "</xs:complexType>\n" + END}});
    // V8: type imported from a second namespace, local children unqualified
    add("import-unqualified", std::string(XSD_HEAD) + "<xs:import namespace=\"urn:u\" schemaLocation=\"s2.xsd\"/>\n" + RW + w_decl("<xs:element ref=\"t:e\"/>") + "<xs:element name=\"e\" type=\"u:T\" xmlns:u=\"urn:u\"/>\n" + END, "", "urn:u|T",
        {{"/v/s2.xsd", "<xs:schema xmlns:xs=\"http://www.w3.org/2001/XMLSchema\" targetNamespace=\"urn:u\">\n<xs:complexType name=\"T\">" + SEQ_LOCAL + ATT_P + "</xs:complexType>\n" + END}});
    // V9: element e itself lives in the imported namespace and is referenced from the wrapper
    add("import-element", std::string(XSD_HEAD) + "<xs:import namespace=\"urn:u\" schemaLocation=\"s2.xsd\"/>\n" + RW + w_decl("<xs:element ref=\"u:e\" xmlns:u=\"urn:u\"/>") + END, "u:", "urn:u|T",
        {{"/v/s2.xsd", "<xs:schema xmlns:xs=\"http://www.w3.org/2001/XMLSchema\" targetNamespace=\"urn:u\" xmlns:u=\"urn:u\" elementFormDefault=\"qualified\">\n<xs:complexType name=\"T\">" + SEQ_LOCAL + ATT_P +
                            "</xs:complexType>\n<xs:element name=\"e\" type=\"u:T\"/>\n" + END}});
    // V10: attribute declared globally and referenced (then it is qualified: t:p) - separate rendering of the attribute
    add("global-attribute-ref", std::string(XSD_HEAD) + RW + w_decl("<xs:element ref=\"t:e\"/>") + AB_GLOBAL + "<xs:attribute name=\"p\" type=\"xs:integer\"/>\n<xs:complexType name=\"T\">" + SEQ_REF +
                                    "<xs:attribute ref=\"t:p\" use=\"required\"/></xs:complexType>\n<xs:element name=\"e\" type=\"t:T\"/>\n" + END, "t:", "urn:t|T");
    // V11: no target namespace at all, schema named by xsi:noNamespaceSchemaLocation
    add("no-namespace", "<xs:schema xmlns:xs=\"http://www.w3.org/2001/XMLSchema\">\n"
                        "<xs:element name=\"r\"><xs:complexType><xs:sequence><xs:element ref=\"w\" minOccurs=\"0\" maxOccurs=\"unbounded\"/></xs:sequence></xs:complexType></xs:element>\n"
                        "<xs:element name=\"w\"><xs:complexType><xs:sequence><xs:element ref=\"e\"/></xs:sequence></xs:complexType></xs:element>\n"
                        "<xs:complexType name=\"T\">" + SEQ_LOCAL + ATT_P + "</xs:complexType>\n<xs:element name=\"e\" type=\"T\"/>\n" + END, "", "|T");
    const char SYMS[3] = {'a', 'b', 'd'};
    for (size_t vi = 0; vi < vs.size(); vi++) {
        V& v = vs[vi];
        BCase bc;
        bc.desc = "assembly variant=" + v.name;
        bc.files = v.files;
        bc.docHead = "<t:r xmlns:t=\"urn:t\" xmlns:u=\"urn:u\" xmlns:x=\"urn:x\" xmlns:xsi=\"http://www.w3.org/2001/XMLSchema-instance\" xsi:schemaLocation=\"urn:t s.xsd\">\n";
        std::string eName = v.name == "import-element" ? "u:e" : v.name == "no-namespace" ? "e" : "t:e";
        if (v.name == "no-namespace") { bc.docHead = NONS_DOC_HEAD; bc.wOpen = "<w>"; bc.wClose = "</w>"; bc.docTail = "</r>\n"; }
        std::string pName = v.name == "global-attribute-ref" ? "t:p" : "p";
        for (uint64_t wi = 0; wi < words_upto(3, 3); wi++) for (int pk = 0; pk < 3; pk++) {
            std::vector<int> w = word_at(wi, 3, 3);
            Item it;
            std::string xml = "<" + eName + (pk == 1 ? " " + pName + "=\"5\"" : pk == 2 ? " " + pName + "=\"x\"" : "") + ">";
            std::string ws;
            for (int sidx : w) { xml += "<" + v.cns + SYMS[sidx] + "/>"; ws += SYMS[sidx]; }
            xml += "</" + eName + ">";
            it.xml = xml;
            bool ok = (ws == "a" || ws == "ab") && pk == 1;
            it.expect = ok ? 0 : 1;
            it.why = ok ? "valid" : (pk == 0 ? "required attribute missing" : pk == 2 ? "attribute value not an integer" : "children do not match (a, b?)");
            if (pk != 1 && !(ws == "a" || ws == "ab")) it.why = "children do not match (a, b?) and attribute problem";
            if (ok && !v.typeName.empty()) it.type = v.typeName;
            if (ok) it.attrTypes.push_back("p|" + XSDNS + "|integer");
            bc.items.push_back(it);
        }
        BCASES.push_back(bc);
    }
}

static bool setup_space(const std::string& space, const std::string& tier, const Args& a, Runner& R) {
    if (space == "witness") {
        R.total = 6;
        R.fn = run_witness;
        R.describe = [](uint64_t i) { return "{\"witness\":" + jstr(WITNESSES[i].slug) + "}"; };
        R.extra_json = "\"bounds\":{\"witnesses\":6}";
        return true;
    }
    if (space == "attrs") { build_attrs(tier); build_wide_attrs(); }
    else if (space == "content") build_content(tier);
    else if (space == "types") build_types(tier);
    else if (space == "chains") build_chains(tier);
    else if (space == "wild") { build_wild(tier); build_wild_nons(); }
    else if (space == "assembly") build_assembly(tier);
    else return false;
    g_bspace = space;
    g_types_mode = (int)a.num("types", 1);
    g_all_cfgs = a.num("allcfgs", tier == "thorough" ? 1 : 0) != 0;
    g_skip_known = a.str("known", "skip") == "skip";
    probe_defects();
    for (int i = 0; i < 6; i++) if (a.num("assume-fixed", 0) & (1 << i)) g_defect_active[i] = false;   // development aid: pretend the witness of defect i passes
    size_t items = 0;
    for (auto& b : BCASES) items += b.items.size();
    R.total = BCASES.size();
    R.fn = run_bcase;
    R.describe = [](uint64_t i) { return "{\"case\":" + jstr(BCASES[i].desc) + "}"; };
    R.extra_json = "\"bounds\":{\"schemas\":" + std::to_string(BCASES.size()) + ",\"instance_items\":" + std::to_string(items) + "}";
    if (a.has("count-only")) { printf("schemas=%zu items=%zu\n", BCASES.size(), items); exit(0); }
    return true;
}
