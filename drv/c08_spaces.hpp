#pragma once
static bool setup_space(const std::string&, const std::string&, const Args&, Runner&) { return false; }
