// c16_gen.hpp - the finite grammar families of the C16 check.  Every family is a deterministic, explicitly bounded enumeration;
// a case is one grammar pool content (one or more grammar documents) plus its instance set.
#pragma once
#include <map>
#include <string>
#include <vector>

namespace c16 {

struct GFile { std::string sysId, text; };
struct GCase {
    std::string family;                 // sub-family label (non-vacuity counters are kept per family)
    std::string label;                  // human readable parameters
    bool isSchema = true;
    std::vector<GFile> files;           // all files put into the VFS while loading
    std::vector<std::string> load;      // system ids passed to loadGrammar, in order (subset of files)
    std::vector<int> loadIsSchema;      // per load entry (mixed pools)
    std::vector<GFile> keep;            // files that stay in the VFS during instance validation (external entities)
    std::vector<std::string> instances;
    std::vector<int> instIsSchema;      // per instance; empty = all isSchema
    bool synthAnn = false;
    bool psvi = true;                   // install PSVI handlers / DOM schema info (switched off where an unrelated library defect would abort the parse)
};

inline std::string rep(std::string s, const std::string& from, const std::string& to) {
    size_t p = 0;
    while ((p = s.find(from, p)) != std::string::npos) { s.replace(p, from.size(), to); p += to.size(); }
    return s;
}

// ================================================================================================ DTD families
static const char* const DOCC[4] = {"", "?", "*", "+"};

inline std::string dtd_doc_head() { return "<!DOCTYPE r SYSTEM 'g.dtd'>\n"; }

inline void dtd_cm_instances(GCase& g) {
    // one document, one <e> per line: all words over {a,b,c} of length <= 3 plus text / undeclared-child variants
    std::string d = dtd_doc_head() + "<r>\n";
    const char* nm[3] = {"<a/>", "<b/>", "<c/>"};
    for (int len = 0; len <= 3; len++) {
        int n = 1;
        for (int i = 0; i < len; i++) n *= 3;
        for (int w = 0; w < n; w++) {
            std::string s;
            int x = w;
            std::vector<int> ds(len);
            for (int i = len - 1; i >= 0; i--) { ds[i] = x % 3; x /= 3; }
            for (int i = 0; i < len; i++) s += nm[ds[i]];
            d += "<e>" + s + "</e>\n";
        }
    }
    d += "<e>txt</e>\n<e> </e>\n<e><a/>txt</e>\n<e>txt<b/>more<a/></e>\n<e><d/></e>\n<e><a/> <b/></e>\n<e><![CDATA[x]]></e>\n";
    d += "</r>\n";
    g.instances.push_back(d);
}

inline GCase dtd_cm_case(const std::string& model, const std::string& label) {
    GCase g;
    g.family = "dtd-content-model"; g.label = label; g.isSchema = false;
    std::string t = "<!ELEMENT r (e)*>\n<!ELEMENT e " + model + ">\n<!ELEMENT a EMPTY>\n<!ELEMENT b EMPTY>\n<!ELEMENT c EMPTY>\n";
    g.files.push_back({"/v/g.dtd", t});
    g.load.push_back("/v/g.dtd");
    dtd_cm_instances(g);
    return g;
}

inline void gen_dtd_cm(std::vector<GCase>& out, bool thorough) {
    const char* fixed[] = {"EMPTY", "ANY", "(#PCDATA)", "(#PCDATA)*", "(#PCDATA|a)*", "(#PCDATA|a|b)*", "(#PCDATA|a|b|c)*", "(#PCDATA|c|a)*"};
    for (auto m : fixed) out.push_back(dtd_cm_case(m, m));
    const char* names[3] = {"a", "b", "c"};
    // one leaf
    for (int n = 0; n < (thorough ? 3 : 2); n++) for (int lo = 0; lo < 4; lo++) for (int go = 0; go < 4; go++) {
        std::string m = std::string("(") + names[n] + DOCC[lo] + ")" + DOCC[go];
        out.push_back(dtd_cm_case(m, m));
    }
    // two leaves
    for (int op = 0; op < 2; op++) for (int n1 = 0; n1 < 3; n1++) for (int n2 = 0; n2 < 3; n2++) for (int o1 = 0; o1 < 4; o1++) for (int o2 = 0; o2 < 4; o2++) for (int go = 0; go < 4; go++) {
        if (!thorough) {
            if (!((n1 == 0 && n2 == 1) || (n1 == 0 && n2 == 0))) continue;
            if (o1 == 1 || o2 == 3 || go == 1) continue;          // leaf occurrences {none,*,+} x {none,?,*}, group occurrences {none,*,+}
        }
        std::string m = std::string("(") + names[n1] + DOCC[o1] + (op ? "|" : ",") + names[n2] + DOCC[o2] + ")" + DOCC[go];
        out.push_back(dtd_cm_case(m, m));
    }
    // three leaves
    const int trip[3][3] = {{0, 1, 2}, {0, 1, 0}, {0, 0, 1}};
    for (int op = 0; op < 2; op++) for (int t = 0; t < (thorough ? 3 : 1); t++) for (int o1 = 0; o1 < 3; o1++) for (int o2 = 0; o2 < 3; o2++) for (int o3 = 0; o3 < 3; o3++) for (int go = 0; go < 4; go++) {
        if (!thorough && (o1 == 1 || o2 == 2 || o3 == 1 || go == 1)) continue;
        std::string sep = op ? "|" : ",";
        std::string m = std::string("(") + names[trip[t][0]] + DOCC[o1] + sep + names[trip[t][1]] + DOCC[o2] + sep + names[trip[t][2]] + DOCC[o3] + ")" + DOCC[go];
        out.push_back(dtd_cm_case(m, m));
    }
    // nested: ((a op b)o1 op' c)o2 and (a op' (b op c)o1)o2, leaf occurrences from {none,*}
    for (int shape = 0; shape < 2; shape++) for (int op = 0; op < 2; op++) for (int op2 = 0; op2 < 2; op2++) for (int o1 = 0; o1 < 4; o1++) for (int o2 = 0; o2 < 4; o2++) for (int lo = 0; lo < (thorough ? 8 : 1); lo++) {
        if (!thorough && (o1 == 1 || o2 == 3)) continue;
        std::string la = std::string("a") + ((lo & 1) ? "*" : ""), lb = std::string("b") + ((lo & 2) ? "*" : ""), lc = std::string("c") + ((lo & 4) ? "*" : "");
        std::string s1 = op ? "|" : ",", s2 = op2 ? "|" : ",";
        std::string m = shape == 0 ? "((" + la + s1 + lb + ")" + DOCC[o1] + s2 + lc + ")" + DOCC[o2] : "(" + la + s2 + "(" + lb + s1 + lc + ")" + DOCC[o1] + ")" + DOCC[o2];
        out.push_back(dtd_cm_case(m, m));
    }
}

// ---- attributes
static const char* const DTD_ATT_TYPES[10] = {"CDATA", "ID", "IDREF", "IDREFS", "ENTITY", "ENTITIES", "NMTOKEN", "NMTOKENS", "NOTATION (n1|n2)", "(x|y|v)"};
static const char* const DTD_ATT_DEFVAL[10] = {"v w", "v", "v", "v i1", "u1", "u1 u2", "v", "v x", "n1", "v"};

inline std::string dtd_att_decl(const std::string& name, int type, int def) {
    std::string s = name + " " + DTD_ATT_TYPES[type] + " ";
    switch (def) {
    case 0: s += "#REQUIRED"; break;
    case 1: s += "#IMPLIED"; break;
    case 2: s += std::string("'") + DTD_ATT_DEFVAL[type] + "'"; break;
    default: s += std::string("#FIXED '") + DTD_ATT_DEFVAL[type] + "'";
    }
    return s;
}

inline void dtd_att_instances(GCase& g, bool two) {
    const char* vals[] = {"v", "x", "n1", "n2", "u1", "u1 u2", "i1", "v w", "v i1", "v x", "1bad", "", " v ", "zz"};
    std::string d = dtd_doc_head() + "<r>\n<e/>\n<e id0='i1'/>\n";
    for (auto v : vals) d += std::string("<e k='") + v + "'/>\n";
    if (two) {
        for (auto v : vals) d += std::string("<e j='") + v + "'/>\n";
        d += "<e k='v' j='v'/>\n<e k='x' j='n1'/>\n<e k='u1' j='i1'/>\n";
    }
    d += "<e q='undeclared'/>\n</r>\n";
    g.instances.push_back(d);
}

inline GCase dtd_att_case(const std::vector<std::pair<int, int>>& atts) {
    GCase g;
    g.family = "dtd-attribute"; g.isSchema = false;
    std::string t = "<!NOTATION n1 SYSTEM 'u1'>\n<!NOTATION n2 PUBLIC 'p2'>\n<!ENTITY u1 SYSTEM 'x.gif' NDATA n1>\n<!ENTITY u2 PUBLIC 'pp' 'y.gif' NDATA n2>\n"
                    "<!ELEMENT r (e)*>\n<!ELEMENT e EMPTY>\n<!ATTLIST e id0 ID #IMPLIED>\n";
    const char* nm[2] = {"k", "j"};
    bool hasId = false;
    for (size_t i = 0; i < atts.size(); i++) {
        if (atts[i].first == 1) hasId = true;
        g.label += (i ? "; " : "") + dtd_att_decl(nm[i], atts[i].first, atts[i].second);
    }
    if (hasId) t = rep(t, "<!ATTLIST e id0 ID #IMPLIED>\n", "");  // one ID attribute per element type
    if (atts.size() == 1) t += "<!ATTLIST e " + dtd_att_decl("k", atts[0].first, atts[0].second) + ">\n";
    else t += "<!ATTLIST e " + dtd_att_decl("k", atts[0].first, atts[0].second) + "\n  " + dtd_att_decl("j", atts[1].first, atts[1].second) + ">\n";
    g.files.push_back({"/v/g.dtd", t});
    g.load.push_back("/v/g.dtd");
    dtd_att_instances(g, atts.size() > 1);
    return g;
}

inline bool dtd_att_legal(int type, int def) { return !(type == 1 && def >= 2); }  // ID attributes must be #IMPLIED or #REQUIRED

inline void gen_dtd_att(std::vector<GCase>& out, bool thorough) {
    for (int t = 0; t < 10; t++) for (int d = 0; d < 4; d++) if (dtd_att_legal(t, d)) out.push_back(dtd_att_case({{t, d}}));
    for (int t1 = 0; t1 < 10; t1++) for (int d1 = 0; d1 < 4; d1++) for (int t2 = 0; t2 < 10; t2++) for (int d2 = 0; d2 < 4; d2++) {
        if (!dtd_att_legal(t1, d1) || !dtd_att_legal(t2, d2)) continue;
        if (t1 == 1 && t2 == 1) continue;              // two ID attributes on one element type: validity error in the DTD itself
        if (t1 == 8 && t2 == 8) continue;              // two NOTATION attributes: likewise
        if (!thorough && !(d2 == (d1 + 1) % 4 && t2 == (t1 + 3) % 10)) continue;   // quick: one partner per first attribute
        out.push_back(dtd_att_case({{t1, d1}, {t2, d2}}));
    }
}

// ---- entities / notations
inline void gen_dtd_ent(std::vector<GCase>& out, bool thorough) {
    const char* tok[] = {
        "<!ENTITY ie 'text'>",
        "<!ENTITY im '<a>in</a> tail &#38; more'>",
        "<!ENTITY ie2 'pre &ie; post'>",
        "<!ENTITY xe SYSTEM 'x.ent'>",
        "<!ENTITY xp PUBLIC '-//xv//pub' 'sub/y.ent'>",
        "<!NOTATION n1 SYSTEM 'app1'><!ENTITY ue SYSTEM 'pic.gif' NDATA n1>",
        "<!ENTITY % pe 'IGNORED'><!ENTITY ie 'second declaration'>",
        "<!NOTATION n2 PUBLIC 'pubid2'><!NOTATION n3 PUBLIC 'pubid3' 'sys3'>",
        "<!ATTLIST e k CDATA '&ie;' u ENTITY #IMPLIED n NOTATION (n1|n2|n3) #IMPLIED>",
    };
    const int NT = 9;
    const char* docs[] = {
        "<r><e>&ie;</e></r>", "<r><e>&im;</e></r>", "<r><e>&ie2;</e></r>", "<r><e>&xe;</e></r>", "<r><e>&xp;</e></r>", "<r><e u='ue'/></r>",
        "<r><e k='&ie;|&ie2;'/><e/></r>", "<r><e n='n2'/><e n='n1'/><e n='n9'/></r>", "<r><e>&lt;&amp;&undefined;</e></r>", "<r><e>plain</e><a>x</a></r>",
    };
    for (int mask = 0; mask < (1 << NT); mask++) {
        int bits = __builtin_popcount(mask);
        if (!thorough && bits > 2 && mask != (1 << NT) - 1) continue;
        // the ATTLIST token references ie / n1..n3: only meaningful (and legal) when those are declared
        if ((mask & 256) && ((mask & (1 | 32 | 128)) != (1 | 32 | 128))) continue;
        if ((mask & 4) && !(mask & 1)) continue;   // ie2 references ie
        GCase g;
        g.family = "dtd-entity-notation"; g.isSchema = false;
        std::string t = "<!ELEMENT r (e|a)*>\n<!ELEMENT e (#PCDATA|a)*>\n<!ELEMENT a (#PCDATA)>\n";
        for (int i = 0; i < NT; i++) if (mask & (1 << i)) { t += tok[i]; t += "\n"; g.label += std::to_string(i) + ","; }
        g.files.push_back({"/v/g.dtd", t});
        g.load.push_back("/v/g.dtd");
        g.keep.push_back({"/v/x.ent", "<a>from x.ent</a> and text"});
        g.keep.push_back({"/v/sub/y.ent", "<?xml version='1.0' encoding='UTF-8'?>external y"});
        for (auto d : docs) g.instances.push_back(dtd_doc_head() + d);
        out.push_back(g);
    }
}

// ================================================================================================ schema helpers
// In schema and instance templates '%' stands for the prefix of the target namespace ("t:" or "").
struct Ns {
    bool tns;  // targetNamespace urn:t present
    std::string head(const std::string& extraAttrs = "", bool qualified = true) const {
        std::string s = "<xs:schema xmlns:xs='http://www.w3.org/2001/XMLSchema' xmlns:o='urn:o'";
        if (tns) s += " targetNamespace='urn:t' xmlns:t='urn:t'";
        if (qualified) s += " elementFormDefault='qualified'";
        if (!extraAttrs.empty()) s += " " + extraAttrs;
        return s + ">\n";
    }
    std::string fix(const std::string& s) const { return rep(s, "%", tns ? "t:" : ""); }
    // instance: body uses % prefixes; namespace declarations are added to the first start tag
    std::string inst(const std::string& body) const {
        std::string b = fix(body);
        size_t p = b.find('<');
        size_t q = b.find_first_of(" />", p + 1);
        std::string decl = std::string(tns ? " xmlns:t='urn:t'" : "") + " xmlns:o='urn:o' xmlns:xsi='http://www.w3.org/2001/XMLSchema-instance'";
        return b.substr(0, q) + decl + b.substr(q);
    }
};

inline GCase xsd_case(const std::string& family, const std::string& label, const Ns& ns, const std::string& schemaBody, const std::string& headAttrs = "", bool qualified = true) {
    GCase g;
    g.family = family; g.label = label + (ns.tns ? " [tns]" : " [no-tns]"); g.isSchema = true;
    g.files.push_back({"/v/s.xsd", ns.head(headAttrs, qualified) + ns.fix(schemaBody) + "</xs:schema>\n"});
    g.load.push_back("/v/s.xsd");
    return g;
}

struct Occ { int lo, hi; };  // hi -1 = unbounded
inline std::string occ_attrs(Occ o) {
    std::string s;
    if (o.lo != 1) s += " minOccurs='" + std::to_string(o.lo) + "'";
    if (o.hi == -1) s += " maxOccurs='unbounded'";
    else if (o.hi != 1) s += " maxOccurs='" + std::to_string(o.hi) + "'";
    return s;
}
inline std::string occ_str(Occ o) { return "{" + std::to_string(o.lo) + "," + (o.hi < 0 ? std::string("unb") : std::to_string(o.hi)) + "}"; }
static const Occ OCCS[7] = {{1, 1}, {0, 1}, {0, -1}, {1, -1}, {2, 3}, {0, 0}, {2, 2}};

// words over {a, b, o:x, c(undeclared)} of length <= len, one <%e> per line inside <%r>
inline std::string word_doc(const Ns& ns, int len) {
    const char* sym[4] = {"<%a>1</%a>", "<%b>2</%b>", "<o:x/>", "<%c/>"};
    std::string d = "<%r>\n";
    for (int l = 0; l <= len; l++) {
        int n = 1;
        for (int i = 0; i < l; i++) n *= 4;
        for (int w = 0; w < n; w++) {
            std::vector<int> ds(l);
            int x = w;
            for (int i = l - 1; i >= 0; i--) { ds[i] = x % 4; x /= 4; }
            std::string s;
            for (int i = 0; i < l; i++) s += sym[ds[i]];
            d += "<%e>" + s + "</%e>\n";
        }
    }
    d += "<%e>text</%e>\n</%r>\n";
    return ns.inst(d);
}

static const char* const XSD_R_AND_AB =
    "<xs:element name='r'><xs:complexType><xs:sequence><xs:element ref='%e' minOccurs='0' maxOccurs='unbounded'/></xs:sequence></xs:complexType></xs:element>\n"
    "<xs:element name='a' type='xs:int'/>\n<xs:element name='b' type='xs:string'/>\n";

// ---- particles
inline std::string leaf_xml(int kind, Occ o) {
    std::string oc = occ_attrs(o);
    switch (kind) {
    case 0: return "<xs:element ref='%a'" + oc + "/>";
    case 1: return "<xs:element name='b' type='xs:string'" + oc + "/>";
    case 2: return "<xs:any namespace='##any' processContents='lax'" + oc + "/>";
    case 3: return "<xs:any namespace='##other' processContents='strict'" + oc + "/>";
    case 4: return "<xs:any namespace='##targetNamespace' processContents='skip'" + oc + "/>";
    case 5: return "<xs:any namespace='urn:o ##local' processContents='lax'" + oc + "/>";
    case 6: return "<xs:sequence" + oc + "><xs:element ref='%a'/><xs:element ref='%b' minOccurs='0'/></xs:sequence>";
    default: return "<xs:choice" + oc + "><xs:element ref='%a'/><xs:element ref='%b'/></xs:choice>";
    }
}
static const char* const LEAF_NAME[8] = {"ref-a", "local-b", "any-any-lax", "any-other-strict", "any-tns-skip", "any-list-lax", "seq(a,b?)", "choice(a|b)"};

inline GCase particle_case(const Ns& ns, const std::string& comp, Occ go, const std::vector<std::pair<int, Occ>>& leaves) {
    std::string body = XSD_R_AND_AB;
    std::string label = comp + occ_str(go) + "(";
    std::string inner;
    for (auto& l : leaves) { inner += leaf_xml(l.first, l.second); label += std::string(LEAF_NAME[l.first]) + occ_str(l.second) + " "; }
    body += "<xs:element name='e'><xs:complexType><xs:" + comp + occ_attrs(go) + ">" + inner + "</xs:" + comp + "></xs:complexType></xs:element>\n";
    GCase g = xsd_case("xsd-particle", label + ")", ns, body);
    g.instances.push_back(word_doc(ns, 3));
    return g;
}

inline void gen_xsd_particle(std::vector<GCase>& out, bool thorough) {
    const char* comps[2] = {"sequence", "choice"};
    for (int t = 0; t < 2; t++) {
        Ns ns{t == 0};
        int nOcc = thorough ? 7 : 4;
        for (int c = 0; c < 2; c++) for (int g = 0; g < nOcc; g++) for (int k = 0; k < 8; k++) for (int o = 0; o < nOcc; o++) {
            if (!thorough && t == 1 && !(k == 0 || k == 3 || k == 5)) continue;
            if (!thorough && g >= 2 && o >= 2 && (k % 2)) continue;
            out.push_back(particle_case(ns, comps[c], OCCS[g], {{k, OCCS[o]}}));
        }
        // all groups
        for (int g = 0; g < 2; g++) for (int o1 = 0; o1 < 2; o1++) for (int o2 = 0; o2 < 2; o2++) {
            out.push_back(particle_case(ns, "all", OCCS[g], {{0, OCCS[o1]}}));
            out.push_back(particle_case(ns, "all", OCCS[g], {{0, OCCS[o1]}, {1, OCCS[o2]}}));
        }
        // two leaves (UPA-violating combinations are rejected at load time and counted as such)
        int nO2 = thorough ? 4 : 2;
        for (int c = 0; c < 2; c++) for (int g = 0; g < (thorough ? 3 : 1); g++) for (int k1 = 0; k1 < 8; k1++) for (int k2 = 0; k2 < 8; k2++) for (int o1 = 0; o1 < nO2; o1++) for (int o2 = 0; o2 < nO2; o2++) {
            if (!thorough && (t == 1 || !(k1 == 0 || k2 == 0))) continue;
            out.push_back(particle_case(ns, comps[c], OCCS[g == 0 ? 0 : g == 1 ? 2 : 4], {{k1, OCCS[o1]}, {k2, OCCS[o2]}}));
        }
    }
}

}  // namespace c16
