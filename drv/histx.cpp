// histx - C15: a parser's result is independent of its history; cached grammars are transparent; locked pools are never modified;
// adopted documents stay intact.  Stateless enumeration of ALL operation histories up to a depth on a long-lived parser object,
// the last operation being parse(d), compared with a freshly constructed parser given the same configuration.
//   --space hist   : history independence (no grammar caching involved)
//   --space cache  : grammar caching / preloading transparency and locked-pool immutability
#include "xv_xml.hpp"
#include <xercesc/framework/XMLPScanToken.hpp>
#include <xercesc/validators/common/Grammar.hpp>
#include <xercesc/framework/XMLGrammarDescription.hpp>
#include <xercesc/util/SecurityManager.hpp>
using namespace xv;

// ------------------------------------------------------------------------------------------ document pool
struct HDoc { std::string name, bytes; };
static std::vector<HDoc> DOCS;
static const std::string DTD_INT = "<!ELEMENT r (c*)><!ELEMENT c EMPTY><!ATTLIST c i ID #IMPLIED j IDREF #IMPLIED d CDATA 'dv'><!ENTITY e 'ev'>";
static void put_files() {
    g_vfs->put("/v/e.dtd", "<!ELEMENT r (#PCDATA|c)*><!ELEMENT c EMPTY><!ATTLIST c d CDATA 'extdv' i ID #IMPLIED><!ENTITY e 'extev'>");
    g_vfs->put("/v/a.xsd", "<xs:schema xmlns:xs='http://www.w3.org/2001/XMLSchema' targetNamespace='urn:a' xmlns='urn:a' elementFormDefault='qualified'><xs:element name='r'><xs:complexType><xs:sequence><xs:element name='c' type='xs:int' maxOccurs='2'/></xs:sequence><xs:attribute name='d' type='xs:string' default='adv'/></xs:complexType></xs:element></xs:schema>");
    g_vfs->put("/v/b.xsd", "<xs:schema xmlns:xs='http://www.w3.org/2001/XMLSchema' targetNamespace='urn:b' xmlns='urn:b' elementFormDefault='qualified'><xs:element name='r'><xs:complexType><xs:sequence><xs:element name='c' type='xs:token' minOccurs='0'/></xs:sequence><xs:attribute name='k' type='xs:ID'/></xs:complexType></xs:element></xs:schema>");
    g_vfs->put("/v/x.ent", "<c/>xt");
    g_vfs->put("/v/bad.dtd", "<!ELEMENT r ANY><!ATTLIST r q CDATA 'qv'><!ENTITY z 'zv'><!ELEMENT");
}
static void init_docs() {
    DOCS = {
        {"plain", "<a>x</a>"},
        {"dtd-valid", "<!DOCTYPE r [" + DTD_INT + "]><r><c i='x1'/><c i='x2' j='x1'/></r>"},
        {"dtd-dup-id", "<!DOCTYPE r [" + DTD_INT + "]><r><c i='x1'/><c i='x1'/></r>"},
        {"dtd-dangling-idref", "<!DOCTYPE r [" + DTD_INT + "]><r><c j='x1'/></r>"},
        {"malformed-start", "<"},
        {"malformed-middle", "<r><c i='x1'></r>"},
        {"malformed-end", "<r/>x"},
        {"malformed-in-internal-subset", "<!DOCTYPE old [<!ELEMENT old (#PCDATA)>\n<!ATTLIST old stale CDATA 'left-over'><!-- c --><?p d?>\n<!BOGUS>]><old/>"},
        {"malformed-in-external-subset", "<!DOCTYPE r SYSTEM 'bad.dtd' [<!ENTITY i 'iv'>]><r/>"},
        {"ext-dtd", "<!DOCTYPE r SYSTEM 'e.dtd'><r><c/>&e;</r>"},
        {"ext-dtd-2", "<!DOCTYPE r SYSTEM 'e.dtd'><r>&e;<c d='own' i='x1'/><c i='x1'/></r>"},
        {"schema-a-valid", "<r xmlns='urn:a' xmlns:xsi='http://www.w3.org/2001/XMLSchema-instance' xsi:schemaLocation='urn:a a.xsd'><c>1</c></r>"},
        {"schema-a-invalid", "<r xmlns='urn:a' xmlns:xsi='http://www.w3.org/2001/XMLSchema-instance' xsi:schemaLocation='urn:a a.xsd'><c>x</c><c>2</c><c>3</c></r>"},
        {"schema-b", "<r xmlns='urn:b' xmlns:xsi='http://www.w3.org/2001/XMLSchema-instance' xsi:schemaLocation='urn:b b.xsd' k='x1'><c> t  u </c></r>"},
        {"standalone-entity", "<?xml version='1.0' standalone='yes'?><!DOCTYPE r [<!ENTITY e 'other'><!ATTLIST r d CDATA 'rd'>]><r>&e;</r>"},
        {"xml11", "<?xml version='1.1'?><a>\xC2\x85&#1;</a>"},
        {"missing-entity", "<!DOCTYPE r [<!ENTITY x SYSTEM 'missing.ent'>]><r>&x;</r>"},
        {"ext-entity", "<!DOCTYPE r [<!ENTITY x SYSTEM 'x.ent'>]><r>&x;&x;</r>"},
        {"ns-bound", "<p:a xmlns:p='u1' xmlns='d'><p:b q='1'/><c/></p:a>"},
        {"ns-unbound", "<p:a><p:b/></p:a>"},
        {"undeclared-entity", "<r>&e;</r>"},
        {"nel-without-declaration", "<a b='\xC2\x85'>\xC2\x85\xE2\x80\xA8</a>"},
    };
}

// ------------------------------------------------------------------------------------------ long-lived parser objects
struct Box {
    Config cfg;
    std::vector<std::pair<DOMDocument*, std::string>> adopted;
    virtual ~Box() {}
    virtual ParseResult parse(const std::string& bytes, int throwAt) = 0;
    virtual ParseResult pull(const std::string& bytes, int steps) = 0;        // parseFirst + `steps` parseNext, then parseReset (abandoned)
    virtual bool loadGrammar(const std::string& path, bool schema, bool cache) = 0;
    virtual void cacheFromParse(bool) = 0;
    virtual void useCached(bool) = 0;
    virtual void resetDocPool() {}
    virtual void resetGrammarPool() = 0;
    SecurityManager sec;
    virtual void setSecLimit(unsigned n) = 0;   // installs a SecurityManager ONCE (setSecurityManager itself resets the scanner's counters)
    virtual bool adopt() { return false; }
    void releaseAdopted() { for (auto& a : adopted) a.first->release(); adopted.clear(); }
};

template <class P, bool IsDom> struct BoxT : public Box {
    P p;
    Sax1H h;
    ParseSession sess;
    int appliedScanner = IG;   // a new parser uses IGXMLScanner
    BoxT(XMLGrammarPool* pool = 0) : p(0, XMLPlatformUtils::fgMemoryManager, pool) {}
    void apply(ParseResult& r, int throwAt) {
        cfg.throwAt = throwAt;
        h.r = &r; h.cfg = &cfg; h.loc = nullptr;
        // NOTE: the scanner object is only replaced when the configured scanner name changes - re-installing it before every parse
        // (as config_common does) would hand each parse a brand new scanner and hide exactly the state this check is about
        if (appliedScanner != cfg.scanner) { p.useScanner(X16(ScnName[cfg.scanner]).p()); appliedScanner = cfg.scanner; }
        p.setValidationScheme(cfg.val == 0 ? P::Val_Never : cfg.val == 1 ? P::Val_Always : P::Val_Auto);
        p.setDoNamespaces(cfg.ns); p.setDoSchema(cfg.schema); p.setValidationSchemaFullChecking(cfg.fullcheck);
        p.setExitOnFirstFatalError(cfg.exitFirstFatal); p.setLoadExternalDTD(cfg.loadExtDTD); p.setLoadSchema(cfg.loadSchema);
        p.setErrorHandler(&h);
        set_handlers();
    }
    void set_handlers();
    ParseResult parse(const std::string& bytes, int throwAt) override {
        ParseResult r; apply(r, throwAt);
        try { MemBufInputSource src((const XMLByte*)bytes.data(), bytes.size(), X16("/v/doc.xml").p()); p.parse(src); finish(r); }
        XV_CATCH_DOCUMENTED(r)
        r.d.flush();
        return r;
    }
    ParseResult pull(const std::string& bytes, int steps) override {
        ParseResult r; apply(r, 0);
        try {
            MemBufInputSource src((const XMLByte*)bytes.data(), bytes.size(), X16("/v/doc.xml").p());
            XMLPScanToken tok;
            if (p.parseFirst(src, tok)) { int n = 0; while ((steps < 0 || n < steps) && p.parseNext(tok)) n++; if (steps >= 0) p.parseReset(tok); else finish(r); }
        }
        XV_CATCH_DOCUMENTED(r)
        r.d.flush();
        return r;
    }
    void finish(ParseResult& r);
    bool loadGrammar(const std::string& path, bool schema, bool cache) override {
        ParseResult r; apply(r, 0);
        try { return p.loadGrammar(X16(path).p(), schema ? Grammar::SchemaGrammarType : Grammar::DTDGrammarType, cache) != 0; } catch (...) { return false; }
    }
    void setSecLimit(unsigned n) override {
        if (appliedScanner != cfg.scanner) { p.useScanner(X16(ScnName[cfg.scanner]).p()); appliedScanner = cfg.scanner; }
        sec.setEntityExpansionLimit(n); p.setSecurityManager(&sec);
    }
    void cacheFromParse(bool b) override { p.cacheGrammarFromParse(b); }
    void useCached(bool b) override { p.useCachedGrammarInParse(b); }
    void resetGrammarPool() override { p.resetCachedGrammarPool(); }
    void resetDocPool() override;
    bool adopt() override;
};
template <> void BoxT<SAXParser, false>::set_handlers() { p.setDocumentHandler(&h); p.setDTDHandler(&h); }
template <> void BoxT<XercesDOMParser, true>::set_handlers() { p.setCreateEntityReferenceNodes(cfg.entRefNodes); }
template <> void BoxT<SAXParser, false>::finish(ParseResult&) {}
template <> void BoxT<XercesDOMParser, true>::finish(ParseResult& r) { DOMDocument* d = p.getDocument(); if (d) dom_dump(d, r.d, cfg.ns); }
template <> void BoxT<SAXParser, false>::resetDocPool() {}
template <> void BoxT<XercesDOMParser, true>::resetDocPool() { p.resetDocumentPool(); }
template <> bool BoxT<SAXParser, false>::adopt() { return false; }
template <> bool BoxT<XercesDOMParser, true>::adopt() {
    DOMDocument* d = p.getDocument();
    if (!d) return false;
    Dump dd; dom_dump(d, dd, cfg.ns); dd.flush();
    DOMDocument* a = p.adoptDocument();
    for (auto& x : adopted) if (x.first == a) return true;   // adoptDocument() twice hands out the same document again: one owner, one release
    adopted.push_back({a, dd.joined()});
    return true;
}

struct BoxSax2 : public Box {
    SAX2XMLReaderImpl* p;
    Sax2H h;
    int appliedScanner = IG;
    BoxSax2(XMLGrammarPool* pool = 0) { p = new SAX2XMLReaderImpl(XMLPlatformUtils::fgMemoryManager, pool); }
    ~BoxSax2() { delete p; }
    void apply(ParseResult& r, int throwAt) {
        cfg.throwAt = throwAt; h.r = &r; h.cfg = &cfg; h.nsmode = cfg.ns; h.inDTD = false; h.loc = nullptr;
        if (appliedScanner != cfg.scanner) { p->setProperty(XMLUni::fgXercesScannerName, (void*)X16(ScnName[cfg.scanner]).p()); appliedScanner = cfg.scanner; }
        p->setFeature(XMLUni::fgSAX2CoreNameSpaces, cfg.ns);
        p->setFeature(XMLUni::fgSAX2CoreNameSpacePrefixes, true);
        p->setFeature(XMLUni::fgSAX2CoreValidation, cfg.val != 0);
        p->setFeature(XMLUni::fgXercesDynamic, cfg.val == 2);
        p->setFeature(XMLUni::fgXercesSchema, cfg.schema);
        p->setFeature(XMLUni::fgXercesSchemaFullChecking, cfg.fullcheck);
        p->setFeature(XMLUni::fgXercesContinueAfterFatalError, !cfg.exitFirstFatal);
        p->setContentHandler(&h); p->setDTDHandler(&h); p->setErrorHandler(&h); p->setLexicalHandler(&h); p->setDeclarationHandler(&h);
    }
    ParseResult parse(const std::string& bytes, int throwAt) override {
        ParseResult r; apply(r, throwAt);
        try { MemBufInputSource src((const XMLByte*)bytes.data(), bytes.size(), X16("/v/doc.xml").p()); p->parse(src); }
        XV_CATCH_DOCUMENTED(r)
        r.d.flush();
        return r;
    }
    ParseResult pull(const std::string& bytes, int steps) override {
        ParseResult r; apply(r, 0);
        try {
            MemBufInputSource src((const XMLByte*)bytes.data(), bytes.size(), X16("/v/doc.xml").p());
            XMLPScanToken tok;
            if (p->parseFirst(src, tok)) { int n = 0; while ((steps < 0 || n < steps) && p->parseNext(tok)) n++; if (steps >= 0) p->parseReset(tok); }
        }
        XV_CATCH_DOCUMENTED(r)
        r.d.flush();
        return r;
    }
    bool loadGrammar(const std::string& path, bool schema, bool cache) override {
        ParseResult r; apply(r, 0);
        try { return p->loadGrammar(X16(path).p(), schema ? Grammar::SchemaGrammarType : Grammar::DTDGrammarType, cache) != 0; } catch (...) { return false; }
    }
    void setSecLimit(unsigned n) override {
        if (appliedScanner != cfg.scanner) { p->setProperty(XMLUni::fgXercesScannerName, (void*)X16(ScnName[cfg.scanner]).p()); appliedScanner = cfg.scanner; }
        sec.setEntityExpansionLimit(n); p->setProperty(XMLUni::fgXercesSecurityManager, &sec);
    }
    void cacheFromParse(bool b) override { p->setFeature(XMLUni::fgXercesCacheGrammarFromParse, b); }
    void useCached(bool b) override { p->setFeature(XMLUni::fgXercesUseCachedGrammarInParse, b); }
    void resetGrammarPool() override { p->resetCachedGrammarPool(); }
};

static Box* make_box(int api, XMLGrammarPool* pool = 0) {
    if (api == 0) return new BoxT<SAXParser, false>(pool);
    if (api == 1) return new BoxSax2(pool);
    return new BoxT<XercesDOMParser, true>(pool);
}
static const char* BoxName[] = {"SAXParser", "SAX2XMLReader", "XercesDOMParser"};

static std::string outcome(const ParseResult& r) {
    std::string o = join(r.d.lines);
    o += "#errors\n";
    for (auto& e : r.errors) { o += e; o += '\n'; }
    o += "#exc " + r.exc + "\n";
    return o;
}

// ------------------------------------------------------------------------------------------ operations
struct HOp { int kind; int a, b; std::string name; };  // kinds: 0 parse(d) 1 pull(d,steps) 2 throwing parse(d,k) 3 toggle feature a 4 resetDocPool 5 adopt 6 loadGrammar(no cache)
static std::vector<HOp> OPS;
static void init_ops(int ndocsForOps) {
    static const int ORDER[] = {2, 7, 5, 9, 12, 15, 1, 14, 11, 16, 18, 0, 3, 4, 6, 8, 10, 13, 17, 19, 20, 21};  // most state-polluting documents first
    for (int k = 0; k < (int)DOCS.size() && k < ndocsForOps; k++) {
        int d = ORDER[k];
        OPS.push_back({0, d, 0, "parse(" + DOCS[d].name + ")"});
        OPS.push_back({1, d, 0, "parseFirst(" + DOCS[d].name + ");parseReset"});
        OPS.push_back({1, d, 2, "parseFirst(" + DOCS[d].name + ");parseNext x2;parseReset"});
        OPS.push_back({2, d, 1, "parse(" + DOCS[d].name + ") throwing at callback 1"});
        OPS.push_back({2, d, 3, "parse(" + DOCS[d].name + ") throwing at callback 3"});
    }
    OPS.push_back({3, 0, 0, "toggle namespaces"}); OPS.push_back({3, 1, 0, "cycle validation scheme"}); OPS.push_back({3, 2, 0, "toggle schema"});
    OPS.push_back({3, 3, 0, "cycle scanner"}); OPS.push_back({3, 4, 0, "toggle exit-on-first-fatal"}); OPS.push_back({3, 5, 0, "toggle entity-reference nodes"});
    OPS.push_back({4, 0, 0, "resetDocumentPool"}); OPS.push_back({5, 0, 0, "adoptDocument"});
    OPS.push_back({6, 0, 0, "loadGrammar(e.dtd, no cache)"}); OPS.push_back({6, 1, 0, "loadGrammar(a.xsd, no cache)"});
}
static void apply_op(Box* b, const HOp& op, Ctx& c) {
    switch (op.kind) {
    case 0: b->parse(DOCS[op.a].bytes, 0); break;
    case 1: b->pull(DOCS[op.a].bytes, op.b); break;
    case 2: { ParseResult r = b->parse(DOCS[op.a].bytes, op.b); if (r.exc == "HarnessThrow") c.count("handler_exceptions_thrown"); break; }
    case 3:
        if (op.a == 0) b->cfg.ns = !b->cfg.ns; else if (op.a == 1) b->cfg.val = (b->cfg.val + 1) % 3; else if (op.a == 2) b->cfg.schema = !b->cfg.schema;
        else if (op.a == 3) b->cfg.scanner = (b->cfg.scanner + 1) % 4; else if (op.a == 4) b->cfg.exitFirstFatal = !b->cfg.exitFirstFatal; else b->cfg.entRefNodes = !b->cfg.entRefNodes;
        break;
    case 4: b->resetDocPool(); break;
    case 5: if (b->adopt()) c.count("documents_adopted"); break;
    case 6: b->loadGrammar(op.a == 0 ? "/v/e.dtd" : "/v/a.xsd", op.a == 1, false); break;
    }
}

static int g_depth = 2;
static std::vector<Config> BASES;   // initial configurations
static void init_bases() {
    Config a; a.ns = false; a.val = 0; BASES.push_back(a);
    Config b; b.ns = true; b.val = 2; b.schema = true; BASES.push_back(b);       // auto validation + schema
    Config c; c.ns = true; c.val = 1; c.schema = true; c.scanner = IG; BASES.push_back(c);
}
struct HCase { int api, base, fin; std::vector<int> ops; };
static HCase hist_case(uint64_t idx) {
    HCase h; uint64_t nw = words_upto(OPS.size(), g_depth);
    h.ops = word_at(idx % nw, OPS.size(), g_depth); idx /= nw;
    h.fin = (int)(idx % DOCS.size()); idx /= DOCS.size();
    h.base = (int)(idx % BASES.size()); idx /= BASES.size();
    h.api = (int)idx;
    return h;
}
static std::string hist_str(const HCase& h) {
    std::string s = std::string(BoxName[h.api]) + " base" + std::to_string(h.base) + ": ";
    for (int o : h.ops) s += OPS[o].name + "; ";
    return s + "parse(" + DOCS[h.fin].name + ")";
}
static void run_hist(uint64_t idx, Ctx& c) {
    HCase h = hist_case(idx);
    g_vfs->clear(); put_files();
    std::unique_ptr<Box> used(make_box(h.api));
    used->cfg = BASES[h.base];
    for (int o : h.ops) apply_op(used.get(), OPS[o], c);
    ParseResult ru = used->parse(DOCS[h.fin].bytes, 0);
    std::unique_ptr<Box> fresh(make_box(h.api));
    fresh->cfg = used->cfg; fresh->cfg.throwAt = 0;
    ParseResult rf = fresh->parse(DOCS[h.fin].bytes, 0);
    c.count("parses", 2 + h.ops.size());
    std::string a = outcome(rf), b = outcome(ru);
    if (a != b) {
        size_t i = 0; while (i < a.size() && i < b.size() && a[i] == b[i]) i++;
        size_t ls = a.rfind('\n', i); ls = ls == std::string::npos ? 0 : ls + 1;
        c.violation("history-dependent-result", "\"history\":" + jstr(hist_str(h)) + ",\"config\":" + jstr(used->cfg.str()) + ",\"expected\":" + jstr(a.substr(ls, 200)) + ",\"observed\":" + jstr(b.substr(ls, 200)));
        if (c.verbose) printf("--- fresh:\n%s--- used:\n%s", a.c_str(), b.c_str());
    }
    // adopted documents must be intact
    for (auto& ad : used->adopted) {
        Dump dd; dom_dump(ad.first, dd, used->cfg.ns); dd.flush();
        c.count("adopted_documents_rechecked");
        // (namespace mode of the dump may differ from adoption time: re-dump with both and accept equality with the recorded one)
        Dump d2; dom_dump(ad.first, d2, !used->cfg.ns); d2.flush();
        if (dd.joined() != ad.second && d2.joined() != ad.second)
            c.violation("adopted-document-changed", "\"history\":" + jstr(hist_str(h)) + ",\"expected\":" + jstr(ad.second.substr(0, 300)) + ",\"observed\":" + jstr(dd.joined().substr(0, 300)));
    }
    used->releaseAdopted();
    c.distinct.insert(fnv(used->cfg.str() + "|" + std::to_string(h.api)));
    if (rf.ok()) c.count("final_accepted"); else c.count("final_rejected");
    if (rf.errs) c.count("final_with_validity_errors");
    if (idx % 9973 == 0) c.sample("{\"history\":" + jstr(hist_str(h)) + "}");
}

// ------------------------------------------------------------------------------------------ cache transparency
// grammar g, instance d (refers to g by system id / schemaLocation), a way to get g into the parser's cache, optional disturbance
static const std::set<std::string> DROP_DECLS = {"DENT", "DT", "DTE", "ED", "AD", "IE", "XE", "NO", "UE", "DC", "L", "NS+", "NS-", "IW"};
struct CCase { int api, way, disturb, doc; };
static const int CACHE_DOCS[] = {9, 10, 11, 12, 13};  // ext-dtd, ext-dtd-2, schema-a-valid, schema-a-invalid, schema-b
static const char* WAYS[] = {"loadGrammar(cache)+useCached", "cacheFromParse on sibling doc+useCached", "loadGrammar(cache) without useCached", "load all three grammars+useCached"};
static const char* DISTURB[] = {"none", "failed parse in between", "abandoned progressive parse in between", "resetCachedGrammarPool then reload"};
static CCase cache_case(uint64_t idx) { CCase c; c.doc = (int)(idx % 5); idx /= 5; c.disturb = (int)(idx % 4); idx /= 4; c.way = (int)(idx % 4); idx /= 4; c.api = (int)idx; return c; }
static std::string cache_view(const ParseResult& r) {
    std::vector<std::string> v = project(r.d.lines, DROP_DECLS, false);
    std::string o = join(v) + "#errors\n";
    for (auto& e : r.errors) { o += e; o += '\n'; }
    return o + "#exc " + r.exc + "\n";
}
static void run_cache(uint64_t idx, Ctx& c) {
    CCase cc = cache_case(idx);
    g_vfs->clear(); put_files();
    int d = CACHE_DOCS[cc.doc];
    bool isSchema = d >= 11;
    std::string gpath = d <= 10 ? "/v/e.dtd" : (d <= 12 ? "/v/a.xsd" : "/v/b.xsd");
    Config cfg; cfg.ns = true; cfg.schema = true; cfg.val = 1; cfg.scanner = IG;
    std::unique_ptr<Box> fresh(make_box(cc.api)); fresh->cfg = cfg;
    ParseResult rf = fresh->parse(DOCS[d].bytes, 0);
    std::unique_ptr<Box> b(make_box(cc.api)); b->cfg = cfg;
    auto load = [&]() {
        if (cc.way == 0 || cc.way == 2) b->loadGrammar(gpath, isSchema, true);
        else if (cc.way == 1) { b->cacheFromParse(true); int sib = d == 9 ? 10 : d == 10 ? 9 : d == 11 ? 12 : d == 12 ? 11 : 13; b->parse(DOCS[sib].bytes, 0); b->cacheFromParse(false); }
        else { b->loadGrammar("/v/e.dtd", false, true); b->loadGrammar("/v/a.xsd", true, true); b->loadGrammar("/v/b.xsd", true, true); }
    };
    load();
    if (cc.way != 2) b->useCached(true);
    if (cc.disturb == 1) b->parse(DOCS[5].bytes, 0);   // malformed-middle
    if (cc.disturb == 2) b->pull(DOCS[d].bytes, 1);
    if (cc.disturb == 3) { b->resetGrammarPool(); load(); }
    // the cached grammar must be used: remove the grammar file so that a re-fetch would fail visibly (schema) / change the result
    ParseResult ru = b->parse(DOCS[d].bytes, 0);
    c.count("parses", 3);
    std::string x = cache_view(rf), y = cache_view(ru);
    if (x != y) {
        size_t i = 0; while (i < x.size() && i < y.size() && x[i] == y[i]) i++;
        size_t ls = x.rfind('\n', i); ls = ls == std::string::npos ? 0 : ls + 1;
        c.violation("cached-grammar-not-transparent", "\"api\":" + jstr(BoxName[cc.api]) + ",\"doc\":" + jstr(DOCS[d].name) + ",\"way\":" + jstr(WAYS[cc.way]) + ",\"disturbance\":" + jstr(DISTURB[cc.disturb]) +
                    ",\"expected\":" + jstr(x.substr(ls, 200)) + ",\"observed\":" + jstr(y.substr(ls, 200)));
        if (c.verbose) printf("--- inline:\n%s--- cached:\n%s", x.c_str(), y.c_str());
    }
    if (rf.errs) c.count("instances_invalid"); else c.count("instances_valid");
    // locked pool immutability: a shared pool with one grammar, locked; parses that would cache more must leave it unchanged
    {
        XMLGrammarPoolImpl pool(XMLPlatformUtils::fgMemoryManager);
        {
            std::unique_ptr<Box> l(make_box(cc.api, &pool)); l->cfg = cfg;
            l->loadGrammar("/v/a.xsd", true, true);
        }
        pool.lockPool();
        auto keys = [&]() { std::string k; RefHashTableOfEnumerator<Grammar> e = pool.getGrammarEnumerator(); std::vector<std::string> v; while (e.hasMoreElements()) { Grammar& g = e.nextElement(); v.push_back(esc16(g.getGrammarDescription()->getGrammarKey())); } std::sort(v.begin(), v.end()); for (auto& s : v) k += s + ";"; return k; };
        std::string before = keys();
        {
            std::unique_ptr<Box> u(make_box(cc.api, &pool)); u->cfg = cfg;
            u->cacheFromParse(true);
            u->parse(DOCS[13].bytes, 0);   // would cache urn:b
            u->parse(DOCS[9].bytes, 0);    // would cache the DTD
            u->loadGrammar("/v/b.xsd", true, true);
            u->useCached(true);
            ParseResult r2 = u->parse(DOCS[11].bytes, 0);
            if (cache_view(r2) != cache_view(fresh->parse(DOCS[11].bytes, 0))) c.violation("locked-pool-parse-differs", "\"api\":" + jstr(BoxName[cc.api]));
        }
        std::string after = keys();
        c.count("locked_pool_checks");
        if (before != after) c.violation("locked-pool-modified", "\"api\":" + jstr(BoxName[cc.api]) + ",\"expected\":" + jstr(before) + ",\"observed\":" + jstr(after));
        pool.unlockPool();
    }
    if (idx % 17 == 0) c.sample("{\"api\":" + jstr(BoxName[cc.api]) + ",\"doc\":" + jstr(DOCS[d].name) + ",\"way\":" + jstr(WAYS[cc.way]) + ",\"disturbance\":" + jstr(DISTURB[cc.disturb]) + "}");
}

// ------------------------------------------------------------------------------------------ table growth histories
// Documents that push the per-parser tables past their initial capacity (more than 64 distinct declared attributes specified - the
// scanner's attribute-bookkeeping pool has rows of 64; 40 nested elements - element stack of 32; 40 namespace declarations on one element;
// 120 attributes on one element - hashed duplicate check above 100; 70 ID values), mixed with small documents over the SAME grammar.  Every
// sequence of <= depth parses on one parser, with and without grammar caching, followed by a final parse of every document, must give what a
// fresh parser gives for that document.
static std::vector<HDoc> GDOCS;
static void init_growth_docs() {
    std::string atts, all;
    for (int i = 1; i <= 70; i++) {
        atts += " a" + std::to_string(i) + (i == 20 ? " CDATA 'd20'" : i == 40 ? " CDATA #REQUIRED" : i == 50 ? " ID #IMPLIED" : " CDATA #IMPLIED");
        all += " a" + std::to_string(i) + "='v" + std::to_string(i) + "'";
    }
    g_vfs->put("/v/w.dtd", "<!ELEMENT r (e|r)*><!ELEMENT e EMPTY><!ATTLIST e" + atts + "><!ATTLIST r k ID #IMPLIED>");
    std::string deep, deepEnd; for (int i = 0; i < 40; i++) { deep += "<r>"; deepEnd += "</r>"; }
    std::string nsdecl; for (int i = 0; i < 40; i++) nsdecl += " xmlns:p" + std::to_string(i) + "='urn:n" + std::to_string(i) + "'";
    std::string many; for (int i = 0; i < 120; i++) many += " b" + std::to_string(i) + "='" + std::to_string(i) + "'";
    std::string ids; for (int i = 0; i < 70; i++) ids += "<r k='i" + std::to_string(i) + "'/>";
    const std::string DT = "<!DOCTYPE r SYSTEM 'w.dtd'>";
    GDOCS = {
        {"wide-all-70-attributes", DT + "<r><r/><r/><e" + all + "/></r>"},
        {"wide-one-element-valid", DT + "<r><e a10='z' a40='y'/></r>"},
        {"wide-one-element-missing-required", DT + "<r><e a1='q'/></r>"},
        {"wide-first-element", DT + "<r><e a7='s' a40='t' a64='u' a65='w' a70='x'/></r>"},
        {"deep-40", DT + deep + "<e a40='m'/>" + deepEnd},
        {"namespaces-40", "<r" + nsdecl + "><p3:x p39:y='1' xmlns:p3='urn:other'/><p0:z/></r>"},
        {"attributes-120", "<r" + many + "><c b5='x' b119='y'/></r>"},
        {"attributes-110-other-root", "<q" + many.substr(0, many.find(" b110=")) + "/>"},
        {"ids-70", DT + "<r>" + ids + "<r k='i3'/></r>"},
        {"small", "<r><e/></r>"},
    };
}
static int g_gdepth = 2;
struct GCase { int api, cache, fin; std::vector<int> ops; };
static GCase growth_case(uint64_t idx) {
    GCase g; uint64_t nw = words_upto(GDOCS.size(), g_gdepth);
    g.ops = word_at(idx % nw, GDOCS.size(), g_gdepth); idx /= nw;
    g.fin = (int)(idx % GDOCS.size()); idx /= GDOCS.size();
    g.cache = (int)(idx % 3); idx /= 3;
    g.api = (int)idx;
    return g;
}
static const char* GCACHE[] = {"no caching", "cacheGrammarFromParse+useCachedGrammarInParse", "loadGrammar(w.dtd, cache)+useCachedGrammarInParse"};
static std::string growth_str(const GCase& g) {
    std::string s = std::string(BoxName[g.api]) + " [" + GCACHE[g.cache] + "]: ";
    for (int o : g.ops) s += "parse(" + GDOCS[o].name + "); ";
    return s + "parse(" + GDOCS[g.fin].name + ")";
}
static void run_growth(uint64_t idx, Ctx& c) {
    GCase g = growth_case(idx);
    g_vfs->clear(); put_files(); init_growth_docs();
    Config cfg; cfg.ns = true; cfg.val = 2; cfg.schema = false; cfg.scanner = IG;
    std::unique_ptr<Box> used(make_box(g.api)); used->cfg = cfg;
    if (g.cache == 1) { used->cacheFromParse(true); used->useCached(true); }
    if (g.cache == 2) { used->loadGrammar("/v/w.dtd", false, true); used->useCached(true); }
    for (int o : g.ops) used->parse(GDOCS[o].bytes, 0);
    ParseResult ru = used->parse(GDOCS[g.fin].bytes, 0);
    std::unique_ptr<Box> fresh(make_box(g.api)); fresh->cfg = cfg;
    ParseResult rf = fresh->parse(GDOCS[g.fin].bytes, 0);
    c.count("parses", 2 + g.ops.size());
    std::string x = cache_view(rf), y = cache_view(ru);
    if (x != y) {
        size_t i = 0; while (i < x.size() && i < y.size() && x[i] == y[i]) i++;
        size_t ls = x.rfind('\n', i); ls = ls == std::string::npos ? 0 : ls + 1;
        c.violation("history-dependent-result", "\"history\":" + jstr(growth_str(g)) + ",\"expected\":" + jstr(x.substr(ls, 200)) + ",\"observed\":" + jstr(y.substr(ls, 200)));
    }
    if (rf.errs || !rf.ok()) c.count("final_with_errors"); else c.count("final_clean");
    c.count("growth_histories");
    if (idx % 997 == 0) c.sample("{\"history\":" + jstr(growth_str(g)) + "}");
}

// ------------------------------------------------------------------------------------------ schema-validator reuse histories
// The same idea for the state an XML Schema validating scanner keeps between and during parses: attribute bookkeeping of wide complex types,
// identity-constraint value stores, the xsi:nil / xsi:type state, substitution groups, lax wildcards into a new namespace, ID tables, the element
// stack, and parses abandoned in the middle of each of those.  Every sequence of <= depth parses on one parser (IGXMLScanner or SGXMLScanner),
// with and without grammar caching, followed by a final parse of every document, must give what a fresh parser gives for that document.
static std::vector<HDoc> SDOCS;
static void init_schema_docs() {
    std::string atts, all;
    for (int i = 1; i <= 70; i++) {
        atts += "<xs:attribute name='a" + std::to_string(i) + "' type='" + (i == 50 ? "xs:ID" : i == 30 ? "xs:int" : "xs:string") + "'" + (i == 20 ? " default='d20'" : i == 40 ? " use='required'" : "") + "/>";
        all += " a" + std::to_string(i) + "='" + (i == 30 ? "30" : "v" + std::to_string(i)) + "'";
    }
    g_vfs->put("/v/s.xsd",
        "<xs:schema xmlns:xs='http://www.w3.org/2001/XMLSchema'>"
        "<xs:element name='r' type='R'>"
          "<xs:unique name='U'><xs:selector xpath='u'/><xs:field xpath='@id'/></xs:unique>"
          "<xs:key name='K'><xs:selector xpath='k'/><xs:field xpath='@id'/></xs:key>"
          "<xs:keyref name='F' refer='K'><xs:selector xpath='f'/><xs:field xpath='@ref'/></xs:keyref>"
        "</xs:element>"
        "<xs:complexType name='R'><xs:choice minOccurs='0' maxOccurs='unbounded'>"
          "<xs:element ref='r'/><xs:element name='e' type='E'/><xs:element name='u' type='I'/><xs:element name='k' type='I'/>"
          "<xs:element name='f'><xs:complexType><xs:attribute name='ref' type='xs:int'/></xs:complexType></xs:element>"
          "<xs:element name='n' type='xs:int' nillable='true'/><xs:element name='t' type='B'/><xs:element ref='h'/>"
          "<xs:element name='w'><xs:complexType><xs:sequence><xs:any namespace='##other' processContents='lax' minOccurs='0' maxOccurs='unbounded'/></xs:sequence></xs:complexType></xs:element>"
          "<xs:element name='d' type='xs:string' default='dflt'/><xs:element name='x' type='xs:ID'/><xs:element name='l' type='L'/>"
        "</xs:choice><xs:attribute name='id' type='xs:ID'/></xs:complexType>"
        "<xs:complexType name='E'>" + atts + "</xs:complexType>"
        "<xs:complexType name='I'><xs:attribute name='id' type='xs:int'/></xs:complexType>"
        "<xs:complexType name='B'><xs:attribute name='x' type='xs:string'/></xs:complexType>"
        "<xs:complexType name='D'><xs:complexContent><xs:extension base='B'><xs:sequence><xs:element name='c' type='xs:int' minOccurs='0'/></xs:sequence><xs:attribute name='y' type='xs:string' default='yd'/></xs:extension></xs:complexContent></xs:complexType>"
        "<xs:simpleType name='L'><xs:list itemType='xs:int'/></xs:simpleType>"
        "<xs:element name='h' type='xs:string'/><xs:element name='hs' type='xs:token' substitutionGroup='h'/>"
        "</xs:schema>");
    g_vfs->put("/v/o.xsd", "<xs:schema xmlns:xs='http://www.w3.org/2001/XMLSchema' targetNamespace='urn:o'><xs:element name='z' type='xs:int'/></xs:schema>");
    const std::string XSI = " xmlns:xsi='http://www.w3.org/2001/XMLSchema-instance'";
    const std::string R0 = "<r" + XSI + " xsi:noNamespaceSchemaLocation='s.xsd'";
    std::string deep, deepEnd; for (int i = 0; i < 40; i++) { deep += "<r>"; deepEnd += "</r>"; }
    std::string ids; for (int i = 0; i < 70; i++) ids += "<x>i" + std::to_string(i) + "</x>";
    std::string keys; for (int i = 0; i < 90; i++) keys += "<k id='" + std::to_string(i) + "'/>";
    SDOCS = {
        {"wide-all-70-attributes", R0 + "><r/><r/><e" + all + "/></r>"},
        {"wide-valid", R0 + "><e a10='z' a40='y'/></r>"},
        {"wide-missing-required", R0 + "><e a1='q'/></r>"},
        {"wide-bad-int", R0 + "><e a40='t' a30='x' a64='u' a65='w' a70='x'/></r>"},
        {"keys-valid", R0 + "><k id='1'/><k id='2'/><u id='1'/><f ref='2'/><f ref='01'/></r>"},
        {"keys-duplicate", R0 + "><k id='1'/><k id='01'/><u id='3'/><u id='3'/></r>"},
        {"keyref-dangling", R0 + "><k id='2'/><f ref='1'/></r>"},
        {"keys-90-nested", R0 + "><r>" + keys + "<f ref='89'/></r><f ref='5'/></r>"},
        {"nil-valid", R0 + "><n xsi:nil='true'/><n>5</n></r>"},
        {"nil-with-content", R0 + "><n xsi:nil='true'>5</n><n/></r>"},
        {"xsi-type-derived", R0 + "><t xsi:type='D' x='1'><c>1</c></t><t x='1'/></r>"},
        {"xsi-type-base-rejects-derived-content", R0 + "><t y='2'><c>1</c></t></r>"},
        {"substitution", R0 + "><hs> a  b </hs><h> a  b </h></r>"},
        {"wildcard-lax-unknown", R0 + "><w><o:z xmlns:o='urn:q' q='1'>x</o:z></w></r>"},
        {"wildcard-lax-known", R0 + " xsi:schemaLocation='urn:o o.xsd'><w><o:z xmlns:o='urn:o'>x</o:z></w></r>"},
        {"default-and-list", R0 + "><d/><d>own</d><l>1 2  3</l><l>1 x</l></r>"},
        {"ids-70-duplicate", R0 + " id='i3'>" + ids + "</r>"},
        {"deep-40", R0 + ">" + deep + "<e a40='m'/>" + deepEnd + "</r>"},
        {"undeclared-element", R0 + "><k id='1'/><bogus/><k id='1'/></r>"},
        {"abandoned-in-nil", R0 + "><n xsi:nil='true'>"},
        {"abandoned-in-key-scope", R0 + "><r><k id='1'/><k id='2'/><f ref='2'/><"},
        {"abandoned-in-wide-start-tag", R0 + "><e" + all.substr(0, all.find(" a66=")) + " <"},
        {"small", R0 + "/>"},
    };
}
static int g_sdepth = 2;
static bool g_srotate = false;             // the API is not a dimension but rotates with the history index
static std::vector<int> g_scaches = {0, 1, 2};
struct SCase { int api, cache, scanner, fin; std::vector<int> ops; };
static SCase schema_case(uint64_t idx) {
    SCase g; uint64_t nw = words_upto(SDOCS.size(), g_sdepth), idx0 = idx;
    g.ops = word_at(idx % nw, SDOCS.size(), g_sdepth); idx /= nw;
    g.fin = (int)(idx % SDOCS.size()); idx /= SDOCS.size();
    g.cache = g_scaches[idx % g_scaches.size()]; idx /= g_scaches.size();
    g.scanner = (int)(idx % 2); idx /= 2;
    g.api = g_srotate ? (int)((idx0 + idx0 / nw) % 3) : (int)idx;
    return g;
}
static const char* SCACHE[] = {"no caching", "cacheGrammarFromParse+useCachedGrammarInParse", "loadGrammar(s.xsd, cache)+useCachedGrammarInParse"};
static std::string schema_str(const SCase& g) {
    std::string s = std::string(BoxName[g.api]) + "/" + (g.scanner ? "SGXMLScanner" : "IGXMLScanner") + " [" + SCACHE[g.cache] + "]: ";
    for (int o : g.ops) s += "parse(" + SDOCS[o].name + "); ";
    return s + "parse(" + SDOCS[g.fin].name + ")";
}
static void run_schema(uint64_t idx, Ctx& c) {
    SCase g = schema_case(idx);
    g_vfs->clear(); put_files(); init_schema_docs();
    Config cfg; cfg.ns = true; cfg.val = 1; cfg.schema = true; cfg.scanner = g.scanner ? SG : IG;
    std::unique_ptr<Box> used(make_box(g.api)); used->cfg = cfg;
    if (g.cache == 1) { used->cacheFromParse(true); used->useCached(true); }
    if (g.cache == 2) { used->loadGrammar("/v/s.xsd", true, true); used->useCached(true); }
    for (int o : g.ops) used->parse(SDOCS[o].bytes, 0);
    ParseResult ru = used->parse(SDOCS[g.fin].bytes, 0);
    std::unique_ptr<Box> fresh(make_box(g.api)); fresh->cfg = cfg;
    ParseResult rf = fresh->parse(SDOCS[g.fin].bytes, 0);
    c.count("parses", 2 + g.ops.size());
    std::string x = cache_view(rf), y = cache_view(ru);
    if (x != y) {
        size_t i = 0; while (i < x.size() && i < y.size() && x[i] == y[i]) i++;
        size_t ls = x.rfind('\n', i); ls = ls == std::string::npos ? 0 : ls + 1;
        c.violation("history-dependent-result", "\"history\":" + jstr(schema_str(g)) + ",\"expected\":" + jstr(x.substr(ls, 200)) + ",\"observed\":" + jstr(y.substr(ls, 200)));
    }
    if (rf.errs || !rf.ok()) c.count("final_with_errors"); else c.count("final_clean");
    c.count("schema_reuse_histories");
    if (idx % 997 == 0) c.sample("{\"history\":" + jstr(schema_str(g)) + "}");
}

// ------------------------------------------------------------------------------------------ grammar-cache switches
// Histories over the switches that decide WHICH grammar a parse uses: cacheGrammarFromParse on/off, useCachedGrammarInParse on/off,
// resetCachedGrammarPool, loadGrammar(toCache), and parses of two documents that bind ONE namespace to two DIFFERENT schema documents.
// Reference model (documented lookup order, GrammarResolver::getGrammar): with useCachedGrammarInParse a grammar of the namespace that is in the
// parser's pool is used instead of the one the document names; without it the pool is not consulted at all.  cacheGrammarFromParse(true) implies
// useCachedGrammarInParse(true), and useCachedGrammarInParse(false) is ignored while cacheGrammarFromParse is on (parser classes).  The expected
// outcome of the final parse is produced by a fresh parser that is given the grammar in force (preloaded) or nothing.
static const char* TOG_OPS[] = {"cacheGrammarFromParse(true)", "cacheGrammarFromParse(false)", "useCachedGrammarInParse(true)", "useCachedGrammarInParse(false)",
                                "resetCachedGrammarPool", "loadGrammar(s1.xsd, toCache)", "parse(D1 -> s1.xsd)", "parse(D2 -> s2.xsd)", "parse(plain)"};
static const int NTOG = 9;
static int g_tdepth = 3;
static std::string TOG_DOC[3];
static void tog_files() {
    g_vfs->put("/v/s1.xsd", "<xs:schema xmlns:xs='http://www.w3.org/2001/XMLSchema' targetNamespace='urn:demo' xmlns='urn:demo' elementFormDefault='qualified'><xs:element name='r'><xs:complexType><xs:sequence><xs:element name='qty' type='xs:int'/></xs:sequence><xs:attribute name='unit' type='xs:string' default='box'/></xs:complexType></xs:element></xs:schema>");
    g_vfs->put("/v/s2.xsd", "<xs:schema xmlns:xs='http://www.w3.org/2001/XMLSchema' targetNamespace='urn:demo' xmlns='urn:demo' elementFormDefault='qualified'><xs:element name='r'><xs:complexType><xs:sequence><xs:element name='qty' type='xs:string'/><xs:element name='note' type='xs:token' minOccurs='0'/></xs:sequence><xs:attribute name='unit' type='xs:string' default='crate'/></xs:complexType></xs:element></xs:schema>");
    TOG_DOC[0] = "<r xmlns='urn:demo' xmlns:xsi='http://www.w3.org/2001/XMLSchema-instance' xsi:schemaLocation='urn:demo s1.xsd'><qty>3</qty></r>";
    TOG_DOC[1] = "<r xmlns='urn:demo' xmlns:xsi='http://www.w3.org/2001/XMLSchema-instance' xsi:schemaLocation='urn:demo s2.xsd'><qty>three</qty><note> n  m </note></r>";
    TOG_DOC[2] = "<plain a='1'>t</plain>";
}
struct TCase { int api, scanner, fin; std::vector<int> ops; };
static TCase tog_case(uint64_t idx) {
    TCase t; uint64_t nw = words_upto(NTOG, g_tdepth);
    t.ops = word_at(idx % nw, NTOG, g_tdepth); idx /= nw;
    t.fin = (int)(idx % 2); idx /= 2;
    t.scanner = (int)(idx % 2); idx /= 2;
    t.api = (int)idx;
    return t;
}
static std::string tog_str(const TCase& t) {
    std::string s = std::string(BoxName[t.api]) + "/" + (t.scanner ? "SGXMLScanner" : "IGXMLScanner") + ": ";
    for (int o : t.ops) s += std::string(TOG_OPS[o]) + "; ";
    return s + (t.fin ? "parse(D2 -> s2.xsd)" : "parse(D1 -> s1.xsd)");
}
static void run_toggle(uint64_t idx, Ctx& c) {
    TCase t = tog_case(idx);
    g_vfs->clear(); put_files(); tog_files();
    Config cfg; cfg.ns = true; cfg.val = 1; cfg.schema = true; cfg.scanner = t.scanner ? SG : IG;
    std::unique_ptr<Box> used(make_box(t.api)); used->cfg = cfg;
    bool cacheFP = false, useC = false; int pool = 0;   // model: 0 nothing cached for urn:demo, 1 s1, 2 s2
    auto model_parse = [&](int k) { int eff = (useC && pool) ? pool : k + 1; if (cacheFP && !pool && k < 2) pool = k + 1; return eff; };
    for (int o : t.ops) {
        switch (o) {
        case 0: used->cacheFromParse(true); cacheFP = true; useC = true; break;
        case 1: used->cacheFromParse(false); cacheFP = false; break;
        case 2: used->useCached(true); useC = true; break;
        case 3: used->useCached(false); if (!cacheFP) useC = false; break;
        case 4: used->resetGrammarPool(); pool = 0; break;
        case 5: used->loadGrammar("/v/s1.xsd", true, true); if (!pool) pool = 1; break;
        case 6: used->parse(TOG_DOC[0], 0); model_parse(0); break;
        case 7: used->parse(TOG_DOC[1], 0); model_parse(1); break;
        case 8: used->parse(TOG_DOC[2], 0); break;
        }
    }
    int eff = model_parse(t.fin);
    ParseResult ru = used->parse(TOG_DOC[t.fin], 0);
    std::unique_ptr<Box> fresh(make_box(t.api)); fresh->cfg = cfg;
    if (eff != t.fin + 1) { fresh->loadGrammar(eff == 1 ? "/v/s1.xsd" : "/v/s2.xsd", true, true); fresh->useCached(true); }
    ParseResult rf = fresh->parse(TOG_DOC[t.fin], 0);
    c.count("parses", 2);
    std::string x = cache_view(rf), y = cache_view(ru);
    if (x != y) {
        size_t i = 0; while (i < x.size() && i < y.size() && x[i] == y[i]) i++;
        size_t ls = x.rfind('\n', i); ls = ls == std::string::npos ? 0 : ls + 1;
        c.violation("grammar-in-force-differs-from-lookup-order", "\"history\":" + jstr(tog_str(t)) + ",\"grammar_in_force_per_model\":" + jstr(eff == 1 ? "s1.xsd" : "s2.xsd") +
                    ",\"expected\":" + jstr(x.substr(ls, 200)) + ",\"observed\":" + jstr(y.substr(ls, 200)));
    }
    c.count(eff == t.fin + 1 ? "final_uses_named_schema" : "final_uses_cached_other_schema");
    c.count("cache_switch_histories");
    if (idx % 997 == 0) c.sample("{\"history\":" + jstr(tog_str(t)) + "}");
}

// ------------------------------------------------------------------------------------------ entity-expansion accounting across parses
// One SecurityManager (limit 4) installed once; every sequence of <= depth parses of documents with 0..5 entity expansions on one parser, then a final
// parse: the expansion count belongs to a parse, not to the parser - the outcome (incl. the limit error and where it strikes) must equal a fresh parser's.
static std::vector<HDoc> EDOCS;
static void init_exp_docs() {
    const std::string D = "<!DOCTYPE r [<!ENTITY a 'x'><!ENTITY b '&a;&a;'><!ENTITY % p '<!ENTITY c \"y\">'>%p;<!ATTLIST r k CDATA 'd&a;'>]>";
    EDOCS = {
        {"three-in-content", D + "<r>&a;&a;&a;</r>"},
        {"nested-three", D + "<r>&b;</r>"},
        {"two-in-attribute", D + "<r k='&a;&a;'>t</r>"},
        {"four-at-the-limit", D + "<r>&a;&b;</r>"},
        {"five-over-the-limit", D + "<r>&b;&b;</r>"},
        {"none", D + "<r>t</r>"},
        {"no-doctype", "<r>&amp;&lt;&amp;&lt;&amp;</r>"},
        {"abandoned-after-two", D + "<r>&a;&a;<"},
    };
}
static int g_edepth = 2;
struct ECase { int api, scanner, fin; std::vector<int> ops; };
static ECase exp_case(uint64_t idx) {
    ECase e; uint64_t nw = words_upto(EDOCS.size(), g_edepth);
    e.ops = word_at(idx % nw, EDOCS.size(), g_edepth); idx /= nw;
    e.fin = (int)(idx % EDOCS.size()); idx /= EDOCS.size();
    e.scanner = (int)(idx % 4); idx /= 4;
    e.api = (int)idx;
    return e;
}
static std::string exp_str(const ECase& e) {
    std::string s = std::string(BoxName[e.api]) + "/" + ScnName[e.scanner] + " SecurityManager(limit 4): ";
    for (int o : e.ops) s += "parse(" + EDOCS[o].name + "); ";
    return s + "parse(" + EDOCS[e.fin].name + ")";
}
static void run_explimit(uint64_t idx, Ctx& c) {
    ECase e = exp_case(idx);
    g_vfs->clear(); put_files(); init_exp_docs();
    Config cfg; cfg.ns = true; cfg.val = 0; cfg.schema = false; cfg.scanner = e.scanner;
    std::unique_ptr<Box> used(make_box(e.api)); used->cfg = cfg; used->setSecLimit(4);
    for (int o : e.ops) used->parse(EDOCS[o].bytes, 0);
    ParseResult ru = used->parse(EDOCS[e.fin].bytes, 0);
    std::unique_ptr<Box> fresh(make_box(e.api)); fresh->cfg = cfg; fresh->setSecLimit(4);
    ParseResult rf = fresh->parse(EDOCS[e.fin].bytes, 0);
    c.count("parses", 2 + e.ops.size());
    std::string x = cache_view(rf), y = cache_view(ru);
    if (x != y) {
        size_t i = 0; while (i < x.size() && i < y.size() && x[i] == y[i]) i++;
        size_t ls = x.rfind('\n', i); ls = ls == std::string::npos ? 0 : ls + 1;
        c.violation("history-dependent-result", "\"history\":" + jstr(exp_str(e)) + ",\"expected\":" + jstr(x.substr(ls, 200)) + ",\"observed\":" + jstr(y.substr(ls, 200)));
    }
    if (rf.fatals) c.count("final_hits_limit_or_fatal"); else c.count("final_clean");
    c.count("expansion_limit_histories");
    if (idx % 997 == 0) c.sample("{\"history\":" + jstr(exp_str(e)) + "}");
}

int main(int argc, char** argv) {
    Args a(argc, argv);
    std::string space = a.str("space", "hist");
    g_depth = (int)a.num("depth", 2);
    xml_init();
    g_dump_internal_subset = true;
    init_docs(); init_ops((int)a.num("opdocs", 100)); init_bases();
    Runner R; R.name = space;
    if (space == "hist") {
        R.total = words_upto(OPS.size(), g_depth) * DOCS.size() * BASES.size() * 3;
        R.fn = run_hist;
        R.describe = [](uint64_t i) { return "{\"history\":" + jstr(hist_str(hist_case(i))) + "}"; };
        R.extra_json = "\"alphabet\":" + std::to_string(OPS.size()) + ",\"depth\":" + std::to_string(g_depth) + ",\"documents\":" + std::to_string(DOCS.size());
    } else if (space == "growth") {
        g_vfs->clear(); init_growth_docs();
        g_gdepth = (int)a.num("depth", 2);
        R.total = words_upto(GDOCS.size(), g_gdepth) * GDOCS.size() * 3 * 3;
        R.fn = run_growth;
        R.describe = [](uint64_t i) { return "{\"history\":" + jstr(growth_str(growth_case(i))) + "}"; };
        R.extra_json = "\"documents\":" + std::to_string(GDOCS.size()) + ",\"depth\":" + std::to_string(g_gdepth);
    } else if (space == "schema") {
        g_vfs->clear(); init_schema_docs();
        g_sdepth = (int)a.num("depth", 2);
        g_srotate = a.num("rotate", 0) != 0;
        { std::string cs = a.str("caches", "012"); g_scaches.clear(); for (char ch : cs) g_scaches.push_back(ch - '0'); }
        R.total = words_upto(SDOCS.size(), g_sdepth) * SDOCS.size() * g_scaches.size() * 2 * (g_srotate ? 1 : 3);
        R.fn = run_schema;
        R.describe = [](uint64_t i) { return "{\"history\":" + jstr(schema_str(schema_case(i))) + "}"; };
        R.extra_json = "\"documents\":" + std::to_string(SDOCS.size()) + ",\"depth\":" + std::to_string(g_sdepth) + ",\"api_rotates\":" + (g_srotate ? "true" : "false") +
                       ",\"cache_regimes\":" + std::to_string(g_scaches.size());
    } else if (space == "toggle") {
        g_tdepth = (int)a.num("depth", 3);
        R.total = words_upto(NTOG, g_tdepth) * 2 * 2 * 3;
        R.fn = run_toggle;
        R.describe = [](uint64_t i) { return "{\"history\":" + jstr(tog_str(tog_case(i))) + "}"; };
        R.extra_json = "\"alphabet\":" + std::to_string(NTOG) + ",\"depth\":" + std::to_string(g_tdepth);
    } else if (space == "explimit") {
        g_vfs->clear(); init_exp_docs();
        g_edepth = (int)a.num("depth", 2);
        R.total = words_upto(EDOCS.size(), g_edepth) * EDOCS.size() * 4 * 3;
        R.fn = run_explimit;
        R.describe = [](uint64_t i) { return "{\"history\":" + jstr(exp_str(exp_case(i))) + "}"; };
        R.extra_json = "\"documents\":" + std::to_string(EDOCS.size()) + ",\"depth\":" + std::to_string(g_edepth);
    } else if (space == "cache") {
        R.total = 5 * 4 * 4 * 3;
        R.fn = run_cache;
        R.describe = [](uint64_t i) { CCase c = cache_case(i); return "{\"api\":" + std::to_string(c.api) + ",\"way\":" + std::to_string(c.way) + ",\"disturb\":" + std::to_string(c.disturb) + ",\"doc\":" + std::to_string(c.doc) + "}"; };
    } else return 2;
    return R.main_tail(a);
}
