// c08_ref.hpp - reference model for XML Schema 1.0 Structures particles (C08).
//
//  * Particle        : the typed schema model for content models (element refs, wildcards, sequence / choice / all,
//                      occurrence ranges) together with its rendering as XSD.
//  * Rx / deriv      : Brzozowski derivatives with occurrence counters (the deciding oracle for "child sequence is
//                      accepted by the particle"); a derivative step also says WHICH leaf particle consumed the symbol,
//                      which is needed for processContents of wildcards.
//  * ends()          : a second, independently written denotational matcher (set of end positions); used only to
//                      cross-check the derivative engine on every word (self-validation of the oracle).
//  * upa()           : Glushkov position automaton determinism test on the counter-expanded expression
//                      (Unique Particle Attribution).
//
// Nothing in this file calls into Xerces.
#pragma once
#include <bitset>
#include <cstdint>
#include <memory>
#include <string>
#include <vector>

namespace c08 {

// ---------------------------------------------------------------------------------- symbols of instance children
// a, b, c : elements of the target namespace urn:t that have global declarations
// x       : element {urn:x}x (a namespace for which no schema is available unless a space says otherwise)
// d       : element {urn:t}d, no declaration anywhere
// n       : element n in no namespace, no declaration
enum Sym { SA = 0, SB = 1, SC = 2, SX = 3, SD = 4, SN = 5, NSYM = 6 };
static const char* const SYM_XML[NSYM] = {"<t:a/>", "<t:b/>", "<t:c/>", "<x:x/>", "<t:d/>", "<n/>"};
static const char SYM_CH[NSYM + 1] = "abcxdn";

static const int UNB = -1;
struct Occ {
    int min, max;
    bool operator==(const Occ& o) const { return min == o.min && max == o.max; }
};
static const Occ OCC8[8] = {{0, 1}, {1, 1}, {0, UNB}, {1, UNB}, {2, 2}, {2, 3}, {0, 2}, {3, UNB}};

enum Kind { ELEM = 0, WILD = 1, SEQ = 2, CHOICE = 3, ALL = 4 };
enum WNs { W_ANY = 0, W_OTHER = 1, W_TNS = 2, W_LOCAL = 3 };
enum WPc { PC_STRICT = 0, PC_LAX = 1, PC_SKIP = 2 };

struct Particle {
    Kind kind = ELEM;
    int term = 0;  // ELEM: 0..2 = a,b,c ; WILD: ns*3+pc
    Occ occ{1, 1};
    std::vector<Particle> kids;
    int id = -1;  // pre-order node number (number_nodes), used by the denotational matcher's memo table
    static Particle elem(int e, Occ o) { Particle p; p.kind = ELEM; p.term = e; p.occ = o; return p; }
    static Particle wild(int ns, int pc, Occ o) { Particle p; p.kind = WILD; p.term = ns * 3 + pc; p.occ = o; return p; }
    static Particle group(Kind k, Occ o, std::vector<Particle> ks) { Particle p; p.kind = k; p.occ = o; p.kids = std::move(ks); return p; }
    bool leaf() const { return kind == ELEM || kind == WILD; }
};

inline bool term_matches(Kind k, int term, int sym) {
    if (k == ELEM) return sym == term;
    switch (term / 3) {
    case W_ANY: return true;
    case W_OTHER: return sym == SX;                       // namespace-qualified and not the target namespace
    case W_TNS: return sym == SA || sym == SB || sym == SC || sym == SD;
    case W_LOCAL: return sym == SN;
    }
    return false;
}
// two leaf terms overlap iff some element information item is matched by both (the six symbols are witnesses
// for every pair of term kinds used here)
inline bool terms_overlap(Kind k1, int t1, Kind k2, int t2) {
    for (int s = 0; s < NSYM; s++)
        if (term_matches(k1, t1, s) && term_matches(k2, t2, s)) return true;
    return false;
}

// ---------------------------------------------------------------------------------- rendering
inline std::string occ_attrs(Occ o) {
    std::string s = " minOccurs=\"" + std::to_string(o.min) + "\" maxOccurs=\"";
    s += (o.max == UNB ? std::string("unbounded") : std::to_string(o.max)) + "\"";
    return s;
}
static const char* const WNS_ATTR[4] = {"##any", "##other", "##targetNamespace", "##local"};
static const char* const WPC_ATTR[3] = {"strict", "lax", "skip"};
inline std::string render(const Particle& p) {
    switch (p.kind) {
    case ELEM: return std::string("<xs:element ref=\"t:") + SYM_CH[p.term] + "\"" + occ_attrs(p.occ) + "/>";
    case WILD: return std::string("<xs:any namespace=\"") + WNS_ATTR[p.term / 3] + "\" processContents=\"" + WPC_ATTR[p.term % 3] + "\"" + occ_attrs(p.occ) + "/>";
    default: {
        const char* n = p.kind == SEQ ? "xs:sequence" : p.kind == CHOICE ? "xs:choice" : "xs:all";
        std::string s = std::string("<") + n + occ_attrs(p.occ) + ">";
        for (auto& k : p.kids) s += render(k);
        return s + "</" + n + ">";
    }
    }
}
// compact human-readable form: s{2,3}(a{0,1} *other/lax{1,1})
inline std::string show(const Particle& p) {
    std::string o = "{" + std::to_string(p.occ.min) + "," + (p.occ.max == UNB ? std::string("*") : std::to_string(p.occ.max)) + "}";
    if (p.kind == ELEM) return std::string(1, SYM_CH[p.term]) + o;
    if (p.kind == WILD) return std::string("*") + (WNS_ATTR[p.term / 3] + 2) + "/" + WPC_ATTR[p.term % 3] + o;
    std::string s = (p.kind == SEQ ? "seq" : p.kind == CHOICE ? "cho" : "all") + o + "(";
    for (size_t i = 0; i < p.kids.size(); i++) s += (i ? " " : "") + show(p.kids[i]);
    return s + ")";
}

// ---------------------------------------------------------------------------------- leaf table
struct LeafInfo { Kind kind; int term; };
// number the leaf particles of the (unexpanded) particle tree in document order
inline void collect_leaves(const Particle& p, std::vector<LeafInfo>& out) {
    if (p.leaf()) out.push_back({p.kind, p.term});
    else for (auto& k : p.kids) collect_leaves(k, out);
}

// ---------------------------------------------------------------------------------- schema-representation validity of the particle
// Constraints of XML Schema 1.0 on all-groups (Schema Representation Constraint / cos-all-limited):
// an all group has {max occurs} = 1 and {min occurs} in {0,1}; its particles are element particles with {max occurs} in {0,1};
// it appears only as the whole content model (this generator only ever puts it there).
inline bool all_limited_ok(const Particle& top) {
    if (top.kind != ALL) return true;
    if (top.occ.max != 1 || top.occ.min > 1) return false;
    for (auto& k : top.kids) {
        if (k.kind != ELEM) return false;
        if (k.occ.max != 1 || k.occ.min > 1) return false;
    }
    return true;
}

// ---------------------------------------------------------------------------------- derivative engine
struct Rx;
typedef std::shared_ptr<const Rx> R;
struct AllMember { int leaf; bool required; };
struct Rx {
    enum K { NONE, EPS, LEAF, CAT, ALT, REP, ALLG } k = NONE;
    int leaf = -1;
    R a, b;
    int min = 0, max = 0;                  // REP
    std::vector<AllMember> members;        // ALLG
    unsigned used = 0;                     // ALLG: bit mask of consumed members
};
inline R mk(Rx::K k) { auto r = std::make_shared<Rx>(); r->k = k; return r; }
inline R rx_none() { static R r = mk(Rx::NONE); return r; }
inline R rx_eps() { static R r = mk(Rx::EPS); return r; }
inline R rx_leaf(int l) { auto r = std::make_shared<Rx>(); r->k = Rx::LEAF; r->leaf = l; return r; }
inline R rx_cat(const R& a, const R& b) {
    if (a->k == Rx::NONE || b->k == Rx::NONE) return rx_none();
    if (a->k == Rx::EPS) return b;
    if (b->k == Rx::EPS) return a;
    auto r = std::make_shared<Rx>(); r->k = Rx::CAT; r->a = a; r->b = b; return r;
}
inline R rx_alt(const R& a, const R& b) {
    if (a->k == Rx::NONE) return b;
    if (b->k == Rx::NONE) return a;
    auto r = std::make_shared<Rx>(); r->k = Rx::ALT; r->a = a; r->b = b; return r;
}
inline R rx_rep(const R& a, int min, int max) {
    if (max == 0) return rx_eps();
    if (min == 1 && max == 1) return a;
    if (a->k == Rx::NONE) return min == 0 ? rx_eps() : rx_none();
    auto r = std::make_shared<Rx>(); r->k = Rx::REP; r->a = a; r->min = min; r->max = max; return r;
}
inline bool nullable(const R& e) {
    switch (e->k) {
    case Rx::NONE: return false;
    case Rx::EPS: return true;
    case Rx::LEAF: return false;
    case Rx::CAT: return nullable(e->a) && nullable(e->b);
    case Rx::ALT: return nullable(e->a) || nullable(e->b);
    case Rx::REP: return e->min == 0 || nullable(e->a);
    case Rx::ALLG:
        for (size_t i = 0; i < e->members.size(); i++)
            if (e->members[i].required && !(e->used & (1u << i))) return false;
        return true;
    }
    return false;
}
// particle tree -> regular expression with counters; leaves numbered in document order
inline R to_rx(const Particle& p, int& nextLeaf) {
    R base;
    switch (p.kind) {
    case ELEM: case WILD: base = rx_leaf(nextLeaf++); break;
    case SEQ: {
        std::vector<R> ks;
        for (auto& k : p.kids) ks.push_back(to_rx(k, nextLeaf));
        base = rx_eps();
        for (size_t i = ks.size(); i-- > 0;) base = rx_cat(ks[i], base);
        break;
    }
    case CHOICE: {
        base = rx_none();
        std::vector<R> ks;
        for (auto& k : p.kids) ks.push_back(to_rx(k, nextLeaf));
        for (size_t i = ks.size(); i-- > 0;) base = rx_alt(ks[i], base);
        break;
    }
    case ALL: {
        auto r = std::make_shared<Rx>();
        r->k = Rx::ALLG;
        for (auto& k : p.kids) r->members.push_back({nextLeaf++, k.occ.min >= 1});  // only used when all_limited_ok
        base = r;
        break;
    }
    }
    return rx_rep(base, p.occ.min, p.occ.max);
}
struct Step { R next; int leaf; };
// all ways in which expression e can consume symbol s: (residual expression, consuming leaf)
inline void deriv(const R& e, int s, const std::vector<LeafInfo>& L, std::vector<Step>& out) {
    switch (e->k) {
    case Rx::NONE: case Rx::EPS: return;
    case Rx::LEAF:
        if (term_matches(L[e->leaf].kind, L[e->leaf].term, s)) out.push_back({rx_eps(), e->leaf});
        return;
    case Rx::CAT: {
        std::vector<Step> t;
        deriv(e->a, s, L, t);
        for (auto& st : t) out.push_back({rx_cat(st.next, e->b), st.leaf});
        if (nullable(e->a)) deriv(e->b, s, L, out);
        return;
    }
    case Rx::ALT: deriv(e->a, s, L, out); deriv(e->b, s, L, out); return;
    case Rx::REP: {
        if (e->max == 0) return;
        std::vector<Step> t;
        deriv(e->a, s, L, t);
        R rest = rx_rep(e->a, e->min > 0 ? e->min - 1 : 0, e->max == UNB ? UNB : e->max - 1);
        // rx_rep collapses {1,1} to the body itself, which is what is wanted here
        for (auto& st : t) out.push_back({rx_cat(st.next, rest), st.leaf});
        return;
    }
    case Rx::ALLG:
        for (size_t i = 0; i < e->members.size(); i++) {
            if (e->used & (1u << i)) continue;
            const LeafInfo& li = L[e->members[i].leaf];
            if (!term_matches(li.kind, li.term, s)) continue;
            auto r = std::make_shared<Rx>(*e);
            r->used |= (1u << i);
            out.push_back({r, e->members[i].leaf});
        }
        return;
    }
}

// ---------------------------------------------------------------------------------- independent denotational matcher
// ends(p, w, i) = bit set of positions j such that w[i..j) is accepted by particle p (with its occurrence range)
typedef uint32_t PosSet;  // words are at most 24 symbols long
static const int MAXWORD = 24;
struct DenotMemo {
    std::vector<PosSet> v;      // [node id * (MAXWORD+1) + i], UINT32_MAX = not computed (bit 31 is never a position)
    void reset(int nodes) { v.assign((size_t)nodes * (MAXWORD + 1), 0xFFFFFFFFu); }
};
inline int number_nodes(Particle& p, int next = 0) {
    p.id = next++;
    for (auto& k : p.kids) next = number_nodes(k, next);
    return next;
}
inline PosSet ends(const Particle& p, const std::vector<int>& w, int i, DenotMemo& M);
inline PosSet ends_all(const Particle& p, const std::vector<int>& w, int i, unsigned used) {
    // members are element particles with occurrence (0|1, 1)
    PosSet r = 0;
    bool complete = true;
    for (size_t m = 0; m < p.kids.size(); m++)
        if (!(used & (1u << m)) && p.kids[m].occ.min >= 1) complete = false;
    if (complete) r |= (1u << i);
    if (i < (int)w.size())
        for (size_t m = 0; m < p.kids.size(); m++)
            if (!(used & (1u << m)) && term_matches(p.kids[m].kind, p.kids[m].term, w[i])) r |= ends_all(p, w, i + 1, used | (1u << m));
    return r;
}
inline PosSet ends_once(const Particle& p, const std::vector<int>& w, int i, DenotMemo& M) {
    switch (p.kind) {
    case ELEM: case WILD: return (i < (int)w.size() && term_matches(p.kind, p.term, w[i])) ? (1u << (i + 1)) : 0;
    case SEQ: {
        PosSet cur = 1u << i;
        for (auto& k : p.kids) {
            PosSet nx = 0;
            for (int q = 0; q <= (int)w.size(); q++) if (cur & (1u << q)) nx |= ends(k, w, q, M);
            cur = nx;
        }
        return cur;
    }
    case CHOICE: {
        PosSet r = 0;
        for (auto& k : p.kids) r |= ends(k, w, i, M);
        return r;
    }
    case ALL: return ends_all(p, w, i, 0);
    }
    return 0;
}
// S_0 = {i}; S_(k+1) = union of ends_once over S_k; result = union of S_k for min <= k <= max.  Once S_(k+1) = S_k the sequence is
// constant; when the body consumes at least one symbol S_k is empty for k > |w|; a nullable body makes S_k monotone, so it is
// constant after at most |w|+1 steps: iterating to min+|w|+1 is enough for an unbounded max.
inline PosSet ends(const Particle& p, const std::vector<int>& w, int i, DenotMemo& M) {
    PosSet& slot = M.v[(size_t)p.id * (MAXWORD + 1) + i];
    if (slot != 0xFFFFFFFFu) return slot;
    int n = (int)w.size();
    int cap = p.occ.min + n + 1;
    if (p.occ.max != UNB && p.occ.max < cap) cap = p.occ.max;
    PosSet cur = 1u << i, res = 0;
    if (p.occ.min == 0) res |= cur;
    for (int k = 1; k <= cap; k++) {
        PosSet nx = 0;
        for (int q = 0; q <= n; q++) if (cur & (1u << q)) nx |= ends_once(p, w, q, M);
        if (nx == cur) { if (cap >= p.occ.min) res |= cur; break; }
        cur = nx;
        if (k >= p.occ.min) res |= cur;
        if (!cur) break;
    }
    // the slot reference may have been invalidated only if v was resized, which never happens during evaluation
    M.v[(size_t)p.id * (MAXWORD + 1) + i] = res;
    return res;
}
inline bool accepts_denot(const Particle& top, const std::vector<int>& w, DenotMemo& M, int nodes) {
    M.reset(nodes);
    return (ends(top, w, 0, M) >> w.size()) & 1u;
}

// ---------------------------------------------------------------------------------- Unique Particle Attribution
enum Upa { UPA_OK = 0, UPA_SAME_PARTICLE = 1, UPA_VIOLATION = 2 };
static const int MAXPOS = 1024;
typedef std::bitset<MAXPOS> PSet;
struct Glushkov {
    struct Node { bool nullable; PSet first, last; };
    std::vector<int> posLeaf;            // position -> leaf index (original particle)
    std::vector<PSet> follow;
    bool overflow = false;
    int newpos(int leaf) {
        if ((int)posLeaf.size() >= MAXPOS) { overflow = true; return MAXPOS - 1; }
        posLeaf.push_back(leaf); follow.push_back(PSet()); return (int)posLeaf.size() - 1;
    }
    static Node eps() { Node n; n.nullable = true; return n; }
    Node cat(const Node& a, const Node& b) {
        Node n;
        n.nullable = a.nullable && b.nullable;
        n.first = a.first; if (a.nullable) n.first |= b.first;
        n.last = b.last; if (b.nullable) n.last |= a.last;
        for (int p = 0; p < (int)posLeaf.size(); p++) if (a.last[p]) follow[p] |= b.first;
        return n;
    }
    static Node alt(const Node& a, const Node& b) {
        Node n; n.nullable = a.nullable || b.nullable; n.first = a.first | b.first; n.last = a.last | b.last; return n;
    }
    Node plus(const Node& a) {
        for (int p = 0; p < (int)posLeaf.size(); p++) if (a.last[p]) follow[p] |= a.first;
        return a;
    }
    static Node opt(const Node& a) { Node n = a; n.nullable = true; return n; }
    // one copy of the term of p (fresh positions), leaves numbered from firstLeaf
    Node once(const Particle& p, int firstLeaf) {
        if (p.leaf()) { Node n; n.nullable = false; int q = newpos(firstLeaf); n.first[q] = true; n.last[q] = true; return n; }
        int lf = firstLeaf;
        if (p.kind == SEQ) {
            Node acc = eps();
            for (auto& k : p.kids) { Node kn = build(k, lf); acc = cat(acc, kn); lf += count_leaves(k); }
            return acc;
        }
        // CHOICE
        Node acc; acc.nullable = false;
        bool firstKid = true;
        for (auto& k : p.kids) {
            Node kn = build(k, lf);
            acc = firstKid ? kn : alt(acc, kn);
            firstKid = false;
            lf += count_leaves(k);
        }
        return acc;
    }
    static int count_leaves(const Particle& p) {
        if (p.leaf()) return 1;
        int n = 0; for (auto& k : p.kids) n += count_leaves(k); return n;
    }
    // e{m,n}  ->  e^m (e (e ...)?)?          e{m,unbounded} -> e^(m-1) e+   |  e*
    Node build(const Particle& p, int firstLeaf) {
        int m = p.occ.min, M = p.occ.max;
        Node acc = eps();
        if (M == UNB) {
            for (int i = 0; i + 1 < m; i++) acc = cat(acc, once(p, firstLeaf));
            Node last = plus(once(p, firstLeaf));
            if (m == 0) last = opt(last);
            return cat(acc, last);
        }
        for (int i = 0; i < m; i++) acc = cat(acc, once(p, firstLeaf));
        Node tail = eps();
        for (int i = 0; i < M - m; i++) tail = opt(cat(once(p, firstLeaf), tail));
        return cat(acc, tail);
    }
};
inline Upa upa(const Particle& top, const std::vector<LeafInfo>& L, int* positions = nullptr) {
    if (top.kind == ALL) {
        for (size_t i = 0; i < top.kids.size(); i++)
            for (size_t j = i + 1; j < top.kids.size(); j++)
                if (terms_overlap(top.kids[i].kind, top.kids[i].term, top.kids[j].kind, top.kids[j].term)) return UPA_VIOLATION;
        return UPA_OK;
    }
    Glushkov g;
    Glushkov::Node root = g.build(top, 0);
    if (positions) *positions = (int)g.posLeaf.size();
    if (g.overflow) return UPA_SAME_PARTICLE;  // cannot decide: treated as "no claim"
    Upa res = UPA_OK;
    int n = (int)g.posLeaf.size();
    auto scan = [&](const PSet& s) {
        for (int p = 0; p < n; p++) {
            if (!s[p]) continue;
            for (int q = p + 1; q < n; q++) {
                if (!s[q]) continue;
                const LeafInfo &a = L[g.posLeaf[p]], &b = L[g.posLeaf[q]];
                if (!terms_overlap(a.kind, a.term, b.kind, b.term)) continue;
                if (g.posLeaf[p] != g.posLeaf[q]) res = UPA_VIOLATION;
                else if (res == UPA_OK) res = UPA_SAME_PARTICLE;
            }
        }
    };
    scan(root.first);
    for (int p = 0; p < n; p++) scan(g.follow[p]);
    return res;
}

}  // namespace c08
