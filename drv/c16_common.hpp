// c16_common.hpp - helpers of the C16 driver (grammar pool serialisation round trip):
//   * pool construction / loadGrammar / serializeGrammars / deserializeGrammars wrappers,
//   * instance validation against a given pool (DOM with schema type info + SAX2 with PSVI handler),
//   * deterministic structural dumps: XSModel (recursive, cycle protected, hash-order independent) and DTDGrammar.
#pragma once
#include "xv_xml.hpp"
#include <iterator>
#include <regex>

#include <xercesc/dom/DOMPSVITypeInfo.hpp>
#include <xercesc/dom/DOMTypeInfo.hpp>
#include <xercesc/framework/psvi/PSVIAttribute.hpp>
#include <xercesc/framework/psvi/PSVIAttributeList.hpp>
#include <xercesc/framework/psvi/PSVIElement.hpp>
#include <xercesc/framework/psvi/PSVIHandler.hpp>
#include <xercesc/framework/psvi/XSAnnotation.hpp>
#include <xercesc/framework/psvi/XSAttributeDeclaration.hpp>
#include <xercesc/framework/psvi/XSAttributeGroupDefinition.hpp>
#include <xercesc/framework/psvi/XSAttributeUse.hpp>
#include <xercesc/framework/psvi/XSComplexTypeDefinition.hpp>
#include <xercesc/framework/psvi/XSConstants.hpp>
#include <xercesc/framework/psvi/XSElementDeclaration.hpp>
#include <xercesc/framework/psvi/XSFacet.hpp>
#include <xercesc/framework/psvi/XSIDCDefinition.hpp>
#include <xercesc/framework/psvi/XSModel.hpp>
#include <xercesc/framework/psvi/XSModelGroup.hpp>
#include <xercesc/framework/psvi/XSModelGroupDefinition.hpp>
#include <xercesc/framework/psvi/XSMultiValueFacet.hpp>
#include <xercesc/framework/psvi/XSNamedMap.hpp>
#include <xercesc/framework/psvi/XSNamespaceItem.hpp>
#include <xercesc/framework/psvi/XSNotationDeclaration.hpp>
#include <xercesc/framework/psvi/XSParticle.hpp>
#include <xercesc/framework/psvi/XSSimpleTypeDefinition.hpp>
#include <xercesc/framework/psvi/XSTypeDefinition.hpp>
#include <xercesc/framework/psvi/XSWildcard.hpp>
#include <xercesc/internal/BinMemOutputStream.hpp>
#include <xercesc/internal/XSerializationException.hpp>
#include <xercesc/util/BinMemInputStream.hpp>
#include <xercesc/validators/DTD/DTDAttDef.hpp>
#include <xercesc/validators/DTD/DTDAttDefList.hpp>
#include <xercesc/validators/DTD/DTDElementDecl.hpp>
#include <xercesc/validators/DTD/DTDEntityDecl.hpp>
#include <xercesc/validators/DTD/DTDGrammar.hpp>
#include <xercesc/validators/common/Grammar.hpp>
#include <xercesc/validators/schema/SchemaGrammar.hpp>
#include <xercesc/validators/schema/ComplexTypeInfo.hpp>
#include <xercesc/validators/schema/SchemaSymbols.hpp>
#include <xercesc/validators/schema/XercesGroupInfo.hpp>

namespace c16 {
using namespace xv;

// ------------------------------------------------------------------------------------------------ pools
struct Pool {
    XMLGrammarPoolImpl* p = nullptr;
    Pool() { p = new XMLGrammarPoolImpl(XMLPlatformUtils::fgMemoryManager); }
    ~Pool() { delete p; }
    Pool(const Pool&) = delete;
    Pool& operator=(const Pool&) = delete;
};

// result of an operation that may throw: "" = ok, otherwise "Class:message"
inline std::string exc_class(const XMLException& e) { return esc16(e.getType()); }

// serializeGrammars into a string; exc receives the exception text if one is thrown
inline bool pool_serialize(XMLGrammarPoolImpl* p, std::string& out, std::string& exc) {
    ParseResult r;
    try {
        BinMemOutputStream os(8192);
        p->serializeGrammars(&os);
        out.assign((const char*)os.getRawBuffer(), (size_t)os.getSize());
    }
    XV_CATCH_DOCUMENTED(r)
    exc = r.exc;
    return exc.empty();
}

// deserializeGrammars from bytes; returns "" on success, the exception class text otherwise ("XMLException:<type>:<msg>")
inline std::string pool_deserialize(XMLGrammarPoolImpl* p, const std::string& bytes) {
    ParseResult r;
    try {
        BinMemInputStream is((const XMLByte*)bytes.data(), (XMLSize_t)bytes.size(), BinMemInputStream::BufOpt_Reference);
        p->deserializeGrammars(&is);
    }
    XV_CATCH_DOCUMENTED(r)
    return r.exc;
}

struct LoadResult {
    bool ok = false;            // grammar object returned
    ParseResult r;              // errors raised while loading
};

// load one grammar (text already stored nowhere: passed as bytes with the given system id) into `pool`
inline LoadResult load_grammar(XMLGrammarPoolImpl* pool, const std::string& bytes, const std::string& sysId, bool isSchema, bool synthAnn = false) {
    LoadResult L;
    try {
        XercesDOMParser p(0, XMLPlatformUtils::fgMemoryManager, pool);
        Sax1H h; Config cfg; h.r = &L.r; h.cfg = &cfg;
        p.setErrorHandler(&h);
        p.setDoNamespaces(true);
        p.setDoSchema(isSchema);
        p.setValidationScheme(XercesDOMParser::Val_Always);
        p.setValidationSchemaFullChecking(true);
        p.setHandleMultipleImports(true);
        p.setGenerateSyntheticAnnotations(synthAnn);
        MemBufInputSource src((const XMLByte*)bytes.data(), bytes.size(), X16(sysId).p(), false);
        Grammar* g = p.loadGrammar(src, isSchema ? Grammar::SchemaGrammarType : Grammar::DTDGrammarType, true);
        L.ok = g != 0;
    }
    XV_CATCH_DOCUMENTED(L.r)
    return L;
}

// ------------------------------------------------------------------------------------------------ instance validation
inline std::string sx(const XMLCh* s) { return s ? esc16(s) : std::string("~"); }

struct PsviDump : public PSVIHandler {
    std::vector<std::string>* out = nullptr;
    static std::string typ(XSTypeDefinition* td) {
        if (!td) return "-";
        return "{" + sx(td->getNamespace()) + "}" + sx(td->getName()) + (td->getAnonymous() ? "/anon" : "") + (td->getTypeCategory() == XSTypeDefinition::COMPLEX_TYPE ? "/C" : "/S");
    }
    static std::string item(PSVIItem* i) {
        std::string s;
        s += "v" + std::to_string((int)i->getValidity()) + "a" + std::to_string((int)i->getValidationAttempted());
        s += "|ctx=" + sx(i->getValidationContext());
        s += "|t=" + typ(i->getTypeDefinition());
        s += "|m=" + typ(i->getMemberTypeDefinition());
        s += "|d=" + sx(i->getSchemaDefault());
        s += "|n=" + sx(i->getSchemaNormalizedValue());
        s += "|c=" + sx(i->getCanonicalRepresentation());
        s += i->getIsSchemaSpecified() ? "|schspec" : "|inst";
        return s;
    }
    void handlePartialElementPSVI(const XMLCh* const local, const XMLCh* const uri, PSVIElement* e) override {
        XSElementDeclaration* d = e->getElementDeclaration();
        out->push_back("PS|{" + sx(uri) + "}" + sx(local) + "|decl=" + (d ? "{" + sx(d->getNamespace()) + "}" + sx(d->getName()) + "/s" + std::to_string((int)d->getScope()) : std::string("-")));
    }
    void handleElementPSVI(const XMLCh* const local, const XMLCh* const uri, PSVIElement* e) override {
        XSElementDeclaration* d = e->getElementDeclaration();
        XSNotationDeclaration* n = e->getNotationDeclaration();
        out->push_back("PE|{" + sx(uri) + "}" + sx(local) + "|" + item(e) + "|decl=" +
                       (d ? "{" + sx(d->getNamespace()) + "}" + sx(d->getName()) + "/s" + std::to_string((int)d->getScope()) + (d->getNillable() ? "/nil" : "") : std::string("-")) +
                       "|not=" + (n ? sx(n->getName()) : std::string("-")) + "|model=" + (e->getSchemaInformation() ? "y" : "n"));
    }
    void handleAttributesPSVI(const XMLCh* const local, const XMLCh* const, PSVIAttributeList* l) override {
        std::vector<std::string> v;
        for (XMLSize_t i = 0; i < l->getLength(); i++) {
            PSVIAttribute* a = l->getAttributePSVIAtIndex(i);
            XSAttributeDeclaration* d = a->getAttributeDeclaration();
            v.push_back("PA|" + sx(local) + "|{" + sx(l->getAttributeNamespaceAtIndex(i)) + "}" + sx(l->getAttributeNameAtIndex(i)) + "|" + item(a) + "|decl=" +
                        (d ? "{" + sx(d->getNamespace()) + "}" + sx(d->getName()) + "/s" + std::to_string((int)d->getScope()) : std::string("-")));
        }
        std::sort(v.begin(), v.end());
        for (auto& s : v) out->push_back(s);
    }
};

inline void dom_types(DOMNode* n, int depth, std::vector<std::string>& out) {
    if (n->getNodeType() != DOMNode::ELEMENT_NODE) return;
    DOMElement* e = (DOMElement*)n;
    std::string s = "DT|" + std::to_string(depth) + "|" + sx(e->getNodeName());
    const DOMTypeInfo* ti = e->getSchemaTypeInfo();
    if (ti) {
        s += "|{" + sx(ti->getTypeNamespace()) + "}" + sx(ti->getTypeName());
        const DOMPSVITypeInfo* pi = (const DOMPSVITypeInfo*)e->getFeature(XMLUni::fgXercescInterfacePSVITypeInfo, 0);
        if (pi) {
            s += "|v" + std::to_string(pi->getNumericProperty(DOMPSVITypeInfo::PSVI_Validity)) + "a" + std::to_string(pi->getNumericProperty(DOMPSVITypeInfo::PSVI_Validation_Attempted));
            s += "|anon" + std::to_string(pi->getNumericProperty(DOMPSVITypeInfo::PSVI_Type_Definition_Anonymous));
            s += "|nil" + std::to_string(pi->getNumericProperty(DOMPSVITypeInfo::PSVI_Nil));
            s += "|m={" + sx(pi->getStringProperty(DOMPSVITypeInfo::PSVI_Member_Type_Definition_Namespace)) + "}" + sx(pi->getStringProperty(DOMPSVITypeInfo::PSVI_Member_Type_Definition_Name));
            s += "|d=" + sx(pi->getStringProperty(DOMPSVITypeInfo::PSVI_Schema_Default));
            s += "|n=" + sx(pi->getStringProperty(DOMPSVITypeInfo::PSVI_Schema_Normalized_Value));
            s += "|sp" + std::to_string(pi->getNumericProperty(DOMPSVITypeInfo::PSVI_Schema_Specified));
        }
    }
    out.push_back(s);
    DOMNamedNodeMap* am = e->getAttributes();
    std::vector<std::string> as;
    for (XMLSize_t i = 0; am && i < am->getLength(); i++) {
        DOMAttr* a = (DOMAttr*)am->item(i);
        const DOMTypeInfo* at = a->getSchemaTypeInfo();
        const DOMPSVITypeInfo* pi = (const DOMPSVITypeInfo*)a->getFeature(XMLUni::fgXercescInterfacePSVITypeInfo, 0);
        std::string t = "DA|" + sx(a->getNodeName()) + "=" + sx(a->getValue());
        t += at ? "|{" + sx(at->getTypeNamespace()) + "}" + sx(at->getTypeName()) : std::string("|-");
        if (pi) {
            t += "|v" + std::to_string(pi->getNumericProperty(DOMPSVITypeInfo::PSVI_Validity));
            t += "|m={" + sx(pi->getStringProperty(DOMPSVITypeInfo::PSVI_Member_Type_Definition_Namespace)) + "}" + sx(pi->getStringProperty(DOMPSVITypeInfo::PSVI_Member_Type_Definition_Name));
            t += "|d=" + sx(pi->getStringProperty(DOMPSVITypeInfo::PSVI_Schema_Default));
            t += "|n=" + sx(pi->getStringProperty(DOMPSVITypeInfo::PSVI_Schema_Normalized_Value));
        }
        t += a->getSpecified() ? "|spec" : "|dflt";
        t += a->isId() ? "|id" : "";
        as.push_back(t);
    }
    std::sort(as.begin(), as.end());
    for (auto& t : as) out.push_back(t);
    for (DOMNode* c = n->getFirstChild(); c; c = c->getNextSibling()) dom_types(c, depth + 1, out);
}

// Errors reported at the same (severity, line, column) - e.g. the "missing required attribute" messages of one start tag, which are
// emitted in attribute-definition hash order - are an unordered set: sort each such run.
inline void normalise_error_order(std::vector<std::string>& errs) {
    auto key = [](const std::string& e) { size_t a = e.find('|'), b = e.find('|', a + 1), c = e.find('|', b + 1); return e.substr(0, c); };
    size_t i = 0;
    while (i < errs.size()) {
        size_t j = i + 1;
        while (j < errs.size() && key(errs[j]) == key(errs[i])) j++;
        std::sort(errs.begin() + i, errs.begin() + j);
        i = j;
    }
}

struct Verdict {
    std::string text;   // complete dump (events, types, errors, exception)
    bool valid = false; // no error of any severity and no exception
    bool fatal = false;
    int errs = 0;
};

// validate `doc` against `pool` only (useCachedGrammarInParse, nothing else is reachable: the VFS holds no grammar file).
// api: 0 = DOM (+ schema type info), 1 = SAX2 (+ PSVI handler when schema)
inline Verdict validate(XMLGrammarPoolImpl* pool, const std::string& doc, bool isSchema, int api, bool psvi = true) {
    psvi = psvi && isSchema;
    Verdict V;
    ParseResult r;
    std::vector<std::string> extra;
    Config cfg; cfg.ns = isSchema; cfg.api = api == 0 ? DOM : SAX2;
    try {
        MemBufInputSource src((const XMLByte*)doc.data(), doc.size(), X16("/v/doc.xml").p(), false);
        if (api == 0) {
            XercesDOMParser p(0, XMLPlatformUtils::fgMemoryManager, pool);
            Sax1H h; h.r = &r; h.cfg = &cfg;
            p.setErrorHandler(&h);
            p.setDoNamespaces(isSchema);
            p.setDoSchema(isSchema);
            p.setValidationScheme(XercesDOMParser::Val_Always);
            p.setValidationSchemaFullChecking(false);
            p.useCachedGrammarInParse(true);
            p.setCreateSchemaInfo(psvi);
            p.setCreateEntityReferenceNodes(false);
            p.setExitOnFirstFatalError(true);
            p.parse(src);
            DOMDocument* d = p.getDocument();
            if (d) dom_dump(d, r.d, cfg.ns);
            r.d.flush();
            if (d && psvi && d->getDocumentElement()) dom_types(d->getDocumentElement(), 0, extra);
        } else {
            std::unique_ptr<SAX2XMLReader> p(XMLReaderFactory::createXMLReader(XMLPlatformUtils::fgMemoryManager, pool));
            Sax2H h; h.r = &r; h.cfg = &cfg; h.nsmode = cfg.ns;
            PsviDump ph; ph.out = &extra;
            p->setFeature(XMLUni::fgSAX2CoreNameSpaces, isSchema);
            p->setFeature(XMLUni::fgSAX2CoreNameSpacePrefixes, false);
            p->setFeature(XMLUni::fgSAX2CoreValidation, true);
            p->setFeature(XMLUni::fgXercesDynamic, false);
            p->setFeature(XMLUni::fgXercesSchema, isSchema);
            p->setFeature(XMLUni::fgXercesSchemaFullChecking, false);
            p->setFeature(XMLUni::fgXercesUseCachedGrammarInParse, true);
            p->setContentHandler(&h); p->setDTDHandler(&h); p->setErrorHandler(&h); p->setLexicalHandler(&h); p->setDeclarationHandler(&h);
            if (psvi) ((SAX2XMLReaderImpl*)p.get())->setPSVIHandler(&ph);
            p->parse(src);
            r.d.flush();
        }
    }
    XV_CATCH_DOCUMENTED(r)
    V.text = join(r.d.lines);
    for (auto& l : extra) { V.text += l; V.text += '\n'; }
    normalise_error_order(r.errors);
    for (auto& e : r.errors) { V.text += "ERR|" + e + "\n"; }
    if (!r.exc.empty()) V.text += "EXC|" + r.exc + "\n";
    V.errs = r.errs + r.fatals;
    V.fatal = r.fatals > 0 || !r.exc.empty();
    V.valid = r.errs == 0 && r.fatals == 0 && r.exc.empty();
    return V;
}

// ------------------------------------------------------------------------------------------------ XSModel dump
struct KindCount { std::map<std::string, uint64_t> n; void add(const char* k, uint64_t c = 1) { n[k] += c; } };

struct XsDumper {
    std::set<const void*> open;   // cycle protection for inline expansion
    KindCount* kc = nullptr;
    int depth = 0;
    void cnt(const char* k) { if (kc) kc->add(k); }

    static std::string qn(const XMLCh* ns, const XMLCh* name) { return "{" + sx(ns) + "}" + sx(name); }
    static std::string strlist(StringList* l) {
        if (!l) return "~";
        std::string s = "[";
        for (XMLSize_t i = 0; i < l->size(); i++) { if (i) s += ","; s += sx(l->elementAt(i)); }
        return s + "]";
    }
    std::string ann(XSAnnotation* a) {
        if (!a) return "~";
        std::string s;
        int guard = 0;
        for (; a && guard < 1000; a = a->getNext(), guard++) {
            XMLFileLoc line = 0, col = 0;
            a->getLineCol(line, col);
            cnt("annotation");
            s += "<ann " + std::to_string((unsigned long)line) + ":" + std::to_string((unsigned long)col) + " sys=" + sx(a->getSystemId()) + " txt=" + sx(a->getAnnotationString()) + ">";
        }
        return s;
    }
    std::string annlist(XSAnnotationList* l) {
        if (!l) return "~";
        std::string s = "[";
        for (XMLSize_t i = 0; i < l->size(); i++) s += ann(l->elementAt(i));
        return s + "]";
    }
    std::string typeref(XSTypeDefinition* t) {
        if (!t) return "~";
        if (!t->getAnonymous()) return "ref" + qn(t->getNamespace(), t->getName());
        return type(t);
    }
    std::string wildcard(XSWildcard* w) {
        if (!w) return "~";
        cnt("wildcard");
        return "wild(c" + std::to_string((int)w->getConstraintType()) + " ns=" + strlist(w->getNsConstraintList()) + " pc" + std::to_string((int)w->getProcessContents()) + " ann=" + ann(w->getAnnotation()) + ")";
    }
    std::string attrdecl(XSAttributeDeclaration* a) {
        if (!a) return "~";
        cnt("attribute-declaration");
        std::string s = "attr(" + qn(a->getNamespace(), a->getName()) + " scope" + std::to_string((int)a->getScope());
        s += " type=" + typeref(a->getTypeDefinition());
        s += " vc" + std::to_string((int)a->getConstraintType()) + "=" + sx(a->getConstraintValue());
        s += a->getRequired() ? " req" : "";
        XSComplexTypeDefinition* en = a->getEnclosingCTDefinition();
        s += " encl=" + (en ? qn(en->getNamespace(), en->getName()) : std::string("~"));
        s += " ann=" + ann(a->getAnnotation()) + ")";
        return s;
    }
    std::string attruses(XSAttributeUseList* l) {
        if (!l) return "~";
        std::vector<std::string> v;
        for (XMLSize_t i = 0; i < l->size(); i++) {
            XSAttributeUse* u = l->elementAt(i);
            cnt("attribute-use");
            XSAttributeDeclaration* d = u->getAttrDeclaration();
            std::string s = std::string("use(") + (u->getRequired() ? "req" : "opt") + " vc" + std::to_string((int)u->getConstraintType()) + "=" + sx(u->getConstraintValue()) + " ";
            s += (d && d->getScope() == XSConstants::SCOPE_GLOBAL) ? "gref" + qn(d->getNamespace(), d->getName()) + " " + attrdecl(d) : attrdecl(d);
            v.push_back(s + ")");
        }
        std::sort(v.begin(), v.end());
        std::string s = "[";
        for (auto& x : v) s += x;
        return s + "]";
    }
    std::string idc(XSIDCDefinition* c) {
        if (!c) return "~";
        cnt(c->getCategory() == XSIDCDefinition::IC_KEY ? "idc-key" : c->getCategory() == XSIDCDefinition::IC_KEYREF ? "idc-keyref" : "idc-unique");
        std::string s = "idc(" + qn(c->getNamespace(), c->getName()) + " cat" + std::to_string((int)c->getCategory()) + " sel=" + sx(c->getSelectorStr()) + " fields=" + strlist(c->getFieldStrs());
        XSIDCDefinition* k = c->getRefKey();
        s += " refer=" + (k ? qn(k->getNamespace(), k->getName()) : std::string("~"));
        s += " ann=" + annlist(c->getAnnotations()) + ")";
        return s;
    }
    std::string elem(XSElementDeclaration* e, bool expandGlobal) {
        if (!e) return "~";
        if (e->getScope() == XSConstants::SCOPE_GLOBAL && !expandGlobal) return "eref" + qn(e->getNamespace(), e->getName());
        if (open.count(e)) return "ecycle" + qn(e->getNamespace(), e->getName());
        open.insert(e);
        cnt("element-declaration");
        std::string s = "elem(" + qn(e->getNamespace(), e->getName()) + " scope" + std::to_string((int)e->getScope());
        s += " type=" + typeref(e->getTypeDefinition());
        s += " vc" + std::to_string((int)e->getConstraintType()) + "=" + sx(e->getConstraintValue());
        s += std::string(e->getNillable() ? " nillable" : "") + (e->getAbstract() ? " abstract" : "");
        s += " sgx" + std::to_string((int)e->getSubstitutionGroupExclusions()) + " dis" + std::to_string((int)e->getDisallowedSubstitutions());
        XSElementDeclaration* sg = e->getSubstitutionGroupAffiliation();
        s += " sg=" + (sg ? qn(sg->getNamespace(), sg->getName()) : std::string("~"));
        if (sg) cnt("substitution-group-member");
        XSComplexTypeDefinition* en = e->getEnclosingCTDefinition();
        s += " encl=" + (en ? qn(en->getNamespace(), en->getName()) : std::string("~"));
        XSNamedMap<XSIDCDefinition>* ics = e->getIdentityConstraints();
        std::vector<std::string> v;
        for (XMLSize_t i = 0; ics && i < ics->getLength(); i++) v.push_back(idc(ics->item(i)));
        std::sort(v.begin(), v.end());
        s += " idcs=[";
        for (auto& x : v) s += x;
        s += "] ann=" + ann(e->getAnnotation()) + ")";
        open.erase(e);
        return s;
    }
    std::string particle(XSParticle* p) {
        if (!p) return "~";
        cnt("particle");
        std::string s = "p{" + std::to_string((unsigned long)p->getMinOccurs()) + "," + (p->getMaxOccursUnbounded() ? std::string("unb") : std::to_string((unsigned long)p->getMaxOccurs())) + "}";
        switch (p->getTermType()) {
        case XSParticle::TERM_ELEMENT: s += elem(p->getElementTerm(), false); break;
        case XSParticle::TERM_MODELGROUP: s += group(p->getModelGroupTerm()); break;
        case XSParticle::TERM_WILDCARD: s += wildcard(p->getWildcardTerm()); break;
        default: s += "empty"; cnt("particle-empty");
        }
        return s;
    }
    std::string group(XSModelGroup* g) {
        if (!g) return "~";
        if (open.count(g)) return "gcycle";
        open.insert(g);
        const char* k = g->getCompositor() == XSModelGroup::COMPOSITOR_SEQUENCE ? "seq" : g->getCompositor() == XSModelGroup::COMPOSITOR_CHOICE ? "choice" : "all";
        cnt(g->getCompositor() == XSModelGroup::COMPOSITOR_SEQUENCE ? "group-sequence" : g->getCompositor() == XSModelGroup::COMPOSITOR_CHOICE ? "group-choice" : "group-all");
        std::string s = std::string(k) + "(";
        XSParticleList* l = g->getParticles();
        for (XMLSize_t i = 0; l && i < l->size(); i++) { if (i) s += " "; s += particle(l->elementAt(i)); }
        s += " ann=" + ann(g->getAnnotation()) + ")";
        open.erase(g);
        return s;
    }
    std::string simple(XSSimpleTypeDefinition* t) {
        cnt(t->getVariety() == XSSimpleTypeDefinition::VARIETY_LIST ? "simple-list" : t->getVariety() == XSSimpleTypeDefinition::VARIETY_UNION ? "simple-union" : "simple-atomic");
        std::string s = "simple(" + qn(t->getNamespace(), t->getName()) + (t->getAnonymous() ? " anon" : "") + " var" + std::to_string((int)t->getVariety());
        XSTypeDefinition* b = t->getBaseType();
        s += " base=" + (b == (XSTypeDefinition*)t ? std::string("self") : typeref(b));
        XSSimpleTypeDefinition* pr = t->getPrimitiveType();
        s += " prim=" + (pr ? qn(pr->getNamespace(), pr->getName()) : std::string("~"));
        XSSimpleTypeDefinition* it = t->getItemType();
        s += " item=" + (it ? typeref(it) : std::string("~"));
        XSSimpleTypeDefinitionList* ml = t->getMemberTypes();
        s += " members=[";
        for (XMLSize_t i = 0; ml && i < ml->size(); i++) { if (i) s += ","; s += typeref(ml->elementAt(i)); }
        s += "] def" + std::to_string(t->getDefinedFacets()) + " fix" + std::to_string(t->getFixedFacets());
        s += " ord" + std::to_string((int)t->getOrdered()) + (t->getFinite() ? " finite" : "") + (t->getBounded() ? " bounded" : "") + (t->getNumeric() ? " numeric" : "");
        s += " final" + std::to_string((int)t->getFinal());
        XSFacetList* fl = t->getFacets();
        s += " facets=[";
        for (XMLSize_t i = 0; fl && i < fl->size(); i++) {
            XSFacet* f = fl->elementAt(i);
            cnt("facet");
            if (kc) kc->add(("facet-kind-" + std::to_string((int)f->getFacetKind())).c_str());
            s += "f" + std::to_string((int)f->getFacetKind()) + "=" + sx(f->getLexicalFacetValue()) + (f->isFixed() ? "/fixed" : "") + " ann=" + ann(f->getAnnotation()) + ";";
        }
        XSMultiValueFacetList* mf = t->getMultiValueFacets();
        s += "] mfacets=[";
        for (XMLSize_t i = 0; mf && i < mf->size(); i++) {
            XSMultiValueFacet* f = mf->elementAt(i);
            cnt("multivalue-facet");
            if (kc) kc->add(("facet-kind-" + std::to_string((int)f->getFacetKind())).c_str());
            s += "f" + std::to_string((int)f->getFacetKind()) + "=" + strlist(f->getLexicalFacetValues()) + (f->isFixed() ? "/fixed" : "") + " ann=" + annlist(f->getAnnotations()) + ";";
        }
        s += "] lexenum=" + strlist(t->getLexicalEnumeration()) + " lexpat=" + strlist(t->getLexicalPattern());
        static const int FK[] = {1, 2, 4, 16, 32, 64, 128, 256, 512, 1024};
        s += " lex=[";
        for (int k : FK) if (t->isDefinedFacet((XSSimpleTypeDefinition::FACET)k)) s += std::to_string(k) + ":" + sx(t->getLexicalFacetValue((XSSimpleTypeDefinition::FACET)k)) + ";";
        s += "] ann=" + annlist(t->getAnnotations()) + ")";
        return s;
    }
    std::string complex(XSComplexTypeDefinition* t) {
        cnt("complex-type");
        if (kc) kc->add(("complex-content-type-" + std::to_string((int)t->getContentType())).c_str());
        if (kc) kc->add(("complex-derivation-" + std::to_string((int)t->getDerivationMethod())).c_str());
        std::string s = "complex(" + qn(t->getNamespace(), t->getName()) + (t->getAnonymous() ? " anon" : "");
        XSTypeDefinition* b = t->getBaseType();
        s += " base=" + (b == (XSTypeDefinition*)t ? std::string("self") : (b && b->getAnonymous() ? std::string("anonbase") : typeref(b)));
        s += " der" + std::to_string((int)t->getDerivationMethod()) + (t->getAbstract() ? " abstract" : "");
        s += " final" + std::to_string((int)t->getFinal()) + " prohib" + std::to_string((int)t->getProhibitedSubstitutions());
        s += " ct" + std::to_string((int)t->getContentType());
        XSSimpleTypeDefinition* st = t->getSimpleType();
        s += " simple=" + (st ? typeref(st) : std::string("~"));
        s += " particle=" + particle(t->getParticle());
        s += " uses=" + attruses(t->getAttributeUses());
        s += " awild=" + wildcard(t->getAttributeWildcard());
        s += " ann=" + annlist(t->getAnnotations()) + ")";
        return s;
    }
    std::string type(XSTypeDefinition* t) {
        if (!t) return "~";
        if (open.count(t)) return "tcycle" + qn(t->getNamespace(), t->getName());
        if (depth > 40) return "tdeep";
        open.insert(t);
        depth++;
        std::string s = t->getTypeCategory() == XSTypeDefinition::SIMPLE_TYPE ? simple((XSSimpleTypeDefinition*)t) : complex((XSComplexTypeDefinition*)t);
        depth--;
        open.erase(t);
        return s;
    }

    // complete model: one block per global component, blocks sorted
    std::string model(XSModel* m) {
        if (!m) return "NOMODEL\n";
        std::vector<std::string> blocks;
        StringList* nss = m->getNamespaces();
        {
            std::vector<std::string> v;
            for (XMLSize_t i = 0; nss && i < nss->size(); i++) v.push_back(sx(nss->elementAt(i)));
            std::sort(v.begin(), v.end());
            std::string s = "namespaces";
            for (auto& x : v) s += " " + x;
            blocks.push_back(s);
        }
        XSNamespaceItemList* items = m->getNamespaceItems();
        for (XMLSize_t i = 0; items && i < items->size(); i++) {
            XSNamespaceItem* it = items->elementAt(i);
            const XMLCh* ns = it->getSchemaNamespace();
            bool s4s = XMLString::equals(ns, SchemaSymbols::fgURI_SCHEMAFORSCHEMA);
            std::string N = sx(ns);
            cnt("namespace-item");
            {
                std::string s = "nsitem " + N + " locs=";
                const StringList* dl = it->getDocumentLocations();
                std::vector<std::string> v;
                for (XMLSize_t k = 0; dl && k < dl->size(); k++) v.push_back(sx(dl->elementAt(k)));
                std::sort(v.begin(), v.end());
                for (auto& x : v) s += x + ",";
                s += " ann=" + annlist(it->getAnnotations());
                blocks.push_back(s);
            }
            if (s4s) continue;  // built-in types do not travel through the stream
            static const XSConstants::COMPONENT_TYPE CT[] = {XSConstants::ELEMENT_DECLARATION, XSConstants::ATTRIBUTE_DECLARATION, XSConstants::TYPE_DEFINITION,
                                                             XSConstants::ATTRIBUTE_GROUP_DEFINITION, XSConstants::MODEL_GROUP_DEFINITION, XSConstants::NOTATION_DECLARATION};
            for (auto ct : CT) {
                XSNamedMap<XSObject>* nm = it->getComponents(ct);
                for (XMLSize_t k = 0; nm && k < nm->getLength(); k++) {
                    XSObject* o = nm->item(k);
                    std::string s = "comp " + N + " ";
                    switch (ct) {
                    case XSConstants::ELEMENT_DECLARATION: s += "E " + elem((XSElementDeclaration*)o, true); break;
                    case XSConstants::ATTRIBUTE_DECLARATION: s += "A " + attrdecl((XSAttributeDeclaration*)o); break;
                    case XSConstants::TYPE_DEFINITION: s += "T " + type((XSTypeDefinition*)o); break;
                    case XSConstants::ATTRIBUTE_GROUP_DEFINITION: {
                        XSAttributeGroupDefinition* g = (XSAttributeGroupDefinition*)o;
                        cnt("attribute-group-definition");
                        s += "AG " + qn(g->getNamespace(), g->getName()) + " uses=" + attruses(g->getAttributeUses()) + " wild=" + wildcard(g->getAttributeWildcard()) + " ann=" + ann(g->getAnnotation());
                        break;
                    }
                    case XSConstants::MODEL_GROUP_DEFINITION: {
                        XSModelGroupDefinition* g = (XSModelGroupDefinition*)o;
                        cnt("model-group-definition");
                        s += "MG " + qn(g->getNamespace(), g->getName()) + " group=" + group(g->getModelGroup()) + " ann=" + ann(g->getAnnotation());
                        break;
                    }
                    default: {
                        XSNotationDeclaration* n = (XSNotationDeclaration*)o;
                        cnt("notation-declaration");
                        s += "N " + qn(n->getNamespace(), n->getName()) + " pub=" + sx(n->getPublicId()) + " sys=" + sx(n->getSystemId()) + " ann=" + ann(n->getAnnotation());
                    }
                    }
                    blocks.push_back(s);
                }
            }
        }
        {
            XSAnnotationList* al = m->getAnnotations();
            std::vector<std::string> v;
            for (XMLSize_t i = 0; al && i < al->size(); i++) v.push_back(ann(al->elementAt(i)));
            std::sort(v.begin(), v.end());
            std::string s = "model-annotations";
            for (auto& x : v) s += " " + x;
            blocks.push_back(s);
        }
        std::sort(blocks.begin(), blocks.end());
        std::string out;
        for (auto& b : blocks) { out += b; out += '\n'; }
        return out;
    }
};

// ------------------------------------------------------------------------------------------------ DTD grammar dump
inline std::string dtd_grammar_dump(DTDGrammar* g, KindCount* kc) {
    std::vector<std::string> blocks;
    {
        NameIdPoolEnumerator<DTDElementDecl> en = g->getElemEnumerator();
        while (en.hasMoreElements()) {
            DTDElementDecl& e = en.nextElement();
            if (kc) { kc->add("dtd-element"); kc->add(("dtd-model-type-" + std::to_string((int)e.getModelType())).c_str()); }
            std::string s = "ELEM " + sx(e.getFullName()) + " model" + std::to_string((int)e.getModelType()) + " reason" + std::to_string((int)e.getCreateReason()) +
                            " decl" + std::to_string((int)e.isDeclared()) + " ext" + std::to_string((int)e.isExternal()) + " cm=" + sx(e.getFormattedContentModel());
            std::vector<std::string> as;
            if (e.hasAttDefs()) {
                XMLAttDefList& l = e.getAttDefList();
                for (XMLSize_t i = 0; i < l.getAttDefCount(); i++) {
                    XMLAttDef& a = l.getAttDef(i);
                    if (kc) { kc->add("dtd-attdef"); kc->add(("dtd-att-type-" + std::to_string((int)a.getType())).c_str()); kc->add(("dtd-att-default-" + std::to_string((int)a.getDefaultType())).c_str()); }
                    as.push_back(" ATT(" + sx(a.getFullName()) + " t" + std::to_string((int)a.getType()) + " d" + std::to_string((int)a.getDefaultType()) + " v=" + sx(a.getValue()) + " enum=" + sx(a.getEnumeration()) +
                                 " ext" + std::to_string((int)a.isExternal()) + " reason" + std::to_string((int)a.getCreateReason()) + ")");
                }
            }
            std::sort(as.begin(), as.end());
            for (auto& a : as) s += a;
            blocks.push_back(s);
        }
    }
    {
        NameIdPoolEnumerator<DTDEntityDecl> en = g->getEntityEnumerator();
        while (en.hasMoreElements()) {
            DTDEntityDecl& e = en.nextElement();
            if (kc) kc->add(e.isUnparsed() ? "dtd-entity-unparsed" : e.isExternal() ? "dtd-entity-external" : "dtd-entity-internal");
            blocks.push_back("ENT " + sx(e.getName()) + " val=" + sx(e.getValue()) + " len" + std::to_string((unsigned long)e.getValueLen()) + " pub=" + sx(e.getPublicId()) + " sys=" + sx(e.getSystemId()) +
                             " base=" + sx(e.getBaseURI()) + " not=" + sx(e.getNotationName()) + " pe" + std::to_string((int)e.getIsParameter()) + " int" + std::to_string((int)e.getDeclaredInIntSubset()) +
                             " spec" + std::to_string((int)e.getIsSpecialChar()) + " ext" + std::to_string((int)e.isExternal()));
        }
    }
    {
        NameIdPoolEnumerator<XMLNotationDecl> en = g->getNotationEnumerator();
        while (en.hasMoreElements()) {
            XMLNotationDecl& n = en.nextElement();
            if (kc) kc->add("dtd-notation");
            blocks.push_back("NOT " + sx(n.getName()) + " pub=" + sx(n.getPublicId()) + " sys=" + sx(n.getSystemId()) + " base=" + sx(n.getBaseURI()));
        }
    }
    std::sort(blocks.begin(), blocks.end());
    std::string out = "DTDGRAMMAR key=" + sx(g->getGrammarDescription()->getGrammarKey()) + " validated" + std::to_string((int)g->getValidated()) + "\n";
    for (auto& b : blocks) { out += b; out += '\n'; }
    return out;
}

// dump of everything structural a pool holds: grammar keys, every DTD grammar, the XSModel
inline std::string pool_dump(XMLGrammarPoolImpl* p, KindCount* kc) {
    std::string out;
    std::vector<std::string> keys;
    std::vector<std::string> dtds;
    RefHashTableOfEnumerator<Grammar> en = p->getGrammarEnumerator();
    while (en.hasMoreElements()) {
        Grammar& g = en.nextElement();
        keys.push_back(sx(g.getGrammarDescription()->getGrammarKey()) + "/" + std::to_string((int)g.getGrammarType()) + "/tns=" + sx(g.getTargetNamespace()) + "/val" + std::to_string((int)g.getValidated()));
        if (g.getGrammarType() == Grammar::DTDGrammarType) dtds.push_back(dtd_grammar_dump((DTDGrammar*)&g, kc));
    }
    std::sort(keys.begin(), keys.end());
    std::sort(dtds.begin(), dtds.end());
    for (auto& k : keys) out += "GRAMMAR " + k + "\n";
    for (auto& d : dtds) out += d;
    bool changed = false;
    XSModel* m = p->getXSModel(changed);
    XsDumper d; d.kc = kc;
    out += d.model(m);
    return out;
}

// Element-declaration ids (XMLElementDecl::fId) are pool-local handles that RefHash3KeysIdPool::put reassigns in load order; they are the
// only field of a stream that legitimately changes between ser(A) and ser(deser(ser(A))).  Neutralise them (the pool is discarded afterwards).
inline void neutralise_element_ids(XMLGrammarPoolImpl* p) {
    RefHashTableOfEnumerator<Grammar> en = p->getGrammarEnumerator();
    while (en.hasMoreElements()) {
        Grammar& g = en.nextElement();
        if (g.getGrammarType() != Grammar::SchemaGrammarType) continue;
        SchemaGrammar* sg = (SchemaGrammar*)&g;
        RefHash3KeysIdPoolEnumerator<SchemaElementDecl> ee = sg->getElemEnumerator();
        while (ee.hasMoreElements()) ee.nextElement().setId(0);
        if (sg->getComplexTypeRegistry()) {
            RefHashTableOfEnumerator<ComplexTypeInfo> ce(sg->getComplexTypeRegistry(), false, XMLPlatformUtils::fgMemoryManager);
            while (ce.hasMoreElements()) { ComplexTypeInfo& ct = ce.nextElement(); for (XMLSize_t i = 0; i < ct.elementCount(); i++) ct.elementAt(i)->setId(0); }
        }
        if (sg->getGroupInfoRegistry()) {
            RefHashTableOfEnumerator<XercesGroupInfo> ge(sg->getGroupInfoRegistry(), false, XMLPlatformUtils::fgMemoryManager);
            while (ge.hasMoreElements()) { XercesGroupInfo& gi = ge.nextElement(); for (XMLSize_t i = 0; i < gi.elementCount(); i++) gi.elementAt(i)->setId(0); }
        }
    }
}

// multiset symmetric difference of the lines of two dumps: onlyA / onlyB
inline void line_symdiff(const std::string& a, const std::string& b, std::vector<std::string>& onlyA, std::vector<std::string>& onlyB) {
    auto split = [](const std::string& s) { std::vector<std::string> v; size_t i = 0; while (i < s.size()) { size_t j = s.find('\n', i); if (j == std::string::npos) j = s.size(); v.push_back(s.substr(i, j - i)); i = j + 1; } std::sort(v.begin(), v.end()); return v; };
    std::vector<std::string> x = split(a), y = split(b);
    std::set_difference(x.begin(), x.end(), y.begin(), y.end(), std::back_inserter(onlyA));
    std::set_difference(y.begin(), y.end(), x.begin(), x.end(), std::back_inserter(onlyB));
}

inline std::string first_diff(const std::string& a, const std::string& b) {
    size_t i = 0;
    while (i < a.size() && i < b.size() && a[i] == b[i]) i++;
    size_t s = i > 60 ? i - 60 : 0;
    return "@" + std::to_string(i) + " A=..." + a.substr(s, 160) + " B=..." + b.substr(s, 160);
}

}  // namespace c16
