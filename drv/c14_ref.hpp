// c14_ref.hpp - independent reference model for C14: a vector-of-children DOM tree with
// DOM Level 2 Traversal (NodeIterator incl. removal fix-up, TreeWalker) and DOM Level 2 Range
// (boundary-point fix-ups for insertion / removal / text edits, content operations).
// Written from the recommendation texts as restated in xercesc/dom/DOMRange.hpp,
// DOMNodeIterator.hpp, DOMTreeWalker.hpp, DOMNodeFilter.hpp.  No Xerces code is used here.
#pragma once
#include <algorithm>
#include <map>
#include <string>
#include <vector>

namespace c14 {

enum NType { T_DEAD = 0, T_ELEM = 1, T_TEXT = 3, T_DOC = 9, T_FRAG = 11 };
enum VKind { V_NI, V_TW, V_TAG, V_KIDS, V_ATTRS, V_ID, V_XP, V_RANGE };
enum { F_ACCEPT = 1, F_REJECT = 2, F_SKIP = 3 };

// operand tables shared with the driver
static const char* const STRS[] = {"XY", "Z", "PQR", "Q", ""};
static const char* const TAGS[] = {"a", "*"};
static const char* const ANAMES[] = {"id", "k"};
static const char* const AVALS[] = {"v", "w"};
static const unsigned SHOWS[] = {0x0000FFFFu, 0x1u, 0x4u};  // ALL, ELEMENT, TEXT

enum OpCode {
    K_MK_NI, K_MK_TW, K_MK_TAG, K_MK_KIDS, K_MK_ATTRS, K_MK_ID, K_MK_XP, K_MK_RANGE,
    K_APPEND, K_INSERT, K_REMOVE, K_REPLACE, K_NORMALIZE,
    K_INSDATA, K_DELDATA, K_REPDATA, K_SPLIT, K_SETVAL,
    K_SETATTR, K_RMATTR, K_SETIDATTR, K_MKEL, K_MKTEXT,
    K_NEXT, K_PREV, K_DETACH,
    K_TW_PARENT, K_TW_FIRST, K_TW_LAST, K_TW_NEXTSIB, K_TW_PREVSIB, K_TW_NEXT, K_TW_PREV, K_TW_SETCUR,
    K_LEN, K_ITEM, K_IDGET,
    K_R_SETSTART, K_R_SETEND, K_R_COLLAPSE, K_R_SELNODE, K_R_SELCONT, K_R_CMP, K_R_DELETE, K_R_EXTRACT, K_R_CLONE,
    K_R_INSERT, K_R_SURROUND, K_R_TOSTRING, K_R_CLONERANGE, K_R_DETACH, N_OPS
};
static const char* const OPNAME[N_OPS] = {
    "mkNI", "mkTW", "mkTagList", "mkChildNodes", "mkAttrMap", "mkIdLookup", "mkXPath", "mkRange",
    "appendChild", "insertBefore", "removeChild", "replaceChild", "normalize",
    "insertData", "deleteData", "replaceData", "splitText", "setNodeValue",
    "setAttribute", "removeAttribute", "setIdAttribute", "createElement", "createTextNode",
    "nextNode", "previousNode", "detach",
    "tw.parentNode", "tw.firstChild", "tw.lastChild", "tw.nextSibling", "tw.previousSibling", "tw.nextNode", "tw.previousNode", "tw.setCurrentNode",
    "getLength", "item", "getElementById",
    "rg.setStart", "rg.setEnd", "rg.collapse", "rg.selectNode", "rg.selectNodeContents", "rg.compareBoundaryPoints", "rg.deleteContents",
    "rg.extractContents", "rg.cloneContents", "rg.insertNode", "rg.surroundContents", "rg.toString", "rg.cloneRange", "rg.detach"};
static const int OPARITY[N_OPS] = {3, 3, 1, 1, 1, 0, 1, 1,
                                   2, 3, 1, 2, 1,
                                   3, 3, 4, 2, 2,
                                   3, 2, 2, 1, 1,
                                   1, 1, 1,
                                   1, 1, 1, 1, 1, 1, 1, 2,
                                   1, 2, 2,
                                   3, 3, 2, 2, 2, 3, 1, 1, 1,
                                   2, 2, 1, 1, 1};

struct VOp {
    int c = 0, a = 0, b = 0, d = 0, e = 0;
    std::string str() const {
        std::string s = OPNAME[c];
        s += '(';
        int v[4] = {a, b, d, e};
        for (int i = 0; i < OPARITY[c]; i++) { if (i) s += ','; s += std::to_string(v[i]); }
        s += ')';
        return s;
    }
};
inline bool parse_op(const std::string& s, VOp& o) {
    size_t p = s.find('(');
    if (p == std::string::npos) return false;
    std::string nm = s.substr(0, p);
    int c = -1;
    for (int i = 0; i < N_OPS; i++) if (nm == OPNAME[i]) c = i;
    if (c < 0) return false;
    o = VOp(); o.c = c;
    int v[4] = {0, 0, 0, 0}, k = 0;
    size_t i = p + 1;
    while (i < s.size() && s[i] != ')' && k < 4) {
        v[k++] = atoi(s.c_str() + i);
        while (i < s.size() && s[i] != ',' && s[i] != ')') i++;
        if (i < s.size() && s[i] == ',') i++;
    }
    o.a = v[0]; o.b = v[1]; o.d = v[2]; o.e = v[3];
    return true;
}
inline std::vector<VOp> parse_history(const std::string& h) {
    std::vector<VOp> r;
    size_t i = 0;
    while (i < h.size()) {
        size_t j = h.find(';', i);
        if (j == std::string::npos) j = h.size();
        VOp o;
        if (j > i && parse_op(h.substr(i, j - i), o)) r.push_back(o);
        i = j + 1;
    }
    return r;
}

// range presets of mkRange(p): start (node,offset) / end (node,offset) on the initial universe ids
struct Preset { int sc, so, ec, eo; };
static const Preset PRESETS[] = {{0, 0, 0, 0}, {3, 1, 3, 3}, {3, 3, 3, 4}, {3, 2, 4, 1}, {1, 0, 1, 2}, {2, 0, 1, 3}, {3, 2, 1, 2}, {1, 1, 4, 2}, {7, 0, 7, 1}};
static const int N_PRESETS = sizeof(PRESETS) / sizeof(PRESETS[0]);

struct RNode {
    int type = T_DEAD;
    std::string name, data;
    int parent = -1;
    std::vector<int> kids;
    std::map<std::string, std::pair<std::string, bool>> attrs;  // name -> (value, isId)
};
struct RView {
    int kind = 0;
    int root = -1, show = 0, filt = 0;      // NI / TW
    int ref = -1; bool before = true, virgin = true;  // NI position: before/after reference node
    bool detached = false;                   // NI / RANGE
    int cur = -1;                            // TW
    int tag = 0, node = -1;                  // TAG (tag index) / KIDS, ATTRS (node) / XP (expr index)
    int sc = 0, so = 0, ec = 0, eo = 0;      // RANGE
    std::vector<int> snap;                   // XP snapshot
};
struct Out {  // outcome of an operation
    int ex = 0;          // 0 none, 1 DOMException, 2 DOMRangeException, 4 DOMXPathException, 9 other
    int code = 0;
    std::string val;
    bool unspec = false;  // the recommendation does not determine the outcome: not compared
    bool same(const Out& o) const { return ex == o.ex && code == o.code && val == o.val; }
    std::string str() const { return ex ? ("exc" + std::to_string(ex) + ":" + std::to_string(code)) : val; }
};
struct Info {  // side information of RModel::apply
    int ret = -1;            // reference id of the node / fragment returned by the operation (-1 none)
    bool dropRet = false;    // returned fragment is compared structurally and then forgotten (cloneContents)
    std::vector<char> adoptRange;  // per view: boundary points not determined by the recommendation -> adopt implementation's
    std::vector<char> adoptCur;    // per view: walker result not determined (current node outside the root's subtree)
    bool skipped = false;    // operation not applicable in this state
    bool contentNonEmpty = false, rangeMoved = false;
    int iterFix = 0;
};

struct RModel {
    std::vector<RNode> n;
    std::vector<RView> v;
    int removals = 0;
    bool hitD1 = false, hitD2 = false, hitD3 = false, hitD4 = false, hitD5 = false;
    int created = 0;
    int iterFix = 0;
    bool hitD7 = false;
    std::vector<int> adoptHint;  // views whose range position after this op is not determined by the recommendation

    int add(int type, const std::string& name = "", const std::string& data = "") {
        RNode x; x.type = type; x.name = name; x.data = data;
        n.push_back(x);
        return (int)n.size() - 1;
    }
    void init_universe() {
        n.clear(); v.clear();
        add(T_DOC);                   // 0
        add(T_ELEM, "r");             // 1
        add(T_ELEM, "a");             // 2
        add(T_TEXT, "", "abcd");      // 3
        add(T_TEXT, "", "xy");        // 4
        add(T_ELEM, "b");             // 5
        add(T_ELEM, "a");             // 6  detached, same tag as node 2
        add(T_TEXT, "", "z");         // 7  child of 6
        raw_attach(0, 1); raw_attach(1, 2); raw_attach(2, 3); raw_attach(1, 4); raw_attach(1, 5); raw_attach(6, 7);
    }
    bool valid(int x) const { return x >= 0 && x < (int)n.size() && n[x].type != T_DEAD; }
    bool isText(int x) const { return n[x].type == T_TEXT; }
    int len(int x) const { return isText(x) ? (int)n[x].data.size() : (int)n[x].kids.size(); }
    int par(int x) const { return n[x].parent; }
    int idx(int x) const {
        int p = n[x].parent;
        if (p < 0) return -1;
        for (size_t i = 0; i < n[p].kids.size(); i++) if (n[p].kids[i] == x) return (int)i;
        return -1;
    }
    bool anc(int a, int b) const {  // a is an inclusive ancestor of b
        for (; b >= 0; b = n[b].parent) if (a == b) return true;
        return false;
    }
    int rootOf(int x) const { while (n[x].parent >= 0) x = n[x].parent; return x; }
    int firstKid(int x) const { return n[x].kids.empty() ? -1 : n[x].kids.front(); }
    int lastKid(int x) const { return n[x].kids.empty() ? -1 : n[x].kids.back(); }
    int nextSib(int x) const { int p = par(x); if (p < 0) return -1; int i = idx(x); return i + 1 < (int)n[p].kids.size() ? n[p].kids[i + 1] : -1; }
    int prevSib(int x) const { int p = par(x); if (p < 0) return -1; int i = idx(x); return i > 0 ? n[p].kids[i - 1] : -1; }
    int nextIn(int x, int root, bool descend) const {  // document order successor inside root's subtree
        if (descend && !n[x].kids.empty()) return n[x].kids.front();
        while (x >= 0 && x != root) {
            int s = nextSib(x);
            if (s >= 0) return s;
            x = par(x);
        }
        return -1;
    }
    int prevIn(int x, int root) const {
        if (x == root) return -1;
        int s = prevSib(x);
        if (s < 0) return par(x);
        while (!n[s].kids.empty()) s = n[s].kids.back();
        return s;
    }
    void raw_attach(int p, int c, int at = -1) {
        if (at < 0 || at > (int)n[p].kids.size()) at = (int)n[p].kids.size();
        n[p].kids.insert(n[p].kids.begin() + at, c);
        n[c].parent = p;
    }
    void raw_detach(int c) {
        int p = n[c].parent;
        if (p < 0) return;
        auto& k = n[p].kids;
        k.erase(std::find(k.begin(), k.end(), c));
        n[c].parent = -1;
    }
    void kill(int x) {  // forget a subtree that only the reference created (cloneContents result)
        for (int k : n[x].kids) kill(k);
        n[x].type = T_DEAD; n[x].kids.clear(); n[x].parent = -1;
    }

    // ---------------------------------------------------------------- boundary-point order
    std::vector<int> pathOf(int c, int o) const {
        std::vector<int> p;
        for (int x = c; n[x].parent >= 0; x = n[x].parent) p.push_back(idx(x));
        std::reverse(p.begin(), p.end());
        p.push_back(o);
        return p;
    }
    int cmpPts(int c1, int o1, int c2, int o2) const {  // same root assumed
        if (c1 == c2) return o1 < o2 ? -1 : (o1 == o2 ? 0 : 1);
        std::vector<int> a = pathOf(c1, o1), b = pathOf(c2, o2);
        size_t m = std::min(a.size(), b.size());
        for (size_t i = 0; i < m; i++) {
            if (a[i] != b[i]) return a[i] < b[i] ? -1 : 1;
        }
        // one path is a prefix of the other: the shorter one is a point "before child k", the longer lies inside child k
        if (a.size() < b.size()) return -1;
        if (a.size() > b.size()) return 1;
        return 0;
    }

    // ---------------------------------------------------------------- live-view fix-ups (Range 2.12, Traversal 1.1.2)
    void pre_remove(int x) {  // x is about to be removed from its parent
        int p = n[x].parent, i = idx(x);
        removals++;
        for (auto& w : v) {
            if (w.kind == V_NI && !w.detached) {
                if (w.virgin) hitD2 = true;
                if (x != w.root && anc(w.root, x) && anc(x, w.ref)) {
                    iterFix++;
                    if (!w.before) {
                        w.ref = prevIn(x, w.root);
                    } else {
                        int nx = nextIn(x, w.root, false);
                        if (nx >= 0) w.ref = nx;
                        else { w.ref = prevIn(x, w.root); w.before = false; }
                    }
                }
            } else if (w.kind == V_RANGE && !w.detached) {
                if (anc(x, w.sc)) { w.sc = p; w.so = i; }
                else if (w.sc == p && w.so > i) w.so--;
                if (anc(x, w.ec)) { w.ec = p; w.eo = i; }
                else if (w.ec == p && w.eo > i) w.eo--;
            }
        }
    }
    void post_insert(int p, int i) {  // a node has been inserted as child i of p
        for (auto& w : v)
            if (w.kind == V_RANGE && !w.detached) {
                if (w.sc == p && w.so > i) w.so++;
                if (w.ec == p && w.eo > i) w.eo++;
            }
    }
    void detachNode(int x) { if (n[x].parent >= 0) { pre_remove(x); raw_detach(x); } }
    void insertAt(int p, int c, int i) { raw_attach(p, c, i); post_insert(p, i); }
    void textDelete(int x, int off, int cnt) {
        int L = (int)n[x].data.size();
        if (cnt > L - off) cnt = L - off;
        n[x].data.erase(off, cnt);
        for (auto& w : v)
            if (w.kind == V_RANGE && !w.detached) {
                if (w.sc == x) { if (w.so > off + cnt) w.so -= cnt; else if (w.so > off) w.so = off; }
                if (w.ec == x) { if (w.eo > off + cnt) w.eo -= cnt; else if (w.eo > off) w.eo = off; }
            }
    }
    void textInsert(int x, int off, const std::string& s) {
        n[x].data.insert(off, s);
        int L = (int)s.size();
        for (auto& w : v)
            if (w.kind == V_RANGE && !w.detached) {
                if (w.sc == x && w.so > off) { if (L > 0) hitD1 = true; w.so += L; }
                if (w.ec == x && w.eo > off) w.eo += L;
            }
    }
    int splitText(int x, int off) {
        int m = add(T_TEXT, "", n[x].data.substr(off));
        int p = n[x].parent;
        if (p >= 0) {
            // A boundary point exactly between the Text node and its next sibling: the generic insertion rule (2.12.1) leaves it
            // before the new node, later DOM editions move it behind the new node -> position not compared, invariants only.
            int i1 = idx(x) + 1;
            for (size_t vi = 0; vi < v.size(); vi++) {
                RView& w = v[vi];
                if (w.kind != V_RANGE || w.detached) continue;
                if ((w.sc == p && w.so == i1) || (w.ec == p && w.eo == i1)) adoptHint.push_back((int)vi);
                if (w.sc == x && w.so > off && w.ec == p && w.eo == i1) hitD7 = true;
            }
        }
        if (p >= 0) insertAt(p, m, idx(x) + 1);
        for (auto& w : v)
            if (w.kind == V_RANGE && !w.detached) {
                if (w.sc == x && w.so > off) { w.sc = m; w.so -= off; }
                if (w.ec == x && w.eo > off) { w.ec = m; w.eo -= off; }
            }
        n[x].data.erase(off);
        return m;
    }
    void insertBefore(int p, int c, int refc) {  // legality is the caller's business
        if (c == refc) return;
        if (n[c].type == T_FRAG) {
            while (!n[c].kids.empty()) insertBefore(p, n[c].kids.front(), refc);
            return;
        }
        detachNode(c);
        int i = refc < 0 ? (int)n[p].kids.size() : idx(refc);
        insertAt(p, c, i);
    }
    void normalize(int x) {
        size_t i = 0;
        while (i < n[x].kids.size()) {
            int k = n[x].kids[i];
            int nx = i + 1 < n[x].kids.size() ? n[x].kids[i + 1] : -1;
            if (nx >= 0 && isText(k) && isText(nx)) {
                n[k].data += n[nx].data;
                detachNode(nx);
                continue;
            }
            // DOM L2 Core, Node.normalize(): "... there are neither adjacent Text nodes nor empty Text nodes"
            if (isText(k) && n[k].data.empty()) { detachNode(k); continue; }
            if (n[k].type == T_ELEM) normalize(k);
            i++;
        }
    }
    // structural legality used both by the alphabet and by insertNode / surroundContents
    bool legalInsert(int p, int c, int refc) const {
        if (!valid(p) || !valid(c)) return false;
        if (n[c].type == T_DOC) return false;
        if (anc(c, p)) return false;
        if (refc >= 0 && (!valid(refc) || n[refc].parent != p)) return false;
        if (n[p].type == T_TEXT) return false;
        if (n[p].type == T_DOC) {
            if (n[c].type != T_ELEM) return false;
            for (int k : n[p].kids) if (n[k].type == T_ELEM && k != c) return false;   // moving the document element within its document is legal
            return true;
        }
        if (n[c].type == T_FRAG && n[c].kids.empty()) return true;
        return true;
    }

    // ---------------------------------------------------------------- NodeIterator
    bool showBit(int show, int x) const { return (SHOWS[show] & (1u << (n[x].type - 1))) != 0; }
    int userFilter(int filt, int x) const {
        if (filt == 0) return F_ACCEPT;
        if (n[x].type == T_ELEM && n[x].name == "a") return filt == 1 ? F_REJECT : F_SKIP;
        return F_ACCEPT;
    }
    bool iterAccept(const RView& w, int x) const { return showBit(w.show, x) && userFilter(w.filt, x) == F_ACCEPT; }
    int iterNext(RView& w) {
        int node = w.ref; bool before = w.before;
        while (true) {
            if (!before) { node = nextIn(node, w.root, true); if (node < 0) return -1; }
            before = false;
            if (iterAccept(w, node)) { w.ref = node; w.before = false; w.virgin = false; return node; }
        }
    }
    int iterPrev(RView& w) {
        int node = w.ref; bool before = w.before;
        while (true) {
            if (before) { node = prevIn(node, w.root); if (node < 0) return -1; }
            before = true;
            if (iterAccept(w, node)) { w.ref = node; w.before = true; return node; }
        }
    }

    // ---------------------------------------------------------------- TreeWalker (logical view; whatToShow skip has precedence over the filter)
    int twFilter(const RView& w, int x) const { return showBit(w.show, x) ? userFilter(w.filt, x) : F_SKIP; }
    // The recommendation defines navigation relative to a current node that lies inside the root's subtree and not inside a
    // REJECTed subtree; for other positions (reachable only through setCurrentNode) the result is not compared.
    bool twWellPosed(const RView& w) const {
        if (!valid(w.cur) || !anc(w.root, w.cur)) return false;
        for (int x = w.cur; x != w.root; x = par(x)) if (x != w.cur && twFilter(w, x) == F_REJECT) return false;
        return true;
    }
    int twParent(RView& w) {
        int node = w.cur;
        while (node >= 0 && node != w.root) {
            node = par(node);
            if (node >= 0 && twFilter(w, node) == F_ACCEPT) { w.cur = node; return node; }
        }
        return -1;
    }
    int twChildren(RView& w, bool first) {
        int node = first ? firstKid(w.cur) : lastKid(w.cur);
        while (node >= 0) {
            int r = twFilter(w, node);
            if (r == F_ACCEPT) { w.cur = node; return node; }
            if (r == F_SKIP) {
                int c = first ? firstKid(node) : lastKid(node);
                if (c >= 0) { node = c; continue; }
            }
            while (node >= 0) {
                int s = first ? nextSib(node) : prevSib(node);
                if (s >= 0) { node = s; break; }
                int p = par(node);
                if (p < 0 || p == w.root || p == w.cur) return -1;
                node = p;
            }
        }
        return -1;
    }
    int twSiblings(RView& w, bool next) {
        int node = w.cur;
        if (node == w.root) return -1;
        while (true) {
            int s = next ? nextSib(node) : prevSib(node);
            while (s >= 0) {
                node = s;
                int r = twFilter(w, node);
                if (r == F_ACCEPT) { w.cur = node; return node; }
                s = next ? firstKid(node) : lastKid(node);
                if (r == F_REJECT || s < 0) s = next ? nextSib(node) : prevSib(node);
            }
            node = par(node);
            if (node < 0 || node == w.root) return -1;
            if (twFilter(w, node) == F_ACCEPT) return -1;
        }
    }
    int twPrev(RView& w) {
        int node = w.cur;
        while (node != w.root) {
            int s = prevSib(node);
            while (s >= 0) {
                node = s;
                int r = twFilter(w, node);
                while (r != F_REJECT && !n[node].kids.empty()) { node = lastKid(node); r = twFilter(w, node); }
                if (r == F_ACCEPT) { w.cur = node; return node; }
                s = prevSib(node);
            }
            if (node == w.root || par(node) < 0) return -1;
            node = par(node);
            if (twFilter(w, node) == F_ACCEPT) { w.cur = node; return node; }
        }
        return -1;
    }
    int twNext(RView& w) {
        int node = w.cur, r = F_ACCEPT;
        while (true) {
            while (r != F_REJECT && !n[node].kids.empty()) {
                node = firstKid(node);
                r = twFilter(w, node);
                if (r == F_ACCEPT) { w.cur = node; return node; }
            }
            int s = -1, t = node;
            while (t >= 0) {
                if (t == w.root) return -1;
                s = nextSib(t);
                if (s >= 0) { node = s; break; }
                t = par(t);
            }
            if (s < 0) return -1;
            r = twFilter(w, node);
            if (r == F_ACCEPT) { w.cur = node; return node; }
        }
    }

    // ---------------------------------------------------------------- lists
    std::vector<int> tagList(int tag) const {  // document.getElementsByTagName
        std::vector<int> r;
        std::string t = TAGS[tag];
        for (int x = nextIn(0, 0, true); x >= 0; x = nextIn(x, 0, true))
            if (n[x].type == T_ELEM && (t == "*" || n[x].name == t)) r.push_back(x);
        return r;
    }
    std::vector<int> xpathEval(int expr, int ctx) const {  // 0: ".//a" descendants named a; 1: "*" element children
        std::vector<int> r;
        if (expr == 1) { for (int k : n[ctx].kids) if (n[k].type == T_ELEM) r.push_back(k); return r; }
        for (int x = nextIn(ctx, ctx, true); x >= 0; x = nextIn(x, ctx, true))
            if (n[x].type == T_ELEM && n[x].name == "a") r.push_back(x);
        return r;
    }
    std::string attrDump(int el) const {
        std::string s;
        for (auto& kv : n[el].attrs) { s += kv.first + "=" + kv.second.first + (kv.second.second ? "*" : "") + " "; }
        return s;
    }
    // elements that carry an ID attribute with the given value: (all, those inside the document)
    void idCandidates(const std::string& val, std::vector<int>& all, std::vector<int>& inDoc) const {
        for (int x = 0; x < (int)n.size(); x++)
            if (n[x].type == T_ELEM)
                for (auto& kv : n[x].attrs)
                    if (kv.second.second && kv.second.first == val) { all.push_back(x); if (rootOf(x) == 0) inDoc.push_back(x); break; }
    }

    // ---------------------------------------------------------------- Range content operations (Range 2.7 - 2.9)
    enum { M_EXTRACT, M_CLONE, M_DELETE };
    int shallowClone(int x) { int c = add(n[x].type, n[x].name, n[x].data); n[c].attrs = n[x].attrs; return c; }
    int deepClone(int x) {
        int c = shallowClone(x);
        for (size_t i = 0; i < n[x].kids.size(); i++) { int k = deepClone(n[x].kids[i]); raw_attach(c, k); }
        return c;
    }
    int contents(int sc, int so, int ec, int eo, int mode) {
        int frag = mode == M_DELETE ? -1 : add(T_FRAG);
        if (sc == ec && so == eo) return frag;
        if (sc == ec && isText(sc)) {
            if (mode != M_DELETE) raw_attach(frag, add(T_TEXT, "", n[sc].data.substr(so, eo - so)));
            if (mode != M_CLONE) textDelete(sc, so, eo - so);
            return frag;
        }
        int common = sc;
        while (!anc(common, ec)) common = par(common);
        int fp = -1, lp = -1;
        if (!anc(sc, ec)) { fp = sc; while (par(fp) != common) fp = par(fp); }
        if (!anc(ec, sc)) { lp = ec; while (par(lp) != common) lp = par(lp); }
        int from = fp >= 0 ? idx(fp) + 1 : so, to = lp >= 0 ? idx(lp) : eo;
        std::vector<int> cont;
        for (int i = from; i < to && i < (int)n[common].kids.size(); i++) cont.push_back(n[common].kids[i]);
        if (fp >= 0) {
            if (isText(fp)) {
                if (mode != M_DELETE) raw_attach(frag, add(T_TEXT, "", n[sc].data.substr(so)));
                if (mode != M_CLONE) textDelete(sc, so, (int)n[sc].data.size() - so);
            } else {
                int cl = mode == M_DELETE ? -1 : shallowClone(fp);
                if (cl >= 0) raw_attach(frag, cl);
                int sub = contents(sc, so, fp, len(fp), mode);
                if (sub >= 0) { while (!n[sub].kids.empty()) { int k = n[sub].kids.front(); raw_detach(k); raw_attach(cl, k); } n[sub].type = T_DEAD; }
            }
        }
        for (int c : cont) {
            if (mode == M_CLONE) raw_attach(frag, deepClone(c));
            else { detachNode(c); if (mode == M_EXTRACT) raw_attach(frag, c); }
        }
        if (lp >= 0) {
            if (isText(lp)) {
                if (mode != M_DELETE) raw_attach(frag, add(T_TEXT, "", n[ec].data.substr(0, eo)));
                if (mode != M_CLONE) textDelete(ec, 0, eo);
            } else {
                int cl = mode == M_DELETE ? -1 : shallowClone(lp);
                if (cl >= 0) raw_attach(frag, cl);
                int sub = contents(lp, 0, ec, eo, mode);
                if (sub >= 0) { while (!n[sub].kids.empty()) { int k = n[sub].kids.front(); raw_detach(k); raw_attach(cl, k); } n[sub].type = T_DEAD; }
            }
        }
        return frag;
    }
    int rangeContents(RView& w, int mode) {
        int sc = w.sc, so = w.so, ec = w.ec, eo = w.eo;
        int nc = sc, no = so;
        if (!anc(sc, ec)) {
            int r = sc;
            while (par(r) >= 0 && !anc(par(r), ec)) r = par(r);
            nc = par(r); no = idx(r) + 1;
        }
        int frag = contents(sc, so, ec, eo, mode);
        if (mode != M_CLONE) { w.sc = w.ec = nc; w.so = w.eo = no; }
        return frag;
    }
    std::string rangeString(const RView& w) const {
        if (w.sc == w.ec) return isText(w.sc) ? n[w.sc].data.substr(w.so, w.eo - w.so) : textBetween(w);
        return textBetween(w);
    }
    std::string textBetween(const RView& w) const {  // concatenation of the text data inside the range, document order
        std::string s;
        int root = rootOf(w.sc);
        for (int x = root; x >= 0; x = nextIn(x, root, true)) {
            if (!isText(x)) continue;
            int L = (int)n[x].data.size();
            int lo = 0, hi = L;
            // a text node that is not a boundary container lies wholly before or wholly after each boundary point
            if (x == w.sc) lo = w.so; else if (cmpPts(x, 0, w.sc, w.so) < 0) continue;
            if (x == w.ec) hi = w.eo; else if (cmpPts(x, L, w.ec, w.eo) > 0) continue;
            if (hi > lo) s += n[x].data.substr(lo, hi - lo);
        }
        return s;
    }
    bool rangeRootIsDocOrFragment(const RView& w) const { int t = n[rootOf(w.sc)].type; return t == T_DOC || t == T_FRAG; }
    bool partiallySelectsNonText(const RView& w) const {
        for (int x = w.sc; x >= 0; x = par(x)) if (!anc(x, w.ec) && !isText(x)) return true;
        for (int x = w.ec; x >= 0; x = par(x)) if (!anc(x, w.sc) && !isText(x)) return true;
        return false;
    }
    void setStart(RView& w, int c, int o) {
        w.sc = c; w.so = o;
        if (rootOf(c) != rootOf(w.ec) || cmpPts(w.sc, w.so, w.ec, w.eo) > 0) { w.ec = c; w.eo = o; }
    }
    void setEnd(RView& w, int c, int o) {
        w.ec = c; w.eo = o;
        if (rootOf(c) != rootOf(w.sc) || cmpPts(w.sc, w.so, w.ec, w.eo) > 0) { w.sc = c; w.so = o; }
    }
    // insertNode per the header text: split a Text start container at the start offset, insert between the halves
    // returns false if the outcome is an exception (out filled)
    bool rangeInsertNode(RView& w, int x, Out& out, Info& inf) {
        if (n[x].type == T_DOC) { out.ex = 2; out.code = 112; return false; }
        if (anc(x, w.sc)) { out.ex = 1; out.code = 3; return false; }
        int parent, next;
        if (isText(w.sc)) {
            parent = par(w.sc);
            if (parent < 0) { out.unspec = true; inf.skipped = true; return false; }
            if (!legalInsert(parent, x, -1)) { out.unspec = true; inf.skipped = true; return false; }
            if (w.so > 0) splitText(w.sc, w.so);
            next = w.so == 0 ? w.sc : nextSib(w.sc);
        } else {
            parent = w.sc;
            next = w.so < (int)n[parent].kids.size() ? n[parent].kids[w.so] : -1;
            if (n[parent].type == T_DOC) {
                bool hasEl = false;
                for (int k : n[parent].kids) if (n[k].type == T_ELEM && k != x) hasEl = true;   // re-inserting the document element itself is a move
                if (n[x].type == T_FRAG) { out.unspec = true; inf.skipped = true; return false; }
                if (n[x].type != T_ELEM || hasEl) { out.ex = 1; out.code = 3; return false; }
            }
        }
        insertBefore(parent, x, next);
        return true;
    }
};

}  // namespace c14
