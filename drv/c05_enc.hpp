// c05_enc.hpp - the encodings under test for property C05, their reference encoders and reference parsers
// (shared by c05_xcode.cpp and c05_docs.cpp).
#pragma once
#include "c05_ref.hpp"
using namespace xv;
using namespace c05;

// =================================================================================================
// encodings under test
// =================================================================================================
enum RefKind { R_UTF8, R_UTF16LE, R_UTF16BE, R_UCS4LE, R_UCS4BE, R_ICU };
struct Enc {
    const char* xname;     // name handed to makeNewTranscoderFor
    RefKind kind;
    const char* icuname;   // reference converter for R_ICU
    bool intrinsic;        // implemented by Xerces itself (stateless contract: call-level checks apply)
    bool all_repr;         // every scalar value is representable
    int maxlen;            // longest byte sequence of one character
};
static const Enc ENCS[] = {
    {"UTF-8", R_UTF8, nullptr, true, true, 4},
    {"UTF-16LE", R_UTF16LE, nullptr, true, true, 4},
    {"UTF-16BE", R_UTF16BE, nullptr, true, true, 4},
    {"UCS-4LE", R_UCS4LE, nullptr, true, true, 4},
    {"UCS-4BE", R_UCS4BE, nullptr, true, true, 4},
    {"ISO-8859-1", R_ICU, "ISO-8859-1", true, false, 1},
    {"US-ASCII", R_ICU, "US-ASCII", true, false, 1},
    {"WINDOWS-1252", R_ICU, "windows-1252", true, false, 1},
    {"IBM037", R_ICU, "ibm-37", true, false, 1},
    {"IBM1047", R_ICU, "ibm-1047", true, false, 1},
    {"IBM1140", R_ICU, "ibm-1140", true, false, 1},
    // provided by the ICU transcoding service (Xerces' ICUTranscoder wrapper is what is under test)
    {"ISO-8859-2", R_ICU, "ISO-8859-2", false, false, 1},
    {"ISO-8859-15", R_ICU, "ISO-8859-15", false, false, 1},
    {"KOI8-R", R_ICU, "KOI8-R", false, false, 1},
    {"windows-1251", R_ICU, "windows-1251", false, false, 1},
    {"IBM500", R_ICU, "ibm-500", false, false, 1},
    {"Shift_JIS", R_ICU, "Shift_JIS", false, false, 2},
    {"EUC-JP", R_ICU, "EUC-JP", false, false, 3},
    {"GB2312", R_ICU, "GB2312", false, false, 2},
    {"Big5", R_ICU, "Big5", false, false, 2},
    {"EUC-KR", R_ICU, "EUC-KR", false, false, 2},
    {"GB18030", R_ICU, "GB18030", false, true, 4},
};
static const int NENC = sizeof(ENCS) / sizeof(ENCS[0]);
static IcuRef* g_icu[NENC];   // opened before fork, one per encoding (R_ICU only)
static IcuRef* g_icusub[NENC];  // same converter with ICU's default (substituting) callbacks, for the known-defect predicate only
static int enc_index(const std::string& n) { for (int i = 0; i < NENC; i++) if (n == ENCS[i].xname) return i; return -1; }
static std::vector<int> g_encsel;
static void select_encs(const Args& a) {
    std::string sel = a.str("encs", "all");
    for (int i = 0; i < NENC; i++) {
        bool take = sel == "all" || (sel == "intrinsic" && ENCS[i].intrinsic) || (sel == "icu" && !ENCS[i].intrinsic) || ("," + sel + ",").find(std::string(",") + ENCS[i].xname + ",") != std::string::npos;
        if (!take) continue;
        if (ENCS[i].kind == R_ICU) {
            g_icu[i] = new IcuRef();
            g_icusub[i] = new IcuRef(); g_icusub[i]->open(ENCS[i].icuname, true);
            if (!g_icu[i]->open(ENCS[i].icuname)) { fprintf(stderr, "reference converter %s unavailable\n", ENCS[i].icuname); exit(2); }
        }
        XMLTranscoder* t = make_tc(ENCS[i].xname);
        if (!t) { fprintf(stderr, "Xerces cannot make a transcoder for %s\n", ENCS[i].xname); exit(2); }
        delete t;
        g_encsel.push_back(i);
    }
}

// reference encoding of one scalar value; false = not representable
static bool ref_encode(int ei, uint32_t cp, Bytes& out) {
    switch (ENCS[ei].kind) {
    case R_UTF8: out = ref_utf8_encode(cp); return true;
    case R_UTF16LE: out = ref_utf16_encode(cp, false); return true;
    case R_UTF16BE: out = ref_utf16_encode(cp, true); return true;
    case R_UCS4LE: out = ref_utf32_encode(cp, false); return true;
    case R_UCS4BE: out = ref_utf32_encode(cp, true); return true;
    default: return g_icu[ei]->encode_cp(cp, out);
    }
}
static bool ref_encode_units(int ei, const U16& u, Bytes& out) {  // u well-formed
    out.clear();
    for (size_t i = 0; i < u.size(); i++) {
        uint32_t cp = u[i];
        if (cp >= 0xD800 && cp <= 0xDBFF && i + 1 < u.size()) { cp = 0x10000 + ((cp - 0xD800) << 10) + (u[i + 1] - 0xDC00); i++; }
        Bytes b;
        if (!ref_encode(ei, cp, b)) return false;
        out += b;
    }
    return true;
}

// generic reference parse of a byte string in encoding ei
static RefParse ref_parse(int ei, const uint8_t* s, size_t n) {
    const Enc& E = ENCS[ei];
    RefParse r;
    if (E.kind == R_UTF8) return ref_utf8_parse(s, n);
    if (E.kind == R_UTF16LE || E.kind == R_UTF16BE) {
        // XMLCh *is* the UTF-16 code unit: the transcoder level is a unit copy (pairing is checked by the scanner, see c05_docs)
        size_t i = 0;
        for (; i + 2 <= n; i += 2) {
            uint32_t u = E.kind == R_UTF16LE ? (s[i] | s[i + 1] << 8) : (s[i] << 8 | s[i + 1]);
            r.items.push_back(RefItem{u, 2, 1});
        }
        if (i < n) { r.term = RefParse::INCOMPLETE; r.term_pos = i; r.announced = 2; r.avail = n - i; }
        else { r.term = RefParse::END; r.term_pos = n; }
        return r;
    }
    if (E.kind == R_UCS4LE || E.kind == R_UCS4BE) {
        size_t i = 0;
        for (; i + 4 <= n; i += 4) {
            uint32_t v = E.kind == R_UCS4LE ? ((uint32_t)s[i] | (uint32_t)s[i + 1] << 8 | (uint32_t)s[i + 2] << 16 | (uint32_t)s[i + 3] << 24)
                                            : ((uint32_t)s[i] << 24 | (uint32_t)s[i + 1] << 16 | (uint32_t)s[i + 2] << 8 | (uint32_t)s[i + 3]);
            if (!is_scalar(v)) { r.term = RefParse::ILLFORMED; r.term_pos = i; r.announced = 4; r.avail = n - i; return r; }
            r.items.push_back(RefItem{v, 4, (uint8_t)(v >= 0x10000 ? 2 : 1)});
        }
        if (i < n) { r.term = RefParse::INCOMPLETE; r.term_pos = i; r.announced = 4; r.avail = n - i; }
        else { r.term = RefParse::END; r.term_pos = n; }
        return r;
    }
    UConverter* cnv = g_icu[ei]->cnv;
    ucnv_resetToUnicode(cnv);
    const char* p = (const char*)s; const char* lim = p + n;
    while (p < lim) {
        const char* q = p;
        UErrorCode e = U_ZERO_ERROR;
        UChar32 c = ucnv_getNextUChar(cnv, &q, lim, &e);
        if (e == U_INDEX_OUTOFBOUNDS_ERROR) break;
        if (e == U_TRUNCATED_CHAR_FOUND) { r.term = RefParse::INCOMPLETE; r.term_pos = p - (const char*)s; r.announced = E.maxlen; r.avail = lim - p; ucnv_resetToUnicode(cnv); return r; }
        if (U_FAILURE(e) || c < 0 || !is_scalar((uint32_t)c)) { r.term = RefParse::ILLFORMED; r.term_pos = p - (const char*)s; r.avail = lim - p; r.announced = 0; ucnv_resetToUnicode(cnv); return r; }
        r.items.push_back(RefItem{(uint32_t)c, (uint8_t)(q - p), (uint8_t)(c >= 0x10000 ? 2 : 1)});
        p = q;
    }
    r.term = RefParse::END; r.term_pos = n;
    return r;
}

static std::string encdesc(int ei) { return std::string(ENCS[ei].xname) + (ENCS[ei].intrinsic ? "" : "(icu)"); }

