// c10_ref.hpp - independent reference model for XML Schema 1.0 identity constraints (Structures 3.11.4 / 3.11.5):
//   * a tiny instance tree (built by the generator, never parsed),
//   * evaluation of the selector/field XPath subset (self, child, descendant-or-self, attribute; QName, '*', 'p:*' tests; unions),
//   * value-space keys for the simple types used (Datatypes 1.0: equality is identity in the value space of the primitive type),
//   * target node set, qualified node set, key-sequences, node tables with propagation to ancestors and conflict removal,
//     unique / key / keyref verdicts per constraint.
// Nothing in here looks at the library.
#pragma once
#include <algorithm>
#include <cmath>
#include <cstdint>
#include <cstdlib>
#include <cstring>
#include <map>
#include <set>
#include <string>
#include <vector>

namespace c10 {

enum TypeId { T_STRING = 0, T_TOKEN, T_INTEGER, T_DECIMAL, T_DATE, T_QNAME, T_BOOLEAN, T_FLOAT, T_MYINT, NTYPES, T_NONE = 99 };
static const char* const TYPE_XSD[NTYPES] = {"xs:string", "xs:token", "xs:integer", "xs:decimal", "xs:date", "xs:QName", "xs:boolean", "xs:float", "myInt"};
static const char* const TYPE_NAME[NTYPES] = {"string", "token", "integer", "decimal", "date", "QName", "boolean", "float", "myInt"};

// Interpretations of the places where Datatypes/Structures 1.0 leave the answer open.  A verdict is only claimed when it is
// the same under every combination that is relevant for the case.
struct Interp {
    bool nanEq = true;     // NaN = NaN (Datatypes 1.0 3.2.4: "NaN equals itself") vs IEEE
    bool zeroEq = true;    // float -0 = 0
    int nilMode = 0;       // a nilled field element: 0 = contributes a value equal only to other nilled fields, 1 = contributes nothing (field absent),
                           // 2 = contributes the empty string of its type
    bool keepConflicts = false;  // false: 3.11.5 conflict removal when child node tables are merged; true: first entry survives
    // knobs that reproduce *defects* of the library; never used to narrow a claim, only by the driver's KNOWN_DEFECTS list to recognise
    // the lists whose verdict depends on a defect that has already been reported
    bool kdFloatAsDouble = false;       // xs:float literals compared in double precision instead of being rounded to single precision
    bool kdEmptyNeedsSameType = false;  // two empty strings are equal only if their declared types are the very same type
    bool kdLastSiblingHostOnly = false; // of several sibling elements hosting the same key/unique only the last one's node table reaches the parent
    bool kdKeyrefNeedsTable = false;    // a keyref whose referenced key/unique has no node table in scope is an error even when the keyref selects nothing
    bool kdSharedFieldMayMatch = false; // a node selected by two active instances of one constraint (recursive host, descendant selector) with an
                                        // element field is reported as "field matches more than one value"
    int multiMode = 0;     // a target node one of whose fields matches several nodes (always a violation of clause 3): 0 = it is not in the qualified
                           // node set and contributes nothing to the node table (3.11.4), 1 = error recovery keeps one entry per matched value
};

typedef std::map<std::string, std::string> NsMap;  // prefix -> uri ("" = default namespace)

// ---------------------------------------------------------------------------------------------- lexical -> value-space key
inline bool is_xs_ws(char c) { return c == ' ' || c == '\t' || c == '\n' || c == '\r'; }
inline std::string ws_collapse(const std::string& s) {
    std::string o;
    bool pend = false;
    for (char c : s) {
        if (is_xs_ws(c)) { pend = !o.empty(); continue; }
        if (pend) { o += ' '; pend = false; }
        o += c;
    }
    return o;
}
inline bool all_digits(const std::string& s) {
    if (s.empty()) return false;
    for (char c : s) if (c < '0' || c > '9') return false;
    return true;
}
inline std::string strip_lead0(const std::string& s) { size_t i = 0; while (i + 1 < s.size() && s[i] == '0') i++; return s.substr(i); }

inline bool decimal_key(const std::string& lex, bool integerOnly, std::string& key) {
    std::string s = lex;
    bool neg = false;
    if (!s.empty() && (s[0] == '+' || s[0] == '-')) { neg = s[0] == '-'; s = s.substr(1); }
    std::string ip = s, fp;
    size_t dot = s.find('.');
    if (dot != std::string::npos) {
        if (integerOnly) return false;
        ip = s.substr(0, dot); fp = s.substr(dot + 1);
        if (ip.empty() && fp.empty()) return false;
        if (!ip.empty() && !all_digits(ip)) return false;
        if (!fp.empty() && !all_digits(fp)) return false;
    } else if (!all_digits(ip)) return false;
    if (ip.empty()) ip = "0";
    ip = strip_lead0(ip);
    while (!fp.empty() && fp.back() == '0') fp.pop_back();
    bool zero = ip == "0" && fp.empty();
    key = std::string("decimal:") + (neg && !zero ? "-" : "") + ip + (fp.empty() ? "" : "." + fp);
    return true;
}

inline int64_t days_from_civil(int64_t y, unsigned m, unsigned d) {  // proleptic Gregorian, days since 1970-01-01
    y -= m <= 2;
    const int64_t era = (y >= 0 ? y : y - 399) / 400;
    const unsigned yoe = (unsigned)(y - era * 400);
    const unsigned doy = (153 * (m + (m > 2 ? -3 : 9)) + 2) / 5 + d - 1;
    const unsigned doe = yoe * 365 + yoe / 4 - yoe / 100 + doy;
    return era * 146097 + (int64_t)doe - 719468;
}
inline bool date_key(const std::string& s, std::string& key) {
    // '-'? yyyy '-' mm '-' dd ( 'Z' | ('+'|'-') hh ':' mm )?
    size_t i = 0;
    bool neg = false;
    if (i < s.size() && s[i] == '-') { neg = true; i++; }
    size_t ys = i;
    while (i < s.size() && isdigit((unsigned char)s[i])) i++;
    if (i - ys < 4) return false;
    int64_t y = atoll(s.substr(ys, i - ys).c_str());
    if (neg) y = -y;
    if (y == 0) return false;
    auto two = [&](int& out) { if (i + 2 > s.size() || !isdigit((unsigned char)s[i]) || !isdigit((unsigned char)s[i + 1])) return false; out = (s[i] - '0') * 10 + (s[i + 1] - '0'); i += 2; return true; };
    int mo, d;
    if (i >= s.size() || s[i++] != '-' || !two(mo)) return false;
    if (i >= s.size() || s[i++] != '-' || !two(d)) return false;
    if (mo < 1 || mo > 12 || d < 1) return false;
    static const int ml[] = {31, 28, 31, 30, 31, 30, 31, 31, 30, 31, 30, 31};
    bool leap = (y % 4 == 0 && y % 100 != 0) || y % 400 == 0;
    if (d > ml[mo - 1] + (mo == 2 && leap ? 1 : 0)) return false;
    if (i == s.size()) { key = "date:local:" + std::to_string(y) + "-" + std::to_string(mo) + "-" + std::to_string(d); return true; }
    int tz = 0;
    if (s[i] == 'Z') { i++; }
    else if (s[i] == '+' || s[i] == '-') {
        bool tneg = s[i] == '-'; i++;
        int hh, mm;
        if (!two(hh) || i >= s.size() || s[i++] != ':' || !two(mm)) return false;
        if (hh > 14 || mm > 59 || (hh == 14 && mm != 0)) return false;
        tz = hh * 60 + mm;
        if (tneg) tz = -tz;
    } else return false;
    if (i != s.size()) return false;
    // a timezoned date is the one-day interval that starts at local midnight, i.e. at (midnight - tz) on the UTC time line
    int64_t start = days_from_civil(y, (unsigned)mo, (unsigned)d) * 1440 - tz;
    key = "date:utc:" + std::to_string(start);
    return true;
}
inline bool float_lexical_ok(const std::string& s) {
    size_t i = 0;
    if (i < s.size() && (s[i] == '+' || s[i] == '-')) i++;
    size_t d0 = i; while (i < s.size() && isdigit((unsigned char)s[i])) i++;
    size_t nint = i - d0, nfrac = 0;
    if (i < s.size() && s[i] == '.') { i++; size_t f0 = i; while (i < s.size() && isdigit((unsigned char)s[i])) i++; nfrac = i - f0; }
    if (nint + nfrac == 0) return false;
    if (i < s.size() && (s[i] == 'e' || s[i] == 'E')) {
        i++;
        if (i < s.size() && (s[i] == '+' || s[i] == '-')) i++;
        size_t e0 = i; while (i < s.size() && isdigit((unsigned char)s[i])) i++;
        if (i == e0) return false;
    }
    return i == s.size();
}

struct KeyCtx {
    Interp in;
    bool sawNaN = false, sawNegZero = false;
    int nanCounter = 0;
};

// value-space key of `lex` (character content / attribute value before schema whitespace processing) for type t.
// Two values are equal iff their keys are equal.  Returns false if lex is not a valid lexical form (generator bug).
inline bool value_key(TypeId t, const std::string& lex, const NsMap& ns, KeyCtx& kc, std::string& key) {
    switch (t) {
    case T_STRING: key = "string:" + lex; if (lex.empty() && kc.in.kdEmptyNeedsSameType) key = "empty-string"; return true;
    case T_TOKEN: key = "string:" + ws_collapse(lex); if (ws_collapse(lex).empty() && kc.in.kdEmptyNeedsSameType) key = "empty-token"; return true;
    case T_INTEGER: case T_MYINT: return decimal_key(ws_collapse(lex), true, key);
    case T_DECIMAL: return decimal_key(ws_collapse(lex), false, key);
    case T_DATE: return date_key(ws_collapse(lex), key);
    case T_BOOLEAN: {
        std::string s = ws_collapse(lex);
        if (s == "1" || s == "true") { key = "boolean:T"; return true; }
        if (s == "0" || s == "false") { key = "boolean:F"; return true; }
        return false;
    }
    case T_QNAME: {
        std::string s = ws_collapse(lex), pfx, local = s;
        size_t c = s.find(':');
        if (c != std::string::npos) { pfx = s.substr(0, c); local = s.substr(c + 1); }
        if (local.empty() || local.find(':') != std::string::npos) return false;
        auto it = ns.find(pfx);
        if (it == ns.end()) { if (!pfx.empty()) return false; key = "QName:{}" + local; return true; }
        key = "QName:{" + it->second + "}" + local;
        return true;
    }
    case T_FLOAT: {
        std::string s = ws_collapse(lex);
        if (s == "INF") { key = "float:+INF"; return true; }
        if (s == "-INF") { key = "float:-INF"; return true; }
        if (s == "NaN") {
            kc.sawNaN = true;
            key = kc.in.nanEq ? std::string("float:NaN") : "float:NaN#" + std::to_string(kc.nanCounter++);
            return true;
        }
        if (!float_lexical_ok(s)) return false;
        if (kc.in.kdFloatAsDouble) { double dd = strtod(s.c_str(), nullptr); if (dd != 0 && !std::isinf(dd)) { char b[48]; snprintf(b, sizeof b, "float:d%.17g", dd); key = b; return true; } }
        float f = strtof(s.c_str(), nullptr);   // nearest single-precision value (Datatypes 3.2.4)
        if (f == 0.0f) {
            if (std::signbit(f)) { kc.sawNegZero = true; key = kc.in.zeroEq ? "float:0" : "float:-0"; }
            else key = "float:0";
            return true;
        }
        if (std::isinf(f)) { key = f > 0 ? "float:+INF" : "float:-INF"; return true; }
        uint32_t bits; memcpy(&bits, &f, 4);
        char b[32]; snprintf(b, sizeof b, "float:%08x", bits);
        key = b;
        return true;
    }
    default: return false;
    }
}

// ---------------------------------------------------------------------------------------------- instance tree
struct Attr { std::string ns, local; TypeId type; std::string value; };
struct Elem {
    std::string ns, local;
    std::vector<Attr> attrs;          // xsi:* and xmlns are not modelled (no selector/field here can select them)
    std::vector<int> kids;
    int parent = -1;
    TypeId stype = T_NONE;            // type of the simple content; T_NONE: element-only complex content
    std::string text;                 // character content (after XML parsing, before schema whitespace processing)
    bool nil = false;                 // xsi:nil="true"
    bool nillableDecl = false;        // governing element declaration has nillable="true"
    const NsMap* nsmap = nullptr;     // in-scope namespaces (for QName values)
};
typedef std::vector<Elem> Tree;

// ---------------------------------------------------------------------------------------------- XPath subset
enum Axis { AX_SELF, AX_CHILD, AX_DESC_OR_SELF, AX_ATTR };
enum Test { TEST_NODE, TEST_NAME, TEST_ANY, TEST_NS };
struct Step { Axis axis; Test test; std::string ns, local; };
typedef std::vector<Step> Path;
struct XPathExpr { std::string text; std::vector<Path> paths; };   // union of paths; `text` goes into the schema, `paths` into the oracle

struct NodeRef { int elem; int attr; bool operator<(const NodeRef& o) const { return elem != o.elem ? elem < o.elem : attr < o.attr; } };

inline bool name_test(const Step& s, const std::string& ns, const std::string& local) {
    switch (s.test) {
    case TEST_NODE: case TEST_ANY: return true;
    case TEST_NS: return s.ns == ns;
    case TEST_NAME: return s.ns == ns && s.local == local;
    }
    return false;
}
typedef std::vector<NodeRef> NodeSet;   // sorted, duplicate-free
inline void desc_or_self(const Tree& T, int e, NodeSet& out) {
    out.push_back({e, -1});
    for (int k : T[e].kids) desc_or_self(T, k, out);
}
inline void norm_set(NodeSet& s) {
    std::sort(s.begin(), s.end());
    s.erase(std::unique(s.begin(), s.end(), [](const NodeRef& a, const NodeRef& b) { return a.elem == b.elem && a.attr == b.attr; }), s.end());
}
inline NodeSet eval_path(const Tree& T, const Path& p, int ctx) {
    NodeSet cur{{ctx, -1}};
    for (const Step& s : p) {
        NodeSet nxt;
        for (const NodeRef& n : cur) {
            if (n.attr >= 0) continue;   // attributes have no children/attributes; self::node() on an attribute is not generated
            switch (s.axis) {
            case AX_SELF: nxt.push_back(n); break;   // only self::node() is in the subset
            case AX_CHILD: for (int k : T[n.elem].kids) if (name_test(s, T[k].ns, T[k].local)) nxt.push_back({k, -1}); break;
            case AX_DESC_OR_SELF: desc_or_self(T, n.elem, nxt); break;
            case AX_ATTR: for (size_t a = 0; a < T[n.elem].attrs.size(); a++) if (name_test(s, T[n.elem].attrs[a].ns, T[n.elem].attrs[a].local)) nxt.push_back({n.elem, (int)a}); break;
            }
        }
        norm_set(nxt);
        cur.swap(nxt);
    }
    return cur;
}
inline NodeSet eval_xpath(const Tree& T, const XPathExpr& x, int ctx) {
    NodeSet out;
    for (auto& p : x.paths) { NodeSet s = eval_path(T, p, ctx); out.insert(out.end(), s.begin(), s.end()); }
    norm_set(out);
    return out;
}

// ---------------------------------------------------------------------------------------------- constraints
enum ICKind { IC_UNIQUE, IC_KEY, IC_KEYREF };
struct ICDef {
    ICKind kind;
    std::string name;
    std::string hostNs, hostLocal;   // element declaration carrying the definition
    XPathExpr selector;
    std::vector<XPathExpr> fields;
    int refer = -1;                  // index of the referenced key/unique
};

struct Verdict {
    std::vector<char> viol;          // per constraint: Identity-constraint Satisfied is violated for at least one host element
    std::vector<char> multi;         // ... at least once because a field evaluated to more than one node
    bool unsupported = false;        // a field selected an element without simple type: outside the claimed space
    bool badLexical = false;         // generator produced a value that is not in the lexical space (harness error)
    bool sawNaN = false, sawNegZero = false, sawNil = false;
    // non-vacuity: reasons
    uint64_t nDup = 0, nAbsent = 0, nPartial = 0, nNillable = 0, nNotFound = 0, nFound = 0, nMulti = 0, nQualified = 0, nTargets = 0, nPropagated = 0, nConflictRemoved = 0,
             nEqualDifferentLexical = 0;
    bool same(const Verdict& o) const { return viol == o.viol; }
    bool sameFull(const Verdict& o) const { return viol == o.viol && multi == o.multi; }
};

struct Oracle {
    const Tree& T;
    const std::vector<ICDef>& ics;
    KeyCtx kc;
    Verdict v;
    typedef std::vector<std::string> KS;
    struct Entry { KS ks; int node; std::string lex; };
    typedef std::map<int, std::vector<Entry>> Tables;   // constraint index -> node table (presence of the key = a binding exists)

    Oracle(const Tree& t, const std::vector<ICDef>& i, const Interp& in) : T(t), ics(i) {
        kc.in = in;
        v.viol.assign(ics.size(), 0);
        v.multi.assign(ics.size(), 0);
    }

    std::map<std::pair<int, int>, int> selectedBy;   // (constraint, target element) -> number of host instances selecting it
    void count_targets(int e) {
        for (size_t i = 0; i < ics.size(); i++)
            if (ics[i].hostNs == T[e].ns && ics[i].hostLocal == T[e].local)
                for (const NodeRef& t : eval_xpath(T, ics[i].selector, e)) if (t.attr < 0) selectedBy[{(int)i, t.elem}]++;
        for (int k : T[e].kids) count_targets(k);
    }
    static bool has_ks(const std::vector<Entry>& tab, const KS& ks) { for (auto& e : tab) if (e.ks == ks) return true; return false; }

    // value of one field node; false: contributes nothing (nilled under nilMode 1, complex element, bad lexical)
    bool node_value(const NodeRef& n, std::string& key, std::string& lex, bool& nillableMember) {
        TypeId ty; const NsMap* nsm;
        if (n.attr >= 0) { const Attr& a = T[n.elem].attrs[n.attr]; ty = a.type; lex = a.value; nsm = T[n.elem].nsmap; }
        else {
            const Elem& el = T[n.elem];
            if (el.stype == T_NONE) { v.unsupported = true; return false; }
            if (el.nillableDecl) nillableMember = true;
            if (el.nil) {
                v.sawNil = true;
                if (kc.in.nilMode == 1) return false;
                if (kc.in.nilMode == 0) { key = std::string("nil:") + (el.stype == T_TOKEN ? "string" : TYPE_NAME[el.stype]); lex = "\x02nil"; return true; }
                key = "string:"; lex = ""; return true;   // nilMode 2: the empty string
            }
            ty = el.stype; lex = el.text; nsm = el.nsmap;
        }
        if (!value_key(ty, lex, *nsm, kc, key)) { v.badLexical = true; return false; }
        return true;
    }

    // qualified node set of constraint i with host element e; reports clause-3 / key violations
    std::vector<Entry> qualified(int i, int e) {
        const ICDef& ic = ics[i];
        std::vector<Entry> q;
        NodeSet targets = eval_xpath(T, ic.selector, e);
        for (const NodeRef& t : targets) {
            if (t.attr >= 0) continue;   // a selector cannot select attributes (not generated)
            v.nTargets++;
            std::vector<std::vector<std::pair<std::string, std::string>>> alts;   // per field: (key, lexical) of every matched node
            bool complete = true, nillableMember = false, multi = false;
            size_t present = 0;
            for (auto& f : ic.fields) {
                NodeSet ns = eval_xpath(T, f, t.elem);
                std::vector<std::pair<std::string, std::string>> fa;
                for (const NodeRef& n : ns) {
                    std::string key, lex;
                    if (node_value(n, key, lex, nillableMember)) fa.push_back({key, lex});
                    if (kc.in.kdSharedFieldMayMatch && n.attr < 0 && selectedBy[{i, t.elem}] > 1) { v.viol[i] = 1; v.multi[i] = 1; }
                }
                if (ns.size() > 1) { v.viol[i] = 1; v.multi[i] = 1; v.nMulti++; multi = true; }   // clause 3
                if (fa.empty()) complete = false; else present++;
                alts.push_back(fa);
            }
            if (complete && !multi) {
                v.nQualified++;
                if (ic.kind == IC_KEY && nillableMember) { v.viol[i] = 1; v.nNillable++; }   // 4.2.3
                Entry en; en.node = t.elem;
                for (auto& fa : alts) { en.ks.push_back(fa[0].first); en.lex += "\x01" + fa[0].second; }
                q.push_back(en);
            } else if (complete && multi) {
                if (kc.in.multiMode == 1) {   // recovery: one entry per combination of matched values
                    std::vector<size_t> ix(alts.size(), 0);
                    while (true) {
                        Entry en; en.node = t.elem;
                        for (size_t j = 0; j < alts.size(); j++) { en.ks.push_back(alts[j][ix[j]].first); en.lex += "\x01" + alts[j][ix[j]].second; }
                        q.push_back(en);
                        size_t j = 0;
                        for (; j < ix.size(); j++) { if (++ix[j] < alts[j].size()) break; ix[j] = 0; }
                        if (j == ix.size()) break;
                    }
                }
            } else if (ic.kind == IC_KEY) {   // 4.2.1: the target node set and the qualified node set are equal
                v.viol[i] = 1;
                if (present == 0) v.nAbsent++; else v.nPartial++;
            }
        }
        if (ic.kind != IC_KEYREF) {   // 4.1 / 4.2.2: no two members of the qualified node set have equal key-sequences
            for (size_t a = 0; a < q.size(); a++) for (size_t b = a + 1; b < q.size(); b++)
                if (q[a].node != q[b].node && q[a].ks == q[b].ks) { v.viol[i] = 1; v.nDup++; if (q[a].lex != q[b].lex) v.nEqualDifferentLexical++; }
        }
        return q;
    }

    Tables visit(int e) {
        std::vector<Tables> childT;
        for (int k : T[e].kids) childT.push_back(visit(k));
        std::map<int, std::vector<Entry>> own;
        for (size_t i = 0; i < ics.size(); i++)
            if (ics[i].hostNs == T[e].ns && ics[i].hostLocal == T[e].local) own[(int)i] = qualified((int)i, e);
        Tables mine;
        for (size_t i = 0; i < ics.size(); i++) {
            if (ics[i].kind == IC_KEYREF) continue;
            std::vector<Entry> un;
            bool childBinding = false;
            for (size_t c = 0; c < childT.size(); c++) {
                auto it = childT[c].find((int)i);
                if (it == childT[c].end()) continue;
                childBinding = true;
                int kid = T[e].kids[c];
                bool kidIsHost = T[kid].ns == ics[i].hostNs && T[kid].local == ics[i].hostLocal;
                if (kc.in.kdLastSiblingHostOnly && kidIsHost) {
                    bool later = false;
                    for (size_t c2 = c + 1; c2 < childT.size(); c2++) { int k2 = T[e].kids[c2]; if (T[k2].ns == ics[i].hostNs && T[k2].local == ics[i].hostLocal) later = true; }
                    if (later) continue;
                }
                un.insert(un.end(), it->second.begin(), it->second.end());
            }
            bool hosted = own.count((int)i) != 0;
            if (!hosted && !childBinding) continue;
            std::vector<Entry> res;
            if (hosted) res = own[(int)i];
            std::vector<Entry> ownOnly = res;
            for (size_t a = 0; a < un.size(); a++) {
                if (has_ks(ownOnly, un[a].ks)) continue;          // an entry of the element itself wins
                bool conflict = false, earlier = false;
                for (size_t b = 0; b < un.size(); b++) if (b != a && un[b].node != un[a].node && un[b].ks == un[a].ks) { conflict = true; if (b < a) earlier = true; }
                if (conflict) {
                    if (!kc.in.keepConflicts) { v.nConflictRemoved++; continue; }
                    if (earlier) continue;
                }
                bool dupNode = false;   // the same node reaching us through several paths is one entry
                for (auto& r : res) if (r.node == un[a].node && r.ks == un[a].ks) dupNode = true;
                if (dupNode) continue;
                res.push_back(un[a]);
                v.nPropagated++;
            }
            mine[(int)i] = res;
        }
        for (auto& kv : own) {
            const ICDef& ic = ics[kv.first];
            if (ic.kind != IC_KEYREF) continue;
            auto tab = mine.find(ic.refer);
            if (kc.in.kdKeyrefNeedsTable && tab == mine.end()) v.viol[kv.first] = 1;
            for (auto& en : kv.second) {
                bool found = tab != mine.end() && has_ks(tab->second, en.ks);
                if (found) v.nFound++; else { v.viol[kv.first] = 1; v.nNotFound++; }
            }
        }
        return mine;
    }
    const Verdict& run(int root) {
        if (kc.in.kdSharedFieldMayMatch) count_targets(root);
        visit(root);
        v.sawNaN = kc.sawNaN; v.sawNegZero = kc.sawNegZero;
        return v;
    }
};

// verdict with the claim mask: claim[i] is false when the verdict of constraint i depends on an open interpretation
struct Claimed {
    Verdict v;                 // under the default interpretation
    std::vector<char> claim;
    bool anyUnclaimed = false;
};
inline Claimed judge(const Tree& T, const std::vector<ICDef>& ics, int root, bool conflictsOpen) {
    Claimed c;
    Interp base;
    { Oracle o(T, ics, base); c.v = o.run(root); }
    c.claim.assign(ics.size(), 1);
    std::vector<Interp> alts;
    std::vector<int> nil = {0}; if (c.v.sawNil) nil = {0, 1, 2};
    std::vector<int> nan = {1}; if (c.v.sawNaN) nan = {1, 0};
    std::vector<int> zer = {1}; if (c.v.sawNegZero) zer = {1, 0};
    // duplicates inside one violated key/unique reach the ancestors as "conflicting" entries: what a keyref of an ancestor may still find then is
    // error recovery, not claimed (the violation of the key/unique itself is)
    bool keyViolated = false;
    for (size_t i = 0; i < ics.size(); i++) if (ics[i].kind != IC_KEYREF && c.v.viol[i]) keyViolated = true;
    std::vector<int> cf = {0}; if ((conflictsOpen || keyViolated) && c.v.nConflictRemoved) cf = {0, 1};
    std::vector<int> mm = {0}; if (c.v.nMulti) mm = {0, 1};
    for (int a : nil) for (int b : nan) for (int z : zer) for (int k : cf) for (int m : mm) {
        if (a == 0 && b == 1 && z == 1 && k == 0 && m == 0) continue;
        Interp in; in.nilMode = a; in.nanEq = b; in.zeroEq = z; in.keepConflicts = k; in.multiMode = m;
        Oracle o(T, ics, in);
        const Verdict& v2 = o.run(root);
        for (size_t i = 0; i < ics.size(); i++) if (v2.viol[i] != c.v.viol[i]) { c.claim[i] = 0; c.anyUnclaimed = true; }
    }
    return c;
}

}  // namespace c10
