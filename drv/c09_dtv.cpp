// c09_dtv.cpp - batch driver for property C09 (XML Schema datatypes).
//
// One process executes a whole *case file* (one case per line) against the real library and writes one
// result line per case.  The reference oracle and the enumeration live in xv/c09.py; this program only
// exposes what Xerces-C answers:
//
//   --schema FILE   XSD document declaring one global element  e<tid>  per type under test (built-in or derived)
//   --types  FILE   "<tid>\t<xsd built-in name or ->" per line: which XSValue::DataType (if any) mirrors type <tid>
//   --in FILE --out FILE [--skip N]   one batch: case file / result file (lines before N are skipped: restart after a crash)
//   --serve --out DIAGFILE            persistent mode used by xv/c09.py: the schema is loaded once, then commands
//                                     "RUN\t<in>\t<out>\t<skip>\t<guards 0|1>" are read from stdin and answered with "DONE"
//
// Case lines (tab separated, strings escaped as ASCII with \uXXXX for every UTF-16 unit outside 0x21..0x7e and '\\'):
//   V <tid> <lex>            DatatypeValidator::validate / getCanonicalRepresentation (+ XSValue validate / canonical /
//                            actual value when the type is a built-in, + Base64/HexBin decode for the binary types)
//   C <tid> <a> <b>          DatatypeValidator::compare(a,b)
//   P <tid> <scn> <raw>...   one schema-validated parse of <r><e<tid>>raw</e<tid>>...</r> (one element per line,
//                            scanner IG|SG); answers one 0/1 flag per value (1 = no validation error on its line)
// Result lines:
//   V <dv> <dvcan> [<xsval> <xscan> <xsact> [<decoded>]]
//   C <int>|!<exception>
//   P <flags> <errors-outside-values>
//   S <line> <message>       schema load diagnostics (before any case result)
//
// The process never catches sanitizer aborts: when it dies, xv/c09.py attributes the crash to the first case without a
// result line, records it as a violation and restarts behind it (--skip).
#include "xv_xml.hpp"

#include <xercesc/framework/psvi/XSValue.hpp>
#include <xercesc/util/Base64.hpp>
#include <xercesc/util/HexBin.hpp>
#include <xercesc/validators/datatype/DatatypeValidator.hpp>
#include <xercesc/validators/schema/SchemaElementDecl.hpp>
#include <xercesc/validators/schema/SchemaGrammar.hpp>

using namespace xv;

// KNOWN_DEFECTS: library calls that would abort the process and are therefore skipped (result field "K:<name>", counted by
// xv/c09.py).  Empty: the two heap overflows found by this check (negative-year xs:date canonical form, canonical form of the
// empty list) were repaired in /repo (a0c4de1) and are exercised like every other case again.
static const char* KNOWN_DEFECTS[] = {nullptr};
static bool g_guards = true;
static const char* known_defect(DatatypeValidator*, int, const std::vector<XMLCh>&) {
    return (g_guards && KNOWN_DEFECTS[0]) ? KNOWN_DEFECTS[0] : nullptr;
}

// ---------------------------------------------------------------- string coding
static std::vector<XMLCh> unesc(const std::string& s) {
    std::vector<XMLCh> v;
    for (size_t i = 0; i < s.size(); i++) {
        if (s[i] == '\\' && i + 5 < s.size() + 0 && s[i + 1] == 'u') {
            v.push_back((XMLCh)strtoul(s.substr(i + 2, 4).c_str(), nullptr, 16));
            i += 5;
        } else
            v.push_back((XMLCh)(unsigned char)s[i]);
    }
    v.push_back(0);
    return v;
}
static std::string esc(const XMLCh* s) {
    if (!s) return "~";
    std::string o;
    for (; *s; s++) {
        unsigned c = *s;
        if (c > 0x20 && c < 0x7f && c != '\\' && c != '~') o += (char)c;
        else { char b[8]; snprintf(b, sizeof b, "\\u%04X", c); o += b; }
    }
    return o;
}
static std::vector<std::string> split(const std::string& l) {
    std::vector<std::string> f;
    size_t i = 0;
    while (true) {
        size_t j = l.find('\t', i);
        if (j == std::string::npos) { f.push_back(l.substr(i)); break; }
        f.push_back(l.substr(i, j - i));
        i = j + 1;
    }
    return f;
}
static std::string xml_text(const std::vector<XMLCh>& v) {  // element content, ASCII only, everything else as char refs
    std::string o;
    for (size_t i = 0; i + 1 < v.size(); i++) {
        unsigned c = v[i];
        if (c >= 0xD800 && c < 0xDC00 && i + 2 < v.size() && v[i + 1] >= 0xDC00 && v[i + 1] < 0xE000) {
            c = 0x10000 + ((c - 0xD800) << 10) + (v[i + 1] - 0xDC00);
            i++;
        }
        if (c > 0x20 && c < 0x7f && c != '<' && c != '&' && c != '>') o += (char)c;
        else if (c == 0x20) o += ' ';
        else { char b[16]; snprintf(b, sizeof b, "&#x%X;", c); o += b; }
    }
    return o;
}

// ---------------------------------------------------------------- types
struct TypeEnt {
    DatatypeValidator* dv = nullptr;
    int xs = -1;  // XSValue::DataType or -1
};
static std::map<int, TypeEnt> g_types;

static std::string exc_str(const XMLException& e) {
    return esc(e.getType()) + ":" + std::to_string((int)e.getCode());
}

struct ErrCollect : public HandlerBase {
    std::vector<std::pair<unsigned long, std::string>> errs;  // line, message
    int fatals = 0;
    void add(const SAXParseException& e, const char* sev) {
        errs.push_back({(unsigned long)e.getLineNumber(), std::string(sev) + ":" + esc16(e.getMessage())});
    }
    void warning(const SAXParseException& e) override { add(e, "W"); }
    void error(const SAXParseException& e) override { add(e, "E"); }
    void fatalError(const SAXParseException& e) override { fatals++; add(e, "F"); }
    void resetErrors() override {}
};

static std::string read_file(const std::string& p) {
    std::string s;
    FILE* f = fopen(p.c_str(), "rb");
    if (!f) { perror(p.c_str()); exit(2); }
    char buf[65536];
    size_t n;
    while ((n = fread(buf, 1, sizeof buf, f)) > 0) s.append(buf, n);
    fclose(f);
    return s;
}

static SAXParser* make_parser(const char* scanner, XMLGrammarPool* pool, ErrCollect* eh) {
    SAXParser* p = new SAXParser(0, XMLPlatformUtils::fgMemoryManager, pool);
    p->useScanner(X16(scanner).p());
    p->setValidationScheme(SAXParser::Val_Always);
    p->setDoNamespaces(true);
    p->setDoSchema(true);
    p->setValidationSchemaFullChecking(true);
    p->setExitOnFirstFatalError(true);
    p->setValidationConstraintFatal(false);
    p->useCachedGrammarInParse(true);
    p->setErrorHandler(eh);
    return p;
}

// ---------------------------------------------------------------- XSValue rendering
static std::string render_actual(XSValue* v, int dt) {
    char b[256];
    auto& d = v->fData.fValue;
    switch (dt) {
    case XSValue::dt_boolean: return d.f_bool ? "b:1" : "b:0";
    case XSValue::dt_decimal: snprintf(b, sizeof b, "d:%.17g", d.f_decimal.f_dvalue); return b;
    case XSValue::dt_float: snprintf(b, sizeof b, "f:%d:%.9g", (int)d.f_floatType.f_floatEnum, (double)d.f_floatType.f_float); return b;
    case XSValue::dt_double: snprintf(b, sizeof b, "g:%d:%.17g", (int)d.f_doubleType.f_doubleEnum, d.f_doubleType.f_double); return b;
    case XSValue::dt_integer: case XSValue::dt_nonPositiveInteger: case XSValue::dt_negativeInteger: case XSValue::dt_long:
        snprintf(b, sizeof b, "i:%lld", (long long)d.f_long); return b;
    case XSValue::dt_nonNegativeInteger: case XSValue::dt_positiveInteger: case XSValue::dt_unsignedLong:
        snprintf(b, sizeof b, "i:%llu", (unsigned long long)d.f_ulong); return b;
    case XSValue::dt_int: snprintf(b, sizeof b, "i:%d", (int)d.f_int); return b;
    case XSValue::dt_short: snprintf(b, sizeof b, "i:%d", (int)d.f_short); return b;
    case XSValue::dt_byte: snprintf(b, sizeof b, "i:%d", (int)d.f_char); return b;
    case XSValue::dt_unsignedInt: snprintf(b, sizeof b, "i:%u", (unsigned)d.f_uint); return b;
    case XSValue::dt_unsignedShort: snprintf(b, sizeof b, "i:%u", (unsigned)d.f_ushort); return b;
    case XSValue::dt_unsignedByte: snprintf(b, sizeof b, "i:%u", (unsigned)d.f_uchar); return b;
    case XSValue::dt_duration: case XSValue::dt_dateTime: case XSValue::dt_time: case XSValue::dt_date: case XSValue::dt_gYearMonth:
    case XSValue::dt_gYear: case XSValue::dt_gMonthDay: case XSValue::dt_gDay: case XSValue::dt_gMonth:
        snprintf(b, sizeof b, "t:%d:%d:%d:%d:%d:%d:%.17g", d.f_datetime.f_year, d.f_datetime.f_month, d.f_datetime.f_day, d.f_datetime.f_hour,
                 d.f_datetime.f_min, d.f_datetime.f_second, d.f_datetime.f_milisec);
        return b;
    case XSValue::dt_hexBinary: case XSValue::dt_base64Binary: return "B";
    default: return "?";
    }
}

int main(int argc, char** argv) {
    (void)KNOWN_DEFECTS;
    Args a(argc, argv);
    std::string schemaPath = a.str("schema"), typesPath = a.str("types"), inPath = a.str("in"), outPath = a.str("out");
    long long skip = a.num("skip", 0);
    g_guards = !a.has("no-guards");
    if (schemaPath.empty() || (inPath.empty() && !a.has("serve")) || outPath.empty()) { fprintf(stderr, "usage: c09_dtv --schema F --types F --in F --out F [--skip N]\n"); return 2; }
    xml_init();
    MemoryManager* mm = XMLPlatformUtils::fgMemoryManager;
    FILE* out = fopen(outPath.c_str(), skip ? "a" : "w");
    if (!out) { perror("out"); return 2; }

    // ---- load the schema once into a grammar pool shared by the two parsers
    // each parser owns a pool and loads the schema itself; the validators under test are those of the IGXMLScanner parser's grammar
    ErrCollect eh;
    SAXParser* pIG = make_parser("IGXMLScanner", new XMLGrammarPoolImpl(mm), &eh);
    SAXParser* pSG = make_parser("SGXMLScanner", new XMLGrammarPoolImpl(mm), &eh);
    std::string xsd = read_file(schemaPath);
    g_vfs->put("/v/c09.xsd", xsd);
    SchemaGrammar* g = nullptr;
    for (SAXParser* p : {pSG, pIG}) {
        // SGXMLScanner only consults the cached grammars for a no-namespace root when a schema location is known
        p->setExternalNoNamespaceSchemaLocation(X16("/v/c09.xsd").p());
        eh.errs.clear();
        g = nullptr;
        try {
            MemBufInputSource src((const XMLByte*)xsd.data(), xsd.size(), X16("/v/c09.xsd").p(), false);
            g = (SchemaGrammar*)p->loadGrammar(src, Grammar::SchemaGrammarType, true);
        } catch (const XMLException& e) {
            fprintf(out, "S\t0\tEXC:%s\n", exc_str(e).c_str());
        } catch (...) { fprintf(out, "S\t0\tEXC:unknown\n"); }
        if (!g) break;
    }
    if (!skip)
        for (auto& e : eh.errs) fprintf(out, "S\t%lu\t%s\n", e.first, e.second.c_str());
    if (!g) { fprintf(out, "S\t0\tNOGRAMMAR\n"); fclose(out); return 4; }
    eh.errs.clear();

    std::map<std::string, DatatypeValidator*> byElem;
    {
        RefHash3KeysIdPoolEnumerator<SchemaElementDecl> en = g->getElemEnumerator();
        while (en.hasMoreElements()) {
            SchemaElementDecl& d = en.nextElement();
            byElem[narrow(d.getBaseName())] = d.getDatatypeValidator();
        }
    }
    {
        std::string t = read_file(typesPath);
        size_t i = 0;
        while (i < t.size()) {
            size_t j = t.find('\n', i);
            if (j == std::string::npos) j = t.size();
            std::vector<std::string> f = split(t.substr(i, j - i));
            i = j + 1;
            if (f.size() < 2) continue;
            int tid = atoi(f[0].c_str());
            TypeEnt te;
            auto it = byElem.find("e" + f[0]);
            te.dv = it == byElem.end() ? nullptr : it->second;
            if (f[1] != "-") {
                XSValue::DataType dt = XSValue::getDataType(X16(f[1]).p());
                te.xs = dt == XSValue::dt_MAXCOUNT ? -1 : (int)dt;
            }
            if (!te.dv && !skip) fprintf(out, "S\t0\tNODV:%d\n", tid);
            g_types[tid] = te;
        }
    }
    fflush(out);

    // one batch: case file -> result file (appended), starting behind `skip` lines
    auto run_batch = [&](const std::string& inP, FILE* out, long long skip) -> int {
    FILE* in = fopen(inP.c_str(), "r");
    if (!in) { perror("in"); return 2; }
    char* line = nullptr;
    size_t cap = 0;
    ssize_t n;
    long long lineno = 0, since = 0;
    while ((n = getline(&line, &cap, in)) > 0) {
        if (line[n - 1] == '\n') line[--n] = 0;
        if (lineno++ < skip) continue;
        std::vector<std::string> f = split(std::string(line, n));
        std::string res;
        if (f.size() < 2) { res = "?"; }
        else if (f[0] == "V" && f.size() >= 3) {
            TypeEnt& te = g_types[atoi(f[1].c_str())];
            std::vector<XMLCh> lex = unesc(f[2]);
            res = "V\t";
            if (!te.dv) res += "nodv\t~";
            else {
                bool dvok = false;
                try { te.dv->validate(lex.data(), 0, mm); res += "1"; dvok = true; }
                catch (const XMLException& e) { res += "0:" + exc_str(e); }
                catch (const OutOfMemoryException&) { res += "0:OOM"; }
                res += "\t";
                // canonical form only of literals the validator accepts (each rejected call costs an exception under ASan;
                // "no canonical form for an invalid literal" is exercised through XSValue below and through toValidate=true here)
                if (!dvok) res += "~";
                else if (const char* kd = known_defect(te.dv, te.xs, lex)) res += std::string("K:") + kd;
                else try {
                    const XMLCh* c = te.dv->getCanonicalRepresentation(lex.data(), mm, true);
                    res += esc(c);
                    if (c) mm->deallocate((void*)c);
                } catch (const XMLException& e) { res += "!" + exc_str(e); }
            }
            if (te.xs >= 0) {
                XSValue::DataType dt = (XSValue::DataType)te.xs;
                XSValue::Status st = XSValue::st_Init;
                bool ok = XSValue::validate(lex.data(), dt, st, XSValue::ver_10, mm);
                res += ok ? "\t1" : "\t0:" + std::to_string((int)st);
                st = XSValue::st_Init;
                if (!ok) res += "\t~:-1\t~:-1";   // not called: XSValue::validate already rejected the literal
                else {
                if (const char* kd = known_defect(te.dv, te.xs, lex)) res += std::string("\tK:") + kd;
                else {
                    XMLCh* c = XSValue::getCanonicalRepresentation(lex.data(), dt, st, XSValue::ver_10, true, mm);
                    res += "\t" + (c ? esc(c) : "~:" + std::to_string((int)st));
                    if (c) mm->deallocate(c);
                }
                st = XSValue::st_Init;
                XSValue* v = XSValue::getActualValue(lex.data(), dt, st, XSValue::ver_10, true, mm);
                res += "\t" + (v ? render_actual(v, te.xs) : "~:" + std::to_string((int)st));
                delete v;
                }
                if (dt == XSValue::dt_hexBinary) {
                    XMLByte* b = HexBin::decodeToXMLByte(lex.data(), mm);
                    if (!b) res += "\t~";
                    else {
                        int len = HexBin::getDataLength(lex.data());
                        res += "\t=" + hexs(std::string((const char*)b, len > 0 ? len : 0));
                        mm->deallocate(b);
                    }
                } else if (dt == XSValue::dt_base64Binary) {
                    XMLSize_t len = 0;
                    XMLByte* b = Base64::decodeToXMLByte(lex.data(), &len, mm, Base64::Conf_Schema);
                    if (!b) res += "\t~";
                    else { res += "\t=" + hexs(std::string((const char*)b, len)); mm->deallocate(b); }
                }
            }
        } else if (f[0] == "C" && f.size() >= 4) {
            TypeEnt& te = g_types[atoi(f[1].c_str())];
            std::vector<XMLCh> x = unesc(f[2]), y = unesc(f[3]);
            res = "C\t";
            if (!te.dv) res += "nodv";
            else {
                try { res += std::to_string(te.dv->compare(x.data(), y.data(), mm)); }
                catch (const XMLException& e) { res += "!" + exc_str(e); }
            }
        } else if (f[0] == "P" && f.size() >= 3) {
            std::string tid = f[1];
            SAXParser* p = f[2] == "SG" ? pSG : pIG;
            std::string doc = "<r xmlns:p=\"urn:p\" xmlns:xsi=\"http://www.w3.org/2001/XMLSchema-instance\">\n";
            size_t nv = f.size() - 3;
            for (size_t i = 0; i < nv; i++) doc += "<e" + tid + ">" + xml_text(unesc(f[3 + i])) + "</e" + tid + ">\n";
            doc += "</r>\n";
            eh.errs.clear(); eh.fatals = 0;
            std::string exc;
            try {
                MemBufInputSource src((const XMLByte*)doc.data(), doc.size(), X16("/v/doc.xml").p(), false);
                p->parse(src);
            } catch (const XMLException& e) { exc = "EXC:" + exc_str(e); }
            catch (const SAXException& e) { exc = "SAXEXC:" + esc16(e.getMessage()); }
            std::string flags(nv, '1');
            std::string other;
            for (auto& e : eh.errs) {
                if (e.first >= 2 && e.first < 2 + nv && e.second[0] != 'F') flags[e.first - 2] = '0';
                else if (other.size() < 300) other += (other.empty() ? "" : "|") + std::to_string(e.first) + ":" + e.second;
            }
            if (!exc.empty()) other += (other.empty() ? "" : "|") + exc;
            res = "P\t" + flags + "\t" + (other.empty() ? "-" : other);
            if (a.has("verbose")) for (auto& e : eh.errs) fprintf(stderr, "  line %lu: %s\n", e.first, e.second.c_str());
        } else res = "?";
        fputs(res.c_str(), out);
        fputc('\n', out);
        (void)since;
        fflush(out);   // one write per case: a dying process must leave exactly the finished cases behind (crash attribution)
    }
    free(line);
    fclose(in);
    return 0;
    };
    if (a.has("serve")) {
        // persistent mode (one schema load per worker): commands "RUN\t<in>\t<out>\t<skip>\t<guards 0|1>" on stdin, "DONE" on stdout
        fclose(out);
        char* cmd = nullptr;
        size_t ccap = 0;
        ssize_t cn;
        printf("READY\n");
        fflush(stdout);
        while ((cn = getline(&cmd, &ccap, stdin)) > 0) {
            if (cmd[cn - 1] == '\n') cmd[--cn] = 0;
            std::vector<std::string> f = split(std::string(cmd, cn));
            if (f.size() < 5 || f[0] != "RUN") break;
            g_guards = f[4] != "0";
            FILE* o = fopen(f[2].c_str(), "a");
            if (!o) { perror("out"); return 2; }
            int rc = run_batch(f[1], o, atoll(f[3].c_str()));
            fclose(o);
            printf(rc ? "FAIL\n" : "DONE\n");
            fflush(stdout);
        }
        fflush(nullptr);
        _exit(0);
    }
    int rc = run_batch(inPath, out, skip);
    fclose(out);
    fflush(nullptr);
    _exit(rc);  // no teardown: leak checking is off and XMLPlatformUtils::Terminate is not under test here
}
