// memx - C18: MemoryManager discipline and Initialize/Terminate lifecycle.
//   --space parse    : every document x API x every way a parse can end (success, fatal, exception from the k-th handler callback for EVERY k,
//                      progressive parse abandoned after EVERY parseNext) x object lifetimes, with a ledger MemoryManager given to the parser
//   --space initterm : all sequences up to a depth over {Initialize(default), Initialize(custom manager), Terminate, work} that are balanced
#include "xv_xml.hpp"
#include <xercesc/framework/XMLGrammarPoolImpl.hpp>
#include <unordered_map>
#include <xercesc/framework/XMLPScanToken.hpp>
#include <xercesc/util/regx/RegularExpression.hpp>
using namespace xv;

// ------------------------------------------------------------------------------------------ ledger
struct Ledger;
static std::unordered_map<void*, Ledger*> g_owner;   // every live block of every ledger
struct Ledger : public MemoryManager {
    std::string name;
    size_t live = 0, total = 0;
    std::vector<std::string> faults;
    explicit Ledger(const std::string& n) : name(n) {}
    MemoryManager* getExceptionMemoryManager() override { return this; }
    void* allocate(XMLSize_t size) override {
        void* p = malloc(size ? size : 1);
        g_owner[p] = this; live++; total++;
        return p;
    }
    void deallocate(void* p) override {
        if (!p) return;
        auto it = g_owner.find(p);
        if (it == g_owner.end()) { if (faults.size() < 5) faults.push_back("pointer not obtained from any manager, or already released, passed to manager '" + name + "'"); return; }
        if (it->second != this) { if (faults.size() < 5) faults.push_back("block of manager '" + it->second->name + "' returned to manager '" + name + "'"); it->second->live--; g_owner.erase(it); free(p); return; }
        g_owner.erase(it); live--;
        free(p);
    }
};
static Ledger* g_global = nullptr;

// ------------------------------------------------------------------------------------------ documents
struct MDoc { std::string name, bytes; };
static std::vector<MDoc> MDOCS;
static void put_files() {
    g_vfs->put("/v/e.dtd", "<!ELEMENT r (#PCDATA|c)*><!ELEMENT c EMPTY><!ATTLIST c d CDATA 'extdv' i ID #IMPLIED><!ENTITY e 'extev'><!ENTITY x SYSTEM 'x.ent'>");
    g_vfs->put("/v/x.ent", "<c/>xt");
    g_vfs->put("/v/bad.ent", "<?xml version=\"1.0\" enc\xE9oding=\"UTF-8\"?>t");
    g_vfs->put("/v/bad.dtd", "<?xml version=\"1.0\" enc\xE9oding=\"UTF-8\"?><!ELEMENT r ANY>");
    g_vfs->put("/v/a.xsd", "<xs:schema xmlns:xs='http://www.w3.org/2001/XMLSchema' targetNamespace='urn:a' xmlns='urn:a' elementFormDefault='qualified'><xs:element name='r'><xs:complexType><xs:sequence><xs:element name='c' type='xs:int' maxOccurs='2'/></xs:sequence><xs:attribute name='d' type='xs:string' default='adv'/></xs:complexType><xs:unique name='u'><xs:selector xpath='c'/><xs:field xpath='.'/></xs:unique></xs:element></xs:schema>");
}
static void init_docs(int k) {
    std::vector<std::string> tok = {"<a>", "</a>", "<a x='1' y='2'/>", "<a x='1' x='2'/>", "x&amp;", "&u;", "<!--c-->", "<?pi d?>", "<![CDATA[c]]>", "<", "\xC3", "<p:a xmlns:p='u'/>", "<!DOCTYPE a [<!ENTITY e 'v<b/>'><!ATTLIST a d CDATA 'dv'>]>", "&e;"};
    uint64_t n = words_upto(tok.size(), k);
    for (uint64_t i = 0; i < n; i++) { std::string d; for (int t : word_at(i, tok.size(), k)) d += tok[t]; MDOCS.push_back({"word", d}); }
    MDOCS.push_back({"dtd-valid", "<!DOCTYPE r [<!ELEMENT r (c*)><!ELEMENT c EMPTY><!ATTLIST c i ID #IMPLIED d CDATA 'dv'><!ENTITY e 'ev'>]><r><c i='x1'/><c i='x2'/></r>"});
    MDOCS.push_back({"dtd-invalid", "<!DOCTYPE r [<!ELEMENT r (c*)><!ELEMENT c EMPTY><!ATTLIST c i ID #IMPLIED>]><r><c i='x1'/><c i='x1'/><d/>t</r>"});
    MDOCS.push_back({"ext-dtd-entity", "<!DOCTYPE r SYSTEM 'e.dtd'><r><c/>&e;&x;</r>"});
    MDOCS.push_back({"missing-ext", "<!DOCTYPE r SYSTEM 'nope.dtd' [<!ENTITY y SYSTEM 'nope.ent'>]><r>&y;</r>"});
    MDOCS.push_back({"schema-valid", "<r xmlns='urn:a' xmlns:xsi='http://www.w3.org/2001/XMLSchema-instance' xsi:schemaLocation='urn:a a.xsd'><c>1</c><c>2</c></r>"});
    MDOCS.push_back({"schema-invalid", "<r xmlns='urn:a' xmlns:xsi='http://www.w3.org/2001/XMLSchema-instance' xsi:schemaLocation='urn:a a.xsd' q='1'><c>x</c><c>2</c><c>2</c></r>"});
    MDOCS.push_back({"attr-no-value", "<r><c a=></c></r>"});
    MDOCS.push_back({"deep", "<a><b><c><d><e>t</e></d></c></b></a>"});
    // entities whose XMLReader cannot even be constructed (declaration cannot be pre-decoded / truncated / bad text declaration)
    MDOCS.push_back({"xmldecl-non-ascii-byte", "<?xml version=\"1.0\" standalone=\"n\xE9\"?><a/>"});
    MDOCS.push_back({"xmldecl-utf16-truncated", std::string("\xFF\xFE<\0?\0x\0m\0l\0 \0v\0", 15)});
    MDOCS.push_back({"xmldecl-unknown-encoding", "<?xml version='1.0' encoding='x-no-such-encoding'?><a/>"});
    MDOCS.push_back({"ext-entity-bad-textdecl", "<!DOCTYPE r [<!ENTITY x SYSTEM 'bad.ent'>]><r>&x;</r>"});
    MDOCS.push_back({"ext-subset-bad-textdecl", "<!DOCTYPE r SYSTEM 'bad.dtd'><r/>"});
    // text nodes and attribute values that outgrow the DOM arena's sub-allocation limit (also under the non-default limits of --domheap) and keep
    // growing while they are parsed (character data continued by entity replacement text / CDATA sections are separate nodes, entity text is not)
    {
        const std::string E = "<!DOCTYPE r [<!ENTITY e '0123456789012345678901234567890123456789'>]>";
        std::string t3(3000, 'a'), t5(5000, 'b'), t40(40, 'c');
        MDOCS.push_back({"long-text-then-entity", E + "<r>" + t3 + "&e;</r>"});
        MDOCS.push_back({"long-text-entity-twice", E + "<r>" + t3 + "&e;" + t5 + "&e;&e;</r>"});
        MDOCS.push_back({"long-attribute-then-long-text", E + "<r a='" + t3 + "&e;'>" + t3 + "&e;<!--" + t5 + "-->" + t5 + "&e;</r>"});
        MDOCS.push_back({"two-long-texts-then-error", E + "<r><a>" + t3 + "&e;</a><b>" + t5 + "&e;&e;</b><c>" + t40 + "&e;</c></r><"});
        MDOCS.push_back({"short-texts-with-entities", E + "<r><a>" + t40 + "&e;</a><b x='" + t40 + "'>&e;" + t40 + "&e;</b></r>"});
    }
    MDOCS.push_back({"forced-unsupported-encoding", "\x01" "FORCE:x-no-such-encoding\x01<a/>"});
}

// ------------------------------------------------------------------------------------------ one scenario = (doc, api, lifetime) ; endings enumerated inside
struct CountCfg { Config cfg; };
static int g_plaincfg = 0;   // 1: no namespaces, no validation, no schema processing (the parsers' defaults) instead of everything switched on
static Config base_cfg(int api) { Config c; c.api = api; c.ns = !g_plaincfg; c.schema = !g_plaincfg; c.val = g_plaincfg ? 0 : 2; c.exitFirstFatal = true; return c; }

// runs one parse on a parser built on `mm`; ending: throwAt>0 => handler exception at that callback; pullSteps>=0 => progressive abandoned after that many parseNext
// returns number of handler callbacks seen (for enumeration of k) and number of parseNext steps possible
struct RunInfo { int callbacks = 0, steps = 0; std::string exc; int fatals = 0; };
static RunInfo one_run(int api, int lifetime, const std::string& bytes, int throwAt, int pullSteps, Ledger* mm, Ctx& c) {
    RunInfo info;
    ParseResult r;
    Config cfg = base_cfg(api == 3 ? (int)DOM : api); cfg.throwAt = throwAt;
    std::string body = bytes, forced;
    if (body.compare(0, 7, "\x01" "FORCE:") == 0) { size_t e = body.find('\x01', 1); forced = body.substr(7, e - 7); body = body.substr(e + 1); }
    MemBufInputSource src((const XMLByte*)body.data(), body.size(), X16("/v/doc.xml").p(), false, mm);
    if (!forced.empty()) src.setEncoding(X16(forced).p());
    const char* second = "<z>again</z>";
    MemBufInputSource src2((const XMLByte*)second, strlen(second), X16("/v/doc2.xml").p(), false, mm);
    try {
        if (api == 0) {
            SAXParser* p = new (mm) SAXParser(0, mm);
            Sax1H h; h.r = &r; h.cfg = &cfg;
            config_common(*p, cfg); p->setDocumentHandler(&h); p->setDTDHandler(&h); p->setErrorHandler(&h);
            try {
                if (pullSteps >= 0) { XMLPScanToken tok; if (p->parseFirst(src, tok)) { int n = 0; while (n < pullSteps && p->parseNext(tok)) n++; info.steps = n; if (n == pullSteps) p->parseReset(tok); } }
                else p->parse(src);
            } XV_CATCH_DOCUMENTED(r)
            if (lifetime == 1) { cfg.throwAt = 0; try { p->parse(src2); } XV_CATCH_DOCUMENTED(r) }
            delete p;
        } else if (api == 1) {
            SAX2XMLReaderImpl* p = new (mm) SAX2XMLReaderImpl(mm);
            Sax2H h; h.r = &r; h.cfg = &cfg; h.nsmode = true;
            if (!g_plaincfg) { p->setFeature(XMLUni::fgXercesSchema, true); p->setFeature(XMLUni::fgSAX2CoreValidation, true); p->setFeature(XMLUni::fgXercesDynamic, true); }
            else { p->setFeature(XMLUni::fgSAX2CoreValidation, false); p->setFeature(XMLUni::fgSAX2CoreNameSpaces, false); }
            p->setContentHandler(&h); p->setErrorHandler(&h); p->setLexicalHandler(&h); p->setDeclarationHandler(&h); p->setDTDHandler(&h);
            try {
                if (pullSteps >= 0) { XMLPScanToken tok; if (p->parseFirst(src, tok)) { int n = 0; while (n < pullSteps && p->parseNext(tok)) n++; info.steps = n; if (n == pullSteps) p->parseReset(tok); } }
                else p->parse(src);
            } XV_CATCH_DOCUMENTED(r)
            if (lifetime == 1) { cfg.throwAt = 0; try { p->parse(src2); } XV_CATCH_DOCUMENTED(r) }
            delete p;
        } else if (api == 2) {
            XercesDOMParser* p = new (mm) XercesDOMParser(0, mm);
            Sax1H h; h.r = &r; h.cfg = &cfg;   // error handler only: exceptions are thrown from error callbacks
            config_common(*p, cfg); p->setErrorHandler(&h);
            struct ThrowingErr : public Sax1H { void error(const SAXParseException& e) override { tick(); Sax1H::error(e); } void fatalError(const SAXParseException& e) override { tick(); Sax1H::fatalError(e); } void warning(const SAXParseException& e) override { tick(); Sax1H::warning(e); } } te;
            te.r = &r; te.cfg = &cfg; p->setErrorHandler(&te);
            DOMDocument* adopted = nullptr;
            try {
                if (pullSteps >= 0) { XMLPScanToken tok; if (p->parseFirst(src, tok)) { int n = 0; while (n < pullSteps && p->parseNext(tok)) n++; info.steps = n; if (n == pullSteps) p->parseReset(tok); } }
                else p->parse(src);
            } XV_CATCH_DOCUMENTED(r)
            if (lifetime == 2 && p->getDocument()) adopted = p->adoptDocument();
            if (lifetime == 1) { cfg.throwAt = 0; try { p->parse(src2); } XV_CATCH_DOCUMENTED(r) }
            if (lifetime == 3 && p->getDocument()) { adopted = p->adoptDocument(); adopted->release(); adopted = nullptr; try { p->parse(src2); } XV_CATCH_DOCUMENTED(r) }
            delete p;
            if (adopted) {   // the adopted document outlives its parser; use it, then release it
                if (adopted->getDocumentElement()) adopted->getDocumentElement()->setAttribute(X16("after").p(), X16("v").p());
                adopted->release();
            }
        } else {
            static const XMLCh ls[] = {'L', 'S', 0};
            DOMImplementationLS* impl = (DOMImplementationLS*)DOMImplementationRegistry::getDOMImplementation(ls);
            DOMLSParser* p = impl->createLSParser(DOMImplementationLS::MODE_SYNCHRONOUS, 0, mm);
            DomErrH eh; eh.r = &r; eh.cfg = &cfg;
            struct ThrowingDomErr : public DomErrH { bool handleError(const DOMError& e) override { tick(); return DomErrH::handleError(e); } } te;
            te.r = &r; te.cfg = &cfg;
            DOMConfiguration* dc = p->getDomConfig();
            if (!g_plaincfg) { dc->setParameter(XMLUni::fgDOMNamespaces, true); dc->setParameter(XMLUni::fgXercesSchema, true); dc->setParameter(XMLUni::fgDOMValidateIfSchema, true); }
            else { dc->setParameter(XMLUni::fgDOMNamespaces, false); dc->setParameter(XMLUni::fgDOMEntities, false); }
            dc->setParameter(XMLUni::fgDOMErrorHandler, &te);
            try { Wrapper4InputSource w(&src, false); p->parse(&w); } XV_CATCH_DOCUMENTED(r)
            if (lifetime == 1) { cfg.throwAt = 0; try { Wrapper4InputSource w(&src2, false); p->parse(&w); } XV_CATCH_DOCUMENTED(r) }
            p->release();
        }
    } XV_CATCH_DOCUMENTED(r)
    info.callbacks = r.callbacks; info.exc = r.exc; info.fatals = r.fatals;
    if (r.exc == "HarnessThrow") c.count("ended_by_handler_exception");
    else if (!r.exc.empty()) c.count("ended_by_library_exception");
    else if (r.fatals) c.count("ended_by_fatal_error");
    else c.count("ended_normally");
    if (r.exc.compare(0, 7, "FOREIGN") == 0) c.violation("foreign-exception", "\"exc\":" + jstr(r.exc));
    return info;
}

static const char* ApiN[] = {"SAXParser", "SAX2XMLReader", "XercesDOMParser", "DOMLSParser"};
static const char* LifeN[] = {"destroy parser", "reuse parser for a second parse, then destroy", "adoptDocument, destroy parser, use and release document", "adopt+release document, reuse parser, destroy"};
struct PCase { int doc, api, life; };
static PCase pcase(uint64_t idx) { PCase p; p.life = (int)(idx % 4); idx /= 4; p.api = (int)(idx % 4); idx /= 4; p.doc = (int)idx; return p; }

static void check_ledger(Ledger& mm, size_t globalLiveBefore, const std::string& what, const PCase& pc, Ctx& c) {
    for (auto& f : mm.faults) c.violation("manager-discipline", "\"fault\":" + jstr(f) + ",\"ending\":" + jstr(what) + ",\"api\":" + jstr(ApiN[pc.api]) + ",\"lifetime\":" + jstr(LifeN[pc.life]) + ",\"doc\":" + jstr(MDOCS[pc.doc].bytes));
    for (auto& f : g_global->faults) c.violation("manager-discipline", "\"fault\":" + jstr(f) + ",\"ending\":" + jstr(what) + ",\"api\":" + jstr(ApiN[pc.api]) + ",\"lifetime\":" + jstr(LifeN[pc.life]) + ",\"doc\":" + jstr(MDOCS[pc.doc].bytes));
    g_global->faults.clear();
    if (mm.live != 0)
        c.violation("outstanding-after-destruction", "\"blocks\":" + std::to_string(mm.live) + ",\"ending\":" + jstr(what) + ",\"api\":" + jstr(ApiN[pc.api]) + ",\"lifetime\":" + jstr(LifeN[pc.life]) + ",\"doc\":" + jstr(MDOCS[pc.doc].bytes));
    // free what leaked so that later cases are unaffected
    if (mm.live) { std::vector<void*> ps; for (auto& kv : g_owner) if (kv.second == &mm) ps.push_back(kv.first); for (void* p : ps) { g_owner.erase(p); free(p); } mm.live = 0; }
    (void)globalLiveBefore;
}

static void run_parse(uint64_t idx, Ctx& c) {
    PCase pc = pcase(idx);
    if ((pc.life >= 2 && pc.api != 2)) { c.count("skipped_lifetime_not_applicable"); return; }
    g_vfs->clear(); put_files();
    const std::string& bytes = MDOCS[pc.doc].bytes;
    // ending 0: plain
    RunInfo plain;
    { Ledger mm("parser"); size_t g0 = g_global->live; plain = one_run(pc.api, pc.life, bytes, 0, -1, &mm, c); c.count("allocations_through_ledger", mm.total); check_ledger(mm, g0, "run to completion", pc, c); }
    // the same scenario a second time must not grow the global manager's outstanding set (first run may legitimately warm lazily built tables)
    {
        Ledger mm("parser"); size_t g0 = g_global->live;
        one_run(pc.api, pc.life, bytes, 0, -1, &mm, c);
        check_ledger(mm, g0, "run to completion (repeat)", pc, c);
        if (g_global->live > g0)
            c.violation("global-manager-grows-per-parse", "\"blocks\":" + std::to_string(g_global->live - g0) + ",\"api\":" + jstr(ApiN[pc.api]) + ",\"lifetime\":" + jstr(LifeN[pc.life]) + ",\"doc\":" + jstr(bytes));
        c.count("global_growth_checks");
    }
    // exception from the k-th callback, every k
    for (int k = 1; k <= plain.callbacks; k++) {
        Ledger mm("parser"); size_t g0 = g_global->live;
        one_run(pc.api, pc.life, bytes, k, -1, &mm, c);
        check_ledger(mm, g0, "exception thrown from handler callback " + std::to_string(k), pc, c);
        c.count("endings");
    }
    // progressive parse abandoned after every parseNext
    if (pc.api <= 2) {
        for (int j = 0;; j++) {
            Ledger mm("parser"); size_t g0 = g_global->live;
            RunInfo ri = one_run(pc.api, pc.life, bytes, 0, j, &mm, c);
            check_ledger(mm, g0, "progressive parse abandoned after " + std::to_string(j) + " parseNext", pc, c);
            c.count("endings");
            if (ri.steps < j || j > 200) break;
        }
    }
    c.count("endings");
    if (idx % 499 == 0) c.sample("{\"doc\":" + jstr(bytes) + ",\"api\":" + jstr(ApiN[pc.api]) + ",\"lifetime\":" + jstr(LifeN[pc.life]) + ",\"callbacks\":" + std::to_string(plain.callbacks) + "}");
}

// ------------------------------------------------------------------------------------------ Initialize / Terminate sequences
// alphabet: 0 Init(default manager) 1 Init(custom ledger) 2 Terminate 3 work:parse 4 work:regex 5 work:transcode
static int g_itdepth = 5;
static int g_itheap = 0;   // 1: both Initialize operations pass non-default DOM arena parameters, and work item 5 also builds a DOM document with a long, growing text
static std::string work(int w) {
    std::string o;
    try {
        if (w == 3) {
            SAXParser p; Sax1H h; ParseResult r; Config cfg; h.r = &r; h.cfg = &cfg; p.setDocumentHandler(&h); p.setErrorHandler(&h);
            const char* d = "<!DOCTYPE a [<!ENTITY e 'v'>]><a x='1'>&e;<b></a>";
            MemBufInputSource s((const XMLByte*)d, strlen(d), X16("d.xml").p());
            p.parse(s); r.d.flush();
            o = join(r.d.lines); for (auto& e : r.errors) o += e + "\n";
        } else if (w == 4) {
            RegularExpression re(X16("\\p{Lu}[a-c]+\\d").p(), X16("X").p());
            o += re.matches(X16("Aab1").p()) ? "1" : "0"; o += re.matches(X16("aab1").p()) ? "1" : "0";
        } else {
            XMLCh* x = XMLString::transcode("h\xC3\xA9llo"); char* b = XMLString::transcode(x); o = b; XMLString::release(&x); XMLString::release(&b);
            DOMImplementation* impl = DOMImplementationRegistry::getDOMImplementation(X16("LS").p());
            o += impl ? "|LS" : "|null";
            if (g_itheap) {
                XercesDOMParser dp; dp.setCreateEntityReferenceNodes(false);
                std::string d = "<!DOCTYPE r [<!ENTITY e '0123456789012345678901234567890123456789'>]><r a='" + std::string(3000, 'x') + "'>" + std::string(3000, 'a') + "&e;" + std::string(5000, 'b') + "&e;</r>";
                MemBufInputSource s((const XMLByte*)d.data(), d.size(), X16("d.xml").p());
                dp.parse(s);
                DOMDocument* doc = dp.getDocument();
                o += "|" + std::to_string(doc && doc->getDocumentElement() ? XMLString::stringLen(doc->getDocumentElement()->getTextContent()) : 0);
                DOMDocument* own = dp.adoptDocument(); if (own) { own->getDocumentElement()->setAttribute(X16("k").p(), X16(std::string(4000, 'k')).p()); own->release(); }
            }
        }
    } catch (...) { o += "[exception]"; }
    return o;
}
static void run_initterm(uint64_t idx, Ctx& c) {
    std::vector<int> seq = word_at(idx, 6, g_itdepth);
    // validity: never Terminate/work at count 0; must end balanced; the first Initialize decides the manager (later ones only count)
    int cnt = 0; bool ok = !seq.empty();
    for (int s : seq) { if (s <= 1) cnt++; else if (s == 2) { if (cnt == 0) { ok = false; break; } cnt--; } else if (cnt == 0) { ok = false; break; } }
    if (!ok || cnt != 0) { c.count("sequences_not_balanced_skipped"); return; }
    Ledger custom("custom-global");
    std::map<int, std::string> first;
    int level = 0; bool customActive = false; std::string s;
    for (int op : seq) {
        s += std::to_string(op);
        if (op == 0) { if (g_itheap) XMLPlatformUtils::Initialize(0x10000, 0x80000, 0x1000, XMLUni::fgXercescDefaultLocale); else XMLPlatformUtils::Initialize(); level++; }
        else if (op == 1) {
            if (level == 0) customActive = true;
            if (g_itheap) XMLPlatformUtils::Initialize(0x200, 0x400, 0x20, XMLUni::fgXercescDefaultLocale, 0, 0, &custom); else XMLPlatformUtils::Initialize(XMLUni::fgXercescDefaultLocale, 0, 0, &custom);
            level++;
        }
        else if (op == 2) {
            XMLPlatformUtils::Terminate(); level--;
            if (level == 0) {
                if (customActive) {
                    for (auto& f : custom.faults) c.violation("manager-discipline", "\"fault\":" + jstr(f) + ",\"sequence\":" + jstr(s));
                    if (custom.live) c.violation("outstanding-after-terminate", "\"blocks\":" + std::to_string(custom.live) + ",\"sequence\":" + jstr(s));
                    c.count("terminate_with_custom_manager_checked");
                    if (custom.live) { std::vector<void*> ps; for (auto& kv : g_owner) if (kv.second == &custom) ps.push_back(kv.first); for (void* p : ps) { g_owner.erase(p); free(p); } custom.live = 0; }
                    custom.faults.clear();
                }
                customActive = false;
            }
        } else {
            std::string r = work(op);
            c.count("work_items");
            if (!first.count(op)) first[op] = r;
            else if (first[op] != r) c.violation("reinitialised-library-behaves-differently", "\"sequence\":" + jstr(s) + ",\"expected\":" + jstr(first[op]) + ",\"observed\":" + jstr(r));
            static std::map<int, std::string> global_first;   // across sequences in this worker: must also be identical
            if (!global_first.count(op)) global_first[op] = r;
            else if (global_first[op] != r) c.violation("reinitialised-library-behaves-differently", "\"sequence\":" + jstr(s) + ",\"expected\":" + jstr(global_first[op]) + ",\"observed\":" + jstr(r));
        }
    }
    c.count("sequences_balanced");
    if (idx % 211 == 0) c.sample("{\"sequence\":" + jstr(s) + "}");
}

// ------------------------------------------------------------------------------------------ grammar pool histories
// One ledger manager is given to an XMLGrammarPoolImpl and to the parser(s) created on it.  Every history of <= depth operations from the
// alphabet below is executed, then the parsers and finally the pool are destroyed: nothing may be outstanding, no foreign / double release.
static const char* POOLOPN[] = {"loadGrammar(dtd,cache)", "loadGrammar(dtd,nocache)", "loadGrammar(xsdA,cache)", "loadGrammar(xsdA2 same namespace,cache)",
                                "loadGrammar(xsdA,nocache)", "parse(valid schema doc, use cached)", "parse(dtd doc, cacheGrammarFromParse)", "lockPool", "unlockPool",
                                "resetCachedGrammarPool", "second parser on the same pool", "parse(malformed)", "loadGrammar(broken xsd,cache)"};
static const int NPOOLOP = sizeof(POOLOPN) / sizeof(POOLOPN[0]);
static int g_pooldepth = 3;
static bool g_pool_strict = false;   // witness run: execute also what the listed defect below explains
// Listed defect: a parser constructed while the pool is locked takes the pool's XMLSynchronizedStringPool, which unlockPool() deletes; any later use
// of that parser reads freed memory.  Histories stop at that point (counted), the space "poolwitness" executes the minimal one strictly.
static const int POOL_WITNESS[] = {7, 10, 8, 5};
static const char* POOLSCN[] = {"IGXMLScanner", "DGXMLScanner", "SGXMLScanner"};
static std::string pool_label(uint64_t idx) {
    int api = (int)(idx % 2), sc = (int)((idx / 2) % 3);
    std::string s = std::string(api ? "XercesDOMParser/" : "SAX2XMLReader/") + POOLSCN[sc] + ":";
    for (int o : word_at(idx / 6, NPOOLOP, g_pooldepth)) s += std::string(" ") + POOLOPN[o] + ";";
    return s;
}
static void run_pool(uint64_t idx, Ctx& c) {
    int api = (int)(idx % 2), sc = (int)((idx / 2) % 3);
    std::vector<int> ops = g_pool_strict ? std::vector<int>(POOL_WITNESS, POOL_WITNESS + 4) : word_at(idx / 6, NPOOLOP, g_pooldepth);
    static const std::string DTD = "<!ELEMENT r (c*)><!ATTLIST r a CDATA 'd' i ID #IMPLIED><!ELEMENT c (#PCDATA)><!ENTITY e 'v'>";
    static const std::string XSDA = "<xs:schema xmlns:xs='http://www.w3.org/2001/XMLSchema' targetNamespace='urn:a' xmlns:a='urn:a' elementFormDefault='qualified'>"
                                    "<xs:element name='r'><xs:complexType><xs:sequence><xs:element name='c' type='a:T' minOccurs='0' maxOccurs='unbounded'/></xs:sequence>"
                                    "<xs:attribute name='k' type='xs:int' default='1'/></xs:complexType></xs:element>"
                                    "<xs:simpleType name='T'><xs:restriction base='xs:string'><xs:pattern value='[a-z]*'/><xs:enumeration value='x'/><xs:enumeration value='y'/></xs:restriction></xs:simpleType></xs:schema>";
    static const std::string XSDA2 = "<xs:schema xmlns:xs='http://www.w3.org/2001/XMLSchema' targetNamespace='urn:a'><xs:element name='other' type='xs:date'/></xs:schema>";
    static const std::string XSDBAD = "<xs:schema xmlns:xs='http://www.w3.org/2001/XMLSchema' targetNamespace='urn:b'><xs:element name='r' type='nosuch'/><xs:element name='r'/></xs:schema>";
    static const std::string DOCA = "<a:r xmlns:a='urn:a'><a:c>x</a:c><a:c>q</a:c></a:r>";
    static const std::string DOCD = "<!DOCTYPE r SYSTEM 'g.dtd'><r i='x'><c>&e;</c></r>";
    static const std::string DOCBAD = "<r><c></r>";
    Ledger mm("pool+parsers");
    std::string hist;
    {
        ParseResult r; Config cfg = base_cfg(api ? (int)DOM : (int)SAX2);
        g_vfs->clear(); g_vfs->put("/v/g.dtd", DTD);
        XMLGrammarPoolImpl* pool = new (&mm) XMLGrammarPoolImpl(&mm);
        struct P { SAX2XMLReaderImpl* s = nullptr; XercesDOMParser* d = nullptr; bool bornLocked = false, stale = false; };
        bool locked = false;
        std::vector<P> ps;
        Sax2H h2; h2.r = &r; h2.cfg = &cfg; h2.nsmode = true;
        Sax1H h1; h1.r = &r; h1.cfg = &cfg;
        auto mk = [&]() {
            P p;
            if (api == 0) {
                p.s = new (&mm) SAX2XMLReaderImpl(&mm, pool);
                p.s->setFeature(XMLUni::fgXercesSchema, true); p.s->setFeature(XMLUni::fgSAX2CoreValidation, true); p.s->setFeature(XMLUni::fgXercesDynamic, true);
                p.s->setContentHandler(&h2); p.s->setErrorHandler(&h2);
                p.s->setProperty(XMLUni::fgXercesScannerName, (void*)X16(POOLSCN[sc]).p());
            } else {
                p.d = new (&mm) XercesDOMParser(0, &mm, pool);
                p.d->setDoNamespaces(true); p.d->setDoSchema(true); p.d->setValidationScheme(XercesDOMParser::Val_Auto);
                p.d->setErrorHandler(&h1);
                p.d->useScanner(X16(POOLSCN[sc]).p());
            }
            p.bornLocked = locked;
            ps.push_back(p);
        };
        mk();
        size_t cur = 0;
        auto load = [&](const std::string& text, const char* sysId, Grammar::GrammarType t, bool cache) {
            MemBufInputSource src((const XMLByte*)text.data(), text.size(), X16(sysId).p(), false, &mm);
            try { if (ps[cur].s) ps[cur].s->loadGrammar(src, t, cache); else ps[cur].d->loadGrammar(src, t, cache); } XV_CATCH_DOCUMENTED(r)
        };
        auto parse = [&](const std::string& text, bool useCached, bool cacheFromParse) {
            MemBufInputSource src((const XMLByte*)text.data(), text.size(), X16("/v/doc.xml").p(), false, &mm);
            try {
                if (ps[cur].s) { ps[cur].s->setFeature(XMLUni::fgXercesUseCachedGrammarInParse, useCached); ps[cur].s->setFeature(XMLUni::fgXercesCacheGrammarFromParse, cacheFromParse); ps[cur].s->parse(src); }
                else { ps[cur].d->useCachedGrammarInParse(useCached); ps[cur].d->cacheGrammarFromParse(cacheFromParse); ps[cur].d->parse(src); }
            } XV_CATCH_DOCUMENTED(r)
        };
        for (int op : ops) {
            hist += std::string(POOLOPN[op]) + "; ";
            bool usesParser = op != 7 && op != 8 && op != 10;
            size_t target = op == 10 && ps.size() == 2 ? 1 - cur : cur;
            if ((usesParser && ps[cur].stale) || (op == 10 && ps.size() == 2 && ps[target].stale && false)) {
                if (!g_pool_strict) { c.count("known_defect:parser-created-on-locked-pool-used-after-unlock"); break; }
            }
            switch (op) {
            case 0: load(DTD, "/v/g.dtd", Grammar::DTDGrammarType, true); break;
            case 1: load(DTD, "/v/g.dtd", Grammar::DTDGrammarType, false); break;
            case 2: load(XSDA, "/v/a.xsd", Grammar::SchemaGrammarType, true); break;
            case 3: load(XSDA2, "/v/a2.xsd", Grammar::SchemaGrammarType, true); break;
            case 4: load(XSDA, "/v/a.xsd", Grammar::SchemaGrammarType, false); break;
            case 5: parse(DOCA, true, false); break;
            case 6: parse(DOCD, false, true); break;
            case 7: pool->lockPool(); locked = true; break;
            case 8: pool->unlockPool(); if (locked) for (auto& q : ps) if (q.bornLocked) q.stale = true; locked = false; break;
            case 9: try { if (ps[cur].s) ps[cur].s->resetCachedGrammarPool(); else ps[cur].d->resetCachedGrammarPool(); } XV_CATCH_DOCUMENTED(r) break;
            case 10: if (ps.size() < 2) mk(); cur = 1 - cur < ps.size() ? 1 - cur : cur; break;
            case 11: parse(DOCBAD, true, true); break;
            default: load(XSDBAD, "/v/b.xsd", Grammar::SchemaGrammarType, true); break;
            }
        }
        if (r.exc.compare(0, 7, "FOREIGN") == 0) c.violation("foreign-exception", "\"exc\":" + jstr(r.exc) + ",\"history\":" + jstr(hist));
        for (auto& p : ps) { delete p.s; delete p.d; }
        delete pool;
    }
    for (auto& f : mm.faults) c.violation("manager-discipline", "\"fault\":" + jstr(f) + ",\"api\":" + jstr(std::string(api ? "XercesDOMParser/" : "SAX2XMLReader/") + POOLSCN[sc]) + ",\"history\":" + jstr(hist));
    for (auto& f : g_global->faults) c.violation("manager-discipline", "\"fault\":" + jstr(f) + ",\"api\":" + jstr(std::string(api ? "XercesDOMParser/" : "SAX2XMLReader/") + POOLSCN[sc]) + ",\"history\":" + jstr(hist));
    g_global->faults.clear();
    if (mm.live != 0) c.violation("outstanding-after-destruction", "\"blocks\":" + std::to_string(mm.live) + ",\"api\":" + jstr(std::string(api ? "XercesDOMParser/" : "SAX2XMLReader/") + POOLSCN[sc]) + ",\"history\":" + jstr(hist));
    if (mm.live) { std::vector<void*> v; for (auto& kv : g_owner) if (kv.second == &mm) v.push_back(kv.first); for (void* p : v) { g_owner.erase(p); free(p); } mm.live = 0; }
    c.count("pool_histories"); c.count("allocations_through_ledger", mm.total);
    if (idx % 499 == 0) c.sample("{\"history\":" + jstr(pool_label(idx)) + "}");
}

int main(int argc, char** argv) {
    Args a(argc, argv);
    std::string space = a.str("space", "parse");
    Runner R; R.name = space;
    if (space == "parse") {
        g_global = new Ledger("global");
        // --domheap: the DOM arena parameters of Initialize (initial block, largest block, sub-allocation limit); 0 = defaults (0x4000, 0x80000, 0x100)
        int dh = (int)a.num("domheap", 0);
        g_plaincfg = (int)a.num("plain", 0);
        if (dh == 1) XMLPlatformUtils::Initialize(0x10000, 0x80000, 0x1000, XMLUni::fgXercescDefaultLocale, 0, 0, g_global);       // name table no longer a block of its own
        else if (dh == 2) XMLPlatformUtils::Initialize(0x200, 0x400, 0x20, XMLUni::fgXercescDefaultLocale, 0, 0, g_global);         // nearly every string is a block of its own
        else if (dh == 3) XMLPlatformUtils::Initialize(0x4000, 0x4000, 0x4000, XMLUni::fgXercescDefaultLocale, 0, 0, g_global);     // limit == block size
        else XMLPlatformUtils::Initialize(XMLUni::fgXercescDefaultLocale, 0, 0, g_global);
        g_vfs = new Vfs(); delete XMLPlatformUtils::fgFileMgr; XMLPlatformUtils::fgFileMgr = g_vfs;
        init_docs((int)a.num("k", 1));
        R.total = MDOCS.size() * 16; R.fn = run_parse;
        R.describe = [](uint64_t i) { PCase p = pcase(i); return "{\"doc\":" + jstr(MDOCS[p.doc].bytes) + ",\"api\":" + jstr(ApiN[p.api]) + ",\"lifetime\":" + jstr(LifeN[p.life]) + "}"; };
        R.extra_json = "\"documents\":" + std::to_string(MDOCS.size()) + ",\"dom_heap_parameters\":" + std::to_string(dh);
    } else if (space == "initterm") {
        g_itdepth = (int)a.num("depth", 5); g_itheap = (int)a.num("domheap", 0);
        R.total = words_upto(6, g_itdepth); R.fn = run_initterm;
        R.describe = [](uint64_t i) { std::string s; for (int o : word_at(i, 6, g_itdepth)) s += std::to_string(o); return "{\"sequence\":" + jstr(s) + "}"; };
        R.extra_json = "\"depth\":" + std::to_string(g_itdepth) + ",\"dom_heap_parameters\":" + std::to_string(g_itheap);
    } else if (space == "poolwitness") {
        g_global = new Ledger("global");
        XMLPlatformUtils::Initialize(XMLUni::fgXercescDefaultLocale, 0, 0, g_global);
        g_vfs = new Vfs(); delete XMLPlatformUtils::fgFileMgr; XMLPlatformUtils::fgFileMgr = g_vfs;
        g_pool_strict = true;
        R.total = 6; R.fn = run_pool;
        R.describe = [](uint64_t i) { return std::string("{\"history\":\"") + (i % 2 ? "XercesDOMParser/" : "SAX2XMLReader/") + POOLSCN[(i / 2) % 3] + ": lockPool; second parser on the same pool; unlockPool; parse(valid schema doc, use cached);\"}"; };
    } else if (space == "pool") {
        g_global = new Ledger("global");
        XMLPlatformUtils::Initialize(XMLUni::fgXercescDefaultLocale, 0, 0, g_global);
        g_vfs = new Vfs(); delete XMLPlatformUtils::fgFileMgr; XMLPlatformUtils::fgFileMgr = g_vfs;
        g_pooldepth = (int)a.num("depth", 3);
        R.total = words_upto(NPOOLOP, g_pooldepth) * 6; R.fn = run_pool;
        R.describe = [](uint64_t i) { return "{\"history\":" + jstr(pool_label(i)) + "}"; };
        R.extra_json = "\"depth\":" + std::to_string(g_pooldepth) + ",\"alphabet\":" + std::to_string(NPOOLOP);
    } else return 2;
    return R.main_tail(a);
}
