// c11_regex - bounded-exhaustive check of xercesc::RegularExpression (property C11).
//
// One process = one "space" (--space):
//   ast        every regex AST with <= N nodes over an atom/operator alphabet, rendered to concrete syntax, compiled in
//              XML-Schema mode (options X, XF, XH, XFH; matches() is anchored) and in the XPath flavour (options "", F, H, FH;
//              matches() is a search) and run on every string of length <= L over a symbol alphabet.  Reference: Brzozowski
//              derivatives over the AST (cross-checked per string against a second, position-set evaluator).
//   flags      reduced AST set with ^ and $; XPath flavour with every subset of {i,s,m,x} x {"",FH}; verdict and Match(0) positions.
//   history    one compiled object (and one Match object) reused for all ordered pairs of a 30-string set.
//   tokrep     tokenize()/replace()/Match positions against reference leftmost match positions where the end is unambiguous.
//   malformed  catalogue of malformed patterns (=> ParseException), "must not crash" patterns, valid corner patterns with
//              by-construction accept/reject examples, and every AST <= N nodes that contains the malformed quantifier {2,1}.
//   facet      slice through the xs:pattern facet: schema + instance validated by the real parser.
//
// A case is one AST (or one catalogue entry); everything inside a case is enumerated exhaustively.
#include "xv_xml.hpp"

#include <array>
#include <sys/resource.h>
#include <unordered_map>
#include <xercesc/util/ParseException.hpp>
#include <xercesc/util/RefArrayVectorOf.hpp>
#include <xercesc/util/RuntimeException.hpp>
#include <xercesc/util/regx/Match.hpp>
#include <xercesc/util/regx/Op.hpp>
#include <xercesc/util/regx/RangeToken.hpp>
#include <xercesc/util/regx/RegularExpression.hpp>

using namespace xv;
typedef std::u16string U16;

// =========================================================================================== symbols (string alphabet)
enum Sym { S_a, S_b, S_c, S_B, S_1, S_SP, S_U, S_NL, S_A, NSYM };
static const char* SYMNAME[NSYM] = {"a", "b", "c", "B", "1", " ", "U+10000", "\\n", "A"};
static U16 SYM16[NSYM];
static const uint16_t ALLSYM = (1u << NSYM) - 1;
static void init_syms() {
    const char16_t bmp[NSYM] = {u'a', u'b', u'c', u'B', u'1', u' ', 0, u'\n', u'A'};
    for (int i = 0; i < NSYM; i++) {
        if (i == S_U) { SYM16[i].push_back((char16_t)0xD800); SYM16[i].push_back((char16_t)0xDC00); }
        else SYM16[i].push_back(bmp[i]);
    }
}
static constexpr uint16_t M() { return 0; }
template <class... T> static constexpr uint16_t M(int a, T... r) { return (uint16_t)((1u << a) | M(r...)); }

static std::string a16(const U16& s) {  // ASCII rendering with \uXXXX for everything else
    std::string o;
    for (char16_t ch : s) {
        unsigned c = ch;
        if (c >= 0x20 && c < 0x7f) o += (char)c;
        else { char b[8]; snprintf(b, sizeof b, "\\u%04X", c); o += b; }
    }
    return o;
}
static U16 w16(const char* s) { U16 o; for (; *s; s++) o.push_back((char16_t)(unsigned char)*s); return o; }

// =========================================================================================== atoms / quantifiers / AST pool
// The membership masks below are the *specification*: they are written down from the XML Schema Part 2 (2nd ed.) appendix F
// definitions and the Unicode character database (general categories of these nine characters have been stable since Unicode 4.0):
//   a b c  U+0061..63 Ll      B A  U+0042/41 Lu     1  U+0031 Nd     ' ' U+0020 Zs    \n U+000A Cc     U+10000 Lo (LINEAR B SYLLABLE B008 A)
//   .   = [^\n\r]                       \d = \p{Nd}                  \s = [#x20\t\n\r]
//   \w  = [#x0-#x10FFFF]-[\p{P}\p{Z}\p{C}]                            \i = Letter | '_' | ':'  (XML 1.0 Letter: BMP only => not U+10000)
//   \c  = NameChar (XML 1.0: Letter | Digit | . - _ : | CombiningChar | Extender)             \p{IsBasicLatin} = #x0000-#x007F
enum AtomKind { K_CLASS, K_EMPTY, K_BOL, K_EOL };
struct AtomDef { const char* name; const char* pat; int kind; uint16_t m, mi; bool dot; };
enum AtomId { A_a, A_b, A_dot, A_ab, A_nota, A_sub, A_d, A_w, A_s, A_i, A_c, A_Lu, A_nLu, A_Basic, A_escdot, A_U, A_empty, A_bol, A_eol, A_B, A_cc, NATOM };
static const AtomDef ATOMS[NATOM] = {
    {"a", "a", K_CLASS, M(S_a), M(S_a, S_A), false},
    {"b", "b", K_CLASS, M(S_b), M(S_b, S_B), false},
    {".", ".", K_CLASS, (uint16_t)(ALLSYM & ~M(S_NL)), (uint16_t)(ALLSYM & ~M(S_NL)), true},
    {"[ab]", "[ab]", K_CLASS, M(S_a, S_b), M(S_a, S_b, S_A, S_B), false},
    {"[^a]", "[^a]", K_CLASS, (uint16_t)(ALLSYM & ~M(S_a)), (uint16_t)(ALLSYM & ~M(S_a, S_A)), false},
    {"[a-c-[b]]", "[a-c-[b]]", K_CLASS, M(S_a, S_c), M(S_a, S_c, S_A), false},
    {"\\d", "\\d", K_CLASS, M(S_1), M(S_1), false},
    {"\\w", "\\w", K_CLASS, M(S_a, S_b, S_c, S_B, S_1, S_U, S_A), M(S_a, S_b, S_c, S_B, S_1, S_U, S_A), false},
    {"\\s", "\\s", K_CLASS, M(S_SP, S_NL), M(S_SP, S_NL), false},
    {"\\i", "\\i", K_CLASS, M(S_a, S_b, S_c, S_B, S_A), M(S_a, S_b, S_c, S_B, S_A), false},
    {"\\c", "\\c", K_CLASS, M(S_a, S_b, S_c, S_B, S_1, S_A), M(S_a, S_b, S_c, S_B, S_1, S_A), false},
    {"\\p{Lu}", "\\p{Lu}", K_CLASS, M(S_B, S_A), M(S_B, S_A), false},
    {"\\P{Lu}", "\\P{Lu}", K_CLASS, (uint16_t)(ALLSYM & ~M(S_B, S_A)), (uint16_t)(ALLSYM & ~M(S_B, S_A)), false},
    {"\\p{IsBasicLatin}", "\\p{IsBasicLatin}", K_CLASS, (uint16_t)(ALLSYM & ~M(S_U)), (uint16_t)(ALLSYM & ~M(S_U)), false},
    {"\\.", "\\.", K_CLASS, 0, 0, false},
    {"U+10000", "\x01", K_CLASS, M(S_U), M(S_U), false},  // pat is replaced by the surrogate pair when rendering
    {"<empty>", "", K_EMPTY, 0, 0, false},
    {"^", "^", K_BOL, 0, 0, false},
    {"$", "$", K_EOL, 0, 0, false},
    {"B", "B", K_CLASS, M(S_B), M(S_b, S_B), false},
    {"c", "c", K_CLASS, M(S_c), M(S_c), false},
};
struct QuantDef { const char* pat; int n, m; bool valid; };
enum { Q_opt, Q_star, Q_plus, Q_0, Q_1, Q_2, Q_1inf, Q_02, Q_23, Q_bad, NQUANT };
static const QuantDef QUANTS[NQUANT] = {{"?", 0, 1, true}, {"*", 0, -1, true}, {"+", 1, -1, true}, {"{0}", 0, 0, true}, {"{1}", 1, 1, true},
                                        {"{2}", 2, 2, true}, {"{1,}", 1, -1, true}, {"{0,2}", 0, 2, true}, {"{2,3}", 2, 3, true}, {"{2,1}", 2, 1, false}};

enum { N_ATOM, N_GROUP, N_QUANT, N_CONCAT, N_ALT };
struct Node { uint8_t op, arg, size; bool anchor, badq; int l, r; };
static std::vector<Node> POOL;
static std::vector<int> g_atoms, g_quants;

static std::vector<int> atom_preset(const std::string& p) {
    if (p == "full") return {A_a, A_b, A_dot, A_ab, A_nota, A_sub, A_d, A_w, A_s, A_i, A_c, A_Lu, A_nLu, A_Basic, A_escdot, A_U, A_empty};
    if (p == "small") return {A_a, A_b, A_dot, A_ab, A_empty};
    if (p == "small4") return {A_a, A_b, A_dot, A_ab};  // for N = 5: nested counted quantifiers over <empty> only measure Xerces' exponential backtracking
    if (p == "lit") return {A_a, A_b, A_cc, A_dot, A_U};
    if (p == "flags") return {A_a, A_b, A_B, A_dot, A_ab, A_nota, A_bol, A_eol};
    if (p == "tiny") return {A_a, A_b, A_dot};
    fprintf(stderr, "unknown atom preset %s\n", p.c_str());
    exit(2);
}
static std::vector<int> quant_preset(const std::string& p) {
    if (p == "full") return {Q_opt, Q_star, Q_plus, Q_0, Q_1, Q_2, Q_1inf, Q_02, Q_23};
    if (p == "bad") return {Q_opt, Q_star, Q_plus, Q_0, Q_1, Q_2, Q_1inf, Q_02, Q_23, Q_bad};
    if (p == "small") return {Q_opt, Q_star, Q_plus, Q_02, Q_23};
    if (p == "mini") return {Q_opt, Q_star, Q_plus, Q_23};
    if (p == "star") return {Q_opt, Q_star, Q_plus};  // N = 6: nests of counted quantifiers only measure Xerces' exponential backtracking (minutes per case)
    fprintf(stderr, "unknown quantifier preset %s\n", p.c_str());
    exit(2);
}
// all trees with exactly 1..N nodes, shortest first; with_group: explicit group nodes
static void build_pool(int N, bool with_group) {
    std::vector<std::vector<int>> by(N + 1);
    POOL.clear();
    for (int a : g_atoms) {
        Node n{N_ATOM, (uint8_t)a, 1, ATOMS[a].kind == K_BOL || ATOMS[a].kind == K_EOL, false, -1, -1};
        by[1].push_back((int)POOL.size());
        POOL.push_back(n);
    }
    for (int s = 2; s <= N; s++) {
        std::vector<Node> add;
        if (with_group)
            for (int t : by[s - 1]) add.push_back(Node{N_GROUP, 0, (uint8_t)s, POOL[t].anchor, POOL[t].badq, t, -1});
        for (int q : g_quants)
            for (int t : by[s - 1]) add.push_back(Node{N_QUANT, (uint8_t)q, (uint8_t)s, POOL[t].anchor, POOL[t].badq || !QUANTS[q].valid, t, -1});
        for (int op : {N_CONCAT, N_ALT})
            for (int ls = 1; ls <= s - 2; ls++)
                for (int l : by[ls])
                    for (int r : by[s - 1 - ls])
                        add.push_back(Node{(uint8_t)op, 0, (uint8_t)s, POOL[l].anchor || POOL[r].anchor, POOL[l].badq || POOL[r].badq, l, r});
        for (auto& n : add) { by[s].push_back((int)POOL.size()); POOL.push_back(n); }
    }
}

// ---- concrete syntax.  xsp: extended-comment rendering (whitespace between tokens and a comment) for the x option.
static void render_rec(int t, U16& o, bool xsp) {
    const Node& n = POOL[t];
    auto sp = [&]() { if (xsp) o.push_back(u' '); };
    auto wrapped = [&](int c) { o.push_back(u'('); sp(); render_rec(c, o, xsp); o.push_back(u')'); sp(); };
    switch (n.op) {
    case N_ATOM:
        if (n.arg == A_U) o += SYM16[S_U];
        else o += w16(ATOMS[n.arg].pat);
        if (ATOMS[n.arg].kind != K_EMPTY) sp();
        break;
    case N_GROUP: wrapped(n.l); break;
    case N_QUANT: {
        const Node& c = POOL[n.l];
        if ((c.op == N_ATOM && ATOMS[c.arg].kind == K_CLASS) || c.op == N_GROUP) render_rec(n.l, o, xsp);
        else wrapped(n.l);
        if (xsp && !o.empty() && o.back() == u' ') o.pop_back();  // keep the quantifier attached (also legal detached; tested separately)
        o += w16(QUANTS[n.arg].pat);
        sp();
        break;
    }
    case N_CONCAT:
        for (int c : {n.l, n.r}) { if (POOL[c].op == N_ALT) wrapped(c); else render_rec(c, o, xsp); }
        break;
    case N_ALT:
        render_rec(n.l, o, xsp); o.push_back(u'|'); sp(); render_rec(n.r, o, xsp);
        break;
    }
}
static U16 render(int t, bool xsp = false) {
    U16 o;
    if (xsp) o += w16(" #lead\n\t");
    render_rec(t, o, xsp);
    if (xsp) o += w16("  # trailing comment");
    return o;
}

// =========================================================================================== string sets
struct StrSet {
    std::vector<U16> s;
    std::vector<std::vector<uint8_t>> sym;  // symbol ids
    std::vector<std::vector<uint8_t>> off;  // code-unit offset of symbol position i (size n+1)
    std::vector<int> parent;
    std::vector<uint8_t> last;
    void add(const std::vector<uint8_t>& w, int par) {
        U16 u; std::vector<uint8_t> o;
        for (uint8_t x : w) { o.push_back((uint8_t)u.size()); u += SYM16[x]; }
        o.push_back((uint8_t)u.size());
        s.push_back(u); sym.push_back(w); off.push_back(o); parent.push_back(par); last.push_back(w.empty() ? 0 : w.back());
    }
    void build(const std::vector<int>& alpha, int L) {
        add({}, -1);
        size_t lo = 0, hi = 1;
        for (int len = 1; len <= L; len++) {
            for (size_t p = lo; p < hi; p++)
                for (int a : alpha) { std::vector<uint8_t> w = sym[p]; w.push_back((uint8_t)a); add(w, (int)p); }
            lo = hi; hi = s.size();
        }
    }
    void build_list(const std::vector<std::vector<uint8_t>>& ws) { for (auto& w : ws) add(w, -1); }
};
static std::vector<int> sym_preset(const std::string& p) {
    if (p == "full") return {S_a, S_b, S_c, S_B, S_1, S_SP, S_U};
    if (p == "small") return {S_a, S_b, S_c, S_U};
    if (p == "abc") return {S_a, S_b, S_c};
    if (p == "flags") return {S_a, S_A, S_b, S_NL};
    fprintf(stderr, "unknown symbol preset %s\n", p.c_str());
    exit(2);
}

// =========================================================================================== reference 1: Brzozowski derivatives
// Terms: 0 = empty set, 1 = epsilon, classes (symbol mask), concatenation, alternation, bounded/unbounded repetition r{n,m} (m = -1: unbounded).
//   nu(r{n,m}) = n == 0 or nu(r)        d_s(r{n,m}) = d_s(r) . r{max(n-1,0), m-1}        (valid for nullable r as well)
struct Deriv {
    enum { T_NONE, T_EPS, T_CLS, T_CAT, T_ALT, T_REP };
    struct Term { int k, a, b, n, m; bool nul; };
    std::vector<Term> t;
    std::vector<int> memo;  // [term * NSYM + symbol] -> derivative term or -1
    Deriv() { t.reserve(64); t.push_back({T_NONE, 0, 0, 0, 0, false}); t.push_back({T_EPS, 0, 0, 0, 0, true}); }
    int mk(int k, int a, int b, int n, int m, bool nul) {  // hash-consing by linear search: a case has a few dozen terms
        for (int i = (int)t.size() - 1; i >= 2; i--) {
            const Term& x = t[i];
            if (x.k == k && x.a == a && x.b == b && x.n == n && x.m == m) return i;
        }
        t.push_back({k, a, b, n, m, nul});
        return (int)t.size() - 1;
    }
    int cls(int mask) { return mk(T_CLS, mask, 0, 0, 0, false); }
    int cat(int a, int b) {
        if (a == 0 || b == 0) return 0;
        if (a == 1) return b;
        if (b == 1) return a;
        return mk(T_CAT, a, b, 0, 0, t[a].nul && t[b].nul);
    }
    int alt(int a, int b) {
        if (a == 0) return b;
        if (b == 0) return a;
        if (a == b) return a;
        if (a > b) std::swap(a, b);
        return mk(T_ALT, a, b, 0, 0, t[a].nul || t[b].nul);
    }
    int rep(int r, int n, int m) {
        if (m == 0) return 1;
        if (r == 1) return 1;
        if (r == 0) return n == 0 ? 1 : 0;
        if (n == 1 && m == 1) return r;
        return mk(T_REP, r, 0, n, m, n == 0 || t[r].nul);
    }
    int d(int x, int s) {
        if (x <= 1) return 0;
        size_t key = (size_t)x * NSYM + (size_t)s;
        if (key < memo.size() && memo[key] >= 0) return memo[key];
        Term T = t[x];
        int r = 0;
        switch (T.k) {
        case T_CLS: r = ((T.a >> s) & 1) ? 1 : 0; break;
        case T_CAT: r = alt(cat(d(T.a, s), T.b), t[T.a].nul ? d(T.b, s) : 0); break;
        case T_ALT: r = alt(d(T.a, s), d(T.b, s)); break;
        case T_REP: r = cat(d(T.a, s), rep(T.a, T.n > 0 ? T.n - 1 : 0, T.m < 0 ? -1 : T.m - 1)); break;
        }
        if (memo.size() < t.size() * NSYM) memo.resize(t.size() * NSYM + 16 * NSYM, -1);
        memo[key] = r;
        return r;
    }
};
struct Sem { bool icase = false, dotall = false, multiline = false; };
static uint16_t atom_mask(int a, const Sem& o) {
    uint16_t m = o.icase ? ATOMS[a].mi : ATOMS[a].m;
    if (ATOMS[a].dot && o.dotall) m |= M(S_NL);
    return m;
}
static int to_term(Deriv& D, int t, const Sem& o) {  // anchors not supported here
    const Node& n = POOL[t];
    switch (n.op) {
    case N_ATOM: return ATOMS[n.arg].kind == K_EMPTY ? 1 : D.cls(atom_mask(n.arg, o));
    case N_GROUP: return to_term(D, n.l, o);
    case N_QUANT: return D.rep(to_term(D, n.l, o), QUANTS[n.arg].n, QUANTS[n.arg].m);
    case N_CONCAT: return D.cat(to_term(D, n.l, o), to_term(D, n.r, o));
    default: return D.alt(to_term(D, n.l, o), to_term(D, n.r, o));
    }
}

// =========================================================================================== reference 2: position sets
// ends(node, i) = set (bit mask) of symbol positions j such that node matches syms[i..j) in the context of the whole string.
struct PosEval {
    const std::vector<uint8_t>* w = nullptr;
    Sem o;
    int n = 0;
    enum { MAXN = 24, MAXP = 34 };
    int ids[MAXN]; int nids = 0;
    uint32_t val[MAXN][MAXP]; bool has[MAXN][MAXP];
    void set(const std::vector<uint8_t>& word, const Sem& sem) { w = &word; o = sem; n = (int)word.size(); nids = 0; }
    int local(int t) {
        for (int k = 0; k < nids; k++) if (ids[k] == t) return k;
        if (nids >= MAXN) { fprintf(stderr, "PosEval: too many nodes\n"); abort(); }
        ids[nids] = t; memset(has[nids], 0, sizeof has[nids]);
        return nids++;
    }
    uint32_t ends(int t, int i) {
        int lt = local(t);
        if (has[lt][i]) return val[lt][i];
        const Node& nd = POOL[t];
        uint32_t r = 0;
        switch (nd.op) {
        case N_ATOM: {
            const AtomDef& a = ATOMS[nd.arg];
            if (a.kind == K_EMPTY) r = 1u << i;
            else if (a.kind == K_BOL) { if (i == 0 || (o.multiline && (*w)[i - 1] == S_NL)) r = 1u << i; }
            else if (a.kind == K_EOL) { if (i == n || (o.multiline && (*w)[i] == S_NL)) r = 1u << i; }
            else if (i < n && ((atom_mask(nd.arg, o) >> (*w)[i]) & 1)) r = 1u << (i + 1);
            break;
        }
        case N_GROUP: r = ends(nd.l, i); break;
        case N_CONCAT: { uint32_t e = ends(nd.l, i); for (int j = i; j <= n; j++) if (e >> j & 1) r |= ends(nd.r, j); break; }
        case N_ALT: r = ends(nd.l, i) | ends(nd.r, i); break;
        case N_QUANT: {
            int qn = QUANTS[nd.arg].n, qm = QUANTS[nd.arg].m;
            int maxit = qm < 0 ? qn + n + 1 : qm;
            uint32_t cur = 1u << i;
            if (qn == 0) r |= cur;
            for (int k = 1; k <= maxit && cur; k++) {
                uint32_t nx = 0;
                for (int j = i; j <= n; j++) if (cur >> j & 1) nx |= ends(nd.l, j);
                cur = nx;
                if (k >= qn) r |= cur;
            }
            break;
        }
        }
        val[lt][i] = r; has[lt][i] = true;
        return r;
    }
};

// =========================================================================================== Xerces side
struct RE : public RegularExpression {  // subclass only to *observe* protected state (optimisation flags, op graph, raw match() result)
    RE(const XMLCh* p, const XMLCh* o) : RegularExpression(p, o, XMLPlatformUtils::fgMemoryManager) {}
    bool fixedOnly() const { return fFixedStringOnly; }
    bool bmPrefilter() const { return !fFixedStringOnly && fFixedString != 0; }
    bool firstChar() const { return fFirstChar != 0; }
    const Op* ops() const { return fOperations; }
    int groups() const { return fNoGroups; }
    bool firstCharHas(XMLInt32 ch, bool icase = false) const {  // the set matches() filters start positions with
        if (!fFirstChar) return false;
        RangeToken* r = fFirstChar;
        if (icase) r = fFirstChar->getCaseInsensitiveToken(fTokenFactory);
        return r && r->match(ch);
    }
    // what the matcher core returns for an attempt at `start` (end offset or -1); used only to *classify* mismatches
    int rawMatch(const U16& s, XMLSize_t start) const {
        Context ctx(XMLPlatformUtils::fgMemoryManager);
        ctx.reset((const XMLCh*)s.c_str(), s.size(), 0, s.size(), fNoClosures, fOptions);
        return match(&ctx, fOperations, start);
    }
};
enum { EX_NONE, EX_PARSE, EX_RUNTIME, EX_OTHERXML, EX_FOREIGN };
static const char* EXNAME[] = {"none", "ParseException", "RuntimeException", "other-XMLException", "foreign"};
struct Compiled {
    RE* re = nullptr; int exc = EX_NONE; std::string detail;
    ~Compiled() { delete re; }
    Compiled() {}
    Compiled(const Compiled&) = delete;
};
static std::string xmsg(const XMLException& e) { return esc16(e.getType()) + ": " + esc16(e.getMessage()); }
static void compile(Compiled& c, const U16& pat, const char* opts) {
    X16 o(opts);
    try { c.re = new RE((const XMLCh*)pat.c_str(), o.p()); }
    catch (const ParseException& e) { c.exc = EX_PARSE; c.detail = xmsg(e); }
    catch (const RuntimeException& e) { c.exc = EX_RUNTIME; c.detail = xmsg(e); }
    catch (const XMLException& e) { c.exc = EX_OTHERXML; c.detail = xmsg(e); }
    catch (const OutOfMemoryException&) { c.exc = EX_FOREIGN; c.detail = "OutOfMemoryException"; }
    catch (...) { c.exc = EX_FOREIGN; c.detail = "object that is not an XMLException thrown"; }
}
// 1 / 0 verdict, or -exc on exception
static int xmatch(const RE* re, const U16& s, Match* m, std::string* detail) {
    try { return (m ? re->matches((const XMLCh*)s.c_str(), m) : re->matches((const XMLCh*)s.c_str())) ? 1 : 0; }
    catch (const XMLException& e) { if (detail) *detail = xmsg(e); return -EX_OTHERXML; }
    catch (...) { if (detail) *detail = "object that is not an XMLException thrown"; return -EX_FOREIGN; }
}
static const char* opname(int ty) {
    switch (ty) {
    case Op::O_DOT: return "op_dot"; case Op::O_CHAR: return "op_char"; case Op::O_RANGE: return "op_range"; case Op::O_NRANGE: return "op_nrange";
    case Op::O_ANCHOR: return "op_anchor"; case Op::O_STRING: return "op_string"; case Op::O_CLOSURE: return "op_closure";
    case Op::O_NONGREEDYCLOSURE: return "op_nongreedyclosure"; case Op::O_FINITE_CLOSURE: return "op_finite_closure";
    case Op::O_FINITE_NONGREEDYCLOSURE: return "op_finite_nongreedyclosure"; case Op::O_QUESTION: return "op_question";
    case Op::O_NONGREEDYQUESTION: return "op_nongreedyquestion"; case Op::O_UNION: return "op_union"; case Op::O_CAPTURE: return "op_capture";
    case Op::O_BACKREFERENCE: return "op_backreference";
    }
    return "op_unknown";
}
static void count_ops(const Op* op, std::set<const Op*>& seen, unsigned& mask) {
    while (op && !seen.count(op)) {
        seen.insert(op);
        int ty = op->getOpType();
        if (ty >= 0 && ty < 32) mask |= 1u << ty;
        switch (ty) {
        case Op::O_CLOSURE: case Op::O_NONGREEDYCLOSURE: case Op::O_FINITE_CLOSURE: case Op::O_FINITE_NONGREEDYCLOSURE:
        case Op::O_QUESTION: case Op::O_NONGREEDYQUESTION:
            count_ops(op->getChild(), seen, mask); break;
        case Op::O_UNION:
            for (XMLSize_t i = 0; i < op->getSize(); i++) count_ops(op->elementAt(i), seen, mask);
            return;  // a union op has no next op of its own
        default: break;
        }
        op = op->getNextOp();
    }
}
static void count_compiled(Ctx& c, const RE* re, const std::string& m) {
    if (re->fixedOnly()) c.count(m + ":fixed_string_only");
    if (re->bmPrefilter()) c.count(m + ":bm_prefilter");
    if (re->firstChar()) c.count(m + ":first_char_set");
    const Op* o = re->ops();
    if (o && (o->getOpType() == Op::O_CLOSURE || o->getOpType() == Op::O_FINITE_CLOSURE) && o->getChild() && o->getChild()->getOpType() == Op::O_DOT)
        c.count(m + ":dotstar_prefix");
    if (!re->fixedOnly() && !re->bmPrefilter() && !re->firstChar()) c.count(m + ":no_prefilter");
    std::set<const Op*> seen; unsigned mask = 0;
    count_ops(o, seen, mask);
    for (int i = 0; i < 32; i++) if (mask >> i & 1) c.count(m + ":" + opname(i));
}

// =========================================================================================== known defects (see docs/c11.md)
// Genuine library defects found by this check.  The big spaces must not drown in them: a mismatch that is *exactly explained* by one
// of the narrow predicates in classify_known() is counted as known_defect:<name> instead of being reported.  The check nevertheless
// stays red: the space "known" re-executes the minimal witness of every entry strictly and reports it as a violation while the
// library still misbehaves (once the library is fixed the witness passes and the predicates match nothing).
// placeholders in catalogue strings: \x01 = U+10000 (surrogate pair), \x02 = lone U+D800, \x03 = lone U+DC00, \x04 = U+03B1
struct KnownDefect { const char* name; const char* pattern; const char* options; const char* string; bool expected; int es, ee; /* expected Match(0) or -2 */ const char* what; };
static const KnownDefect KNOWN_DEFECTS[] = {
    {"headchar-surrogate", "\\w", "", "\x01", true, -2, -2,
     "XPath flavour with the head-character optimisation: RegularExpression::matches() lets Context::nextCh() advance matchStart onto the low "
     "surrogate before calling match(), so a match that starts with a supplementary character is never found (found with option H)"},
    {"xsd-first-match-not-extended", "(a{2,3})*", "X", "aaaa", true, -2, -2,
     "XML Schema mode: matches() runs match() once from the start and compares the end of the first (priority-order) match with the end of the "
     "string; nothing forces backtracking into shorter/longer alternatives, so strings of the language are rejected whenever the "
     "greedy-first path stops at a proper prefix that is itself in the language"},
    {"headchar-set-too-small", ".{1}a", "", "ba", true, -2, -2,
     "Token::analyzeFirstCharacter: a closure with min >= 1 (and a union) drops the FC_ANY answer of a '.' child, so the first-character set "
     "of e.g. .{1}a is {a}; matches() then skips every start position whose character is not in that set (found with option H)"},
    {"closure-infinite-recursion", "(a*)*b", "X", "a", false, -2, -2,
     "an unbounded closure over a nullable body that contains another quantifier ((a*)*b, (a{0,2})+a, ((){2,3})*b ...), followed by more pattern: "
     "the inner re-entry of the outer O_CLOSURE resets Context::fOffsets[id] to -1, which defeats the empty-iteration guard; match() recurses "
     "until the stack is exhausted (process crash) - e.g. xs:pattern (a*)*b validating the value 'a'"},
    {"nrange-overlap-possessive", "[a-z]*[^0-9]", "X", "abc", true, -2, -2,
     "RegularExpression::doTokenOverlap(): when the op after a closure is a range op holding a negated class [^...], the closure body is "
     "intersected with the class's *listed* characters; an empty intersection (= the body lies entirely inside the negated class) is taken as "
     "'no overlap' and the closure is compiled as a possessive O_FINITE_CLOSURE, so [a-z]*[^0-9], \\d+[^a] ... reject strings of their language"},
    {"icase-overlap-possessive", "B*b", "i", "b", true, -2, -2,
     "RegularExpression::doTokenOverlap() compares the closure body with the following character/string/range case-sensitively even under option i, "
     "so B*b (i) gets a possessive O_FINITE_CLOSURE: B* swallows the b and the match fails"},
    {"fixedstring-match-end", "a{1}", "", "a", true, 0, 1,
     "fixed-string-only shortcut of matches(): the end of group 0 is computed as start + length of the *pattern source* (fPattern) instead of the "
     "length of the fixed string, so Match::getEndPos(0) is wrong (even beyond the subject) for a{1}, escaped literals and the x option"},
    {"dotstar-skips-empty-line", ".*", "", "\n", true, 0, 0,
     "'.*' prefix shortcut of matches() (no s option): start positions that sit on a line terminator are never attempted, so the leftmost match "
     "at an empty line is missed (wrong start; wrong verdict when the rest of the pattern must consume that terminator)"},
};
static const int N_KNOWN = sizeof(KNOWN_DEFECTS) / sizeof(KNOWN_DEFECTS[0]);

static U16 cat16(const char* s) {
    U16 o;
    for (; *s; s++) {
        unsigned char ch = (unsigned char)*s;
        if (ch == 1) o += SYM16[S_U];
        else if (ch == 2) o.push_back((char16_t)0xD800);
        else if (ch == 3) o.push_back((char16_t)0xDC00);
        else if (ch == 4) o.push_back((char16_t)0x03B1);
        else o.push_back((char16_t)ch);
    }
    return o;
}
static bool has_opt(const std::string& o, char ch) { return o.find(ch) != std::string::npos; }

static bool dotstar_prefix(const RE* re);
static bool finite_closure_before_nrange(const Op* op);
static bool finite_closure_with_continuation(const Op* op);
static bool all_starts_on_empty_line(int root, const std::vector<uint8_t>& word, const Sem& sem, bool first_only);
// ---- classification of a verdict mismatch (nullptr: unexplained => violation)
static const char* classify_known(bool xpath, const std::string& opts, const RE* re, int root, const StrSet& S, size_t si, const Sem& sem, bool expected, bool observed) {
    const std::vector<uint8_t>& word = S.sym[si];
    int n = (int)word.size();
    if (xpath && !has_opt(opts, 'H') && re->firstChar() && expected && !observed) {
        // head-character pre-filter: every true match start is either a supplementary character (headchar-surrogate: matchStart is moved
        // onto the low surrogate) or a character that the computed first-character set does not contain (headchar-set-too-small)
        static const XMLInt32 CP[NSYM] = {'a', 'b', 'c', 'B', '1', ' ', 0x10000, '\n', 'A'};
        PosEval P; P.set(word, sem);
        bool any = false, all_explained = true, all_supp = true;
        for (int s = 0; s <= n; s++)
            if (P.ends(root, s)) {
                any = true;
                bool supp = s < n && word[s] == S_U;
                bool filtered = s >= n || !re->firstCharHas(CP[word[s]], has_opt(opts, 'i'));
                if (!supp) all_supp = false;
                if (!supp && !filtered) all_explained = false;
            }
        if (any && all_explained) return all_supp ? "headchar-surrogate" : "headchar-set-too-small";
    }
    if (expected && !observed && finite_closure_before_nrange(re->ops())) return "nrange-overlap-possessive";
    if (xpath && has_opt(opts, 'i') && expected && !observed && finite_closure_with_continuation(re->ops())) return "icase-overlap-possessive";
    if (xpath && expected && !observed && dotstar_prefix(re) && !sem.dotall && all_starts_on_empty_line(root, word, sem, false)) return "dotstar-skips-empty-line";
    if (!xpath && expected && !observed) {
        int e = re->rawMatch(S.s[si], 0);
        if (e >= 0 && e < (int)S.s[si].size()) {
            PosEval P; P.set(word, sem);
            uint32_t E = P.ends(root, 0);
            for (int p = 0; p < n; p++)
                if (S.off[si][p] == e && (E >> p & 1)) return "xsd-first-match-not-extended";
        }
    }
    return nullptr;
}
// the compiled graph contains a possessive (finite) closure whose continuation is a range op holding a *negated* class token: the
// decision can only come from doTokenOverlap() intersecting the class's listed characters instead of its complement
static void fcbn_walk(const Op* op, std::set<const Op*>& seen, bool& found, bool any_next = false) {
    while (op && !found && !seen.count(op)) {
        seen.insert(op);
        int ty = op->getOpType();
        if (ty == Op::O_FINITE_CLOSURE || ty == Op::O_FINITE_NONGREEDYCLOSURE) {
            const Op* nx = op->getNextOp();
            if (nx && any_next) found = true;
            if (nx && (nx->getOpType() == Op::O_RANGE || nx->getOpType() == Op::O_NRANGE) && nx->getToken() && nx->getToken()->getTokenType() == Token::T_NRANGE) found = true;
        }
        switch (ty) {
        case Op::O_CLOSURE: case Op::O_NONGREEDYCLOSURE: case Op::O_FINITE_CLOSURE: case Op::O_FINITE_NONGREEDYCLOSURE:
        case Op::O_QUESTION: case Op::O_NONGREEDYQUESTION:
            fcbn_walk(op->getChild(), seen, found, any_next); break;
        case Op::O_UNION:
            for (XMLSize_t i = 0; i < op->getSize(); i++) fcbn_walk(op->elementAt(i), seen, found, any_next);
            return;
        default: break;
        }
        op = op->getNextOp();
    }
}
static bool finite_closure_before_nrange(const Op* op) { std::set<const Op*> seen; bool found = false; fcbn_walk(op, seen, found); return found; }
// under option i: a possessive closure that is followed by more pattern - doTokenOverlap() compares characters case-sensitively
static bool finite_closure_with_continuation(const Op* op) { std::set<const Op*> seen; bool found = false; fcbn_walk(op, seen, found, true); return found; }
// every reference match start sits on a line terminator at a line start (the only starts the '.*' prefix shortcut never attempts)
static bool dotstar_prefix(const RE* re) {
    const Op* o = re->ops();
    return o && (o->getOpType() == Op::O_CLOSURE || o->getOpType() == Op::O_FINITE_CLOSURE) && o->getChild() && o->getChild()->getOpType() == Op::O_DOT;
}
static bool all_starts_on_empty_line(int root, const std::vector<uint8_t>& word, const Sem& sem, bool first_only) {
    PosEval P; P.set(word, sem);
    int n = (int)word.size(); bool any = false;
    for (int s = 0; s <= n; s++)
        if (P.ends(root, s)) {
            any = true;
            if (!(s < n && word[s] == S_NL && (s == 0 || word[s - 1] == S_NL))) return false;
            if (first_only) return true;
        }
    return any;
}
static const char* classify_known_pos(const std::string& opts, const RE* re, int root, const StrSet& S, size_t si, const Sem& sem, size_t patlen, int es, int ee, int gs, int ge) {
    if (re->fixedOnly() && gs == es && ee >= 0 && ge != ee && ge == gs + (int)patlen) return "fixedstring-match-end";
    if (dotstar_prefix(re) && !sem.dotall && !re->fixedOnly() && gs != es && all_starts_on_empty_line(root, S.sym[si], sem, true)) return "dotstar-skips-empty-line";
    // the expected leftmost start is a supplementary character (the head-character loop stepped over it) or a character outside the computed set
    if (!has_opt(opts, 'H') && re->firstChar() && gs > es) {
        static const XMLInt32 CP[NSYM] = {'a', 'b', 'c', 'B', '1', ' ', 0x10000, '\n', 'A'};
        const auto& w = S.sym[si];
        for (size_t p = 0; p < w.size(); p++)
            if (S.off[si][p] == es) {
                if (w[p] == S_U) return "headchar-surrogate";
                if (!re->firstCharHas(CP[w[p]], has_opt(opts, 'i'))) return "headchar-set-too-small";
            }
    }
    if (has_opt(opts, 'i') && gs > es && finite_closure_with_continuation(re->ops())) return "icase-overlap-possessive";
    if (gs > es && finite_closure_before_nrange(re->ops())) return "nrange-overlap-possessive";
    return nullptr;
}
// Only defects the ledger still lists as known may absorb a mismatch; the predicates of repaired defects stay (they name the root cause in reports),
// but a mismatch that matches one of them is an ordinary violation again.
static bool kd_open(const char* kd) { return kd && std::string(kd) == "xsd-first-match-not-extended"; }
static bool explained(Ctx& c, bool xpath, const std::string& opts, const RE* re, int root, const StrSet& S, size_t si, const Sem& sem, bool expected, bool observed) {
    const char* kd = classify_known(xpath, opts, re, root, S, si, sem, expected, observed);
    if (!kd || !kd_open(kd)) return false;
    c.count(std::string("known_defect:") + kd);
    return true;
}

// =========================================================================================== configuration
static StrSet STR;
static int g_modes = 3;            // bit0: XML Schema mode, bit1: XPath flavour
static std::vector<std::string> g_xopts = {"X", "XF", "XH", "XFH"}, g_popts = {"", "F", "H", "FH"};
static bool g_crossref = true;
static int g_count_from = 0;

static std::string ast_json(int t) { return "\"pattern\":" + jstr(a16(render(t))) + ",\"ast_nodes\":" + std::to_string(POOL[t].size); }
static std::vector<std::string> split(const std::string& s) {
    std::vector<std::string> o; size_t p = 0;
    while (true) { size_t q = s.find(',', p); o.push_back(s.substr(p, q == std::string::npos ? q : q - p)); if (q == std::string::npos) break; p = q + 1; }
    for (auto& x : o) if (x == "-") x = "";
    return o;
}

// reference verdicts for every string of STR by derivatives (anchored and search)
static void deriv_verdicts(Ctx& c, int root, const Sem& sem, std::vector<uint8_t>& refX, std::vector<uint8_t>& refS) {
    size_t NS = STR.s.size();
    refX.assign(NS, 0); refS.assign(NS, 0);
    Deriv D;
    int r = to_term(D, root, sem);
    int any = D.rep(D.cls(ALLSYM), 0, -1);
    int srch = D.cat(any, D.cat(r, any));
    std::vector<int> stX(NS), stS(NS);
    for (size_t i = 0; i < NS; i++) {
        if (STR.parent[i] < 0) {
            stX[i] = r; stS[i] = srch;
            for (uint8_t sy : STR.sym[i]) { stX[i] = D.d(stX[i], sy); stS[i] = D.d(stS[i], sy); }   // list-built sets have no parent links
        } else { stX[i] = D.d(stX[STR.parent[i]], STR.last[i]); stS[i] = D.d(stS[STR.parent[i]], STR.last[i]); }
        refX[i] = D.t[stX[i]].nul; refS[i] = D.t[stS[i]].nul;
    }
    c.count("ref_terms", D.t.size());
}

// =========================================================================================== space: ast
// ---- guarded execution.  Some small, valid expressions send RegularExpression::match() into unbounded recursion (KNOWN_DEFECTS
// "closure-infinite-recursion").  A worker that dies loses its counters, so ASTs for which that is structurally possible (an unbounded
// quantifier over a nullable body) run their matches() calls in a forked child that reports verdict bytes through shared memory; a dying
// child pins the (options, string) it was executing.  Everything else runs in-process.
enum { V_COMPILE_FAILED = -8, V_CRASH = -7, V_NOT_RUN = -9 };
static bool nullable_ast(int t) {
    const Node& n = POOL[t];
    switch (n.op) {
    case N_ATOM: return ATOMS[n.arg].kind != K_CLASS;
    case N_GROUP: return nullable_ast(n.l);
    case N_QUANT: return QUANTS[n.arg].n == 0 || nullable_ast(n.l);
    case N_CONCAT: return nullable_ast(n.l) && nullable_ast(n.r);
    default: return nullable_ast(n.l) || nullable_ast(n.r);
    }
}
static bool risky_ast(int t) {
    const Node& n = POOL[t];
    if (n.op == N_ATOM) return false;
    if (n.op == N_QUANT && QUANTS[n.arg].m < 0 && nullable_ast(n.l)) return true;
    return risky_ast(n.l) || (n.r >= 0 && risky_ast(n.r));
}
// In-process guard: SIGSEGV (stack exhaustion) during a guarded matches() call is caught on an alternate stack and control returns
// to the call site with siglongjmp; the abandoned frames only leak a few small blocks.  Outside guarded calls the previous (sanitizer)
// handler runs, so every other fault is still reported normally and kills the worker.
#include <setjmp.h>
static sigjmp_buf g_jmp;
static volatile sig_atomic_t g_armed = 0;
static struct sigaction g_old_segv;
static void on_guard_segv(int sig, siginfo_t* si, void* uc) {
    if (g_armed) { g_armed = 0; siglongjmp(g_jmp, 1); }
    if (g_old_segv.sa_flags & SA_SIGINFO) { if (g_old_segv.sa_sigaction) g_old_segv.sa_sigaction(sig, si, uc); }
    else if (g_old_segv.sa_handler != SIG_DFL && g_old_segv.sa_handler != SIG_IGN) g_old_segv.sa_handler(sig);
    signal(sig, SIG_DFL); raise(sig);
}
static void install_guard() {
    static char* altstack = nullptr;
    if (!altstack) altstack = (char*)malloc(1 << 17);
    stack_t ss; ss.ss_sp = altstack; ss.ss_size = 1 << 17; ss.ss_flags = 0; sigaltstack(&ss, nullptr);
    struct sigaction sa; memset(&sa, 0, sizeof sa);
    sa.sa_sigaction = on_guard_segv; sa.sa_flags = SA_ONSTACK | SA_SIGINFO | SA_NODEFER;
    sigaction(SIGSEGV, &sa, &g_old_segv);
    struct rlimit rl;
    if (getrlimit(RLIMIT_STACK, &rl) == 0) { rl.rlim_cur = 256u << 10; setrlimit(RLIMIT_STACK, &rl); }  // exhaust quickly; nothing legitimate here is deep
}
static int xmatch_guarded(const RE* re, const U16& s) {
    if (sigsetjmp(g_jmp, 1) == 0) { g_armed = 1; int v = xmatch(re, s, nullptr, nullptr); g_armed = 0; return v; }
    return V_CRASH;
}
static void exec_matches(Ctx& c, const U16& pat, const std::vector<std::string>& opts, size_t NS, int8_t* v, bool guarded, std::vector<std::unique_ptr<Compiled>>& objs) {
    bool crashed = false;
    objs.clear();
    for (size_t oi = 0; oi < opts.size(); oi++) { objs.emplace_back(new Compiled()); compile(*objs.back(), pat, opts[oi].c_str()); }
    for (size_t oi = 0; oi < opts.size() && !crashed; oi++) {
        Compiled& C = *objs[oi];
        if (C.exc != EX_NONE) { memset(v + oi * NS, V_COMPILE_FAILED, NS); continue; }
        if (!guarded) for (size_t i = 0; i < NS; i++) v[oi * NS + i] = (int8_t)xmatch(C.re, STR.s[i], nullptr, nullptr);
        else for (size_t i = 0; i < NS; i++) {
            int r = xmatch_guarded(C.re, STR.s[i]);
            v[oi * NS + i] = (int8_t)r;
            if (r == V_CRASH) { c.count("guarded:stack_exhaustions_caught"); crashed = true; break; }  // one witness per AST; everything after it stays V_NOT_RUN
        }
    }
}

// pre-probe used by the other spaces: does this (risky) AST exhaust the stack on some string of S under these options?
static bool crashes_guarded(Ctx& c, int root, const U16& pat, const char* opts, const StrSet& S) {
    if (!risky_ast(root)) return false;
    Compiled C;
    compile(C, pat, opts);
    if (!C.re) return false;
    for (auto& s : S.s)
        if (xmatch_guarded(C.re, s) == V_CRASH) {
            c.count("guarded:stack_exhaustions_caught");
            c.count("known_defect:closure-infinite-recursion");
            c.count("skipped_crashing_ast_x_options");
            return true;
        }
    return false;
}

static void run_ast(uint64_t idx, Ctx& c) {
    int root = (int)idx;
    U16 pat = render(root);
    size_t NS = STR.s.size();
    Sem sem;
    std::vector<uint8_t> refX, refS;
    deriv_verdicts(c, root, sem, refX, refS);
    if (g_crossref) {
        PosEval P;
        for (size_t i = 0; i < NS; i++) {
            P.set(STR.sym[i], sem);
            int n = (int)STR.sym[i].size();
            bool ax = (P.ends(root, 0) >> n) & 1, as = false;
            for (int s = 0; s <= n && !as; s++) as = P.ends(root, s) != 0;
            if (ax != (bool)refX[i] || as != (bool)refS[i]) {
                c.violation("reference-disagreement", ast_json(root) + ",\"string\":" + jstr(a16(STR.s[i])));
                return;
            }
        }
        c.count("ref_crosschecked_strings", NS);
    }
    size_t accX = 0, accS = 0;
    for (size_t i = 0; i < NS; i++) { accX += refX[i]; accS += refS[i]; }
    bool fresh = POOL[root].size >= g_count_from;  // smaller ASTs of this run are already counted by another run of the same tier (see xv/c11.py)
    if (g_modes & 1) { c.count("ref_accept_anchored", accX); c.count("ref_reject_anchored", NS - accX); if (fresh && accX > 0 && accX < NS) c.count("ast_nontrivial_anchored"); }
    if (g_modes & 2) { c.count("ref_accept_search", accS); c.count("ref_reject_search", NS - accS); if (fresh && accS > 0 && accS < NS) c.count("ast_nontrivial_search"); }

    // ---- execute on the library
    std::vector<std::string> allopts; std::vector<int> modeOf;
    for (int mode = 0; mode < 2; mode++)
        if (g_modes >> mode & 1) for (auto& o : (mode == 0 ? g_xopts : g_popts)) { allopts.push_back(o); modeOf.push_back(mode); }
    std::vector<int8_t> V(allopts.size() * NS, V_NOT_RUN);
    bool guarded = risky_ast(root);
    if (guarded) c.count("guarded:asts");
    std::vector<std::unique_ptr<Compiled>> objs;
    exec_matches(c, pat, allopts, NS, V.data(), guarded, objs);

    // ---- compare
    for (int mode = 0; mode < 2; mode++) {
        if (!(g_modes >> mode & 1)) continue;
        const std::vector<uint8_t>& ref = mode == 0 ? refX : refS;
        const std::string mname = mode == 0 ? "xsd" : "xpath";
        std::vector<size_t> ois;
        for (size_t k = 0; k < allopts.size(); k++) if (modeOf[k] == mode) ois.push_back(k);
        bool comparable = true;
        for (size_t q = 0; q < ois.size(); q++) {
            size_t oi = ois[q];
            int8_t* got = V.data() + oi * NS;
            const std::string& opts = allopts[oi];
            Compiled& C = *objs[oi];
            if (C.exc != EX_NONE) {
                c.violation("valid-pattern-rejected-" + mname, ast_json(root) + ",\"options\":" + jstr(opts) + ",\"exception\":" + jstr(EXNAME[C.exc]) + ",\"detail\":" + jstr(C.detail));
                comparable = false;
                continue;
            }
            c.count(mname + ":compiled");
            if (q == 0) count_compiled(c, C.re, mname);
            else {
                if (C.re->bmPrefilter()) c.count(mname + ":opt_" + opts + ":bm_prefilter");
                if (C.re->firstChar()) c.count(mname + ":opt_" + opts + ":first_char_set");
            }
            size_t bad = 0, firstbad = 0, ran = 0;
            for (size_t i = 0; i < NS; i++) {
                int v = got[i];
                if (v == V_NOT_RUN) { c.count(mname + ":not_run_after_crash"); comparable = false; continue; }
                ran++;
                if (v == V_CRASH) {
                    comparable = false;
                    // only ASTs with an unbounded quantifier over a nullable body run guarded: exactly the closures whose empty-iteration
                    // guard (Context::fOffsets) is the defective mechanism
                    if (guarded) c.count("known_defect:closure-infinite-recursion");
                    else c.violation("match-crash-" + mname, ast_json(root) + ",\"options\":" + jstr(opts) + ",\"string\":" + jstr(a16(STR.s[i])));
                    continue;
                }
                if (v < 0) {
                    std::string det; xmatch(C.re, STR.s[i], nullptr, &det);
                    c.violation("match-exception-" + mname, ast_json(root) + ",\"options\":" + jstr(opts) + ",\"string\":" + jstr(a16(STR.s[i])) + ",\"detail\":" + jstr(det));
                    comparable = false;
                    continue;
                }
                if (v != ref[i]) {
                    if (explained(c, mode == 1, opts, C.re, root, STR, i, sem, ref[i], v)) { got[i] = (int8_t)ref[i]; continue; }
                    if (!bad) firstbad = i;
                    bad++;
                }
            }
            c.count(mname + ":matches_calls", ran);
            if (bad) {
                c.count(mname + ":mismatching_pairs", bad);
                bool same_as_base = q > 0 && memcmp(got, V.data() + ois[0] * NS, NS) == 0;
                if (!same_as_base)  // report once per distinct behaviour; pure option dependence is reported below
                    c.violation("verdict-" + mname, ast_json(root) + ",\"options\":" + jstr(opts) + ",\"string\":" + jstr(a16(STR.s[firstbad])) + ",\"expected\":" +
                                                        (ref[firstbad] ? "true" : "false") + ",\"observed\":" + (got[firstbad] ? "true" : "false") +
                                                        ",\"mismatching_strings\":" + std::to_string(bad) + ",\"strings\":" + std::to_string(NS));
            }
        }
        if (comparable)
            for (size_t q = 1; q < ois.size(); q++) {
                const int8_t *g0 = V.data() + ois[0] * NS, *g = V.data() + ois[q] * NS;
                if (memcmp(g0, g, NS) != 0) {
                    size_t i = 0;
                    while (g[i] == g0[i]) i++;
                    c.violation("option-dependence-" + mname, ast_json(root) + ",\"options\":" + jstr(allopts[ois[q]]) + ",\"base_options\":" + jstr(allopts[ois[0]]) + ",\"string\":" +
                                                                  jstr(a16(STR.s[i])) + ",\"with_base\":" + std::to_string(g0[i]) + ",\"with_options\":" + std::to_string(g[i]));
                }
            }
    }
    if (idx % 997 == 0) c.sample("{" + ast_json(root) + "}");
    if (c.verbose) {
        printf("pattern: %s\n", a16(pat).c_str());
        for (size_t i = 0; i < NS && i < 400; i++) printf("  %-24s anchored=%d search=%d\n", ("\"" + a16(STR.s[i]) + "\"").c_str(), refX[i], refS[i]);
    }
}

// =========================================================================================== space: flags (XPath flavour, i s m x)
static std::vector<std::string> g_fh = {"", "FH"};
struct RefPos { bool any; int s0; int e; /* -1: ambiguous end */ };
static RefPos leftmost(PosEval& P, int root, int n, int from = 0) {
    for (int s = from; s <= n; s++) {
        uint32_t E = P.ends(root, s);
        if (E) {
            int e = -1;
            if ((E & (E - 1)) == 0) { e = 0; while (!(E >> e & 1)) e++; }
            return {true, s, e};
        }
    }
    return {false, -1, -1};
}
static void run_flags(uint64_t idx, Ctx& c) {
    int root = (int)idx;
    size_t NS = STR.s.size();
    bool anch = POOL[root].anchor;
    for (int fl = 0; fl < 16; fl++) {
        Sem sem; sem.icase = fl & 1; sem.dotall = fl & 2; sem.multiline = fl & 4;
        bool xc = fl & 8;
        std::string fls = std::string(fl & 1 ? "i" : "") + (fl & 2 ? "s" : "") + (fl & 4 ? "m" : "") + (fl & 8 ? "x" : "");
        U16 pat = render(root, xc);
        std::vector<RefPos> ref(NS);
        std::vector<uint8_t> skip(NS, 0);
        PosEval P;
        size_t acc = 0, cmp = 0;
        for (size_t i = 0; i < NS; i++) {
            const auto& w = STR.sym[i];
            // Perl, F&O 2.0 and F&O 3.0 disagree about ^ and $ next to a string-final line terminator: not compared
            if (anch && !w.empty() && w.back() == S_NL) { skip[i] = 1; continue; }
            P.set(w, sem);
            ref[i] = leftmost(P, root, (int)w.size());
            acc += ref[i].any; cmp++;
        }
        c.count("flags:skipped_final_newline_with_anchor", NS - cmp);
        c.count("flags:ref_accept", acc); c.count("flags:ref_reject", cmp - acc);
        if (acc > 0 && acc < cmp) c.count("flags:nontrivial_ast_x_flagset");
        std::vector<int8_t> base;
        for (size_t oi = 0; oi < g_fh.size(); oi++) {
            std::string opts = fls + g_fh[oi];
            Compiled C;
            compile(C, pat, opts.c_str());
            if (C.exc != EX_NONE) {
                c.violation("valid-pattern-rejected-xpath", ast_json(root) + ",\"rendered\":" + jstr(a16(pat)) + ",\"options\":" + jstr(opts) + ",\"exception\":" + jstr(EXNAME[C.exc]) + ",\"detail\":" + jstr(C.detail));
                continue;
            }
            c.count("flags:compiled");
            if (crashes_guarded(c, root, pat, opts.c_str(), STR)) continue;
            if (oi == 0) count_compiled(c, C.re, "flags[" + fls + "]");
            std::vector<int8_t> got(NS, -9);
            size_t bad = 0, firstbad = 0, badpos = 0, firstpos = 0; std::string det, posdet;
            Match m;
            for (size_t i = 0; i < NS; i++) {
                if (skip[i]) continue;
                int v = xmatch(C.re, STR.s[i], &m, &det);
                got[i] = (int8_t)v;
                if (v < 0) { c.violation("match-exception-xpath", ast_json(root) + ",\"options\":" + jstr(opts) + ",\"string\":" + jstr(a16(STR.s[i])) + ",\"detail\":" + jstr(det)); break; }
                if ((v == 1) != ref[i].any) {
                    if (explained(c, true, opts, C.re, root, STR, i, sem, ref[i].any, v)) { got[i] = ref[i].any; continue; }
                    if (!bad) firstbad = i;
                    bad++;
                    continue;
                }
                if (v == 1) {
                    int es = STR.off[i][ref[i].s0], ee = ref[i].e >= 0 ? STR.off[i][ref[i].e] : -1;
                    int gs = m.getStartPos(0), ge = m.getEndPos(0);
                    c.count(ee >= 0 ? "flags:positions_compared_start_end" : "flags:positions_compared_start_only");
                    if (gs != es || (ee >= 0 && ge != ee)) {
                        const char* kd = classify_known_pos(opts, C.re, root, STR, i, sem, pat.size(), es, ee, gs, ge);
                        if (kd_open(kd)) { c.count(std::string("known_defect:") + kd); continue; }
                        if (!badpos) { firstpos = i; posdet = "\"expected\":[" + std::to_string(es) + "," + std::to_string(ee) + "],\"observed\":[" + std::to_string(gs) + "," + std::to_string(ge) + "]"; }
                        badpos++;
                    }
                }
            }
            c.count("flags:matches_calls", cmp);
            if (oi == 0) base = got;
            if (bad && (oi == 0 || got != base))
                c.violation("verdict-xpath-flags", ast_json(root) + ",\"rendered\":" + jstr(a16(pat)) + ",\"options\":" + jstr(opts) + ",\"string\":" + jstr(a16(STR.s[firstbad])) + ",\"expected\":" +
                                                       (ref[firstbad].any ? "true" : "false") + ",\"observed\":" + (got[firstbad] ? "true" : "false") + ",\"mismatching_strings\":" + std::to_string(bad));
            if (oi > 0 && got != base) {
                size_t i = 0; while (got[i] == base[i]) i++;
                c.violation("option-dependence-xpath", ast_json(root) + ",\"options\":" + jstr(opts) + ",\"base_options\":" + jstr(fls) + ",\"string\":" + jstr(a16(STR.s[i])) +
                                                           ",\"with_base\":" + std::to_string(base[i]) + ",\"with_options\":" + std::to_string(got[i]));
            }
            if (badpos)
                c.violation("match-position-xpath", ast_json(root) + ",\"rendered\":" + jstr(a16(pat)) + ",\"options\":" + jstr(opts) + ",\"string\":" + jstr(a16(STR.s[firstpos])) + "," + posdet +
                                                        ",\"mismatching_strings\":" + std::to_string(badpos) + ",\"fixed_string_only\":" + (C.re->fixedOnly() ? "true" : "false"));
        }
    }
    if (idx % 499 == 0) c.sample("{" + ast_json(root) + "}");
}

// =========================================================================================== space: history
static StrSet HSET;
static void init_hset() {
    std::vector<std::vector<uint8_t>> w = {
        {}, {S_a}, {S_b}, {S_c}, {S_B}, {S_1}, {S_SP}, {S_U}, {S_a, S_a}, {S_a, S_b}, {S_b, S_a}, {S_b, S_b}, {S_a, S_B}, {S_a, S_1}, {S_a, S_SP}, {S_a, S_U},
        {S_U, S_a}, {S_a, S_b, S_c}, {S_a, S_a, S_b}, {S_a, S_b, S_a}, {S_b, S_a, S_b}, {S_a, S_a, S_a}, {S_a, S_a, S_a, S_a}, {S_a, S_b, S_a, S_b},
        {S_a, S_b, S_c, S_a, S_b}, {S_a, S_b, S_SP, S_a, S_b}, {S_a, S_a, S_a, S_a, S_a}, {S_B, S_b, S_1}, {S_U, S_SP, S_U}, {S_1, S_SP, S_a}};
    HSET.build_list(w);
}
struct MRes { int v; std::vector<int> pos; bool operator==(const MRes& o) const { return v == o.v && pos == o.pos; } };
static std::string mres_str(const MRes& r) {
    std::string o = std::to_string(r.v) + ":";
    for (size_t i = 0; i < r.pos.size(); i++) o += (i ? "," : "") + std::to_string(r.pos[i]);
    return o;
}
static MRes mres(const RE* re, const U16& s, Match* m) {
    MRes r; std::string det;
    r.v = xmatch(re, s, m, &det);
    if (r.v == 1 && m) for (int g = 0; g < m->getNoGroups(); g++) { r.pos.push_back(m->getStartPos(g)); r.pos.push_back(m->getEndPos(g)); }
    return r;
}
static void run_history(uint64_t idx, Ctx& c) {
    int root = (int)idx;
    U16 pat = render(root);
    Sem sem;
    size_t NS = HSET.s.size();
    std::swap(STR, HSET);  // deriv_verdicts / explained work on STR
    std::vector<uint8_t> refX, refS;
    deriv_verdicts(c, root, sem, refX, refS);
    for (int mode = 0; mode < 2; mode++) {
        if (!(g_modes >> mode & 1)) continue;
        const char* opts = mode == 0 ? "X" : "";
        const std::string mname = mode == 0 ? "xsd" : "xpath";
        const std::vector<uint8_t>& ref = mode == 0 ? refX : refS;
        if (crashes_guarded(c, root, pat, opts, STR)) continue;
        // baseline: fresh object and fresh Match per string
        std::vector<MRes> base(NS);
        bool ok = true;
        for (size_t i = 0; i < NS && ok; i++) {
            Compiled C; compile(C, pat, opts);
            if (C.exc != EX_NONE) { c.violation("valid-pattern-rejected-" + mname, ast_json(root) + ",\"options\":" + jstr(opts) + ",\"exception\":" + jstr(EXNAME[C.exc])); ok = false; break; }
            Match m;
            base[i] = mres(C.re, STR.s[i], &m);
            if (base[i].v < 0) { c.violation("match-exception-" + mname, ast_json(root) + ",\"string\":" + jstr(a16(STR.s[i]))); ok = false; break; }
            if ((base[i].v == 1) != (bool)ref[i] && !explained(c, mode == 1, opts, C.re, root, STR, i, sem, ref[i], base[i].v)) {
                c.violation("verdict-" + mname, ast_json(root) + ",\"options\":" + jstr(opts) + ",\"string\":" + jstr(a16(STR.s[i])) + ",\"expected\":" + (ref[i] ? "true" : "false"));
                ok = false;
            }
            c.count(base[i].v ? "history:baseline_accept" : "history:baseline_reject");
            if (base[i].pos.size() > 2) c.count("history:baseline_with_capture_groups");
        }
        if (!ok) continue;
        Compiled C; compile(C, pat, opts);
        if (C.exc != EX_NONE) continue;
        Match shared;
        size_t bad = 0; std::string first;
        for (int withMatch = 1; withMatch >= 0; withMatch--)
            for (size_t i = 0; i < NS; i++)
                for (size_t j = 0; j < NS; j++) {
                    MRes r1 = mres(C.re, STR.s[i], withMatch ? &shared : nullptr);
                    MRes r2 = mres(C.re, STR.s[j], withMatch ? &shared : nullptr);
                    bool same = withMatch ? (r2 == base[j] && r1 == base[i]) : (r2.v == base[j].v && r1.v == base[i].v);
                    c.count("history:ordered_pairs");
                    if (base[i].v != base[j].v) c.count("history:pairs_with_different_verdicts");
                    if (!same) {
                        if (!bad) first = "\"first\":" + jstr(a16(STR.s[i])) + ",\"second\":" + jstr(a16(STR.s[j])) + ",\"with_match_object\":" + (withMatch ? "true" : "false") +
                                          ",\"fresh\":" + jstr(mres_str(base[j])) + ",\"reused\":" + jstr(mres_str(r2)) + ",\"fresh_first\":" + jstr(mres_str(base[i])) + ",\"reused_first\":" + jstr(mres_str(r1));
                        bad++;
                    }
                }
        if (bad) c.violation("history-dependence-" + mname, ast_json(root) + ",\"options\":" + jstr(opts) + "," + first + ",\"differing_pairs\":" + std::to_string(bad));
    }
    std::swap(STR, HSET);
    if (idx % 499 == 0) c.sample("{" + ast_json(root) + "}");
}

// =========================================================================================== space: tokrep

static void run_tokrep(uint64_t idx, Ctx& c) {
    int root = (int)idx;
    U16 pat = render(root);
    Sem sem;
    size_t NS = STR.s.size();
    static const U16 REPL = w16("[$0]");
    bool nullable;
    { PosEval P; std::vector<uint8_t> e; P.set(e, sem); nullable = P.ends(root, 0) & 1; }
    c.count(nullable ? "tokrep:ast_matches_empty_string" : "tokrep:ast_usable");
    MemoryManager* mm = XMLPlatformUtils::fgMemoryManager;
    for (int mode = 0; mode < 2; mode++) {
        if (!(g_modes >> mode & 1)) continue;
        const char* opts = mode == 0 ? "X" : "";
        const std::string mname = mode == 0 ? "xsd" : "xpath";
        Compiled C; compile(C, pat, opts);
        if (C.exc != EX_NONE) { c.violation("valid-pattern-rejected-" + mname, ast_json(root) + ",\"options\":" + jstr(opts) + ",\"exception\":" + jstr(EXNAME[C.exc])); continue; }
        if (crashes_guarded(c, root, pat, opts, STR)) continue;
        size_t badT = 0, badR = 0, badP = 0, badW = 0; std::string dT, dR, dP, dW;
        PosEval P;
        for (size_t i = 0; i < NS; i++) {
            const auto& w = STR.sym[i]; const U16& s = STR.s[i]; int n = (int)w.size();
            if (nullable) {
                if (i >= 3) break;
                // documented (F&O FORX0003 / RuntimeException Regex_RepPatMatchesZeroString): a pattern matching the empty string is an error
                int t = 0, r = 0;
                try { RefArrayVectorOf<XMLCh>* v = C.re->tokenize((const XMLCh*)s.c_str()); delete v; } catch (const RuntimeException&) { t = 1; } catch (...) { t = 2; }
                try { XMLCh* o = C.re->replace((const XMLCh*)s.c_str(), (const XMLCh*)REPL.c_str()); mm->deallocate(o); } catch (const RuntimeException&) { r = 1; } catch (...) { r = 2; }
                c.count("tokrep:zero_length_pattern_calls", 2);
                if (t != 1 || r != 1) c.violation("tokrep-empty-match-not-rejected-" + mname, ast_json(root) + ",\"string\":" + jstr(a16(s)) + ",\"tokenize\":" + std::to_string(t) + ",\"replace\":" + std::to_string(r));
                continue;
            }
            P.set(w, sem);
            // reference: successive leftmost matches; usable only if every end is unambiguous
            std::vector<std::pair<int, int>> ms; bool amb = false;
            for (int pos = 0; pos <= n;) {
                RefPos rp = leftmost(P, root, n, pos);
                if (!rp.any) break;
                if (rp.e < 0) { amb = true; break; }
                ms.push_back({rp.s0, rp.e});
                pos = rp.e > rp.s0 ? rp.e : rp.s0 + 1;
            }
            // Match(0) of matches(): first match start (always) and end (if unambiguous); XSD mode: whole string
            {
                Match m; std::string det;
                int v = xmatch(C.re, s, &m, &det);
                bool exp; int es = -1, ee = -1;
                if (mode == 0) { exp = (P.ends(root, 0) >> n) & 1; es = 0; ee = (int)s.size(); }
                else { RefPos rp = leftmost(P, root, n); exp = rp.any; if (exp) { es = STR.off[i][rp.s0]; ee = rp.e >= 0 ? STR.off[i][rp.e] : -1; } }
                if (v < 0) c.violation("match-exception-" + mname, ast_json(root) + ",\"string\":" + jstr(a16(s)) + ",\"detail\":" + jstr(det));
                else if ((v == 1) != exp) {
                    if (!explained(c, mode == 1, opts, C.re, root, STR, i, sem, exp, v) && !badP++) dP = "\"string\":" + jstr(a16(s)) + ",\"expected_verdict\":" + (exp ? "true" : "false");
                } else if (v == 1) {
                    c.count("tokrep:match_positions_compared");
                    int gs = m.getStartPos(0), ge = m.getEndPos(0);
                    const char* kd = (gs != es || (ee >= 0 && ge != ee)) ? classify_known_pos(opts, C.re, root, STR, i, sem, pat.size(), es, ee, gs, ge) : nullptr;
                    if (kd_open(kd)) c.count(std::string("known_defect:") + kd);
                    else if ((gs != es || (ee >= 0 && ge != ee)) && !badP++)
                        dP = "\"string\":" + jstr(a16(s)) + ",\"expected\":[" + std::to_string(es) + "," + std::to_string(ee) + "],\"observed\":[" + std::to_string(gs) + "," + std::to_string(ge) + "]";
                }
            }
            // windows: matches(str, start, end) must answer for the window exactly what matches() answers for a stand-alone copy of that text
            // (the expression alphabet has no anchors or look-around, so the text outside the window cannot matter), with the match shifted by start
            for (int a = 0; a <= n; a++) for (int b = a; b <= n; b++) {
                if (a == 0 && b == n) continue;
                XMLSize_t oa = (XMLSize_t)STR.off[i][a], ob = (XMLSize_t)STR.off[i][b];
                U16 copy = s.substr(oa, ob - oa);
                Match mw, mc; int vw = -99, vc = -99;
                try { vw = C.re->matches((const XMLCh*)s.c_str(), oa, ob, &mw, mm) ? 1 : 0; } catch (...) { vw = -1; }
                try { vc = C.re->matches((const XMLCh*)copy.c_str(), &mc, mm) ? 1 : 0; } catch (...) { vc = -1; }
                c.count("tokrep:windows_compared");
                bool posDiff = vw == 1 && vc == 1 && (mw.getStartPos(0) != mc.getStartPos(0) + (int)oa || mw.getEndPos(0) != mc.getEndPos(0) + (int)oa);
                if ((vw != vc || posDiff) && !badW++)
                    dW = "\"string\":" + jstr(a16(s)) + ",\"window\":[" + std::to_string(oa) + "," + std::to_string(ob) + "],\"window_verdict\":" + std::to_string(vw) + ",\"copy_verdict\":" + std::to_string(vc) +
                         (posDiff ? ",\"window_match\":[" + std::to_string(mw.getStartPos(0)) + "," + std::to_string(mw.getEndPos(0)) + "],\"copy_match\":[" + std::to_string(mc.getStartPos(0)) + "," + std::to_string(mc.getEndPos(0)) + "]" : std::string());
            }
            if (amb) { c.count("tokrep:skipped_ambiguous_end"); continue; }
            c.count(ms.empty() ? "tokrep:strings_without_match" : "tokrep:strings_with_match");
            c.count("tokrep:reference_matches", ms.size());
            std::vector<U16> etok; U16 erep;
            int cur = 0;
            for (auto& pr : ms) {
                int a = STR.off[i][pr.first], b = STR.off[i][pr.second];
                etok.push_back(s.substr(cur, a - cur));
                erep += s.substr(cur, a - cur); erep += u'['; erep += s.substr(a, b - a); erep += u']';
                cur = b;
            }
            etok.push_back(s.substr(cur)); erep += s.substr(cur);
            // tokenize
            {
                std::vector<U16> got; int ex = 0;
                try {
                    RefArrayVectorOf<XMLCh>* v = C.re->tokenize((const XMLCh*)s.c_str());
                    for (XMLSize_t k = 0; k < v->size(); k++) got.push_back(U16((const char16_t*)v->elementAt(k)));
                    delete v;
                } catch (const XMLException&) { ex = 1; } catch (...) { ex = 2; }
                c.count("tokrep:tokenize_calls");
                if ((ex || got != etok) && !badT++) {
                    std::string g, e;
                    for (auto& t : got) g += "<" + a16(t) + ">";
                    for (auto& t : etok) e += "<" + a16(t) + ">";
                    dT = "\"string\":" + jstr(a16(s)) + ",\"expected\":" + jstr(e) + ",\"observed\":" + jstr(ex ? "exception" : g);
                }
            }
            // replace
            {
                U16 got; int ex = 0;
                try { XMLCh* o = C.re->replace((const XMLCh*)s.c_str(), (const XMLCh*)REPL.c_str()); got = U16((const char16_t*)o); mm->deallocate(o); }
                catch (const XMLException&) { ex = 1; } catch (...) { ex = 2; }
                c.count("tokrep:replace_calls");
                if ((ex || got != erep) && !badR++) dR = "\"string\":" + jstr(a16(s)) + ",\"expected\":" + jstr(a16(erep)) + ",\"observed\":" + jstr(ex ? "exception" : a16(got));
            }
        }
        if (badT) c.violation("tokenize-" + mname, ast_json(root) + ",\"options\":" + jstr(opts) + "," + dT + ",\"mismatching_strings\":" + std::to_string(badT));
        if (badR) c.violation("replace-" + mname, ast_json(root) + ",\"options\":" + jstr(opts) + "," + dR + ",\"mismatching_strings\":" + std::to_string(badR));
        if (badW) c.violation("window-differs-from-copy-" + mname, ast_json(root) + ",\"options\":" + jstr(opts) + "," + dW + ",\"mismatching_windows\":" + std::to_string(badW));
        if (badP) c.violation("match-position-" + mname, ast_json(root) + ",\"options\":" + jstr(opts) + "," + dP + ",\"mismatching_strings\":" + std::to_string(badP) +
                                                             ",\"fixed_string_only\":" + (C.re->fixedOnly() ? "true" : "false"));
    }
    if (idx % 499 == 0) c.sample("{" + ast_json(root) + "}");
}

// =========================================================================================== space: malformed (catalogue + bad-quantifier ASTs)
// cls: 'M' malformed in the given dialects => ParseException;  'N' must not crash: compiles or ParseException;  'V' valid: compiles, accepts `acc`, rejects `rej`
//      'O' malformed option string (pattern "a")
struct CatEntry { char cls; int modes; const char* pat; const char* acc; const char* rej; };
static const CatEntry CATALOGUE[] = {
    // ---- parentheses
    {'M', 3, "(", 0, 0}, {'M', 3, ")", 0, 0}, {'M', 3, "(a", 0, 0}, {'M', 3, "a)", 0, 0}, {'M', 3, "((a)", 0, 0}, {'M', 3, "(a))", 0, 0}, {'M', 3, "()(", 0, 0},
    {'M', 3, "a|(", 0, 0}, {'M', 3, "(|", 0, 0}, {'M', 3, "(a|b", 0, 0},
    // ---- quantifier without atom / double quantifier
    {'M', 3, "*", 0, 0}, {'M', 3, "+", 0, 0}, {'M', 3, "?", 0, 0}, {'M', 3, "*a", 0, 0}, {'M', 3, "+a", 0, 0}, {'M', 3, "?a", 0, 0}, {'M', 3, "a|*", 0, 0}, {'M', 3, "a|+b", 0, 0},
    {'M', 3, "(*)", 0, 0}, {'M', 3, "(+a)", 0, 0}, {'M', 3, "(?)", 0, 0}, {'M', 3, "a**", 0, 0}, {'M', 3, "a*+", 0, 0}, {'M', 3, "a+*", 0, 0}, {'M', 3, "a?*", 0, 0},
    {'M', 1, "a??", 0, 0}, {'M', 1, "a*?", 0, 0}, {'M', 1, "a+?", 0, 0}, {'M', 1, "a{1}?", 0, 0}, {'M', 3, "a{1}{2}", 0, 0}, {'M', 3, "a{1}*", 0, 0}, {'M', 3, "a*{2}", 0, 0},
    // ---- quantities
    {'M', 3, "a{", 0, 0}, {'M', 3, "a{}", 0, 0}, {'M', 3, "a{,}", 0, 0}, {'M', 3, "a{,2}", 0, 0}, {'M', 3, "a{x}", 0, 0}, {'M', 3, "a{1", 0, 0}, {'M', 3, "a{1,", 0, 0}, {'M', 3, "a{1,2", 0, 0},
    {'M', 3, "a{2,1}", 0, 0}, {'M', 3, "a{1,x}", 0, 0}, {'M', 3, "a{1;2}", 0, 0}, {'M', 3, "a{-1}", 0, 0}, {'M', 3, "{1}", 0, 0}, {'M', 3, "a|{1}", 0, 0}, {'M', 3, "a{1 }", 0, 0},
    {'M', 3, "a{ 1}", 0, 0}, {'M', 3, "a{1,2,3}", 0, 0}, {'M', 3, "a{1,,2}", 0, 0}, {'M', 3, "({1})", 0, 0}, {'M', 3, "a{10,9}", 0, 0},
    // ---- character classes
    {'M', 3, "]", 0, 0}, {'M', 3, "a]", 0, 0}, {'M', 3, "[", 0, 0}, {'M', 3, "[]", 0, 0}, {'M', 3, "[a", 0, 0}, {'M', 3, "[^", 0, 0}, {'M', 3, "[^]", 0, 0}, {'M', 3, "[b-a]", 0, 0},
    {'M', 3, "[a-c-[b]", 0, 0}, {'M', 3, "[a-c-[b]]]", 0, 0}, {'M', 3, "[a-c-[]]", 0, 0}, {'M', 3, "[[a]]", 0, 0}, {'M', 3, "[a[b]]", 0, 0}, {'M', 3, "[a-c-[b]c]", 0, 0},
    {'M', 3, "[a-\\d]", 0, 0}, {'M', 3, "[\\a]", 0, 0}, {'M', 3, "[\\p{Xx}]", 0, 0}, {'M', 3, "[a-c-[c-b]]", 0, 0}, {'M', 3, "[a-c", 0, 0}, {'M', 3, "[a-", 0, 0}, {'M', 3, "[\\", 0, 0},
    // ---- escapes
    {'M', 3, "\\", 0, 0}, {'M', 3, "a\\", 0, 0}, {'M', 3, "\\a", 0, 0}, {'M', 3, "\\e", 0, 0}, {'M', 3, "\\z", 0, 0}, {'M', 3, "\\_", 0, 0}, {'M', 3, "\\ ", 0, 0}, {'M', 3, "\\1", 0, 0},
    {'M', 3, "(a)\\2", 0, 0}, {'M', 3, "\\p", 0, 0}, {'M', 3, "\\p{", 0, 0}, {'M', 3, "\\p{}", 0, 0}, {'M', 3, "\\p{Xx}", 0, 0}, {'M', 3, "\\pL", 0, 0}, {'M', 3, "\\P{Lu", 0, 0},
    {'M', 3, "\\p{lu}", 0, 0}, {'M', 3, "\\p{L", 0, 0}, {'M', 1, "\\$", 0, 0}, {'M', 3, "\\x41", 0, 0}, {'M', 3, "\\u0041", 0, 0}, {'M', 3, "\\b", 0, 0}, {'M', 3, "\\A", 0, 0},
    {'M', 3, "\\Z", 0, 0}, {'M', 3, "\\Q", 0, 0}, {'M', 3, "\\0", 0, 0}, {'M', 1, "(a)\\1", 0, 0}, {'M', 3, "\\p{IsBasicLatin", 0, 0}, {'M', 3, "\\p{Is}", 0, 0},
    // ---- option strings
    {'O', 3, "q", 0, 0}, {'O', 3, "Xq", 0, 0}, {'O', 3, "i ", 0, 0}, {'O', 3, "I", 0, 0}, {'O', 3, "x,i", 0, 0},
    // ---- must not crash / no foreign exception (syntax on which the specifications differ, huge quantities, ill-formed UTF-16)
    {'N', 3, "a{99999999999}", 0, 0}, {'N', 3, "a{2147483648}", 0, 0}, {'N', 3, "a{1,99999999999}", 0, 0}, {'N', 3, "a{4294967297}", 0, 0},
    {'N', 3, "{", 0, 0}, {'N', 3, "}", 0, 0}, {'N', 3, "a{b", 0, 0}, {'N', 3, "a}", 0, 0}, {'N', 3, "[-]", 0, 0}, {'N', 3, "[a-b-c]", 0, 0}, {'N', 3, "[\\d-z]", 0, 0}, {'N', 3, "[a--b]", 0, 0},
    {'N', 3, "(?:a)", 0, 0}, {'N', 3, "\\p{IsNoSuchBlock}", 0, 0}, {'N', 3, "\x02", 0, 0}, {'N', 3, "\x02" "a", 0, 0}, {'N', 3, "\x03", 0, 0}, {'N', 3, "[\x02" "a]", 0, 0},
    {'N', 3, "[\x03]", 0, 0}, {'N', 3, "a\x02", 0, 0}, {'N', 3, "[a-\x02]", 0, 0}, {'N', 3, "\x02\x02", 0, 0}, {'N', 3, "\\\x02", 0, 0},
    // ---- valid corners with by-construction examples (XSD mode: anchored; XPath flavour: search)
    {'V', 1, "", "", "a"}, {'V', 1, "a|", "", "b"}, {'V', 1, "|a", "a", "b"}, {'V', 1, "()", "", "a"}, {'V', 1, "(|a)", "a", "aa"}, {'V', 1, "(a|)", "", "b"}, {'V', 1, "a||b", "", "c"},
    {'V', 1, "[a-]", "-", "b"}, {'V', 1, "[-a]", "-", "b"}, {'V', 1, "[a\\-c]", "-", "b"}, {'V', 1, "[a-[b]]", "a", "b"}, {'V', 1, "[a-c-[b-c]]", "a", "c"}, {'V', 1, "[\\^a]", "^", "b"},
    {'V', 1, "[a^]", "^", "b"}, {'V', 1, "[+*?.(){}|$]", "+", "a"}, {'V', 1, "[\\[\\]]", "[", "a"}, {'V', 1, "\\p{L}", "a", "1"}, {'V', 1, "\\P{L}", "1", "a"}, {'V', 1, "\\p{IsGreek}", "\x04", "a"},
    {'V', 1, "\\P{IsGreek}", "a", "\x04"}, {'V', 1, "\\p{Ll}\\p{Nd}\\p{Zs}", "a1 ", "a1a"}, {'V', 1, "a{0}", "", "a"}, {'V', 1, "a{0,}", "aaa", "b"}, {'V', 1, "a{01}", "a", "aa"},
    {'V', 1, "a{1,1}", "a", "aa"}, {'V', 1, "a{0,0}", "", "a"}, {'V', 1, "a{3}", "aaa", "aa"}, {'V', 1, "a{2,}", "aaaaa", "a"}, {'V', 1, "a{10}", "aaaaaaaaaa", "aaaaaaaaa"},
    {'V', 1, "a{2,11}", "aaaaaaaaaaa", "aaaaaaaaaaaa"}, {'V', 1, "\\n\\r\\t", "\n\r\t", "nrt"}, {'V', 1, "\\-", "-", "a"},
    {'V', 1, "\\|\\.\\?\\*\\+\\(\\)\\{\\}\\[\\]\\^\\\\", "|.?*+(){}[]^\\", "a"}, {'V', 1, "^a$", "^a$", "a"}, {'V', 1, "a^b", "a^b", "ab"}, {'V', 1, "[^\\d]", "a", "1"},
    {'V', 1, "[\\d\\s]", " ", "a"}, {'V', 1, "[\\p{Lu}a]", "a", "b"}, {'V', 1, "[^\\p{Lu}a]", "b", "B"}, {'V', 1, "\\D", "a", "1"}, {'V', 1, "\\S\\W\\I\\C", "a 1 ", "aaaa"},
    {'V', 1, "a{2}b{0,1}", "aab", "ab"}, {'V', 1, "(a|b)*c", "abbac", "abca"}, {'V', 1, "((a))", "a", ""}, {'V', 1, "a-b", "a-b", "ab"}, {'V', 1, "a,b", "a,b", "ab"},
    {'V', 1, "\x01", "\x01", "a"}, {'V', 1, "[\x01]", "\x01", "a"}, {'V', 1, "[^\x01]", "a", "\x01"}, {'V', 1, "[a-\x01]", "\x04", "1"}, {'V', 1, ".", "\x01", "\n"}, {'V', 1, ".", "a", "\r"},
    {'V', 1, "[\\s-[ ]]", "\n", " "}, {'V', 1, "[\\w-[a-z]]", "B", "b"}, {'V', 1, "[^a-[b]]", "c", "b"}, {'V', 1, "[\\i-[:]]\\c*", "ab1", "1a"},
    {'V', 2, "^a$", "a", "ba"}, {'V', 2, "a*?b", "aab", "a"}, {'V', 2, "(a)\\1", "caa", "ab"}, {'V', 2, "\\$", "a$", "a"}, {'V', 2, "a??b", "ab", "a"}, {'V', 2, "(a)(b)\\2\\1", "abba", "abab"},
    {'V', 2, "a{2}?", "aa", "a"}, {'V', 2, "^$", "", "a"}, {'V', 2, "ab", "cabc", "acb"}, {'V', 2, "a\\.b", "ca.bc", "caxbc"}, {'V', 2, "[a-c-[b]]+", "xxa", "xbx"},
};
static const int N_CAT = sizeof(CATALOGUE) / sizeof(CATALOGUE[0]);
// catalogue entries on which the unchanged library is known to misbehave (genuine defects, docs/c11.md): their violations carry the
// kind "known-defect:<name>" so that they can be told apart from new findings; they are never skipped.
struct CatDefect { const char* pat; int mode; /* 0 xsd, 1 xpath, -1 both */ const char* name; };
static const CatDefect CAT_DEFECTS[] = {
    {"a{99999999999}", -1, "quantifier-overflow-ub"}, {"a{2147483648}", -1, "quantifier-overflow-ub"}, {"a{1,99999999999}", -1, "quantifier-overflow-ub"},
    {"a{4294967297}", -1, "quantifier-overflow-ub"},
    {"\x02" "a", -1, "lone-surrogate-throws-enum"}, {"[\x02" "a]", -1, "lone-surrogate-throws-enum"}, {"[a-\x02]", -1, "lone-surrogate-throws-enum"}, {"\x02\x02", -1, "lone-surrogate-throws-enum"},
    {"\\1", 0, "xsd-backreference-runtimeexception"}, {"(a)\\1", 0, "xsd-backreference-runtimeexception"}, {"(a)\\2", 0, "xsd-backreference-runtimeexception"},
    {"\\0", 0, "xsd-backreference-runtimeexception"}, {"\\0", 1, "backreference-zero-accepted"},
    {"\\p{", -1, "unterminated-category-wrong-exception"},
};
static const char* cat_defect(const char* pat, int mode) {
    for (auto& d : CAT_DEFECTS) if (strcmp(d.pat, pat) == 0 && (d.mode < 0 || d.mode == mode)) return d.name;
    return nullptr;
}
static std::vector<int> BADQ;
// compile (and run four matches) in a forked child with stderr captured; returns the wait status (0 = terminated normally)
static int probe_in_child(const U16& pat, const std::vector<std::string>& optlist, std::string& log) {
    int fds[2];
    if (pipe(fds) != 0) return 0;
    fflush(nullptr);
    pid_t p = fork();
    if (p == 0) {
        close(fds[0]); dup2(fds[1], 2); close(fds[1]);
        alarm(110);
        for (auto& opts : optlist) {
            Compiled C;
            compile(C, pat, opts.c_str());
            if (C.re) for (const char* s : {"", "a", "aa", "b"}) xmatch(C.re, w16(s), nullptr, nullptr);
        }
        _exit(0);
    }
    close(fds[1]);
    char buf[4096]; ssize_t n;
    while ((n = read(fds[0], buf, sizeof buf)) > 0) if (log.size() < 8192) log.append(buf, (size_t)n);
    close(fds[0]);
    int st = 0;
    waitpid(p, &st, 0);
    // keep only the first line (deterministic part) of the sanitizer report: addresses differ between runs
    size_t nl = log.find('\n');
    if (nl != std::string::npos) log.resize(nl);
    return st;
}
static void run_malformed(uint64_t idx, Ctx& c) {
    if (idx < (uint64_t)N_CAT) {
        const CatEntry& e = CATALOGUE[idx];
        int both_status = 0;
        for (int mode = 0; mode < 2; mode++) {
            if (!(e.modes >> mode & 1)) continue;
            const std::string mname = mode == 0 ? "xsd" : "xpath";
            std::string opts = mode == 0 ? "X" : "";
            U16 pat = cat16(e.pat);
            if (e.cls == 'O') { opts = e.pat; if (mode == 0 && !has_opt(opts, 'X')) opts = "X" + opts; pat = w16("a"); }
            std::string desc = "\"pattern\":" + jstr(a16(pat)) + ",\"options\":" + jstr(opts) + ",\"class\":" + jstr(std::string(1, e.cls));
            const char* kdname = cat_defect(e.pat, mode);
            auto viol = [&](const std::string& kind, const std::string& detail) {
                if (kdname) { c.count(std::string("known_defect:") + kdname); c.violation(std::string("known-defect:") + kdname, "\"observed_as\":" + jstr(kind) + "," + detail); }
                else c.violation(kind, detail);
            };
            if (e.cls == 'N' && mode == 0) {
                // probe in ONE forked child first (both dialects): a sanitizer abort / signal must be attributed to this entry without
                // killing the worker.  A sanitizer report is slow (symbolisation), so a dying entry is not probed again per dialect.
                std::string log;
                both_status = probe_in_child(pat, {"X", ""}, log);
                if (both_status != 0) {
                    c.count("catalogue:N:abnormal-termination");
                    viol("compile-crash", desc + ",\"dialects\":\"X and XPath probed in one child\",\"how\":" +
                                              jstr(WIFSIGNALED(both_status) ? "signal " + std::to_string(WTERMSIG(both_status)) : "exit " + std::to_string(WEXITSTATUS(both_status))) +
                                              ",\"log\":" + jstr(log.substr(0, 700)));
                }
            }
            if (e.cls == 'N' && both_status != 0) continue;
            Compiled C;
            compile(C, pat, opts.c_str());
            c.count(std::string("catalogue:") + e.cls + ":" + mname + ":" + EXNAME[C.exc]);
            if (e.cls == 'M' || e.cls == 'O') {
                if (C.exc == EX_NONE) viol("malformed-accepted-" + mname, desc);
                else if (C.exc != EX_PARSE) viol("malformed-wrong-exception-" + mname, desc + ",\"exception\":" + jstr(EXNAME[C.exc]) + ",\"detail\":" + jstr(C.detail));
            } else if (e.cls == 'N') {
                if (C.exc != EX_NONE && C.exc != EX_PARSE) viol("compile-foreign-exception-" + mname, desc + ",\"exception\":" + jstr(EXNAME[C.exc]) + ",\"detail\":" + jstr(C.detail));
                if (C.exc == EX_NONE) { std::string det; for (const char* s : {"", "a", "aa", "b"}) if (xmatch(C.re, w16(s), nullptr, &det) < 0) viol("match-exception-" + mname, desc + ",\"string\":" + jstr(s) + ",\"detail\":" + jstr(det)); }
            } else {
                if (C.exc != EX_NONE) { viol("valid-pattern-rejected-" + mname, desc + ",\"exception\":" + jstr(EXNAME[C.exc]) + ",\"detail\":" + jstr(C.detail)); continue; }
                std::string det;
                int va = xmatch(C.re, cat16(e.acc), nullptr, &det), vr = xmatch(C.re, cat16(e.rej), nullptr, &det);
                c.count("catalogue:valid_examples_checked", 2);
                if (va != 1) viol("verdict-" + mname, desc + ",\"string\":" + jstr(a16(cat16(e.acc))) + ",\"expected\":true,\"observed\":" + std::to_string(va));
                if (vr != 0) viol("verdict-" + mname, desc + ",\"string\":" + jstr(a16(cat16(e.rej))) + ",\"expected\":false,\"observed\":" + std::to_string(vr));
            }
        }
        return;
    }
    int root = BADQ[idx - N_CAT];
    U16 pat = render(root);
    for (int mode = 0; mode < 2; mode++) {
        const std::string mname = mode == 0 ? "xsd" : "xpath";
        Compiled C;
        compile(C, pat, mode == 0 ? "X" : "");
        c.count("badquant:" + mname + ":" + EXNAME[C.exc]);
        if (C.exc == EX_NONE) c.violation("malformed-accepted-" + mname, ast_json(root));
        else if (C.exc != EX_PARSE) c.violation("malformed-wrong-exception-" + mname, ast_json(root) + ",\"exception\":" + jstr(EXNAME[C.exc]) + ",\"detail\":" + jstr(C.detail));
    }
    if (idx % 499 == 0) c.sample("{" + ast_json(root) + "}");
}

// =========================================================================================== space: known (strict witnesses of KNOWN_DEFECTS)
static void on_child_segv(int) { _exit(77); }
static void run_known(uint64_t idx, Ctx& c) {
    const KnownDefect& k = KNOWN_DEFECTS[idx];
    std::string desc = "\"defect\":" + jstr(k.name) + ",\"pattern\":" + jstr(a16(cat16(k.pattern))) + ",\"options\":" + jstr(k.options) + ",\"string\":" + jstr(a16(cat16(k.string))) +
                       ",\"expected\":" + (k.expected ? "true" : "false") + (k.es >= -1 ? ",\"expected_group0\":[" + std::to_string(k.es) + "," + std::to_string(k.ee) + "]" : "") +
                       ",\"what\":" + jstr(k.what);
    // the witness runs in a forked child (one of the defects is a crash); the child reports {exc, verdict, start0, end0} through a pipe
    int fds[2];
    if (pipe(fds) != 0) { c.violation("harness-pipe", desc); return; }
    fflush(nullptr);
    pid_t p = fork();
    if (p == 0) {
        close(fds[0]);
        static char altstack[1 << 16];
        stack_t ss; ss.ss_sp = altstack; ss.ss_size = sizeof altstack; ss.ss_flags = 0; sigaltstack(&ss, nullptr);
        struct sigaction sa; memset(&sa, 0, sizeof sa); sa.sa_handler = on_child_segv; sa.sa_flags = SA_ONSTACK; sigaction(SIGSEGV, &sa, nullptr); sigaction(SIGBUS, &sa, nullptr);
        struct rlimit rl; rl.rlim_cur = rl.rlim_max = 1 << 20; setrlimit(RLIMIT_STACK, &rl);
        struct itimerval it; memset(&it, 0, sizeof it); setitimer(ITIMER_REAL, &it, nullptr);
        signal(SIGALRM, SIG_DFL); alarm(110);
        int out[4] = {0, -1, -1, -1};
        Compiled C;
        compile(C, cat16(k.pattern), k.options);
        out[0] = C.exc;
        if (C.re) {
            Match m;
            out[1] = xmatch(C.re, cat16(k.string), &m, nullptr);
            if (out[1] == 1) { out[2] = m.getStartPos(0); out[3] = m.getEndPos(0); }
        }
        if (write(fds[1], out, sizeof out) != (ssize_t)sizeof out) _exit(3);
        _exit(0);
    }
    close(fds[1]);
    int out[4] = {0, -1, -1, -1};
    ssize_t got = read(fds[0], out, sizeof out);
    close(fds[0]);
    int st = 0;
    while (waitpid(p, &st, 0) < 0 && errno == EINTR) {}
    std::string kind = std::string("known-defect:") + k.name;
    if (!(WIFEXITED(st) && WEXITSTATUS(st) == 0) || got != (ssize_t)sizeof out) {
        c.count("known:still_present");
        c.violation(kind, desc + ",\"observed\":" + jstr(WIFSIGNALED(st) ? "killed by signal " + std::to_string(WTERMSIG(st)) : WEXITSTATUS(st) == 77 ? "stack exhausted (SIGSEGV) inside matches()" : "abnormal exit " + std::to_string(WEXITSTATUS(st))));
        return;
    }
    if (out[0] != EX_NONE) { c.count("known:still_present"); c.violation(kind, desc + ",\"observed\":" + jstr(EXNAME[out[0]])); return; }
    int v = out[1];
    bool bad = v != (k.expected ? 1 : 0);
    std::string obs = v == 1 ? "true" : v == 0 ? "false" : "\"exception\"";
    if (!bad && v == 1 && k.es >= -1 && (out[2] != k.es || out[3] != k.ee)) {
        bad = true;
        obs += ",\"observed_group0\":[" + std::to_string(out[2]) + "," + std::to_string(out[3]) + "]";
    }
    if (bad) { c.count("known:still_present"); c.violation(kind, desc + ",\"observed\":" + obs); }
    else c.count("known:no_longer_reproduces");
}

// =========================================================================================== space: facet (xs:pattern through the validator)
static std::string utf8(const U16& s) {
    std::string o;
    for (size_t i = 0; i < s.size(); i++) {
        unsigned cp = s[i];
        if (cp >= 0xD800 && cp < 0xDC00 && i + 1 < s.size()) { cp = 0x10000 + ((cp - 0xD800) << 10) + (s[i + 1] - 0xDC00); i++; }
        if (cp < 0x80) o += (char)cp;
        else if (cp < 0x800) { o += (char)(0xC0 | cp >> 6); o += (char)(0x80 | (cp & 63)); }
        else if (cp < 0x10000) { o += (char)(0xE0 | cp >> 12); o += (char)(0x80 | (cp >> 6 & 63)); o += (char)(0x80 | (cp & 63)); }
        else { o += (char)(0xF0 | cp >> 18); o += (char)(0x80 | (cp >> 12 & 63)); o += (char)(0x80 | (cp >> 6 & 63)); o += (char)(0x80 | (cp & 63)); }
    }
    return o;
}
static std::string xmlesc(const std::string& s) {
    std::string o;
    for (char ch : s) { if (ch == '&') o += "&amp;"; else if (ch == '<') o += "&lt;"; else if (ch == '"') o += "&quot;"; else if (ch == '>') o += "&gt;"; else o += ch; }
    return o;
}
static std::string g_instance;  // the same instance document for every case
static void run_facet(uint64_t idx, Ctx& c) {
    int root = (int)idx;
    U16 pat = render(root);
    Sem sem;
    size_t NS = STR.s.size();
    std::vector<uint8_t> refX, refS;
    deriv_verdicts(c, root, sem, refX, refS);
    if (crashes_guarded(c, root, pat, "X", STR)) return;
    g_vfs->clear();
    g_vfs->put("/v/s.xsd",
               "<xs:schema xmlns:xs=\"http://www.w3.org/2001/XMLSchema\"><xs:element name=\"l\"><xs:complexType><xs:sequence>"
               "<xs:element name=\"r\" minOccurs=\"0\" maxOccurs=\"unbounded\"><xs:simpleType><xs:restriction base=\"xs:string\"><xs:pattern value=\"" +
                   xmlesc(utf8(pat)) + "\"/></xs:restriction></xs:simpleType></xs:element></xs:sequence></xs:complexType></xs:element></xs:schema>");
    Config cfg; cfg.api = SAX2; cfg.scanner = (idx & 1) ? SG : IG; cfg.val = 1; cfg.ns = true; cfg.schema = true; cfg.fullcheck = true; cfg.exitFirstFatal = false;
    ParseIO io; io.bytes = g_instance;
    ParseResult r = parse_xerces(cfg, io);
    c.count("facet:validations");
    if (!r.exc.empty() || r.fatals) { c.violation("facet-parse-failure", ast_json(root) + ",\"exc\":" + jstr(r.exc) + ",\"first_error\":" + jstr(r.errors.empty() ? "" : r.errors[0])); return; }
    std::vector<uint8_t> invalid(NS, 0);
    for (auto& e : r.errors) {
        // "sev|line|col|msg|sysid"
        size_t p1 = e.find('|'), p2 = e.find('|', p1 + 1);
        long line = atol(e.substr(p1 + 1, p2 - p1 - 1).c_str());
        if (e.find("s.xsd") != std::string::npos) { c.violation("facet-schema-error", ast_json(root) + ",\"error\":" + jstr(e)); return; }
        if (line >= 2 && (size_t)(line - 2) < NS) invalid[line - 2] = 1;
        else { c.violation("facet-unexpected-error", ast_json(root) + ",\"error\":" + jstr(e)); return; }
    }
    size_t bad = 0, first = 0;
    Compiled C;
    for (size_t i = 0; i < NS; i++) {
        c.count(refX[i] ? "facet:ref_valid" : "facet:ref_invalid");
        if ((bool)invalid[i] == (bool)refX[i]) {
            if (!C.re && C.exc == EX_NONE) compile(C, pat, "X");
            if (C.re && explained(c, false, "X", C.re, root, STR, i, sem, refX[i], !invalid[i])) continue;
            if (!bad++) first = i;
        }
    }
    if (bad) c.violation("facet-verdict", ast_json(root) + ",\"string\":" + jstr(a16(STR.s[first])) + ",\"expected_valid\":" + (refX[first] ? "true" : "false") + ",\"mismatching_strings\":" + std::to_string(bad));
    if (idx % 199 == 0) c.sample("{" + ast_json(root) + "}");
}

// =========================================================================================== main
int main(int argc, char** argv) {
    Args a(argc, argv);
    init_syms();
    std::string space = a.str("space", "ast");
    g_modes = (int)a.num("modes", 3);
    g_crossref = a.num("crossref", 1) != 0;
    g_count_from = (int)a.num("count-from-nodes", 0);
    if (a.has("xopts")) g_xopts = split(a.str("xopts"));
    if (a.has("popts")) g_popts = split(a.str("popts"));
    if (a.has("fh")) g_fh = split(a.str("fh"));
    xml_init();
    Runner R;
    R.name = space;
    int N = (int)a.num("nodes", 3), L = (int)a.num("strlen", 4);
    auto bounds = [&]() {
        return "\"bounds\":{\"nodes\":" + std::to_string(N) + ",\"atoms\":" + std::to_string(g_atoms.size()) + ",\"quantifiers\":" + std::to_string(g_quants.size()) +
               ",\"strlen\":" + std::to_string(L) + ",\"strings\":" + std::to_string(STR.s.size()) + ",\"asts\":" + std::to_string(POOL.size()) + "}";
    };
    R.describe = [](uint64_t i) { return "{" + ast_json((int)i) + "}"; };
    if (space == "ast" || space == "flags" || space == "history" || space == "tokrep" || space == "facet") {
        const char* datoms = space == "flags" ? "flags" : "full";
        const char* dsyms = space == "flags" ? "flags" : space == "tokrep" ? "small" : "full";
        g_atoms = atom_preset(a.str("atoms", datoms));
        g_quants = quant_preset(a.str("quants", "full"));
        build_pool(N, a.num("groups", 1) != 0);
        if (space == "history") { init_hset(); L = 5; }
        else STR.build(sym_preset(a.str("syms", dsyms)), L);
        R.total = POOL.size();
        R.fn = space == "ast" ? run_ast : space == "flags" ? run_flags : space == "history" ? run_history : space == "tokrep" ? run_tokrep : run_facet;
        if (space == "facet") {
            g_instance = "<l xmlns:xsi=\"http://www.w3.org/2001/XMLSchema-instance\" xsi:noNamespaceSchemaLocation=\"s.xsd\">\n";
            for (auto& s : STR.s) g_instance += "<r>" + xmlesc(utf8(s)) + "</r>\n";
            g_instance += "</l>";
        }
        R.extra_json = bounds();
    } else if (space == "malformed") {
        g_atoms = atom_preset(a.str("atoms", "full"));
        g_quants = quant_preset("bad");
        build_pool(N, true);
        for (size_t i = 0; i < POOL.size(); i++) if (POOL[i].badq) BADQ.push_back((int)i);
        R.total = N_CAT + BADQ.size();
        R.fn = run_malformed;
        R.describe = [](uint64_t i) { return i < (uint64_t)N_CAT ? "{\"pattern\":" + jstr(a16(cat16(CATALOGUE[i].pat))) + "}" : "{" + ast_json(BADQ[i - N_CAT]) + "}"; };
        R.extra_json = "\"bounds\":{\"catalogue\":" + std::to_string(N_CAT) + ",\"bad_quantifier_asts\":" + std::to_string(BADQ.size()) + ",\"nodes\":" + std::to_string(N) + "}";
    } else if (space == "known") {
        R.total = N_KNOWN;
        R.fn = run_known;
        R.describe = [](uint64_t i) { return "{\"defect\":" + jstr(KNOWN_DEFECTS[i].name) + "}"; };
    } else {
        fprintf(stderr, "unknown space\n");
        return 2;
    }
    R.worker_init = install_guard;
    if (a.has("only")) install_guard();
    if (a.has("from") || a.has("to")) {  // development aid: run only the cases [from,to) of the space (the others are no-ops)
        uint64_t from = (uint64_t)a.num("from", 0), to = (uint64_t)a.num("to", (long long)R.total);
        auto inner = R.fn;
        R.fn = [inner, from, to](uint64_t i, Ctx& c) {
            if (i < from || i >= to) { c.count("outside_slice"); return; }
            struct timespec t0, t1; clock_gettime(CLOCK_MONOTONIC, &t0);
            inner(i, c);
            clock_gettime(CLOCK_MONOTONIC, &t1);
            double dt = (t1.tv_sec - t0.tv_sec) + (t1.tv_nsec - t0.tv_nsec) * 1e-9;
            if (dt > 2.0) fprintf(stderr, "SLOW case %llu %.1fs\n", (unsigned long long)i, dt);
        };
    }
    return R.main_tail(a);
}
