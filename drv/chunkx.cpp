// chunkx - C04: the parse result (content, errors, error positions) must not depend on how the input stream splits the bytes
// into reads, on where constructs fall relative to the parser's internal buffers, or on the kind of source.
//   --space cuts    : corpus x entity role x read plans with deviation bound 0,1,2 (+ uniform c-byte reads, + all partitions for tiny docs)
//   --space slide   : pad(n)+construct+tail documents sliding every construct across the 16384-char / 49152-byte refill boundaries
//   --space sources : same bytes through every InputSource kind
#include "xv_xml.hpp"
#include <xercesc/framework/StdInInputSource.hpp>
#include <xercesc/framework/Wrapper4DOMLSInput.hpp>
#include <xercesc/util/TransService.hpp>
using namespace xv;

struct CDoc { std::string name; std::string bytes; int role; };  // role 0 document, 1 external general entity, 2 external subset, 3 external parameter entity
static std::vector<CDoc> CORPUS;

static std::string enc(const std::u16string& t, const char* encoding) {
    TranscodeToStr x((const XMLCh*)t.c_str(), t.size(), encoding);
    return std::string((const char*)x.str(), x.length());
}
static std::string u16(const std::u16string& t, bool be, bool bom) {
    std::string o;
    auto put = [&](unsigned u) { if (be) { o += (char)(u >> 8); o += (char)(u & 255); } else { o += (char)(u & 255); o += (char)(u >> 8); } };
    if (bom) put(0xFEFF);
    for (char16_t ch : t) put(ch);
    return o;
}
static std::string u32(const std::u16string& t, bool be, bool bom) {
    std::string o;
    auto put = [&](unsigned u) { for (int i = 0; i < 4; i++) o += (char)((u >> (be ? 24 - 8 * i : 8 * i)) & 255); };
    if (bom) put(0xFEFF);
    for (char16_t ch : t) put(ch);
    return o;
}

static void init_corpus() {
    auto D = [&](const std::string& n, const std::string& b) { CORPUS.push_back({n, b, 0}); };
    auto F = [&](const std::string& n, const std::string& b) { CORPUS.push_back({n + "@doc", "<r>" + b + "</r>", 0}); CORPUS.push_back({n + "@ent", b, 1}); };
    auto T = [&](const std::string& n, const std::string& b) { CORPUS.push_back({n + "@extsubset", b, 2}); CORPUS.push_back({n + "@pe", b, 3}); };
    // ---- content fragments (document content and external general entity)
    F("utf8-2-3-4", "a\xC3\xA9" "b\xE2\x82\xAC" "c\xF0\x90\x80\x80" "d\xF4\x8F\xBF\xBF");
    F("utf8-name", "<\xC3\xA9l\xE2\x82\xACm \xC3\xA8='\xF0\x90\x80\x80'>x</\xC3\xA9l\xE2\x82\xACm>");
    F("supp-name", "<\xF0\x90\x80\x80n a\xF0\x90\x80\x81='1'/><b\xF0\x90\x80\x80/>");
    F("crlf", "l1\r\nl2\rl3\n\r\n\r\r\nl4<e\r\na='1\r\n2'\r/>\r");
    F("comment", "<!-- c - c -- ><!--x--><!---->z");
    F("comment-bad", "<!--a--b-->z");
    F("cdata", "<![CDATA[a]]b]]]><![CDATA[]]><![CDATA[<&]]>]]&gt;");
    F("cdata-end-bad", "ab]]>cd");
    F("charrefs", "&#x20AC;&#8364;&#x10000;&#65;&amp;&lt;&gt;&apos;&quot;");
    F("charref-bad", "ab&#xD800;cd");
    F("charref-bad2", "ab&#x;cd");
    F("pi", "<?p?><?pi d ?><?p ??><?p  x?y?>");
    F("tags", "<a><b x='1' y=\"2\"><c/></b></a><a\n/><a ></a >");
    F("end-tag-mismatch", "<a><b></a></b>");
    F("longname", "<" + std::string(120, 'n') + " " + std::string(90, 'a') + "='v'/>");
    F("attr-norm", "<e a=' x\ty\nz &#9;&#10;&#13; &amp; '/>");
    F("attr-lt", "<e a='x<y'/>");
    F("dup-attr", "<e a='1' b='2' a='3'/>");
    F("ws", " \t\n \r\n<e/> \n ");
    F("bad-char", "abc\x01" "def");
    F("bad-utf8", "abc\xC3\x28" "def");
    F("bad-utf8-trunc", "abc\xE2\x82");
    F("ns", "<p:e xmlns:p='urn:x' p:a='1' xmlns='d'><f/></p:e>");
    F("entity-undeclared", "a&nope;b");
    // ---- whole documents
    D("decl-utf8", "<?xml version=\"1.0\" encoding=\"UTF-8\" standalone=\"yes\"?>\n<r>\xC3\xA9</r>");
    D("decl-latin1", "<?xml version='1.0' encoding='ISO-8859-1'?><r a='\xE9'>\xE9\xFC</r>");
    D("decl-11-nel", "<?xml version='1.1'?><r>a\r\xC2\x85" "b\xC2\x85" "c\xE2\x80\xA8" "d\r\n</r>");
    D("bom-utf8", "\xEF\xBB\xBF<r>x</r>");
    D("utf16le-bom", u16(u"<?xml version='1.0' encoding='UTF-16'?><r a='€'>é\r\n\U00010000</r>", false, true));
    D("utf16be-bom", u16(u"<r a='€'>é\r\n\U00010000</r>", true, true));
    D("utf16le-nobom", u16(u"<?xml version='1.0' encoding='UTF-16LE'?><r>éx</r>", false, false));
    D("utf16be-nobom", u16(u"<?xml version='1.0' encoding='UTF-16BE'?><r>éx</r>", true, false));
    D("utf16le-lone-surrogate", u16(std::u16string(u"<r>a") + char16_t(0xD800) + u"b</r>", false, true));
    D("utf16le-odd", u16(u"<r>ab</r>", false, true) + "x");
    D("ucs4be-bom", u32(u"<r a='€'>éx</r>", true, true));
    D("ucs4le-decl", u32(u"<?xml version='1.0' encoding='UCS-4'?><r>éx</r>", false, false));
    D("ebcdic", enc(u"<?xml version='1.0' encoding='IBM037'?><r a='v'>text</r>", "IBM037"));
    D("win1252", "<?xml version='1.0' encoding='windows-1252'?><r>\x80\x99</r>");
    D("doctype-internal", "<!DOCTYPE r [<!ENTITY e 'v&#38;#60;w'><!ATTLIST r d CDATA 'dv' t NMTOKENS ' a  b '>\n<!ELEMENT r (#PCDATA|c)*><!-- c --><?p d?>]>\n<r t='x  y'>&e;<c/>&e;</r>");
    D("doctype-pe", "<!DOCTYPE r [<!ENTITY % p \"<!ENTITY e 'pv'>\">%p;<!NOTATION n SYSTEM 'n'><!ENTITY u SYSTEM 'u' NDATA n>]><r>&e;</r>");
    D("doctype-recursive", "<!DOCTYPE r [<!ENTITY a '&b;'><!ENTITY b '&a;'>]><r>&a;</r>");
    D("partial-markup", "<!DOCTYPE r [<!ENTITY e '<b>'>]><r>&e;</b></r>");
    D("text-after-root", "<r/>\n<!--c-->\nx");
    D("misplaced-decl", " <?xml version='1.0'?><r/>");
    D("tiny1", "<a/>"); D("tiny2", "<a>b</a>"); D("tiny3", "<a b='c'/>"); D("tiny4", "<a>\xE2\x82\xAC</a>"); D("tiny5", "<a>&#9;</a>"); D("tiny6", "\xEF\xBB\xBF<a/>");
    D("tiny7", u16(u"<a/>", false, true)); D("tiny8", "<a>\r\n</a>"); D("tiny9", "<!--x--><a/>");
    // ---- DTD fragments (external subset and external parameter entity)
    T("dtd-basic", "<?xml version='1.0' encoding='UTF-8'?>\n<!ELEMENT r (#PCDATA|c)*>\r\n<!ATTLIST r d CDATA \"d\xC3\xA9v\" t NMTOKENS ' a  b '>\n<!ENTITY e \"x&#38;lt;\xE2\x82\xACy\">");
    T("dtd-cond", "<![INCLUDE[<!ENTITY e 'inc'>]]><![IGNORE[<!ENTITY e 'ign'> <![INCLUDE[ ]]> ]]><!ENTITY % q 'INCLUDE'><![%q;[<!ELEMENT r ANY>]]>");
    T("dtd-pe-nest", "<!ENTITY % a '<!ENTITY e \"deep\">'><!ENTITY % b '%a;'>%b;<!-- c -- c --><?p d?>");
    T("dtd-bad", "<!ENTITY e 'v'><!ELEMENT r (a,b|c)><!ENTITY f 'w'>");
    T("dtd-bad-char", "<!ENTITY e 'v'>\n<!-- \x01 -->");
    T("dtd-notation", "<!NOTATION n PUBLIC 'pub id' 'sys'><!ENTITY e 'v'><!ENTITY u SYSTEM 'u.bin' NDATA n><!ATTLIST r n NOTATION (n) #IMPLIED>");
}

// ----------------------------------------------------------------------------- plans
struct PlanCase { int doc; std::vector<uint32_t> plan; std::string kind; };
static int g_bound = 1;         // deviation bound: number of cuts
static int g_bound2_docs = 0;   // number of corpus docs (from the start of a listed order) that get bound 2 in quick mode; 0 = per g_bound
static std::vector<uint64_t> CUM;  // cumulative plan counts per doc

static uint64_t plans_for(size_t n, int bound, bool partitions) {
    uint64_t t = 1;                       // no deviation
    if (n >= 2) t += (n - 1);             // single cut
    if (bound >= 2 && n >= 3) t += (uint64_t)(n - 1) * (n - 2) / 2;
    t += 8;                               // uniform c = 1..8
    if (partitions && n <= 14 && n >= 1) t += 1ull << (n - 1);
    return t;
}
static int doc_bound(int d) { if (g_bound >= 2) return 2; if (g_bound2_docs && d % 5 == 0) return 2; return g_bound; }
static PlanCase plan_at(uint64_t idx) {
    size_t d = std::upper_bound(CUM.begin(), CUM.end(), idx) - CUM.begin();
    uint64_t k = idx - (d ? CUM[d - 1] : 0);
    size_t n = CORPUS[d].bytes.size();
    int bound = doc_bound((int)d);
    PlanCase pc; pc.doc = (int)d;
    if (k == 0) { pc.kind = "whole"; return pc; }
    k -= 1;
    if (n >= 2) { if (k < n - 1) { pc.plan = {(uint32_t)(k + 1)}; pc.kind = "cut1"; return pc; } k -= n - 1; }
    if (bound >= 2 && n >= 3) {
        uint64_t c2 = (uint64_t)(n - 1) * (n - 2) / 2;
        if (k < c2) {  // pair (p<q) in lexicographic order
            uint64_t p = 1;
            while (k >= n - 1 - p) { k -= n - 1 - p; p++; }
            uint64_t q = p + 1 + k;
            pc.plan = {(uint32_t)p, (uint32_t)(q - p)}; pc.kind = "cut2"; return pc;
        }
        k -= c2;
    }
    if (k < 8) { pc.plan.assign(n / (k + 1) + 2, (uint32_t)(k + 1)); pc.kind = "uniform" + std::to_string(k + 1); return pc; }
    k -= 8;
    // partition: bit i set => cut after byte i+1
    uint32_t run = 0;
    for (size_t i = 0; i + 1 < n; i++) { run++; if (k & (1ull << i)) { pc.plan.push_back(run); run = 0; } }
    pc.plan.push_back(run + 1);
    pc.kind = "partition";
    return pc;
}

static std::string outcome(const ParseResult& r) {
    std::string o = join(r.d.lines);
    o += "#errors\n";
    for (auto& e : r.errors) { o += e; o += '\n'; }
    o += "#exc " + r.exc + "\n";
    return o;
}

struct Roled { ParseIO io; std::string extPath; };
// The constructor's initial load fills the whole 48 KB raw buffer, so in a small entity no later refill ever happens. In padded mode
// the entity starts with a comment of exactly kRawBufSize bytes: the initial load takes precisely the pad and every read plan then
// steers the steady-state refills (raw and character buffer) through the constructs under test.
static bool g_pad = false;
static bool pad_eligible(const CDoc& cd) {
    const std::string& b = cd.bytes;
    if (b.compare(0, 5, "<?xml") == 0 || b.compare(0, 3, "\xEF\xBB\xBF") == 0) return false;
    for (size_t i = 0; i + 1 < b.size() && i < 4; i++) if (b[i] == 0 || (unsigned char)b[i] >= 0xFE) return false;  // UTF-16 / UCS-4
    if (cd.name == "ebcdic" || cd.name == "misplaced-decl") return false;
    return true;
}
static const std::string& the_pad() { static std::string p = "<!--" + std::string(49152 - 7, 'p') + "-->"; return p; }
static Roled make_io_raw(const CDoc& cd, const std::vector<uint32_t>& plan);
static Roled make_io(const CDoc& cd, const std::vector<uint32_t>& plan) {
    if (!g_pad) return make_io_raw(cd, plan);
    CDoc p = cd; p.bytes = the_pad() + cd.bytes;
    std::vector<uint32_t> pl;
    if (!plan.empty()) { pl.push_back(49152); pl.insert(pl.end(), plan.begin(), plan.end()); }
    return make_io_raw(p, pl);
}
static Roled make_io_raw(const CDoc& cd, const std::vector<uint32_t>& plan) {
    Roled r;
    g_vfs->clear();
    if (cd.role == 0) { r.io.bytes = cd.bytes; r.io.plan = plan; r.io.sourceKind = 1; return r; }
    if (cd.role == 1) { r.io.bytes = "<!DOCTYPE r [<!ENTITY x SYSTEM \"x.ent\">]>\n<r>[&x;]</r>"; r.extPath = "/v/x.ent"; }
    if (cd.role == 2) { r.io.bytes = "<!DOCTYPE r SYSTEM \"e.dtd\">\n<r>&e;</r>"; r.extPath = "/v/e.dtd"; }
    if (cd.role == 3) { r.io.bytes = "<!DOCTYPE r [<!ENTITY % p SYSTEM \"p.pe\">%p;]>\n<r>&e;</r>"; r.extPath = "/v/p.pe"; }
    g_vfs->files[r.extPath].data = cd.bytes;
    g_vfs->files[r.extPath].plan = plan;
    r.io.sourceKind = 0;
    return r;
}

// classify a differing pair of dump lines: an error record that differs only in its column and is a transcoding (byte-sequence) error
static std::string diff_class(const std::string& a, const std::string& b) {
    auto split = [](const std::string& s) { std::vector<std::string> f; size_t i = 0; while (true) { size_t j = s.find('|', i); f.push_back(s.substr(i, j == std::string::npos ? j : j - i)); if (j == std::string::npos) break; i = j + 1; } return f; };
    std::vector<std::string> fa = split(a), fb = split(b);
    if (fa.size() >= 5 && fb.size() == fa.size() && fa[0] == "F" && fb[0] == "F" && fa[1] == fb[1] && fa[2] != fb[2] && fa[3] == fb[3] && fa[4] == fb[4] &&
        (fa[3].find("byte") != std::string::npos) && fa[3].find("sequence") != std::string::npos)
        return "column-of-transcoding-error";
    return "other";
}
static std::map<int, std::string> g_base;  // per worker cache: doc -> outcome of the undisturbed parse (api SAX2)
static std::map<int, std::string> g_baseDom;
static void run_cuts(uint64_t idx, Ctx& c) {
    PlanCase pc = plan_at(idx);
    const CDoc& cd = CORPUS[pc.doc];
    if (g_pad && !pad_eligible(cd)) { c.count("skipped_not_paddable"); return; }
    for (int api : {(int)SAX2, (int)DOM}) {
        Config cfg; cfg.api = api; cfg.scanner = IG; cfg.ns = true; cfg.nsPrefixes = true; cfg.exitFirstFatal = true;
        std::map<int, std::string>& cache = api == SAX2 ? g_base : g_baseDom;
        if (!cache.count(pc.doc)) { Roled b = make_io(cd, {}); cache[pc.doc] = outcome(parse_xerces(cfg, b.io)); }
        Roled rr = make_io(cd, pc.plan);
        uint64_t reads0 = g_vfs->reads;
        ParseResult r = parse_xerces(cfg, rr.io);
        c.count("parses");
        (void)reads0;
        std::string got = outcome(r);
        if (got != cache[pc.doc]) {
            std::string planS; for (auto p : pc.plan) planS += std::to_string(p) + ",";
            // first differing line
            std::string a = cache[pc.doc], b = got; size_t i = 0; while (i < a.size() && i < b.size() && a[i] == b[i]) i++;
            size_t ls = a.rfind('\n', i); ls = ls == std::string::npos ? 0 : ls + 1;
            std::string ea = a.substr(ls, a.find('\n', i) - ls), eb = b.substr(ls, b.find('\n', i) == std::string::npos ? std::string::npos : b.find('\n', i) - ls);
            std::string dcls = diff_class(ea, eb);
            c.violation(dcls == "other" ? "chunking-dependent-result" : "chunking-dependent-result/" + dcls, "\"class\":" + jstr(dcls) + ",\"doc\":" + jstr(cd.name) + ",\"role\":" + std::to_string(cd.role) + ",\"bytes_hex\":" + jstr(hexs(cd.bytes)) + ",\"plan\":" + jstr(planS) + ",\"plan_kind\":" + jstr(pc.kind) +
                        ",\"api\":" + jstr(ApiName[api]) + ",\"first_read\":" + std::to_string(pc.plan.empty() ? 0 : pc.plan[0]) + ",\"expected\":" + jstr(a.substr(ls, a.find('\n', i) - ls)) + ",\"observed\":" + jstr(b.substr(ls, b.find('\n', i) == std::string::npos ? std::string::npos : b.find('\n', i) - ls)));
            if (c.verbose) printf("plan=%s\n--- undisturbed:\n%s--- chunked:\n%s", planS.c_str(), a.c_str(), b.c_str());
        }
    }
    c.count("plans:" + pc.kind);
    if (!pc.plan.empty()) {
        // non-vacuity: does a cut fall strictly inside a multi-byte UTF-8 sequence / a CRLF pair / markup delimiter of this document?
        size_t p = pc.plan[0];
        const std::string& b = cd.bytes;
        if (p < b.size() && ((unsigned char)b[p] & 0xC0) == 0x80) c.count("cut_inside_multibyte");
        if (p < b.size() && b[p - 1] == '\r' && b[p] == '\n') c.count("cut_inside_crlf");
        if (p < b.size() && (b[p - 1] == '<' || b[p - 1] == '&' || b[p - 1] == ']' || b[p - 1] == '-')) c.count("cut_inside_delimiter");
    }
    if (idx % 4999 == 0) { std::string planS; for (auto p : pc.plan) planS += std::to_string(p) + ","; c.sample("{\"doc\":" + jstr(cd.name) + ",\"plan\":" + jstr(planS.substr(0, 60)) + "}"); }
}

// ----------------------------------------------------------------------------- sliding across the real buffer boundaries
struct Construct { std::string name, bytes; };
static std::vector<Construct> CONS;
static std::vector<std::string> PADS = {"x", "\xC3\xA9", "\xE2\x82\xAC", "\xF0\x90\x80\x80"};  // 1,2,3,4-byte pad characters (4-byte = 2 XMLCh)
static void init_cons() {
    CONS = {{"2byte", "\xC3\xA9"}, {"3byte", "\xE2\x82\xAC"}, {"4byte", "\xF0\x90\x80\x80"}, {"crlf", "\r\n"}, {"cr", "\rz"}, {"comment", "<!--c-->"}, {"cdata", "<![CDATA[d]]>"},
            {"cdata-end", "]]>"}, {"brackets", "]]x"}, {"charref", "&#x20AC;"}, {"entref", "&amp;"}, {"pi", "<?pi data?>"}, {"empty-elem", "<e a='v'/>"}, {"elem", "<e>t</e>"},
            {"supp-name", "<\xF0\x90\x80\x80n/>"}, {"attr-4byte", "<e a='\xF0\x90\x80\x80'/>"}, {"attr-crlf", "<e a='1\r\n2'/>"}, {"bad-char", "\x01"}, {"bad-utf8", "\xC3\x28"},
            {"lt-slash", "<e></e>"}, {"dup", "<e a='1' a='2'/>"}, {"nested-end", "<e><f/></e>"}, {"ws-run", "  \n\t  "}, {"amp-bare", "&"}, {"long-name", "<" + std::string(40, 'n') + "/>"}};
}
static const long kCharBuf = 16384, kRawBuf = 49152;
static int g_slide = 4;
struct SlideCase { int cons, pad, boundary, off; };
static uint64_t slide_total() { return (uint64_t)CONS.size() * PADS.size() * 3 * (2 * g_slide + 1); }
static SlideCase slide_at(uint64_t idx) {
    SlideCase s; int w = 2 * g_slide + 1;
    s.off = (int)(idx % w) - g_slide; idx /= w;
    s.boundary = (int)(idx % 3); idx /= 3;
    s.pad = (int)(idx % PADS.size()); idx /= PADS.size();
    s.cons = (int)idx;
    return s;
}
static std::string slide_doc(const SlideCase& s) {
    // boundary 0: construct starts at XMLCh index kCharBuf+off; 1: at byte index kRawBuf+off; 2: at byte index 2*kRawBuf - 100 + off (low-water refill)
    const std::string& pad = PADS[s.pad];
    long padUnits = pad.size() == 4 ? 2 : 1;
    std::string head = "<r>";
    long target; bool inChars = s.boundary == 0;
    if (s.boundary == 0) target = kCharBuf + s.off; else if (s.boundary == 1) target = kRawBuf + s.off; else target = 2 * kRawBuf - 100 + s.off;
    std::string d = head;
    long pos = 3;  // both char and byte position after "<r>"
    long unit = inChars ? padUnits : (long)pad.size();
    long npad = (target - pos) / unit;
    for (long i = 0; i < npad; i++) d += pad;
    pos += npad * unit;
    while (pos < target) { d += "y"; pos++; }   // fill the remainder with 1-unit characters
    d += CONS[s.cons].bytes;
    d += "tail</r>";
    return d;
}
static void run_slide(uint64_t idx, Ctx& c) {
    SlideCase s = slide_at(idx);
    std::string doc = slide_doc(s);
    g_vfs->clear();
    Config cfg; cfg.api = SAX2; cfg.scanner = IG; cfg.ns = false;
    ParseIO a; a.bytes = doc; a.sourceKind = 0;
    ParseResult ra = parse_xerces(cfg, a);
    ParseIO b; b.bytes = doc; b.sourceKind = 1; b.plan.assign(doc.size() / 977 + 2, 977);
    ParseResult rb = parse_xerces(cfg, b);
    ParseIO b2; b2.bytes = doc; b2.sourceKind = 1; b2.plan.assign(doc.size() / 4093 + 2, 4093);
    ParseResult rb2 = parse_xerces(cfg, b2);
    c.count("parses", 3);
    std::string name = CONS[s.cons].name + "/pad" + std::to_string(PADS[s.pad].size()) + "/b" + std::to_string(s.boundary) + "/off" + std::to_string(s.off);
    if (outcome(ra) != outcome(rb) || outcome(ra) != outcome(rb2)) {
        std::string x = outcome(ra), y = outcome(ra) != outcome(rb) ? outcome(rb) : outcome(rb2);
        size_t i = 0; while (i < x.size() && i < y.size() && x[i] == y[i]) i++;
        size_t ls = x.rfind('\n', i); ls = ls == std::string::npos ? 0 : ls + 1;
        std::string ea = x.substr(ls, x.find('\n', i) - ls), eb = y.substr(ls, y.find('\n', i) == std::string::npos ? std::string::npos : y.find('\n', i) - ls);
        std::string dcls = diff_class(ea, eb);
        c.violation(dcls == "other" ? "boundary-dependent-result" : "boundary-dependent-result/" + dcls, "\"class\":" + jstr(dcls) + ",\"case\":" + jstr(name) + ",\"expected_tail\":" + jstr(x.substr(i > 40 ? i - 40 : 0, 160)) + ",\"observed_tail\":" + jstr(y.substr(i > 40 ? i - 40 : 0, 160)));
    }
    ExpatRef ref; ref.run(doc, false);
    if (CONS[s.cons].name == "supp-name") { c.count("reference_skipped_supplementary_name"); }  // expat has no supplementary-plane name characters
    else if (ref.ok != ra.ok()) c.violation("boundary-verdict-vs-reference", "\"case\":" + jstr(name) + ",\"ref_ok\":" + std::to_string(ref.ok) + ",\"xerces\":" + jstr(ra.errors.empty() ? ra.exc : ra.errors[0]));
    else if (ref.ok) {
        std::vector<std::string> rp = project(ref.d.lines, {"L"}, true), xp = project(ra.d.lines, {"L"}, true);
        int fd = lines_first_diff(rp, xp);
        if (fd >= 0) {
            size_t k = (size_t)fd;
            auto tailOf = [](const std::string& s) { return s.size() > 120 ? s.substr(s.size() - 120) : s; };
            c.violation("boundary-content-vs-reference", "\"case\":" + jstr(name) + ",\"expected\":" + jstr(k < rp.size() ? tailOf(rp[k]) : "<end>") + ",\"observed\":" + jstr(k < xp.size() ? tailOf(xp[k]) : "<end>"));
        }
        c.count("wellformed");
    } else c.count("malformed");
    if (idx % 499 == 0) c.sample("{\"case\":" + jstr(name) + ",\"doc_bytes\":" + std::to_string(doc.size()) + "}");
}

// ----------------------------------------------------------------------------- the same slide for UTF-16 input
// The UTF-8 (and UCS-4) transcoders never end a char-buffer fill between the two halves of a surrogate pair; the UTF-16 transcoder copies units,
// so in UTF-16 input a pair can straddle a refill of the 16384-unit char buffer.  Documents are built in UTF-16 code units: pad + construct + tail,
// the construct's first surrogate (else its first unit) at unit kCharBuf+off / at the unit where the first 49152-byte raw fill ends / at 2*kCharBuf+off; x {LE, BE} x namespaces off/on.
static std::vector<std::pair<std::string, std::u16string>> CONS16;
static std::vector<std::u16string> PADS16 = {u"x", u"€", u"\U00010000"};
static std::u16string from8(const std::string& b) {   // well-formed UTF-8 only
    std::u16string o;
    for (size_t i = 0; i < b.size();) {
        unsigned c = (unsigned char)b[i]; unsigned cp; int n;
        if (c < 0x80) { cp = c; n = 1; } else if (c < 0xE0) { cp = c & 0x1F; n = 2; } else if (c < 0xF0) { cp = c & 0x0F; n = 3; } else { cp = c & 0x07; n = 4; }
        for (int k = 1; k < n; k++) cp = (cp << 6) | ((unsigned char)b[i + k] & 0x3F);
        i += n;
        if (cp >= 0x10000) { cp -= 0x10000; o += (char16_t)(0xD800 + (cp >> 10)); o += (char16_t)(0xDC00 + (cp & 0x3FF)); } else o += (char16_t)cp;
    }
    return o;
}
static void init_cons16() {
    for (auto& c : CONS) if (c.name != "bad-utf8") CONS16.push_back({c.name, from8(c.bytes)});
    const std::u16string S = u"\U00010000", T = u"\U000EFFFD";
    auto add = [&](const char* n, const std::u16string& b) { CONS16.push_back({n, b}); };
    add("supp-in-elem-name", u"<n" + S + u"m a='1'>t</n" + S + u"m>");
    add("supp-end-of-elem-name", u"<nn" + T + u"/>");
    add("supp-in-attr-name", u"<e a" + S + u"b='1' c='2'/>");
    add("supp-in-prefix", u"<p" + S + u":e xmlns:p" + S + u"='urn:u' p" + S + u":a='1'/>");
    add("supp-in-local-part", u"<p:e" + S + u"f xmlns:p='urn:u'/>");
    add("supp-in-pi-target", u"<?t" + S + u"u data?>");
    add("supp-in-entity-name", u"&e" + S + u"f;");
    add("supp-in-end-tag", u"<e" + S + u"></e" + S + u">");
    add("supp-in-comment", u"<!--c" + S + u"d-->");
    add("supp-in-cdata", u"<![CDATA[c" + S + u"]]>");
    add("supp-in-pi-data", u"<?t d" + S + u"e?>");
    add("supp-in-attr-value", u"<e a='v" + S + S + u"w'/>");
    add("supp-charref-after", S + u"&#x10000;" + S);
    add("lone-high-surrogate", std::u16string(1, (char16_t)0xD800) + u"z");
    add("lone-low-surrogate", std::u16string(1, (char16_t)0xDC00) + u"z");
    add("supp-in-long-name", u"<" + std::u16string(20, u'n') + S + std::u16string(20, u'm') + u"/>");
}
struct Slide16 { int cons, pad, boundary, off, be, ns; };
static uint64_t slide16_total() { return (uint64_t)CONS16.size() * PADS16.size() * 3 * (2 * g_slide + 1) * 2 * 2; }
static Slide16 slide16_at(uint64_t idx) {
    Slide16 s; int w = 2 * g_slide + 1;
    s.off = (int)(idx % w) - g_slide; idx /= w;
    s.boundary = (int)(idx % 3); idx /= 3;
    s.pad = (int)(idx % PADS16.size()); idx /= PADS16.size();
    s.be = (int)(idx % 2); idx /= 2;
    s.ns = (int)(idx % 2); idx /= 2;
    s.cons = (int)idx;
    return s;
}
static std::u16string slide16_units(const Slide16& s) {
    // the internal subset declares the entity some constructs refer to; positions count code units after the byte-order mark
    std::u16string d = u"<!DOCTYPE r [<!ENTITY e\U00010000f 'v'>]><r>";
    long target = s.boundary == 0 ? kCharBuf + s.off : s.boundary == 1 ? kRawBuf / 2 - 1 + s.off : 2 * kCharBuf + s.off;
    const std::u16string& pad = PADS16[s.pad];
    // the unit that is slid across the boundary is the construct's first surrogate (else its first unit): off = -1 puts a high surrogate last in a fill
    const std::u16string& cons = CONS16[s.cons].second;
    long focus = 0; for (size_t i = 0; i < cons.size(); i++) if (cons[i] >= 0xD800 && cons[i] < 0xE000) { focus = (long)i; break; }
    target -= focus;
    while ((long)(d.size() + pad.size()) <= target) d += pad;
    while ((long)d.size() < target) d += u'y';
    d += CONS16[s.cons].second;
    d += u"tail</r>";
    return d;
}
static std::string slide16_name(const Slide16& s) {
    return CONS16[s.cons].first + "/pad" + std::to_string(PADS16[s.pad].size() == 2 ? 4 : s.pad == 1 ? 3 : 1) + "/b" + std::to_string(s.boundary) + "/off" + std::to_string(s.off) + (s.be ? "/UTF-16BE" : "/UTF-16LE") + (s.ns ? "/ns" : "/no-ns");
}
static std::string to8(const std::u16string& t) {
    std::string o;
    for (size_t i = 0; i < t.size(); i++) {
        unsigned cp = t[i];
        if (cp >= 0xD800 && cp < 0xDC00 && i + 1 < t.size() && t[i + 1] >= 0xDC00 && t[i + 1] < 0xE000) { cp = 0x10000 + ((cp - 0xD800) << 10) + (t[i + 1] - 0xDC00); i++; }
        if (cp < 0x80) o += (char)cp; else if (cp < 0x800) { o += (char)(0xC0 | (cp >> 6)); o += (char)(0x80 | (cp & 0x3F)); }
        else if (cp < 0x10000) { o += (char)(0xE0 | (cp >> 12)); o += (char)(0x80 | ((cp >> 6) & 0x3F)); o += (char)(0x80 | (cp & 0x3F)); }
        else { o += (char)(0xF0 | (cp >> 18)); o += (char)(0x80 | ((cp >> 12) & 0x3F)); o += (char)(0x80 | ((cp >> 6) & 0x3F)); o += (char)(0x80 | (cp & 0x3F)); }
    }
    return o;
}
static void run_slide16(uint64_t idx, Ctx& c) {
    Slide16 s = slide16_at(idx);
    std::u16string units = slide16_units(s);
    std::string doc = u16(units, s.be != 0, true);
    g_vfs->clear();
    Config cfg; cfg.api = SAX2; cfg.scanner = IG; cfg.ns = s.ns != 0;
    ParseIO a; a.bytes = doc; a.sourceKind = 0;
    ParseResult ra = parse_xerces(cfg, a);
    ParseIO b; b.bytes = doc; b.sourceKind = 1; b.plan.assign(doc.size() / 977 + 2, 977);       // odd read sizes: reads end inside code units and inside pairs
    ParseResult rb = parse_xerces(cfg, b);
    ParseIO b2; b2.bytes = doc; b2.sourceKind = 1; b2.plan.assign(doc.size() / 4094 + 2, 4094);
    ParseResult rb2 = parse_xerces(cfg, b2);
    c.count("parses", 3);
    std::string name = slide16_name(s);
    if (outcome(ra) != outcome(rb) || outcome(ra) != outcome(rb2)) {
        std::string x = outcome(ra), y = outcome(ra) != outcome(rb) ? outcome(rb) : outcome(rb2);
        size_t i = 0; while (i < x.size() && i < y.size() && x[i] == y[i]) i++;
        size_t ls = x.rfind('\n', i); ls = ls == std::string::npos ? 0 : ls + 1;
        std::string ea = x.substr(ls, x.find('\n', i) - ls), eb = y.substr(ls, y.find('\n', i) == std::string::npos ? std::string::npos : y.find('\n', i) - ls);
        std::string dcls = diff_class(ea, eb);
        c.violation(dcls == "other" ? "boundary-dependent-result" : "boundary-dependent-result/" + dcls, "\"class\":" + jstr(dcls) + ",\"case\":" + jstr(name) + ",\"expected_tail\":" + jstr(x.substr(i > 40 ? i - 40 : 0, 160)) + ",\"observed_tail\":" + jstr(y.substr(i > 40 ? i - 40 : 0, 160)));
    }
    // the same characters as UTF-8: the events must not depend on the encoding (error positions are in characters for both)
    bool lone = CONS16[s.cons].first.compare(0, 5, "lone-") == 0;
    if (!lone) {
        ParseIO u; u.bytes = to8(units); u.sourceKind = 0;
        ParseResult ru = parse_xerces(cfg, u);
        c.count("parses");
        std::vector<std::string> xp = project(ra.d.lines, {"L"}, true), up = project(ru.d.lines, {"L"}, true);
        int fd = lines_first_diff(up, xp);
        auto tailOf = [](const std::string& s) { return s.size() > 120 ? s.substr(s.size() - 120) : s; };
        if (ra.ok() != ru.ok()) c.violation("encoding-dependent-verdict", "\"case\":" + jstr(name) + ",\"utf8_ok\":" + std::to_string(ru.ok()) + ",\"utf16\":" + jstr(ra.errors.empty() ? ra.exc : ra.errors[0]));
        else if (fd >= 0) { size_t k = (size_t)fd; c.violation("encoding-dependent-content", "\"case\":" + jstr(name) + ",\"expected\":" + jstr(k < up.size() ? tailOf(up[k]) : "<end>") + ",\"observed\":" + jstr(k < xp.size() ? tailOf(xp[k]) : "<end>")); }
        if (ra.ok()) c.count("wellformed"); else c.count("malformed");
    } else {
        if (ra.ok()) c.violation("lone-surrogate-accepted", "\"case\":" + jstr(name));
        c.count("malformed");
    }
    if (idx % 499 == 0) c.sample("{\"case\":" + jstr(name) + ",\"doc_bytes\":" + std::to_string(doc.size()) + "}");
}

// ----------------------------------------------------------------------------- source kinds
struct StrInput : public DOMLSInput {  // minimal DOMLSInput carrying either string data or a byte stream source
    const XMLCh* str = 0; InputSource* bs = 0; std::vector<XMLCh> sys;
    const XMLCh* getStringData() const override { return str; }
    InputSource* getByteStream() const override { return bs; }
    const XMLCh* getEncoding() const override { return 0; }
    const XMLCh* getPublicId() const override { return 0; }
    const XMLCh* getSystemId() const override { return sys.data(); }
    const XMLCh* getBaseURI() const override { return 0; }
    void setStringData(const XMLCh*) override {}
    void setByteStream(InputSource*) override {}
    void setEncoding(const XMLCh* const) override {}
    void setPublicId(const XMLCh* const) override {}
    void setSystemId(const XMLCh* const) override {}
    void setBaseURI(const XMLCh* const) override {}
    void setIssueFatalErrorIfNotFound(bool) override {}
    bool getIssueFatalErrorIfNotFound() const override { return true; }
    void release() override {}
};
static ParseResult parse_src(const std::string& bytes, int kind) {
    ParseResult r;
    Config cfg; cfg.api = SAX2; cfg.ns = true; cfg.nsPrefixes = true;
    g_vfs->clear();
    try {
        std::unique_ptr<SAX2XMLReader> p(XMLReaderFactory::createXMLReader());
        Sax2H h; h.r = &r; h.cfg = &cfg; h.nsmode = true;
        p->setFeature(XMLUni::fgSAX2CoreNameSpacePrefixes, true);
        p->setContentHandler(&h); p->setErrorHandler(&h); p->setLexicalHandler(&h); p->setDeclarationHandler(&h); p->setDTDHandler(&h);
        std::unique_ptr<InputSource> src;
        StrInput si;
        std::unique_ptr<InputSource> inner;
        switch (kind) {
        case 0: src.reset(new MemBufInputSource((const XMLByte*)bytes.data(), bytes.size(), X16("/v/doc.xml").p())); break;
        case 1: src.reset(new PlanSource(bytes, "/v/doc.xml")); break;
        case 2: g_vfs->put("/v/doc.xml", bytes); src.reset(new LocalFileInputSource(X16("/v/doc.xml").p())); break;
        case 3: g_vfs->put("/v/__stdin__", bytes); src.reset(new StdInInputSource()); src->setSystemId(X16("/v/doc.xml").p()); break;
        case 4: g_vfs->put("/v/doc.xml", bytes); src.reset(new LocalFileInputSource(X16("/v/").p(), X16("sub/../doc.xml").p())); break;
        case 5: inner.reset(new PlanSource(bytes, "/v/doc.xml")); si.bs = inner.get(); for (char ch : std::string("/v/doc.xml")) si.sys.push_back(ch); si.sys.push_back(0);
                src.reset(new Wrapper4DOMLSInput(&si, 0, false)); break;
        }
        p->parse(*src);
        r.d.flush();
    }
    XV_CATCH_DOCUMENTED(r)
    return r;
}
static void run_sources(uint64_t idx, Ctx& c) {
    const CDoc& cd = CORPUS[idx];
    if (cd.role != 0) { c.count("skipped_non_document"); return; }
    std::string base = outcome(parse_src(cd.bytes, 0));
    for (int k = 1; k <= 5; k++) {
        std::string o = outcome(parse_src(cd.bytes, k));
        c.count("parses");
        // the stdin source has no meaningful system id in error records: compare with ids blanked
        if (o != base) {
            size_t i = 0; while (i < o.size() && i < base.size() && o[i] == base[i]) i++;
            c.violation("source-kind-dependent-result", "\"doc\":" + jstr(cd.name) + ",\"kind\":" + std::to_string(k) + ",\"expected\":" + jstr(base.substr(i > 30 ? i - 30 : 0, 120)) + ",\"observed\":" + jstr(o.substr(i > 30 ? i - 30 : 0, 120)));
        }
    }
    c.count("documents");
    if (idx % 7 == 0) c.sample("{\"doc\":" + jstr(cd.name) + "}");
}

int main(int argc, char** argv) {
    Args a(argc, argv);
    std::string space = a.str("space", "cuts");
    g_bound = (int)a.num("bound", 1);
    g_bound2_docs = (int)a.num("bound2-some", 0);
    g_slide = (int)a.num("slide", 4);
    g_pad = a.num("pad", 0) != 0;
    xml_init();
    init_corpus(); init_cons();
    Runner R; R.name = space;
    if (space == "cuts") {
        bool partitions = a.num("partitions", 1) != 0;
        uint64_t cum = 0;
        for (size_t d = 0; d < CORPUS.size(); d++) { cum += plans_for(CORPUS[d].bytes.size(), doc_bound((int)d), partitions); CUM.push_back(cum); }
        R.total = cum; R.fn = run_cuts;
        R.describe = [](uint64_t i) { PlanCase pc = plan_at(i); std::string s; for (auto p : pc.plan) s += std::to_string(p) + ","; return "{\"doc\":" + jstr(CORPUS[pc.doc].name) + ",\"plan\":" + jstr(s) + "}"; };
        R.extra_json = "\"corpus\":" + std::to_string(CORPUS.size()) + ",\"bound\":" + std::to_string(g_bound) + ",\"padded\":" + std::to_string((int)g_pad);
    } else if (space == "slide") {
        R.total = slide_total(); R.fn = run_slide;
        R.describe = [](uint64_t i) { SlideCase s = slide_at(i); return "{\"construct\":" + jstr(CONS[s.cons].name) + ",\"pad\":" + std::to_string(s.pad) + ",\"boundary\":" + std::to_string(s.boundary) + ",\"off\":" + std::to_string(s.off) + "}"; };
        R.extra_json = "\"constructs\":" + std::to_string(CONS.size()) + ",\"offsets\":" + std::to_string(2 * g_slide + 1);
    } else if (space == "slide16") {
        init_cons16();
        R.total = slide16_total(); R.fn = run_slide16;
        R.describe = [](uint64_t i) { return "{\"case\":" + jstr(slide16_name(slide16_at(i))) + "}"; };
        R.extra_json = "\"constructs\":" + std::to_string(CONS16.size()) + ",\"offsets\":" + std::to_string(2 * g_slide + 1);
    } else if (space == "sources") {
        R.total = CORPUS.size(); R.fn = run_sources;
        R.describe = [](uint64_t i) { return "{\"doc\":" + jstr(CORPUS[i].name) + "}"; };
    } else return 2;
    return R.main_tail(a);
}
