// c19_uri.hpp - independent RFC 2396 (section 5.2, appendix B) reference resolver used by the C19 oracle.
// Deliberately shares no code with xercesc::XMLURL / XMLUri.  A base without a scheme ("/v/doc.xml") is treated as a
// hierarchical reference with an absolute path (what a file-system path is in RFC terms).
#pragma once
#include <string>
#include <vector>

namespace c19 {

struct Uri {
    bool hasScheme = false, hasAuth = false, hasQuery = false;
    std::string scheme, auth, path, query;
};

inline Uri uri_parse(const std::string& s0) {
    // appendix B:  ^(([^:/?#]+):)?(//([^/?#]*))?([^?#]*)(\?([^#]*))?(#(.*))?
    Uri u;
    std::string s = s0;
    size_t h = s.find('#');
    if (h != std::string::npos) s.erase(h);  // the fragment is not part of the resource identifier
    size_t i = 0;
    size_t c = s.find_first_of(":/?#");
    if (c != std::string::npos && c > 0 && s[c] == ':') {
        bool ok = isalpha((unsigned char)s[0]);
        for (size_t k = 1; k < c && ok; k++) ok = isalnum((unsigned char)s[k]) || s[k] == '+' || s[k] == '-' || s[k] == '.';
        if (ok) { u.hasScheme = true; u.scheme = s.substr(0, c); for (auto& ch : u.scheme) ch = (char)tolower((unsigned char)ch); i = c + 1; }
    }
    if (s.compare(i, 2, "//") == 0) {
        size_t e = s.find_first_of("/?", i + 2);
        if (e == std::string::npos) e = s.size();
        u.hasAuth = true; u.auth = s.substr(i + 2, e - (i + 2)); i = e;
    }
    size_t q = s.find('?', i);
    if (q == std::string::npos) u.path = s.substr(i);
    else { u.path = s.substr(i, q - i); u.hasQuery = true; u.query = s.substr(q + 1); }
    return u;
}

inline std::string uri_recompose(const Uri& u) {
    std::string o;
    if (u.hasScheme) o += u.scheme + ":";
    if (u.hasAuth) o += "//" + u.auth;
    o += u.path;
    if (u.hasQuery) o += "?" + u.query;
    return o;
}

// RFC 2396 5.2 step 6 c)-f) on a merged path
inline std::string remove_dots(const std::string& path) {
    // split keeping the information whether the path ends in a segment separator
    std::vector<std::string> seg;
    size_t i = 0;
    bool absolute = !path.empty() && path[0] == '/';
    if (absolute) i = 1;
    while (i <= path.size()) {
        size_t j = path.find('/', i);
        if (j == std::string::npos) j = path.size();
        seg.push_back(path.substr(i, j - i));
        i = j + 1;
    }
    // seg.back() is the last (possibly empty) segment
    std::vector<std::string> out;
    for (size_t k = 0; k < seg.size(); k++) {
        bool last = (k + 1 == seg.size());
        if (seg[k] == ".") { if (last) out.push_back(""); continue; }                     // c) "./" removed, d) trailing "." removed
        if (seg[k] == "..") {
            if (!out.empty() && out.back() != ".." ) { out.pop_back(); if (last) out.push_back(""); continue; }   // e) "<segment>/../" , f) trailing "<segment>/.."
            out.push_back("..");   // g) excess ".." is kept (never produced by the C19 alphabet)
            continue;
        }
        out.push_back(seg[k]);
    }
    std::string o = absolute ? "/" : "";
    for (size_t k = 0; k < out.size(); k++) { if (k) o += "/"; o += out[k]; }
    return o;
}

inline std::string uri_resolve(const std::string& base, const std::string& rel) {
    Uri R = uri_parse(rel), B = uri_parse(base);
    if (R.hasScheme) return uri_recompose(R);                              // step 3: absolute
    Uri T;
    T.hasScheme = B.hasScheme; T.scheme = B.scheme;
    if (R.path.empty() && !R.hasAuth && !R.hasQuery) return uri_recompose(B);  // step 2: reference to the current document
    if (R.hasAuth) { T.hasAuth = true; T.auth = R.auth; T.path = R.path; }     // step 4: network-path
    else {
        T.hasAuth = B.hasAuth; T.auth = B.auth;
        if (!R.path.empty() && R.path[0] == '/') T.path = R.path;              // step 5: absolute-path
        else {                                                                  // step 6: merge
            size_t sl = B.path.rfind('/');
            std::string merged = (sl == std::string::npos ? std::string() : B.path.substr(0, sl + 1)) + R.path;
            T.path = remove_dots(merged);
        }
    }
    T.hasQuery = R.hasQuery; T.query = R.query;
    return uri_recompose(T);
}

// what the environment would be asked for: a file path for file: URIs and scheme-less references, the full URL otherwise
inline std::string uri_target(const std::string& abs) {
    Uri u = uri_parse(abs);
    if (!u.hasScheme) return u.path;
    if (u.scheme == "file" && (u.auth.empty() || u.auth == "localhost")) {
        // the file that a file: URL names: every %xx escape of the path decoded exactly once (RFC 2396 2.4.2)
        std::string o;
        auto hex = [](char c) { return c >= '0' && c <= '9' ? c - '0' : c >= 'a' && c <= 'f' ? c - 'a' + 10 : c >= 'A' && c <= 'F' ? c - 'A' + 10 : -1; };
        for (size_t i = 0; i < u.path.size(); i++) {
            if (u.path[i] == '%' && i + 2 < u.path.size() + 0 && hex(u.path[i + 1]) >= 0 && hex(u.path[i + 2]) >= 0) { o += (char)(hex(u.path[i + 1]) * 16 + hex(u.path[i + 2])); i += 2; }
            else o += u.path[i];
        }
        return o;
    }
    return uri_recompose(u);
}

}  // namespace c19
