// c16_pool - bounded-exhaustive check of property C16: a grammar pool written with serializeGrammars and read back with
// deserializeGrammars (same build) is behaviourally identical to the original.
//
//   --space grammars --family <name|all> --tier quick|thorough
//        one case = one grammar pool content G of the enumerated family (c16_gen*.hpp) with its instance set.
//        A = pool with G loaded (loadGrammar, full schema checking); sa = ser(A); B = deser(sa); sb = ser(B); C = deser(sb); sc = ser(C).
//        Oracles: (1) every instance validated against A, B, C only (useCachedGrammarInParse, no grammar file reachable) through SAX2
//        (+PSVIHandler) and DOM (+getSchemaTypeInfo/DOMPSVITypeInfo) gives the identical dump (events, defaulted attributes, type
//        information, error messages with positions, exception); (2) structural dump of the pool (XSModel recursive dump, DTDGrammar
//        dump) identical for A, B, C; (3) sa == sb == sc byte for byte.
//   --space level      leading serialisation-level field replaced by 0..15 (except current) and by every single-bit flip => XSerializationException
//   --space trunc      truncated streams (prefix ladder around every 8192-byte block boundary), with a pad sweep that moves the cut through the structure
//   --space ladder     grammars sized by a pad ladder so that every field crosses the 8192-byte block boundary; full round-trip oracles
//   --space locked     pools serialised while locked
#include "c16_common.hpp"
#include "c16_gen.hpp"
#include "c16_gen2.hpp"
using namespace xv;
using namespace c16;

#include "c16_defects.hpp"

static std::vector<GCase> CASES;
static bool g_strict_bytes = false;
static bool g_sax_only = false;   // ladder space: SAX2+PSVI validation only

static std::string case_json(const GCase& g) {
    std::string s = "{\"family\":" + jstr(g.family) + ",\"label\":" + jstr(g.label) + ",\"files\":[";
    for (size_t i = 0; i < g.files.size(); i++) s += (i ? "," : "") + std::string("{\"sysId\":") + jstr(g.files[i].sysId) + ",\"text\":" + jstr(g.files[i].text.size() > 3000 ? g.files[i].text.substr(0, 3000) + "...(" + std::to_string(g.files[i].text.size()) + " bytes)" : g.files[i].text) + "}";
    return s + "]}";
}

// ------------------------------------------------------------------------------------------------ validation with parser reuse
struct PoolUser {
    XMLGrammarPoolImpl* pool;
    bool schema;
    bool psvi;
    std::unique_ptr<SAX2XMLReader> sax;
    std::unique_ptr<XercesDOMParser> dom;
    PoolUser(XMLGrammarPoolImpl* p, bool s, bool ps = true) : pool(p), schema(s), psvi(s && ps) {}
    // A fresh parser only picks up the pool's XSModel when the pool reports it as changed (GrammarResolver::getXSModel); force that.
    void refresh_model() { if (schema) { pool->lockPool(); pool->unlockPool(); } }
    void open_sax() {
        refresh_model();
        sax.reset(XMLReaderFactory::createXMLReader(XMLPlatformUtils::fgMemoryManager, pool));
        sax->setFeature(XMLUni::fgSAX2CoreNameSpaces, schema);
        sax->setFeature(XMLUni::fgSAX2CoreNameSpacePrefixes, false);
        sax->setFeature(XMLUni::fgSAX2CoreValidation, true);
        sax->setFeature(XMLUni::fgXercesDynamic, false);
        sax->setFeature(XMLUni::fgXercesSchema, schema);
        sax->setFeature(XMLUni::fgXercesSchemaFullChecking, false);
        sax->setFeature(XMLUni::fgXercesUseCachedGrammarInParse, true);
    }
    void open_dom() {
        sax.reset();
        refresh_model();
        dom.reset(new XercesDOMParser(0, XMLPlatformUtils::fgMemoryManager, pool));
        dom->setDoNamespaces(schema);
        dom->setDoSchema(schema);
        dom->setValidationScheme(XercesDOMParser::Val_Always);
        dom->setValidationSchemaFullChecking(false);
        dom->useCachedGrammarInParse(true);
        dom->setCreateSchemaInfo(psvi);
        dom->setCreateEntityReferenceNodes(false);
    }
    Verdict run(const std::string& doc, int api) {
        Verdict V;
        ParseResult r;
        std::vector<std::string> extra;
        Config cfg; cfg.ns = schema; cfg.api = api == 0 ? DOM : SAX2;
        try {
            MemBufInputSource src((const XMLByte*)doc.data(), doc.size(), X16("/v/doc.xml").p(), false);
            if (api == 1) {
                Sax2H h; h.r = &r; h.cfg = &cfg; h.nsmode = cfg.ns;
                PsviDump ph; ph.out = &extra;
                sax->setContentHandler(&h); sax->setDTDHandler(&h); sax->setErrorHandler(&h); sax->setLexicalHandler(&h); sax->setDeclarationHandler(&h);
                if (psvi) ((SAX2XMLReaderImpl*)sax.get())->setPSVIHandler(&ph);
                struct Detach { SAX2XMLReader* p; bool s; ~Detach() { p->setContentHandler(0); p->setDTDHandler(0); p->setErrorHandler(0); p->setLexicalHandler(0); p->setDeclarationHandler(0); if (s) ((SAX2XMLReaderImpl*)p)->setPSVIHandler(0); } } det{sax.get(), psvi};
                sax->parse(src);
                r.d.flush();
            } else {
                Sax1H h; h.r = &r; h.cfg = &cfg;
                dom->setErrorHandler(&h);
                struct Detach { XercesDOMParser* p; ~Detach() { p->setErrorHandler(0); } } det{dom.get()};
                dom->parse(src);
                DOMDocument* d = dom->getDocument();
                if (d) dom_dump(d, r.d, cfg.ns);
                r.d.flush();
                if (d && psvi && d->getDocumentElement()) dom_types(d->getDocumentElement(), 0, extra);
            }
        }
        XV_CATCH_DOCUMENTED(r)
        V.text = join(r.d.lines);
        for (auto& l : extra) { V.text += l; V.text += '\n'; }
        normalise_error_order(r.errors);
        for (auto& e : r.errors) { V.text += "ERR|" + e + "\n"; }
        if (!r.exc.empty()) V.text += "EXC|" + r.exc + "\n";
        V.errs = r.errs + r.fatals;
        V.fatal = r.fatals > 0 || !r.exc.empty();
        V.valid = r.errs == 0 && r.fatals == 0 && r.exc.empty();
        return V;
    }
};

// ------------------------------------------------------------------------------------------------ the round trip of one grammar case
struct RT {
    bool loaded = false;
    std::string sa, sb, sc;
    uint64_t nviol = 0;
};

static double now_s() { struct timespec ts; clock_gettime(CLOCK_MONOTONIC, &ts); return ts.tv_sec + ts.tv_nsec * 1e-9; }
static bool g_time = getenv("C16_TIME") != nullptr;
static double g_t0 = 0;
static void tick(const char* what) {
    if (!g_time) return;
    double t = now_s();
    FILE* f = fopen(getenv("C16_TIME"), "a");
    if (f) { fprintf(f, "[time] %-24s %.1f ms\n", what, (t - g_t0) * 1e3); fclose(f); }
    g_t0 = t;
}

static bool case_schema(const GCase& g) {
    if (g.loadIsSchema.empty()) return g.isSchema;
    for (int s : g.loadIsSchema) if (s) return true;
    return false;
}

static bool load_case(const GCase& g, XMLGrammarPoolImpl* pool, Ctx& c, std::string* why = nullptr) {
    g_vfs->clear();
    for (auto& f : g.files) g_vfs->put(f.sysId, f.text);
    bool ok = true;
    for (size_t i = 0; i < g.load.size() && ok; i++) {
        const GFile* gf = nullptr;
        for (auto& f : g.files) if (f.sysId == g.load[i]) gf = &f;
        bool isS = g.loadIsSchema.empty() ? g.isSchema : g.loadIsSchema[i] != 0;
        LoadResult L = load_grammar(pool, gf->text, gf->sysId, isS, g.synthAnn);
        if (!L.ok || !L.r.errors.empty() || !L.r.exc.empty()) {
            ok = false;
            if (why) { *why = L.r.exc; for (auto& e : L.r.errors) *why += " / " + e; if (!L.ok) *why += " / no grammar returned"; }
        }
    }
    g_vfs->clear();
    for (auto& f : g.keep) g_vfs->put(f.sysId, f.text);
    (void)c;
    return ok;
}

static void roundtrip(const GCase& g, Ctx& c, RT& rt, bool countKinds = true) {
    const std::string in = "\"grammar\":" + case_json(g);
    g_t0 = now_s();
    Pool A;
    std::string why;
    if (!load_case(g, A.p, c, &why)) {
        c.count("grammar_rejected_at_load");
        c.count("grammar_rejected_at_load:" + g.family);
        { size_t p = why.find("|", why.find("|", why.find("|") + 1) + 1); std::string m = p == std::string::npos ? why : why.substr(p + 1); c.count("rejected_reason:" + g.family + ":" + m.substr(0, 70)); }
        if (c.verbose) printf("grammar not loaded cleanly: %s\n", why.c_str());
        return;
    }
    rt.loaded = true;
    tick("load");
    c.count("grammars_loaded");
    c.count("grammars:" + g.family);
    std::string exc;
    if (!pool_serialize(A.p, rt.sa, exc)) { c.violation("serialize-exception", in + ",\"which\":\"A\",\"exception\":" + jstr(exc)); return; }
    if (c.verbose && getenv("C16_DUMPSTREAMS")) { FILE* f = fopen((std::string(getenv("C16_DUMPSTREAMS")) + ".a").c_str(), "wb"); if (f) { fwrite(rt.sa.data(), 1, rt.sa.size(), f); fclose(f); } }
    Pool B;
    exc = pool_deserialize(B.p, rt.sa);
    if (!exc.empty()) { c.violation("deserialize-exception", in + ",\"which\":\"B\",\"exception\":" + jstr(exc)); return; }
    if (!pool_serialize(B.p, rt.sb, exc)) { c.violation("serialize-exception", in + ",\"which\":\"B\",\"exception\":" + jstr(exc)); return; }
    Pool C;
    exc = pool_deserialize(C.p, rt.sb);
    if (!exc.empty()) { c.violation("deserialize-exception", in + ",\"which\":\"C\",\"exception\":" + jstr(exc)); return; }
    if (!pool_serialize(C.p, rt.sc, exc)) { c.violation("serialize-exception", in + ",\"which\":\"C\",\"exception\":" + jstr(exc)); return; }
    tick("load+ser/deser x3");
    c.count("stream_bytes", rt.sa.size());
    c.count("stream_blocks", rt.sa.size() / 8192);
    if (rt.sa.size() > 8192) c.count("streams_multi_block");
    // (1) behaviour
    bool schema = case_schema(g);
    XMLGrammarPoolImpl* pools[3] = {A.p, B.p, C.p};
    std::vector<std::string> vt[3];
    for (int api = 1; api >= (g_sax_only ? 1 : 0); api--) {
        for (int k = 0; k < 3; k++) {
            PoolUser u(pools[k], schema, g.psvi);
            if (api == 1) u.open_sax(); else u.open_dom();
            for (size_t i = 0; i < g.instances.size(); i++) {
                Verdict v = u.run(g.instances[i], api);
                vt[k].push_back(v.text);
                if (k == 0) {
                    c.count("validations");
                    if (api == 1) {
                        c.count(v.valid ? "instances_valid_under_A" : v.fatal ? "instances_fatal_under_A" : "instances_invalid_under_A");
                        c.count("validity_errors_under_A", v.errs);
                        {   // line-level verdicts of the batch documents (one candidate per line)
                            std::set<long> bad;
                            size_t p = 0;
                            while ((p = v.text.find("\nERR|", p)) != std::string::npos) { size_t q = v.text.find('|', p + 6); bad.insert(atol(v.text.c_str() + q + 1)); p += 5; }
                            size_t lines = std::count(g.instances[i].begin(), g.instances[i].end(), '\n');
                            c.count("instance_lines_with_error_under_A", bad.size());
                            c.count("instance_lines_without_error_under_A", lines > bad.size() ? lines - bad.size() : 0);
                        }
                        size_t p = 0, n = 0;
                        while ((p = v.text.find("|dflt", p)) != std::string::npos) { n++; p++; }
                        (void)n;
                        if (v.text.find("|schspec") != std::string::npos) c.count("instances_with_schema_defaulted_items");
                        if (v.text.find("/anon") != std::string::npos || v.text.find("/C") != std::string::npos || v.text.find("/S") != std::string::npos) c.count("instances_with_psvi_types");
                    } else if (v.text.find("|dflt") != std::string::npos) c.count("instances_with_defaulted_attributes");
                    if (c.verbose) printf("---- instance %zu api %d under A:\n%s", i, api, v.text.c_str());
                }
            }
        }
    }
    tick("validation");
    for (int k = 1; k < 3; k++)
        for (size_t i = 0; i < vt[0].size(); i++)
            if (vt[0][i] != vt[k][i]) {
                if (explained_by_datetime(g, vt[0][i], vt[k][i])) { c.count(std::string("known_defect:") + DEFECTS[D_DATETIME].id); continue; }
                size_t ni = g.instances.size();
                c.violation("behaviour-differs", in + ",\"pool\":\"" + (k == 1 ? "B" : "C") + "\",\"api\":\"" + (i < ni ? "SAX2" : "DOM") + "\",\"instance\":" + jstr(g.instances[i % ni]) +
                                                     ",\"diff\":" + jstr(first_diff(vt[0][i], vt[k][i])));
                if (c.verbose) printf("==== A:\n%s==== %c:\n%s", vt[0][i].c_str(), k == 1 ? 'B' : 'C', vt[k][i].c_str());
                break;
            }
    // (2) structure
    KindCount kc;
    std::string da = pool_dump(A.p, countKinds ? &kc : nullptr), db = pool_dump(B.p, nullptr), dc = pool_dump(C.p, nullptr);
    tick("dumps");
    c.count("model_dump_bytes", da.size());
    for (auto& kv : kc.n) c.count("kind:" + kv.first, kv.second);
    const std::string* dx[2] = {&db, &dc};
    for (int k = 0; k < 2; k++) {
        if (da == *dx[k]) continue;
        if (explained_by_notation_annotation(g, da, *dx[k])) { c.count(std::string("known_defect:") + DEFECTS[D_NOTATION_ANN].id); continue; }
        c.violation("model-differs", in + ",\"pool\":\"" + (k ? "C" : "B") + "\",\"diff\":" + jstr(first_diff(da, *dx[k])));
    }
    if (c.verbose) printf("---- structural dump of A:\n%s", da.c_str());
    // (3) stream equality.  Byte equality of the raw streams is recorded; the verdict is taken on the streams written after neutralising the
    // element-declaration ids (pool-local handles reassigned in load order by RefHash3KeysIdPool::put - the only benign difference on the
    // unchanged tree), compared as multisets of aligned 32-bit words (hash tables are written in enumeration order, which a reload may permute).
    {
        c.count(rt.sa == rt.sb ? "raw_ser_B_vs_A:byte-equal" : "raw_ser_B_vs_A:differs");
        c.count(rt.sb == rt.sc ? "raw_ser_C_vs_B:byte-equal" : "raw_ser_C_vs_B:differs");
        std::string z[3];
        bool okz = true;
        for (int k = 0; k < 3 && okz; k++) { neutralise_element_ids(pools[k]); okz = pool_serialize(pools[k], z[k], exc); }
        if (!okz) c.violation("serialize-exception", in + ",\"which\":\"second serialisation\",\"exception\":" + jstr(exc));
        auto words = [](const std::string& s) { std::vector<uint32_t> v(s.size() / 4); if (!v.empty()) memcpy(v.data(), s.data(), v.size() * 4); std::sort(v.begin(), v.end()); return v; };
        // relation between two id-neutral streams: 0 byte-equal, 1 equal as multisets of 32-bit words (tables written in another order), 2 different
        auto rel = [&](const std::string& x, const std::string& y) { return x == y ? 0 : (x.size() == y.size() && words(x) == words(y)) ? 1 : 2; };
        if (okz) {
            int ab = rel(z[0], z[1]), bc = rel(z[1], z[2]), ac = rel(z[0], z[2]);
            static const char* RN[3] = {"byte-equal-modulo-element-ids", "equal-up-to-table-order", "differs"};
            c.count(std::string("ser_B_vs_A:") + RN[ab]);
            c.count(std::string("ser_C_vs_B:") + RN[bc]);
            c.count(std::string("ser_C_vs_A:") + RN[ac]);
            // Hash buckets are rebuilt by inserting in enumeration order, which reverses every collision chain: objects hanging off such a
            // chain are written in the opposite order by the next generation and in the original order again by the one after.  Accepted
            // therefore: B~A and C~B, or (when a chain was reversed) C~A.
            bool ok3 = (ab < 2 && bc < 2) || ac < 2;
            if (ok3 && (ab == 2 || bc == 2)) c.count("ser_generations_alternate(C~A)");
            if (g_strict_bytes) ok3 = rt.sa == rt.sb && rt.sb == rt.sc;
            if (!ok3) {
                size_t d = 0, first = 0;
                const std::string &x = z[0], &y = ab == 2 ? z[1] : z[2];
                for (size_t i = 0; i < std::min(x.size(), y.size()); i++) if (x[i] != y[i]) { if (!d) first = i; d++; }
                c.violation("reserialized-stream-differs", in + ",\"relations\":\"B/A " + RN[ab] + ", C/B " + RN[bc] + ", C/A " + RN[ac] + "\",\"sizes\":\"" + std::to_string(z[0].size()) + "/" + std::to_string(z[1].size()) + "/" +
                                                           std::to_string(z[2].size()) + "\",\"differing_bytes\":" + std::to_string(d) + ",\"first_offset\":" + std::to_string(first));
            }
        }
        if (c.verbose && getenv("C16_DUMPSTREAMS")) {
            std::string base = getenv("C16_DUMPSTREAMS");
            for (int i = 0; i < 3; i++) { FILE* f = fopen((base + ".z" + "abc"[i]).c_str(), "wb"); if (f) { fwrite(z[i].data(), 1, z[i].size(), f); fclose(f); } }
        }
    }
    c.distinct.insert(fnv(da));
}

static void run_grammar_case(uint64_t idx, Ctx& c) {
    const GCase& g = CASES[idx];
    RT rt;
    if (c.verbose) { printf("family %s label %s\n", g.family.c_str(), g.label.c_str()); for (auto& f : g.files) printf("---- %s\n%s\n", f.sysId.c_str(), f.text.c_str()); }
    roundtrip(g, c, rt);
    if (idx % 397 == 0) c.sample("{\"family\":" + jstr(g.family) + ",\"label\":" + jstr(g.label) + ",\"stream_bytes\":" + std::to_string(rt.sa.size()) + "}");
}

#include "c16_spaces.hpp"

int main(int argc, char** argv) {
    Args a(argc, argv);
    xml_init();
    std::string space = a.str("space", "grammars");
    bool thorough = a.str("tier", "quick") == "thorough";
    g_strict_bytes = a.num("strict-bytes", 0) != 0;
    evaluate_witnesses();
    if (!g_witness_error.empty()) { fprintf(stderr, "witness evaluation failed: %s\n", g_witness_error.c_str()); return 2; }
    Runner R;
    R.name = space;
    if (space == "grammars") {
        build_family(CASES, a.str("family", "all"), thorough);
        R.total = CASES.size();
        R.fn = run_grammar_case;
        R.describe = [](uint64_t i) { return case_json(CASES[i]); };
        R.extra_json = "\"family\":" + jstr(a.str("family", "all")) + ",\"tier\":" + jstr(thorough ? "thorough" : "quick");
    } else if (!setup_space(space, a, thorough, R)) {
        fprintf(stderr, "unknown space %s\n", space.c_str());
        return 2;
    }
    if (a.has("count")) { printf("%llu\n", (unsigned long long)R.total); return 0; }
    return R.main_tail(a);
}
