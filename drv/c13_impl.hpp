// c13_impl.hpp - the implementation side of the C13 explorer: a "world" = live Xerces DOM documents + the reference model in
// lock-step, the fixed universe, execution of one operation on the real library, binding of freshly created nodes,
// node-for-node comparison with the reference, structural invariants, and the canonical state key (public getters plus the
// hidden link fields / flag bits, read directly: compile with -fno-access-control).
#pragma once
#include "xv_xml.hpp"
#include "c13_ref.hpp"

#include <unordered_map>
#include <xercesc/dom/impl/DOMAttrImpl.hpp>
#include <xercesc/dom/impl/DOMAttrMapImpl.hpp>
#include <xercesc/dom/impl/DOMAttrNSImpl.hpp>
#include <xercesc/dom/impl/DOMCasts.hpp>
#include <xercesc/dom/impl/DOMChildNode.hpp>
#include <xercesc/dom/impl/DOMCommentImpl.hpp>
#include <xercesc/dom/impl/DOMDocumentFragmentImpl.hpp>
#include <xercesc/dom/impl/DOMDocumentImpl.hpp>
#include <xercesc/dom/impl/DOMElementImpl.hpp>
#include <xercesc/dom/impl/DOMElementNSImpl.hpp>
#include <xercesc/dom/impl/DOMNodeImpl.hpp>
#include <xercesc/dom/impl/DOMNodeVector.hpp>
#include <xercesc/dom/impl/DOMParentNode.hpp>
#include <xercesc/dom/impl/DOMTextImpl.hpp>

namespace c13 {
using namespace xercesc;
using xv::X16;
using xv::esc16;

static int g_udA = 0xA;  // the user-data token

struct Outcome {
    int code = 0;            // 0 success, >0 DOMException code, -1 foreign exception
    DOMNode* ret = nullptr;
    bool hasRet = false;
    std::string str;         // substringData result
    void* data = nullptr;    // setUserData result
    std::string what;        // text of a foreign exception
};

struct World {
    Ref ref;
    std::vector<DOMNode*> h;                          // handle of node id (nullptr: not bound / dead)
    std::unordered_map<const DOMNode*, int> rev;
    std::vector<DOMDocument*> createdDocs;            // every document object ever created in this world
    std::vector<char> docReleased;
    const XMLCh* uKey = nullptr;
    X16 uKeyBuf{"u"};

    World() { uKey = uKeyBuf.p(); }
    World(const World&) = delete;
    ~World() { destroy(); }

    void bind(int id, DOMNode* p) {
        if ((int)h.size() <= id) h.resize(id + 1, nullptr);
        h[id] = p;
        rev[p] = id;
    }
    DOMNode* H(int id) const { return id < 0 || id >= (int)h.size() ? nullptr : h[id]; }
    int idOf(const DOMNode* p) const { auto it = rev.find(p); return it == rev.end() ? -2 : it->second; }
    // forget the handles of nodes the reference considers released
    void dropDead() {
        for (size_t i = 0; i < ref.d.n.size() && i < h.size(); i++)
            if (!ref.d.n[i].live && h[i]) {
                if (ref.d.n[i].type == DOC) for (size_t k = 0; k < createdDocs.size(); k++) if ((DOMNode*)createdDocs[k] == h[i]) docReleased[k] = 1;
                rev.erase(h[i]); h[i] = nullptr;
            }
    }
    void noteDoc(DOMDocument* d) { createdDocs.push_back(d); docReleased.push_back(0); }
    void destroy() {
        for (size_t k = 0; k < createdDocs.size(); k++)
            if (!docReleased[k]) { try { createdDocs[k]->release(); } catch (...) {} docReleased[k] = 1; }
        createdDocs.clear();
    }

    // ------------------------------------------------------------------ the fixed universe (DESIGN.md section 4, C13)
    // D1: doc(0) -> r(1) -> [a(2), "x"(3)] ; detached: element b(4), text "y"(5), comment c(6), attribute k(7), fragment f(8) -> [e(9)]
    // D2: doc2(10) -> p:z(11) in namespace urn:z
    void buildUniverse() {
        static DOMImplementation* impl = DOMImplementationRegistry::getDOMImplementation(X16("Core"));
        RDom& d = ref.d;
        d.n.reserve(64);
        DOMDocument* d1 = impl->createDocument(); noteDoc(d1);
        DOMDocument* d2 = impl->createDocument(); noteDoc(d2);
        auto mk = [&](int type, int doc, const char* name, const char* data) { RNode r; r.type = type; r.doc = doc; if (name) r.name = name; if (data) r.data = data; return d.add(r); };
        int doc = mk(DOC, 0, nullptr, nullptr); d.n[doc].doc = doc; bind(doc, d1);
        int r = mk(EL, doc, "r", nullptr); bind(r, d1->createElement(X16("r")));
        int a = mk(EL, doc, "a", nullptr); bind(a, d1->createElement(X16("a")));
        int x = mk(TEXT, doc, nullptr, "x"); bind(x, d1->createTextNode(X16("x")));
        int b = mk(EL, doc, "b", nullptr); bind(b, d1->createElement(X16("b")));
        int y = mk(TEXT, doc, nullptr, "y"); bind(y, d1->createTextNode(X16("y")));
        int c = mk(COMMENT, doc, nullptr, "c"); bind(c, d1->createComment(X16("c")));
        int k = mk(ATTR, doc, "k", nullptr); bind(k, d1->createAttribute(X16("k")));
        int f = mk(FRAG, doc, nullptr, nullptr); bind(f, d1->createDocumentFragment());
        int e = mk(EL, doc, "e", nullptr); bind(e, d1->createElement(X16("e")));
        int doc2 = mk(DOC, 0, nullptr, nullptr); d.n[doc2].doc = doc2; bind(doc2, d2);
        int z = mk(EL, doc2, "p:z", nullptr); { RNode& Z = d.n[z]; Z.nsAware = true; Z.ns = "urn:z"; Z.prefix = "p"; Z.local = "z"; }
        bind(z, d2->createElementNS(X16("urn:z"), X16("p:z")));
        (void)c; (void)k; (void)b;
        auto link = [&](int p, int ch) { h[p]->appendChild(h[ch]); d.n[p].kids.push_back(ch); d.n[ch].parent = p; };
        link(doc, r); link(r, a); link(r, x); link(f, e); link(e, y); link(doc2, z);   // 'y' is a leaf that is a FIRST child (x is not)
    }
};

static inline const XMLCh* xs(const char* s, X16& buf) { return s == NULLSTR ? nullptr : (buf = X16(s), buf.p()); }

// ------------------------------------------------------------------ one call on the real library
inline void execImpl(World& w, const Opn& op, Outcome& o) {
    DOMNode* T = w.H(op.t);
    DOMNode* A = w.H(op.a);
    DOMNode* B = w.H(op.b);
    const RNode& RT = w.ref.d.n[op.t];
    X16 s1(""), s2(""), s3("");
    try {
        switch (op.code) {
        case OP_APPEND: o.ret = T->appendChild(A); o.hasRet = true; break;
        case OP_INSERT: o.ret = T->insertBefore(A, B); o.hasRet = true; break;
        case OP_REMOVE: o.ret = T->removeChild(A); o.hasRet = true; break;
        case OP_REPLACE: o.ret = T->replaceChild(A, B); o.hasRet = true; break;
        case OP_CLONE:
            o.ret = T->cloneNode(op.v != 0); o.hasRet = true;
            if (RT.type == DOC && o.ret) w.noteDoc((DOMDocument*)dynamic_cast<DOMDocumentImpl*>(o.ret));
            break;
        case OP_NORMALIZE: T->normalize(); break;
        case OP_SETVALUE: T->setNodeValue(xs(V_SETVALUE[op.v], s1)); break;
        case OP_SETTEXT: T->setTextContent(xs(V_SETTEXT[op.v], s1)); break;
        case OP_SETPREFIX: T->setPrefix(xs(V_PREFIX[op.v], s1)); break;
        case OP_USERDATA: o.data = T->setUserData(w.uKey, op.v == 0 ? (void*)&g_udA : nullptr, nullptr); break;
        case OP_RELEASE: T->release(); break;
        case OP_IMPORT: o.ret = dynamic_cast<DOMDocumentImpl*>(T)->importNode(A, op.v != 0); o.hasRet = true; break;
        case OP_ADOPT: o.ret = dynamic_cast<DOMDocumentImpl*>(T)->adoptNode(A); o.hasRet = true; break;
        case OP_RENAME: o.ret = dynamic_cast<DOMDocumentImpl*>(T)->renameNode(A, xs(V_RENAME[op.v].ns, s1), xs(V_RENAME[op.v].qn, s2)); o.hasRet = true; break;
        case OP_SETATTR: ((DOMElement*)T)->setAttribute(xs(V_ATTRNAME[op.v], s1), xs(ATTRVAL, s2)); break;
        case OP_REMATTR: ((DOMElement*)T)->removeAttribute(xs(V_ATTRNAME[op.v], s1)); break;
        case OP_SETATTRNODE: o.ret = ((DOMElement*)T)->setAttributeNode((DOMAttr*)A); o.hasRet = true; break;
        case OP_REMATTRNODE: o.ret = ((DOMElement*)T)->removeAttributeNode((DOMAttr*)A); o.hasRet = true; break;
        case OP_SETATTRNS: ((DOMElement*)T)->setAttributeNS(xs(V_ATTRNS[op.v].ns, s1), xs(V_ATTRNS[op.v].qn, s2), xs(ATTRVAL, s3)); break;
        case OP_REMATTRNS: ((DOMElement*)T)->removeAttributeNS(xs(V_REMATTRNS[op.v].ns, s1), xs(V_REMATTRNS[op.v].qn, s2)); break;
        case OP_SETATTRNODENS: o.ret = ((DOMElement*)T)->setAttributeNodeNS((DOMAttr*)A); o.hasRet = true; break;
        case OP_APPENDDATA: ((DOMCharacterData*)T)->appendData(xs(DATASTR, s1)); break;
        case OP_INSERTDATA: ((DOMCharacterData*)T)->insertData(op.v, xs(DATASTR, s1)); break;
        case OP_DELETEDATA: ((DOMCharacterData*)T)->deleteData(op.v, (XMLSize_t)op.w); break;
        case OP_REPLACEDATA: ((DOMCharacterData*)T)->replaceData(op.v, (XMLSize_t)op.w, xs(DATASTR, s1)); break;
        case OP_SUBSTRING: o.str = esc16(((DOMCharacterData*)T)->substringData(op.v, (XMLSize_t)op.w)); break;
        case OP_SPLIT: o.ret = ((DOMText*)T)->splitText(op.v); o.hasRet = true; break;
        case OP_RWT: o.ret = ((DOMText*)T)->replaceWholeText(xs(V_RWT[op.v], s1)); o.hasRet = true; break;
        }
    } catch (const DOMException& ex) { o.code = ex.code ? (int)ex.code : -1; if (!ex.code) o.what = "DOMException code 0"; }
    catch (const XMLException& ex) { o.code = -1; o.what = "XMLException " + esc16(ex.getMessage()); }
    catch (const OutOfMemoryException&) { o.code = -1; o.what = "OutOfMemoryException"; }
    catch (...) { o.code = -1; o.what = "unknown C++ exception"; }
}

// ------------------------------------------------------------------ hidden parts
static inline DOMNodeImpl* nodeImpl(DOMNode* n) { HasDOMNodeImpl* p = dynamic_cast<HasDOMNodeImpl*>(n); return p ? p->getNodeImpl() : nullptr; }
static inline DOMChildNode* childImpl(DOMNode* n) { HasDOMChildImpl* p = dynamic_cast<HasDOMChildImpl*>(n); return p ? p->getChildNodeImpl() : nullptr; }
static inline DOMParentNode* parentImpl(DOMNode* n) { HasDOMParentImpl* p = dynamic_cast<HasDOMParentImpl*>(n); return p ? p->getParentNodeImpl() : nullptr; }

static const int WALK_MAX = 200;

// children / attributes of a live node through the public interface (bounded, so that a cyclic list cannot hang the harness)
static inline bool kidsOf(DOMNode* n, std::vector<DOMNode*>& out) {
    out.clear();
    for (DOMNode* k = n->getFirstChild(); k; k = k->getNextSibling()) { if ((int)out.size() > WALK_MAX) return false; out.push_back(k); }
    return true;
}

// ------------------------------------------------------------------ bind + compare
// Returns "" when the implementation forest equals the reference forest node for node; otherwise a short mismatch slug in `slug`
// and a human readable description as the result.
struct Cmp {
    World& w;
    std::string slug, detail;
    Cmp(World& w_) : w(w_) {}
    bool fail(const std::string& s, const std::string& d) {
        if (!slug.empty()) return false;
        static const char* const structural[] = {"firstChild", "lastChild", "children", "childNodes", "previousSibling", "nextSibling", "parentNode", "hasChildNodes", "node-missing"};
        slug = s; detail = d;
        for (const char* t : structural) if (s == t) slug = "structure";
        return false;
    }
    std::string nm(int id) const {
        if (id < 0) return "null";
        const RNode& r = w.ref.d.n[id];
        std::string s = "#" + std::to_string(id);
        switch (r.type) { case EL: s += "<" + r.name + ">"; break; case ATTR: s += "@" + r.name; break; case TEXT: s += "'" + r.data + "'"; break;
                          case COMMENT: s += "<!--" + r.data + "-->"; break; case DOC: s += "doc"; break; case FRAG: s += "frag"; break; }
        return s;
    }
    std::string pn(const DOMNode* p) const { if (!p) return "null"; int id = w.idOf(p); return id >= 0 ? nm(id) : "<unknown node>"; }

    // bind nodes created by the last operation: walk from bound nodes, position by position
    bool bindNew() {
        const RDom& d = w.ref.d;
        std::vector<DOMNode*> ks;
        for (int round = 0; round < 8; round++) {
            bool changed = false, missing = false;
            for (size_t i = 0; i < d.n.size(); i++) {
                const RNode& r = d.n[i];
                if (!r.live) continue;
                DOMNode* p = w.H((int)i);
                if (!p) { missing = true; continue; }
                bool need = false;
                for (int k : r.kids) if (!w.H(k)) need = true;
                for (int a : r.attrs) if (!w.H(a)) need = true;
                if (!need) continue;
                if (!kidsOf(p, ks)) return fail("child-list-unbounded", "child list of " + nm((int)i) + " does not terminate");
                if (ks.size() == r.kids.size())
                    for (size_t j = 0; j < ks.size(); j++)
                        if (!w.H(r.kids[j]) && w.idOf(ks[j]) == -2) { w.bind(r.kids[j], ks[j]); changed = true; }
                if (r.type == EL) {
                    DOMNamedNodeMap* m = p->getAttributes();
                    XMLSize_t len = m ? m->getLength() : 0;
                    for (int a : r.attrs) {
                        if (w.H(a)) continue;
                        for (XMLSize_t j = 0; j < len && j < (XMLSize_t)WALK_MAX; j++) {
                            DOMNode* ia = m->item(j);
                            if (ia && w.idOf(ia) == -2 && esc16(ia->getNodeName()) == d.n[a].name) { w.bind(a, ia); changed = true; break; }
                        }
                    }
                }
            }
            if (!missing) return true;
            if (!changed) break;
        }
        for (size_t i = 0; i < d.n.size(); i++)
            if (d.n[i].live && !w.H((int)i)) return fail("node-missing", "reference node " + nm((int)i) + " (parent " + nm(d.n[i].parent) + ", owner element " + nm(d.n[i].ownerEl) + ") has no counterpart in the implementation tree");
        return true;
    }

    bool eqs(const XMLCh* got, const std::string& want) { return esc16(got) == want; }

    bool compareNode(int id) {
        const RDom& d = w.ref.d;
        const RNode& r = d.n[id];
        DOMNode* p = w.H(id);
        std::string me = nm(id);
        if ((int)p->getNodeType() != r.type) return fail("nodeType", me + " nodeType " + std::to_string(p->getNodeType()));
        // names / values
        if (r.type == EL || r.type == ATTR) {
            if (!eqs(p->getNodeName(), r.name)) return fail("nodeName", me + " nodeName '" + esc16(p->getNodeName()) + "' expected '" + r.name + "'");
            if (!eqs(p->getNamespaceURI(), r.ns)) return fail("namespaceURI", me + " namespaceURI '" + esc16(p->getNamespaceURI()) + "' expected '" + r.ns + "'");
            if (!eqs(p->getPrefix(), r.prefix)) return fail("prefix", me + " prefix '" + esc16(p->getPrefix()) + "' expected '" + r.prefix + "'");
            if (!eqs(p->getLocalName(), r.local)) return fail("localName", me + " localName '" + esc16(p->getLocalName()) + "' expected '" + r.local + "'");
        }
        if (r.type == TEXT || r.type == COMMENT) {
            if (!eqs(p->getNodeValue(), r.data)) return fail("nodeValue", me + " nodeValue '" + esc16(p->getNodeValue()) + "' expected '" + r.data + "'");
            if (((DOMCharacterData*)p)->getLength() != r.data.size()) return fail("length", me + " getLength " + std::to_string(((DOMCharacterData*)p)->getLength()));
        } else if (r.type == ATTR) {
            std::string v;
            for (int k : r.kids) v += d.n[k].data;
            if (!eqs(p->getNodeValue(), v)) return fail("attr-value", me + " value '" + esc16(p->getNodeValue()) + "' expected '" + v + "'");
        } else if (p->getNodeValue() != nullptr) return fail("nodeValue", me + " nodeValue not null");
        // owner document
        {
            int od = d.ownerDocument(id);
            DOMNode* want = od < 0 ? nullptr : w.H(od);
            if ((DOMNode*)p->getOwnerDocument() != want) return fail("ownerDocument", me + " ownerDocument " + pn(p->getOwnerDocument()) + " expected " + nm(od));
        }
        // parent / owner element
        {
            DOMNode* want = r.parent < 0 ? nullptr : w.H(r.parent);
            if (p->getParentNode() != want) return fail("parentNode", me + " parentNode " + pn(p->getParentNode()) + " expected " + nm(r.parent));
            if (r.type == ATTR) {
                DOMNode* we = r.ownerEl < 0 ? nullptr : w.H(r.ownerEl);
                if ((DOMNode*)((DOMAttr*)p)->getOwnerElement() != we) return fail("ownerElement", me + " ownerElement " + pn(((DOMAttr*)p)->getOwnerElement()) + " expected " + nm(r.ownerEl));
            }
        }
        // siblings
        {
            DOMNode *wp = nullptr, *wn = nullptr;
            if (r.parent >= 0) {
                const auto& k = d.n[r.parent].kids;
                for (size_t i = 0; i < k.size(); i++) if (k[i] == id) { if (i > 0) wp = w.H(k[i - 1]); if (i + 1 < k.size()) wn = w.H(k[i + 1]); }
            }
            if (p->getPreviousSibling() != wp) return fail("previousSibling", me + " previousSibling " + pn(p->getPreviousSibling()) + " expected " + pn(wp));
            if (p->getNextSibling() != wn) return fail("nextSibling", me + " nextSibling " + pn(p->getNextSibling()) + " expected " + pn(wn));
        }
        // children: first/last, forward walk, childNodes list
        {
            DOMNode* wf = r.kids.empty() ? nullptr : w.H(r.kids.front());
            DOMNode* wl = r.kids.empty() ? nullptr : w.H(r.kids.back());
            if (p->getFirstChild() != wf) return fail("firstChild", me + " firstChild " + pn(p->getFirstChild()) + " expected " + pn(wf));
            if (p->getLastChild() != wl) return fail("lastChild", me + " lastChild " + pn(p->getLastChild()) + " expected " + pn(wl));
            if (p->hasChildNodes() != !r.kids.empty()) return fail("hasChildNodes", me + " hasChildNodes");
            std::vector<DOMNode*> ks;
            if (!kidsOf(p, ks)) return fail("child-list-unbounded", me + " child list does not terminate");
            if (ks.size() != r.kids.size()) return fail("children", me + " has " + std::to_string(ks.size()) + " children, expected " + std::to_string(r.kids.size()));
            for (size_t i = 0; i < ks.size(); i++) if (ks[i] != w.H(r.kids[i])) return fail("children", me + " child " + std::to_string(i) + " is " + pn(ks[i]) + " expected " + nm(r.kids[i]));
            DOMNodeList* l = p->getChildNodes();
            if (!l || l->getLength() != r.kids.size()) return fail("childNodes", me + " childNodes length " + std::to_string(l ? l->getLength() : 0));
            for (size_t i = 0; i < r.kids.size(); i++) if (l->item(i) != w.H(r.kids[i])) return fail("childNodes", me + " childNodes item " + std::to_string(i));
            if (l->item(r.kids.size()) != nullptr) return fail("childNodes", me + " childNodes item(length) not null");
        }
        // attributes
        if (r.type == EL) {
            DOMNamedNodeMap* m = p->getAttributes();
            if (!m) return fail("attributes", me + " getAttributes null");
            if (m->getLength() != r.attrs.size()) return fail("attributes", me + " has " + std::to_string(m->getLength()) + " attributes, expected " + std::to_string(r.attrs.size()));
            for (int a : r.attrs) {
                bool found = false;
                for (XMLSize_t j = 0; j < m->getLength(); j++) if (m->item(j) == w.H(a)) found = true;
                if (!found) return fail("attributes", me + " attribute map lacks " + nm(a));
                X16 nmx(d.n[a].name);
                if (m->getNamedItem(nmx.p()) == nullptr) return fail("attr-lookup", me + " getNamedItem('" + d.n[a].name + "') fails although the attribute is in the map");
            }
            if (p->hasAttributes() != !r.attrs.empty()) return fail("attributes", me + " hasAttributes");
        } else if (p->getAttributes() != nullptr) return fail("attributes", me + " getAttributes not null");
        // document element
        if (r.type == DOC) {
            int de = -1;
            for (int k : r.kids) if (d.n[k].type == EL && de < 0) de = k;
            DOMNode* got = ((DOMDocument*)dynamic_cast<DOMDocumentImpl*>(p))->getDocumentElement();
            if (got != (de < 0 ? nullptr : w.H(de))) return fail("documentElement", me + " documentElement " + pn(got) + " expected " + nm(de));
        }
        // user data
        {
            void* u = p->getUserData(w.uKey);
            if ((u != nullptr) != (r.udata != 0)) return fail("userData", me + " getUserData " + (u ? "set" : "null") + " expected " + (r.udata ? "set" : "null"));
        }
        return true;
    }
    bool compareAll() {
        const RDom& d = w.ref.d;
        for (size_t i = 0; i < d.n.size(); i++) if (d.n[i].live && !compareNode((int)i)) return false;
        return true;
    }
};

// ------------------------------------------------------------------ invariants on the implementation alone (public + hidden fields)
inline bool invariants(World& w, std::string& slug, std::string& detail) {
    const RDom& d = w.ref.d;
    auto bad = [&](const char* s, const std::string& dt) { slug = s; detail = dt; return false; };
    std::unordered_map<const DOMNode*, int> asChild, asAttr;
    std::vector<DOMNode*> ks;
    for (size_t i = 0; i < d.n.size(); i++) {
        if (!d.n[i].live) continue;
        DOMNode* p = w.H((int)i);
        std::string me = "#" + std::to_string(i);
        DOMNodeImpl* ni = nodeImpl(p);
        if (!ni) return bad("no-node-impl", me);
        // no node its own ancestor
        { int g = 0; for (DOMNode* a = p->getParentNode(); a; a = a->getParentNode()) { if (a == p || ++g > WALK_MAX) return bad("cycle", me + " is its own ancestor"); } }
        DOMParentNode* pi = parentImpl(p);
        if (pi) {
            if (!kidsOf(p, ks)) return bad("child-list-unbounded", me);
            DOMDocument* od = p->getNodeType() == DOMNode::DOCUMENT_NODE ? (DOMDocument*)dynamic_cast<DOMDocumentImpl*>(p) : p->getOwnerDocument();
            if (pi->fOwnerDocument != od) return bad("hidden-ownerDocument", me + " fOwnerDocument differs from getOwnerDocument");
            if (pi->fFirstChild != (ks.empty() ? nullptr : ks[0])) return bad("hidden-firstChild", me);
            for (size_t j = 0; j < ks.size(); j++) {
                DOMNode* k = ks[j];
                if (++asChild[k] > 1) return bad("two-parents", me + " child appears twice / in two child lists");
                if (k->getParentNode() != p) return bad("child-parent-link", me + " child " + std::to_string(j) + " has another parent");
                DOMChildNode* ci = childImpl(k);
                DOMNodeImpl* kn = nodeImpl(k);
                if (!ci || !kn) return bad("child-without-child-part", me);
                if (!kn->isOwned() || kn->fOwnerNode != p) return bad("hidden-owner", me + " child " + std::to_string(j) + " OWNED flag / fOwnerNode inconsistent");
                if (kn->isFirstChild() != (j == 0)) return bad("hidden-firstchild-flag", me + " child " + std::to_string(j) + " FIRSTCHILD flag wrong");
                DOMNode* wantPrev = j == 0 ? ks.back() : ks[j - 1];   // circular: firstChild.previousSibling == lastChild
                if (ci->previousSibling != wantPrev) return bad("hidden-previousSibling", me + " child " + std::to_string(j) + " raw previousSibling wrong");
                if (ci->nextSibling != (j + 1 < ks.size() ? ks[j + 1] : nullptr)) return bad("hidden-nextSibling", me + " child " + std::to_string(j));
                if (k->getPreviousSibling() != (j == 0 ? nullptr : ks[j - 1])) return bad("previousSibling", me + " child " + std::to_string(j));
                DOMDocument* kd = k->getOwnerDocument();
                if (kd != od) return bad("ownerDocument-not-uniform", me + " child " + std::to_string(j));
            }
            if (p->getLastChild() != (ks.empty() ? nullptr : ks.back())) return bad("lastChild", me);
        }
        DOMChildNode* ci = childImpl(p);
        if (ci && !ni->isOwned()) {
            if (ci->previousSibling || ci->nextSibling) return bad("detached-sibling-links", me + " has no parent but raw sibling links");
            if (ni->fOwnerNode != (DOMNode*)p->getOwnerDocument()) return bad("detached-owner", me + " fOwnerNode is not the owner document");
        }
        if (p->getNodeType() == DOMNode::ATTRIBUTE_NODE && !ni->isOwned() && ni->fOwnerNode != (DOMNode*)p->getOwnerDocument())
            return bad("detached-owner", me + " detached attribute fOwnerNode is not the owner document");
        if (p->getNodeType() == DOMNode::ELEMENT_NODE) {
            DOMElementImpl* ei = dynamic_cast<DOMElementImpl*>(p);
            DOMAttrMapImpl* m = ei ? ei->fAttributes : nullptr;
            if (!m) return bad("no-attr-map", me);
            if (m->fOwnerNode != p) return bad("attr-map-owner", me);
            XMLSize_t len = m->getLength();
            for (XMLSize_t j = 0; j < len; j++) {
                DOMNode* a = m->item(j);
                if (!a || a->getNodeType() != DOMNode::ATTRIBUTE_NODE) return bad("attr-map-item", me);
                if (++asAttr[a] > 1) return bad("attr-in-two-maps", me + " attribute " + esc16(a->getNodeName()));
                if ((DOMNode*)((DOMAttr*)a)->getOwnerElement() != p) return bad("attr-ownerElement", me + " attribute " + esc16(a->getNodeName()) + " ownerElement back link wrong");
                DOMNodeImpl* an = nodeImpl(a);
                if (!an->isOwned() || an->fOwnerNode != p) return bad("hidden-attr-owner", me);
                if (a->getOwnerDocument() != p->getOwnerDocument()) return bad("ownerDocument-not-uniform", me + " attribute");
                if (j > 0 && XMLString::compareString(m->item(j - 1)->getNodeName(), a->getNodeName()) > 0)
                    return bad("attr-map-unsorted", me + " attribute map not sorted: '" + esc16(m->item(j - 1)->getNodeName()) + "' before '" + esc16(a->getNodeName()) + "'");
            }
        }
        if (p->getNodeType() == DOMNode::DOCUMENT_NODE) {
            DOMDocumentImpl* di = dynamic_cast<DOMDocumentImpl*>(p);
            DOMNode* firstEl = nullptr; int els = 0;
            for (DOMNode* k : ks) if (k->getNodeType() == DOMNode::ELEMENT_NODE) { if (!firstEl) firstEl = k; els++; }
            if (els > 1) return bad("two-document-elements", me);
            if ((DOMNode*)di->fDocElement != firstEl) return bad("hidden-docElement", me + " fDocElement is not the element child");
        }
    }
    // a detached attribute must not sit in any map; an owned one must sit in its owner's map
    for (size_t i = 0; i < d.n.size(); i++) {
        if (!d.n[i].live || d.n[i].type != ATTR) continue;
        DOMNode* p = w.H((int)i);
        bool owned = nodeImpl(p)->isOwned();
        if (owned != (asAttr.count(p) != 0)) return bad("attr-owned-flag", "#" + std::to_string(i) + " OWNED flag disagrees with map membership");
    }
    return true;
}

// ------------------------------------------------------------------ quick signature
// 64-bit digest of everything the canonical key contains (public getters + hidden fields), computed in node-table order without
// building strings; only used to decide "did a call that raised an exception leave this very world unchanged" (same table, so
// no canonical renaming is needed).
struct Sig {
    uint64_t h = 1469598103934665603ULL;
    void u(uint64_t v) { h ^= v; h *= 1099511628211ULL; h ^= h >> 29; }
    void str(const XMLCh* s) { if (!s) { u(0xFFFF1); return; } for (; *s; s++) u(*s); u(0xFFFF2); }
};
inline uint64_t quickSig(World& w) {
    Sig g;
    const RDom& d = w.ref.d;
    auto id = [&](const DOMNode* p) -> uint64_t { return p ? (uint64_t)(w.idOf(p) + 3) : 0; };
    for (size_t i = 0; i < d.n.size() && i < w.h.size(); i++) {
        DOMNode* p = w.h[i];
        if (!p || !d.n[i].live) continue;
        g.u(i); g.u(p->getNodeType());
        g.str(p->getNodeName()); g.str(p->getNamespaceURI()); g.str(p->getPrefix()); g.str(p->getLocalName()); g.str(p->getNodeValue());
        g.u(id(p->getParentNode())); g.u(id(p->getFirstChild())); g.u(id(p->getLastChild())); g.u(id(p->getPreviousSibling())); g.u(id(p->getNextSibling()));
        g.u(id(p->getOwnerDocument()));
        { int n = 0; for (DOMNode* k = p->getFirstChild(); k && n < WALK_MAX; k = k->getNextSibling(), n++) g.u(id(k)); g.u(n); }
        g.u(p->getUserData(w.uKey) ? 1 : 0);
        DOMNodeImpl* ni = nodeImpl(p);
        g.u(ni->flags); g.u(id(ni->fOwnerNode));
        if (DOMChildNode* ci = childImpl(p)) { g.u(id(ci->previousSibling)); g.u(id(ci->nextSibling)); }
        if (DOMParentNode* pi = parentImpl(p)) { g.u(id(pi->fFirstChild)); g.u(id(pi->fOwnerDocument)); }
        int t = d.n[i].type;
        if (t == EL) {
            DOMElementImpl* ei = dynamic_cast<DOMElementImpl*>(p);
            DOMAttrMapImpl* m = ei->fAttributes;
            XMLSize_t len = m ? m->getLength() : 0;
            g.u(len);
            for (XMLSize_t j = 0; j < len; j++) g.u(id(m->item(j)));
            g.u(m && m->hasDefaults() ? 1 : 0);
            g.u(ei->fDefaultAttributes ? ei->fDefaultAttributes->getLength() + 1 : 0);
        } else if (t == ATTR) { g.u(id(((DOMAttr*)p)->getOwnerElement())); g.u(((DOMAttr*)p)->getSpecified() ? 1 : 0); }
        else if (t == DOC) { DOMDocumentImpl* di = dynamic_cast<DOMDocumentImpl*>(p); g.u(id(di->fDocElement)); g.u(id(di->fDocType)); }
    }
    return g.h;
}

// ------------------------------------------------------------------ canonical key
// The key is produced through a sink: TextSink renders it as text (reports, diffs), HashSink digests the same field sequence into
// 128 bits without building strings (the hot path).  One traversal, two renderings - they cannot diverge.
struct TextSink {
    std::string out;
    void tag(const char* t) { out += ' '; out += t; }
    void str(const XMLCh* s) { out += esc16(s); out += '|'; }
    void num(long v) { char b[32]; snprintf(b, sizeof b, "%lx", v); out += b; }
    void lab(int l, bool orig) { if (l == -1) out += '-'; else if (l == -2) out += '?'; else { out += orig ? '#' : '*'; out += std::to_string(l); } }
    void sep() { out += ','; }
    void endNode() { out += '\n'; }
};
struct HashSink {
    uint64_t a = 1469598103934665603ULL, b = 0x243F6A8885A308D3ULL;
    void u(uint64_t v) { a ^= v; a *= 1099511628211ULL; a ^= a >> 31; b = (b ^ v) * 0xFF51AFD7ED558CCDULL; b ^= b >> 29; }
    void tag(const char* t) { u(0xE000 + (unsigned char)t[0] * 256 + (unsigned char)t[1]); }
    void str(const XMLCh* s) { if (!s) { u(0xF001); return; } for (; *s; s++) u(*s); u(0xF002); }
    void num(long v) { u((uint64_t)v + 0xA000000); }
    void lab(int l, bool orig) { u((uint64_t)(l + 5) * 2 + (orig ? 1 : 0) + 0xB000000); }
    void sep() {}
    void endNode() { u(0xF003); }
};

struct KeyBuilder {
    World& w;
    int nOrig;
    std::unordered_map<const DOMNode*, int> label;   // canonical label: original nodes keep their id, created nodes are numbered in canonical order
    std::vector<int> order;
    KeyBuilder(World& w_, int nOrig_) : w(w_), nOrig(nOrig_) {}

    // shape string of the tree below id (no labels of created nodes), used to order created trees canonically
    void shape(int id, std::string& s) {
        const RNode& r = w.ref.d.n[id];
        s += '(';
        if (id < nOrig) s += "#" + std::to_string(id); else s += '*';
        s += char('0' + r.type % 10); s += r.name.s(); s += '|'; s += r.ns.s(); s += '|'; s += r.data.s(); s += r.udata ? "U" : "";
        std::vector<std::pair<std::string, int>> as;
        for (int a : r.attrs) as.push_back({w.ref.d.n[a].name.s() + "|" + w.ref.d.n[a].ns.s(), a});
        std::sort(as.begin(), as.end());
        for (auto& a : as) { s += '@'; shape(a.second, s); }
        for (int k : r.kids) shape(k, s);
        s += ')';
    }
    void number(int id, int& next) {
        const RNode& r = w.ref.d.n[id];
        DOMNode* p = w.H(id);
        label[p] = id < nOrig ? id : nOrig + next++;
        order.push_back(id);
        if (r.type == EL) {   // attributes in the order of the implementation's vector (sorted by name: canonical)
            DOMNamedNodeMap* m = p->getAttributes();
            for (XMLSize_t j = 0; m && j < m->getLength(); j++) { int a = w.idOf(m->item(j)); if (a >= 0 && !label.count(m->item(j))) number(a, next); }
        }
        for (int k : r.kids) number(k, next);
    }
    void prepare() {
        const RDom& d = w.ref.d;
        std::vector<std::pair<std::string, int>> trees;  // (sort key, root)
        for (size_t i = 0; i < d.n.size(); i++) {
            const RNode& r = d.n[i];
            if (!r.live || r.parent != -1 || r.ownerEl != -1) continue;
            std::string s;
            s += (r.type == DOC) ? '0' : '1';   // documents first, then original roots by id, then created roots by shape
            if ((int)i < nOrig) { char b[16]; snprintf(b, sizeof b, "#%04d", (int)i); s += b; }
            else { s += "~"; shape((int)i, s); s += "/D" + std::to_string(d.docOf((int)i) < nOrig ? d.docOf((int)i) : -1); }
            trees.push_back({s, (int)i});
        }
        std::sort(trees.begin(), trees.end());
        int next = 0;
        for (auto& t : trees) number(t.second, next);
    }
    template <class S> void L(S& o, const DOMNode* p) {
        if (!p) { o.lab(-1, false); return; }
        auto it = label.find(p);
        if (it == label.end()) o.lab(-2, false); else o.lab(it->second < nOrig ? it->second : it->second - nOrig, it->second < nOrig);
    }
    template <class S> void dump(S& o, int id) {
        DOMNode* p = w.H(id);
        const RNode& r = w.ref.d.n[id];
        L(o, p); o.tag("t"); o.num(p->getNodeType()); o.tag("s");
        o.str(p->getNodeName()); o.str(p->getNamespaceURI()); o.str(p->getPrefix()); o.str(p->getLocalName()); o.str(p->getNodeValue());
        o.tag("P"); L(o, p->getParentNode()); o.tag("F"); L(o, p->getFirstChild()); o.tag("L"); L(o, p->getLastChild());
        o.tag("p"); L(o, p->getPreviousSibling()); o.tag("n"); L(o, p->getNextSibling()); o.tag("D"); L(o, p->getOwnerDocument());
        DOMNodeList* l = p->getChildNodes();
        o.tag("C");
        for (XMLSize_t j = 0; l && j < (XMLSize_t)WALK_MAX; j++) { DOMNode* k = l->item(j); if (!k) break; L(o, k); o.sep(); }
        if (r.type == EL) {
            DOMNamedNodeMap* m = p->getAttributes();
            o.tag("A");
            for (XMLSize_t j = 0; m && j < m->getLength(); j++) { L(o, m->item(j)); o.tag(">"); L(o, ((DOMAttr*)m->item(j))->getOwnerElement()); o.sep(); }
            DOMElementImpl* ei = dynamic_cast<DOMElementImpl*>(p);
            o.tag("hd"); o.num(ei->fAttributes->hasDefaults() ? 1 : 0);
            o.tag("da"); o.num(ei->fDefaultAttributes ? (long)ei->fDefaultAttributes->getLength() : -1);
        }
        if (r.type == ATTR) { o.tag("oe"); L(o, ((DOMAttr*)p)->getOwnerElement()); o.tag("sp"); o.num(((DOMAttr*)p)->getSpecified() ? 1 : 0); }
        o.tag("u"); o.num(p->getUserData(w.uKey) ? 1 : 0);
        // hidden
        DOMNodeImpl* ni = nodeImpl(p);
        o.tag("fl"); o.num(ni->flags);
        o.tag("O"); L(o, ni->fOwnerNode);
        if (DOMChildNode* ci = childImpl(p)) { o.tag("rp"); L(o, ci->previousSibling); o.tag("rn"); L(o, ci->nextSibling); }
        if (DOMParentNode* pi = parentImpl(p)) { o.tag("ff"); L(o, pi->fFirstChild); o.tag("fd"); L(o, pi->fOwnerDocument); }
        if (r.type == DOC) { DOMDocumentImpl* di = dynamic_cast<DOMDocumentImpl*>(p); o.tag("de"); L(o, di->fDocElement); o.tag("dt"); L(o, di->fDocType); }
        o.endNode();
    }
    std::string text() { prepare(); TextSink t; t.out.reserve(order.size() * 160); for (int id : order) dump(t, id); return t.out; }
    void digest(uint64_t& a, uint64_t& b) { prepare(); HashSink h; for (int id : order) dump(h, id); a = h.a; b = h.b; }
};

}  // namespace c13
