// xv_xml.hpp - Xerces-C parse drivers for every API with a canonical event dump, an expat-based
// reference dump, an in-memory virtual file system / net accessor, and plan-driven input streams.
#pragma once
#include "xv_run.hpp"

#include <expat.h>
#include <memory>
#include <xercesc/dom/DOM.hpp>
#include <xercesc/framework/LocalFileInputSource.hpp>
#include <xercesc/framework/MemBufInputSource.hpp>
#include <xercesc/framework/Wrapper4InputSource.hpp>
#include <xercesc/framework/XMLGrammarPoolImpl.hpp>
#include <xercesc/parsers/SAX2XMLReaderImpl.hpp>
#include <xercesc/parsers/SAXParser.hpp>
#include <xercesc/parsers/XercesDOMParser.hpp>
#include <xercesc/sax/AttributeList.hpp>
#include <xercesc/sax/HandlerBase.hpp>
#include <xercesc/sax/Locator.hpp>
#include <xercesc/sax/SAXParseException.hpp>
#include <xercesc/sax2/Attributes.hpp>
#include <xercesc/sax2/DeclHandler.hpp>
#include <xercesc/sax2/DefaultHandler.hpp>
#include <xercesc/sax2/LexicalHandler.hpp>
#include <xercesc/sax2/XMLReaderFactory.hpp>
#include <xercesc/util/BinInputStream.hpp>
#include <xercesc/util/OutOfMemoryException.hpp>
#include <xercesc/util/PlatformUtils.hpp>
#include <xercesc/util/SecurityManager.hpp>
#include <xercesc/util/XMLEntityResolver.hpp>
#include <xercesc/util/XMLFileMgr.hpp>
#include <xercesc/util/XMLNetAccessor.hpp>
#include <xercesc/util/XMLString.hpp>
#include <xercesc/util/XMLUni.hpp>
#include <xercesc/util/XMLURL.hpp>

namespace xv {
using namespace xercesc;

// ---------------------------------------------------------------- string helpers
inline std::string esc16(const XMLCh* s, XMLSize_t n) {
    std::string o;
    for (XMLSize_t i = 0; i < n; i++) {
        unsigned c = s[i];
        if (c >= 0x20 && c < 0x7f && c != '\\' && c != '|' && c != '?') o += (char)c;
        else { char b[8]; snprintf(b, sizeof b, "\\u%04X", c); o += b; }
    }
    return o;
}
inline std::string esc16(const XMLCh* s) { return s ? esc16(s, XMLString::stringLen(s)) : std::string("~"); }
// UTF-8 (expat output) -> same escaped form via UTF-16 units
inline std::string esc8(const char* s, size_t n) {
    std::string o;
    size_t i = 0;
    while (i < n) {
        unsigned c = (unsigned char)s[i];
        unsigned cp; int len;
        if (c < 0x80) { cp = c; len = 1; }
        else if (c < 0xE0) { cp = c & 0x1F; len = 2; }
        else if (c < 0xF0) { cp = c & 0x0F; len = 3; }
        else { cp = c & 0x07; len = 4; }
        for (int k = 1; k < len && i + k < n; k++) cp = (cp << 6) | ((unsigned char)s[i + k] & 0x3F);
        i += len;
        auto put = [&](unsigned u) {
            if (u >= 0x20 && u < 0x7f && u != '\\' && u != '|' && u != '?') o += (char)u;
            else { char b[8]; snprintf(b, sizeof b, "\\u%04X", u); o += b; }
        };
        if (cp >= 0x10000) { cp -= 0x10000; put(0xD800 + (cp >> 10)); put(0xDC00 + (cp & 0x3FF)); }
        else put(cp);
    }
    return o;
}
inline std::string esc8(const char* s) { return s ? esc8(s, strlen(s)) : std::string("~"); }

struct X16 {  // char* -> XMLCh* (ASCII/latin1 widening; harness strings are ASCII)
    std::vector<XMLCh> v;
    X16(const std::string& s) { for (unsigned char c : s) v.push_back(c); v.push_back(0); }
    X16(const char* s) { for (; *s; s++) v.push_back((unsigned char)*s); v.push_back(0); }
    operator const XMLCh*() const { return v.data(); }
    const XMLCh* p() const { return v.data(); }
};
inline std::string narrow(const XMLCh* s) {  // lossy: for paths only
    std::string o;
    if (s) for (; *s; s++) o += (*s < 0x80) ? (char)*s : '?';
    return o;
}

// ---------------------------------------------------------------- dump
struct Dump {
    std::vector<std::string> lines;
    std::string text;
    bool inText = false, textIgnorable = false;
    void flush() {
        if (inText) { lines.push_back((textIgnorable ? "IW|" : "T|") + text); text.clear(); inText = false; }
    }
    void add(const std::string& l) { flush(); lines.push_back(l); }
    void chars(const std::string& t, bool ign = false) {
        if (inText && textIgnorable != ign) flush();
        inText = true; textIgnorable = ign; text += t;
    }
    std::string joined() const { std::string o; for (auto& l : lines) { o += l; o += '\n'; } return o; }
};

// projection: drop lines whose tag (text before first '|') is in `drop`; map IW->T if iw2t; re-coalesce text
inline std::vector<std::string> project(const std::vector<std::string>& in, const std::set<std::string>& drop, bool iw2t) {
    std::vector<std::string> out;
    for (auto& l : in) {
        size_t b = l.find('|');
        std::string tag = l.substr(0, b);
        if (drop.count(tag)) continue;
        std::string line = l;
        if (iw2t && tag == "IW") { line = "T|" + l.substr(3); tag = "T"; }
        if (tag == "T" && !out.empty() && out.back().compare(0, 2, "T|") == 0) out.back() += line.substr(2);
        else out.push_back(line);
    }
    // drop empty text
    std::vector<std::string> o2;
    for (auto& l : out) if (l != "T|") o2.push_back(l);
    return o2;
}
// field-wise comparison of two dump lines; a field that is "?" on either side is a wildcard (information the API cannot deliver)
inline bool line_eq_wild(const std::string& a, const std::string& b) {
    size_t i = 0, j = 0;
    while (true) {
        size_t ie = a.find('|', i), je = b.find('|', j);
        std::string fa = a.substr(i, ie == std::string::npos ? std::string::npos : ie - i);
        std::string fb = b.substr(j, je == std::string::npos ? std::string::npos : je - j);
        if (fa != fb && fa != "?" && fb != "?") return false;
        if ((ie == std::string::npos) != (je == std::string::npos)) return false;
        if (ie == std::string::npos) return true;
        i = ie + 1; j = je + 1;
    }
}
inline int lines_first_diff(const std::vector<std::string>& a, const std::vector<std::string>& b) {
    size_t n = std::min(a.size(), b.size());
    for (size_t i = 0; i < n; i++) if (!line_eq_wild(a[i], b[i])) return (int)i;
    return a.size() == b.size() ? -1 : (int)n;
}
inline std::string join(const std::vector<std::string>& v) { std::string o; for (auto& l : v) { o += l; o += '\n'; } return o; }

// ---------------------------------------------------------------- virtual file system
struct VFile { std::string data; std::vector<uint32_t> plan; };
struct VHandle { const VFile* f; size_t pos; size_t planIdx; std::string path; };

struct Vfs : public XMLFileMgr {
    std::map<std::string, VFile> files;
    std::vector<std::string> log;      // "open <path>" / "miss <path>" / "real <path>"
    uint64_t reads = 0;
    static std::string normalize(const std::string& p) {
        std::vector<std::string> parts;
        size_t i = 0;
        while (i <= p.size()) {
            size_t j = p.find('/', i);
            if (j == std::string::npos) j = p.size();
            std::string s = p.substr(i, j - i);
            if (s == "..") { if (!parts.empty()) parts.pop_back(); }
            else if (!s.empty() && s != ".") parts.push_back(s);
            i = j + 1;
        }
        std::string o;
        for (auto& s : parts) { o += "/"; o += s; }
        return o.empty() ? "/" : o;
    }
    void clear() { files.clear(); log.clear(); reads = 0; }
    void put(const std::string& path, const std::string& data) { files[path].data = data; files[path].plan.clear(); }
    FileHandle open_(const std::string& raw) {
        std::string path = raw;
        if (path.empty() || path[0] != '/') path = "/v/" + path;
        path = normalize(path);
        auto it = files.find(path);
        if (it == files.end()) { log.push_back((path.compare(0, 3, "/v/") == 0 ? "miss " : "real ") + path); return 0; }
        log.push_back("open " + path);
        return new VHandle{&it->second, 0, 0, path};
    }
    FileHandle fileOpen(const XMLCh* path, bool toWrite, MemoryManager* const) override { if (toWrite) return 0; return open_(narrow(path)); }
    FileHandle fileOpen(const char* path, bool toWrite, MemoryManager* const) override { if (toWrite) return 0; return open_(path); }
    FileHandle openStdIn(MemoryManager* const) override { return open_("/v/__stdin__"); }
    void fileClose(FileHandle f, MemoryManager* const) override { delete (VHandle*)f; }
    void fileReset(FileHandle f, MemoryManager* const) override { ((VHandle*)f)->pos = 0; }
    XMLFilePos curPos(FileHandle f, MemoryManager* const) override { return ((VHandle*)f)->pos; }
    XMLFilePos fileSize(FileHandle f, MemoryManager* const) override { return ((VHandle*)f)->f->data.size(); }
    XMLSize_t fileRead(FileHandle fh, XMLSize_t n, XMLByte* buf, MemoryManager* const) override {
        VHandle* h = (VHandle*)fh;
        reads++;
        size_t rem = h->f->data.size() - h->pos;
        size_t take = std::min<size_t>(n, rem);
        if (h->planIdx < h->f->plan.size()) take = std::min<size_t>(take, std::max<uint32_t>(1, h->f->plan[h->planIdx++]));
        memcpy(buf, h->f->data.data() + h->pos, take);
        h->pos += take;
        return take;
    }
    void fileWrite(FileHandle, XMLSize_t, const XMLByte*, MemoryManager* const) override {}
    XMLCh* getFullPath(const XMLCh* const src, MemoryManager* const mm) override {
        std::string p = narrow(src);
        if (p.empty() || p[0] != '/') p = "/v/" + p;
        p = normalize(p);
        return XMLString::replicate(X16(p).p(), mm);
    }
    XMLCh* getCurrentDirectory(MemoryManager* const mm) override { return XMLString::replicate(X16("/v").p(), mm); }
    bool isRelative(const XMLCh* const p, MemoryManager* const) override { return !(p && p[0] == '/'); }
};

struct MemStream : public BinInputStream {
    std::string data; size_t pos = 0; std::vector<uint32_t> plan; size_t planIdx = 0;
    uint64_t* readCounter = nullptr;
    std::vector<size_t>* cutLog = nullptr;
    MemStream(const std::string& d, const std::vector<uint32_t>& pl = {}) : data(d), plan(pl) {}
    XMLFilePos curPos() const override { return pos; }
    XMLSize_t readBytes(XMLByte* const buf, const XMLSize_t n) override {
        size_t take = std::min<size_t>(n, data.size() - pos);
        if (planIdx < plan.size()) take = std::min<size_t>(take, std::max<uint32_t>(1, plan[planIdx++]));
        memcpy(buf, data.data() + pos, take);
        pos += take;
        if (readCounter) (*readCounter)++;
        return take;
    }
    const XMLCh* getContentType() const override { return 0; }
};
struct PlanSource : public InputSource {
    std::string data; std::vector<uint32_t> plan;
    PlanSource(const std::string& d, const std::string& sysId, const std::vector<uint32_t>& pl = {}) : InputSource(X16(sysId).p()), data(d), plan(pl) {}
    BinInputStream* makeStream() const override { return new MemStream(data, plan); }
};

struct RecNet : public XMLNetAccessor {
    Vfs* vfs;
    std::vector<std::string> log;
    XMLCh id[4] = {'x', 'v', 0, 0};
    RecNet(Vfs* v) : vfs(v) {}
    const XMLCh* getId() const override { return id; }
    BinInputStream* makeNew(const XMLURL& url, const XMLNetHTTPInfo* = 0) override {
        std::string u = narrow(url.getURLText());
        auto it = vfs->files.find(u);
        if (it == vfs->files.end()) { log.push_back("netmiss " + u); return 0; }
        log.push_back("net " + u);
        return new MemStream(it->second.data, it->second.plan);
    }
};

static Vfs* g_vfs = nullptr;
static RecNet* g_net = nullptr;

// Global MemoryManager that recycles the very large blocks (XMLReader objects are ~160 KB and would
// otherwise each cost an mmap/munmap/madvise round trip inside the sanitizer's large-object allocator,
// which dominates run time and does not scale across processes).  Recycled blocks are poisoned while
// free, so use-after-free on them is still reported; everything below the threshold is plain malloc/free.
#if defined(__has_feature)
#if __has_feature(address_sanitizer)
#define XV_ASAN 1
#endif
#endif
#if defined(__SANITIZE_ADDRESS__)
#define XV_ASAN 1
#endif
#ifdef XV_ASAN
extern "C" void __asan_poison_memory_region(void const volatile*, size_t);
extern "C" void __asan_unpoison_memory_region(void const volatile*, size_t);
#endif
struct CachingMM : public MemoryManager {
    static const size_t kBig = 100 * 1024;
    std::map<void*, size_t> big;                    // live big blocks
    std::map<size_t, std::vector<void*>> freeBig;   // recycled, poisoned
    MemoryManager* getExceptionMemoryManager() override { return this; }
    void* allocate(XMLSize_t size) override {
        if (size < kBig) { void* p = malloc(size ? size : 1); if (!p) throw OutOfMemoryException(); return p; }
        auto& fl = freeBig[size];
        void* p;
        if (!fl.empty()) {
            p = fl.back(); fl.pop_back();
#ifdef XV_ASAN
            __asan_unpoison_memory_region(p, size);
#endif
            memset(p, 0xCD, size);
        } else p = malloc(size);
        big[p] = size;
        return p;
    }
    void deallocate(void* p) override {
        if (!p) return;
        auto it = big.find(p);
        if (it == big.end()) { free(p); return; }
        size_t size = it->second;
        big.erase(it);
        memset(p, 0xDD, size);
#ifdef XV_ASAN
        __asan_poison_memory_region(p, size);
#endif
        freeBig[size].push_back(p);
    }
};
static CachingMM* g_mm = nullptr;

inline void xml_init(bool install_vfs = true, bool caching_mm = true) {
    if (caching_mm) { g_mm = new CachingMM(); XMLPlatformUtils::Initialize(XMLUni::fgXercescDefaultLocale, 0, 0, g_mm); }
    else XMLPlatformUtils::Initialize();
    if (install_vfs) {
        g_vfs = new Vfs();
        delete XMLPlatformUtils::fgFileMgr;
        XMLPlatformUtils::fgFileMgr = g_vfs;
        g_net = new RecNet(g_vfs);
        delete XMLPlatformUtils::fgNetAccessor;
        XMLPlatformUtils::fgNetAccessor = g_net;
    }
}

// ---------------------------------------------------------------- configuration
enum Api { SAX1 = 0, SAX2 = 1, DOM = 2, DOMLS = 3, PULL = 4, NAPI = 5 };
enum Scn { IG = 0, WF = 1, DG = 2, SG = 3 };
static const char* ApiName[] = {"SAX1", "SAX2", "DOM", "DOMLS", "PULL"};
static const char* ScnName[] = {"IGXMLScanner", "WFXMLScanner", "DGXMLScanner", "SGXMLScanner"};

struct Config {
    int api = SAX2, scanner = IG;
    int val = 0;  // 0 never, 1 always, 2 auto
    bool ns = false, schema = false, fullcheck = false, exitFirstFatal = true, loadExtDTD = true;
    bool entRefNodes = false, nsPrefixes = false, ignorableWs = true, disableDefRes = false, loadSchema = true;
    bool idc = true, cdataNodes = true, comments = true;
    int secLimit = -1;       // -1: no SecurityManager
    int resolver = 0;        // 0 none, 1 vfs-returning resolver, 2 returns null (logging)
    int throwAt = 0;         // throw from the k-th handler callback (1-based), 0 = never
    int bufSize = 0, lowWater = 0;
    int lsFilter = 0;        // DOMLS only: 0 none, 1 accept-all, 2 startElement REJECT 'c' / SKIP 'i', 3 acceptNode REJECT 'c' / SKIP 'i' / REJECT comments
    std::string str() const {
        char b[256];
        snprintf(b, sizeof b, "%s/%s/val%d%s%s%s%s%s%s%s sec%d", ApiName[api], ScnName[scanner], val, ns ? "/ns" : "", schema ? "/schema" : "",
                 fullcheck ? "/full" : "", exitFirstFatal ? "" : "/cont", loadExtDTD ? "" : "/noextdtd", entRefNodes ? "/erefs" : "",
                 nsPrefixes ? "/nspfx" : "", secLimit);
        return b;
    }
};

struct ParseResult {
    Dump d;
    std::vector<std::string> errors;  // "sev|line|col|msg"
    int fatals = 0, errs = 0, warns = 0;
    std::string exc;  // "" or "class:detail" for a documented exception; "FOREIGN:..." otherwise
    bool ok() const { return fatals == 0 && exc.empty(); }
    int callbacks = 0;
};

struct HarnessThrow {};  // thrown from handlers for C15/C18 "exception from handler" endings

// ---------------------------------------------------------------- handlers
struct Collector {
    ParseResult* r = nullptr;
    const Config* cfg = nullptr;
    const Locator* loc = nullptr;
    void tick() { ++r->callbacks; if (cfg && cfg->throwAt && r->callbacks == cfg->throwAt) throw HarnessThrow(); }
    void err(const char* sev, const SAXParseException& e) {
        char b[64];
        snprintf(b, sizeof b, "|%llu|%llu|", (unsigned long long)e.getLineNumber(), (unsigned long long)e.getColumnNumber());
        r->errors.push_back(std::string(sev) + b + esc16(e.getMessage()) + "|" + esc16(e.getSystemId()));
    }
};

struct Sax1H : public HandlerBase, Collector {
    void setDocumentLocator(const Locator* const l) override { loc = l; }
    void startElement(const XMLCh* const name, AttributeList& a) override {
        tick();
        r->d.add("S|" + esc16(name) + "|?|?");
        std::vector<std::string> as;
        for (XMLSize_t i = 0; i < a.getLength(); i++) as.push_back("A|" + esc16(a.getName(i)) + "|" + esc16(a.getValue(i)) + "|" + esc16(a.getType(i)) + "|?|?|?");
        std::sort(as.begin(), as.end());
        for (auto& s : as) r->d.add(s);
        if (loc) r->d.add("L|" + std::to_string(loc->getLineNumber()) + "|" + std::to_string(loc->getColumnNumber()));
    }
    void endElement(const XMLCh* const name) override { tick(); r->d.add("E|" + esc16(name)); }
    void characters(const XMLCh* const c, const XMLSize_t n) override { tick(); r->d.chars(esc16(c, n)); }
    void ignorableWhitespace(const XMLCh* const c, const XMLSize_t n) override { tick(); r->d.chars(esc16(c, n), true); }
    void processingInstruction(const XMLCh* const t, const XMLCh* const d) override { tick(); r->d.add("PI|" + esc16(t) + "|" + esc16(d)); }
    void startDocument() override { tick(); }
    void endDocument() override { tick(); r->d.add("DE"); }
    void notationDecl(const XMLCh* const n, const XMLCh* const p, const XMLCh* const s) override { tick(); r->d.add("NO|" + esc16(n) + "|" + esc16(p) + "|" + esc16(s)); }
    void unparsedEntityDecl(const XMLCh* const n, const XMLCh* const p, const XMLCh* const s, const XMLCh* const nd) override {
        tick(); r->d.add("UE|" + esc16(n) + "|" + esc16(p) + "|" + esc16(s) + "|" + esc16(nd));
    }
    void warning(const SAXParseException& e) override { r->warns++; err("W", e); }
    void error(const SAXParseException& e) override { r->errs++; err("E", e); }
    void fatalError(const SAXParseException& e) override { r->fatals++; err("F", e); }
};

struct Sax2H : public DefaultHandler, Collector {
    bool nsmode = false;
    void setDocumentLocator(const Locator* const l) override { loc = l; }
    void startElement(const XMLCh* const uri, const XMLCh* const local, const XMLCh* const qn, const Attributes& a) override {
        tick();
        if (nsmode) r->d.add("S|" + esc16(qn) + "|" + esc16(uri) + "|" + esc16(local));
        else r->d.add("S|" + esc16(qn) + "|?|?");
        std::vector<std::string> as;
        for (XMLSize_t i = 0; i < a.getLength(); i++) {
            if (nsmode) as.push_back("A|" + esc16(a.getQName(i)) + "|" + esc16(a.getValue(i)) + "|" + esc16(a.getType(i)) + "|?|" + esc16(a.getURI(i)) + "|" + esc16(a.getLocalName(i)));
            else as.push_back("A|" + esc16(a.getQName(i)) + "|" + esc16(a.getValue(i)) + "|" + esc16(a.getType(i)) + "|?|?|?");
        }
        std::sort(as.begin(), as.end());
        for (auto& s : as) r->d.add(s);
        if (loc) r->d.add("L|" + std::to_string(loc->getLineNumber()) + "|" + std::to_string(loc->getColumnNumber()));
    }
    void endElement(const XMLCh* const, const XMLCh* const, const XMLCh* const qn) override { tick(); r->d.add("E|" + esc16(qn)); }
    void characters(const XMLCh* const c, const XMLSize_t n) override { tick(); r->d.chars(esc16(c, n)); }
    void ignorableWhitespace(const XMLCh* const c, const XMLSize_t n) override { tick(); r->d.chars(esc16(c, n), true); }
    void processingInstruction(const XMLCh* const t, const XMLCh* const d) override { tick(); r->d.add("PI|" + esc16(t) + "|" + esc16(d)); }
    void startDocument() override { tick(); }
    void endDocument() override { tick(); r->d.add("DE"); }
    void startPrefixMapping(const XMLCh* const p, const XMLCh* const u) override { tick(); r->d.add("NS+|" + esc16(p) + "|" + esc16(u)); }
    void endPrefixMapping(const XMLCh* const p) override { tick(); r->d.add("NS-|" + esc16(p)); }
    void skippedEntity(const XMLCh* const n) override { tick(); r->d.add("SK|" + esc16(n)); }
    void notationDecl(const XMLCh* const n, const XMLCh* const p, const XMLCh* const s) override { tick(); r->d.add("NO|" + esc16(n) + "|" + esc16(p) + "|" + esc16(s)); }
    void unparsedEntityDecl(const XMLCh* const n, const XMLCh* const p, const XMLCh* const s, const XMLCh* const nd) override {
        tick(); r->d.add("UE|" + esc16(n) + "|" + esc16(p) + "|" + esc16(s) + "|" + esc16(nd));
    }
    // LexicalHandler
    bool inDTD = false;
    void comment(const XMLCh* const c, const XMLSize_t n) override { tick(); r->d.add(std::string(inDTD ? "DC|" : "C|") + esc16(c, n)); }
    void startCDATA() override { tick(); r->d.add("CS"); }
    void endCDATA() override { tick(); r->d.add("CE"); }
    void startDTD(const XMLCh* const n, const XMLCh* const p, const XMLCh* const s) override { tick(); inDTD = true; r->d.add("DT|" + esc16(n) + "|" + esc16(p) + "|" + esc16(s)); }
    void endDTD() override { tick(); inDTD = false; r->d.add("DTE"); }
    void startEntity(const XMLCh* const n) override { tick(); r->d.add("RS|" + esc16(n)); }
    void endEntity(const XMLCh* const n) override { tick(); r->d.add("RE|" + esc16(n)); }
    // DeclHandler
    void elementDecl(const XMLCh* const n, const XMLCh* const m) override { tick(); r->d.add("ED|" + esc16(n) + "|" + esc16(m)); }
    void attributeDecl(const XMLCh* const e, const XMLCh* const a, const XMLCh* const t, const XMLCh* const m, const XMLCh* const v) override {
        tick(); r->d.add("AD|" + esc16(e) + "|" + esc16(a) + "|" + esc16(t) + "|" + esc16(m) + "|" + esc16(v));
    }
    void internalEntityDecl(const XMLCh* const n, const XMLCh* const v) override { tick(); r->d.add("IE|" + esc16(n) + "|" + esc16(v)); }
    void externalEntityDecl(const XMLCh* const n, const XMLCh* const p, const XMLCh* const s) override { tick(); r->d.add("XE|" + esc16(n) + "|" + esc16(p) + "|" + esc16(s)); }
    void warning(const SAXParseException& e) override { r->warns++; err("W", e); }
    void error(const SAXParseException& e) override { r->errs++; err("E", e); }
    void fatalError(const SAXParseException& e) override { r->fatals++; err("F", e); }
    void resetDocType() override {}
    void resetDocument() override {}
    void resetErrors() override {}
};

struct DomErrH : public DOMErrorHandler, Collector {
    bool handleError(const DOMError& e) override {
        const char* sev = e.getSeverity() == DOMError::DOM_SEVERITY_WARNING ? "W" : e.getSeverity() == DOMError::DOM_SEVERITY_ERROR ? "E" : "F";
        if (*sev == 'W') r->warns++; else if (*sev == 'E') r->errs++; else r->fatals++;
        DOMLocator* l = e.getLocation();
        char b[64];
        snprintf(b, sizeof b, "|%llu|%llu|", l ? (unsigned long long)l->getLineNumber() : 0ULL, l ? (unsigned long long)l->getColumnNumber() : 0ULL);
        r->errors.push_back(std::string(sev) + b + esc16(e.getMessage()) + "|" + esc16(l ? l->getURI() : 0));
        return true;
    }
};

// resolver serving from the VFS, logging what it was offered
struct VfsResolver : public EntityResolver, public XMLEntityResolver, public DOMLSResourceResolver {
    int mode = 1;  // 1 returns source from vfs when present; 2 always null
    std::vector<std::string> offered;
    InputSource* resolveEntity(const XMLCh* const pub, const XMLCh* const sys) override {
        offered.push_back("sax|" + esc16(pub) + "|" + esc16(sys));
        return make(narrow(sys));
    }
    InputSource* resolveEntity(XMLResourceIdentifier* rid) override {
        offered.push_back("xml|" + esc16(rid->getPublicId()) + "|" + esc16(rid->getSystemId()) + "|" + esc16(rid->getBaseURI()) + "|" + esc16(rid->getNameSpace()) + "|" + std::to_string((int)rid->getResourceIdentifierType()));
        return make(narrow(rid->getSystemId()));
    }
    DOMLSInput* resolveResource(const XMLCh* const, const XMLCh* const, const XMLCh* const pub, const XMLCh* const sys, const XMLCh* const base) override {
        offered.push_back("ls|" + esc16(pub) + "|" + esc16(sys) + "|" + esc16(base));
        InputSource* s = make(narrow(sys));
        return s ? new Wrapper4InputSource(s) : 0;
    }
    InputSource* make(const std::string& sys) {
        if (mode != 1 || !g_vfs) return 0;
        std::string key = "resolver:" + sys;
        auto it = g_vfs->files.find(key);
        if (it == g_vfs->files.end()) return 0;
        g_vfs->log.push_back("resolved " + sys);
        return new PlanSource(it->second.data, sys, it->second.plan);
    }
};

// ---------------------------------------------------------------- DOM -> dump
static bool g_dump_internal_subset = false;   // opt-in: also dump the text of the DOCTYPE's internal subset (line "DTI|...")
inline void dom_dump(DOMNode* n, Dump& d, bool nsmode) {
    switch (n->getNodeType()) {
    case DOMNode::DOCUMENT_NODE:
        for (DOMNode* c = n->getFirstChild(); c; c = c->getNextSibling()) dom_dump(c, d, nsmode);
        d.add("DE");
        break;
    case DOMNode::DOCUMENT_TYPE_NODE: {
        DOMDocumentType* dt = (DOMDocumentType*)n;
        d.add("DT|" + esc16(dt->getName()) + "|" + esc16(dt->getPublicId()) + "|" + esc16(dt->getSystemId()));
        if (g_dump_internal_subset && dt->getInternalSubset()) d.add("DTI|" + esc16(dt->getInternalSubset()));
        DOMNamedNodeMap* nm = dt->getNotations();
        std::vector<std::string> ls;
        for (XMLSize_t i = 0; nm && i < nm->getLength(); i++) {
            DOMNotation* no = (DOMNotation*)nm->item(i);
            ls.push_back("NO|" + esc16(no->getNodeName()) + "|" + esc16(no->getPublicId()) + "|" + esc16(no->getSystemId()));
        }
        DOMNamedNodeMap* em = dt->getEntities();
        for (XMLSize_t i = 0; em && i < em->getLength(); i++) {
            DOMEntity* e = (DOMEntity*)em->item(i);
            if (e->getNotationName()) ls.push_back("UE|" + esc16(e->getNodeName()) + "|" + esc16(e->getPublicId()) + "|" + esc16(e->getSystemId()) + "|" + esc16(e->getNotationName()));
            else ls.push_back("DENT|" + esc16(e->getNodeName()) + "|" + esc16(e->getPublicId()) + "|" + esc16(e->getSystemId()));
        }
        std::sort(ls.begin(), ls.end());
        for (auto& l : ls) d.add(l);
        d.add("DTE");
        break;
    }
    case DOMNode::ELEMENT_NODE: {
        if (nsmode) d.add("S|" + esc16(n->getNodeName()) + "|" + esc16(n->getNamespaceURI() ? n->getNamespaceURI() : X16("").p()) + "|" + esc16(n->getLocalName()));
        else d.add("S|" + esc16(n->getNodeName()) + "|?|?");
        DOMNamedNodeMap* am = n->getAttributes();
        std::vector<std::string> as;
        for (XMLSize_t i = 0; i < am->getLength(); i++) {
            DOMAttr* a = (DOMAttr*)am->item(i);
            std::string s = "A|" + esc16(a->getNodeName()) + "|" + esc16(a->getValue()) + "|?";
            s += a->getSpecified() ? "|spec" : "|dflt";
            // DOM Level 2 binds a bare xmlns attribute to the xmlns namespace, SAX2 reports it without one: both are as specified
            if (nsmode && XMLString::equals(a->getNodeName(), XMLUni::fgXMLNSString) && XMLString::equals(a->getNamespaceURI(), XMLUni::fgXMLNSURIName)) s += "|?|" + esc16(a->getLocalName());
            else if (nsmode) s += "|" + esc16(a->getNamespaceURI() ? a->getNamespaceURI() : X16("").p()) + "|" + esc16(a->getLocalName());
            else s += "|?|?";
            as.push_back(s);
        }
        std::sort(as.begin(), as.end());
        for (auto& s : as) d.add(s);
        for (DOMNode* c = n->getFirstChild(); c; c = c->getNextSibling()) dom_dump(c, d, nsmode);
        d.add("E|" + esc16(n->getNodeName()));
        break;
    }
    case DOMNode::TEXT_NODE: {
        DOMText* t = (DOMText*)n;
        d.chars(esc16(t->getData()), t->isIgnorableWhitespace());
        break;
    }
    case DOMNode::CDATA_SECTION_NODE:
        d.add("CS"); d.chars(esc16(((DOMCharacterData*)n)->getData())); d.add("CE");
        break;
    case DOMNode::COMMENT_NODE: d.add("C|" + esc16(((DOMCharacterData*)n)->getData())); break;
    case DOMNode::PROCESSING_INSTRUCTION_NODE: d.add("PI|" + esc16(n->getNodeName()) + "|" + esc16(n->getNodeValue())); break;
    case DOMNode::ENTITY_REFERENCE_NODE:
        d.add("RS|" + esc16(n->getNodeName()));
        for (DOMNode* c = n->getFirstChild(); c; c = c->getNextSibling()) dom_dump(c, d, nsmode);
        d.add("RE|" + esc16(n->getNodeName()));
        break;
    default: d.add("?|" + std::to_string((int)n->getNodeType()));
    }
}

// ---------------------------------------------------------------- exception classification
#define XV_CATCH_DOCUMENTED(r)                                                                                              \
    catch (const HarnessThrow&) { (r).exc = "HarnessThrow"; }                                                               \
    catch (const OutOfMemoryException&) { (r).exc = "OutOfMemoryException"; }                                               \
    catch (const XMLException& e) { (r).exc = std::string("XMLException:") + xv::esc16(e.getType()) + ":" + xv::esc16(e.getMessage()); } \
    catch (const SAXParseException& e) { (r).exc = std::string("SAXParseException:") + xv::esc16(e.getMessage()); }          \
    catch (const SAXException& e) { (r).exc = std::string("SAXException:") + xv::esc16(e.getMessage()); }                    \
    catch (const DOMLSException& e) { (r).exc = std::string("DOMLSException:") + std::to_string((int)e.code); }              \
    catch (const DOMException& e) { (r).exc = std::string("DOMException:") + std::to_string((int)e.code); }                  \
    catch (const std::exception& e) { (r).exc = std::string("FOREIGN:std:") + e.what(); }                                    \
    catch (...) { (r).exc = "FOREIGN:unknown"; }

// ---------------------------------------------------------------- Xerces parse
struct ParseIO {
    std::string bytes;
    std::string sysId = "/v/doc.xml";
    std::vector<uint32_t> plan;
    int sourceKind = 0;  // 0 MemBufInputSource, 1 PlanSource (application InputSource), 2 LocalFile via VFS, 3 stdin via VFS, 4 DOMLS string/bytes wrapper
};

inline InputSource* make_source(const ParseIO& io) {
    switch (io.sourceKind) {
    case 1: return new PlanSource(io.bytes, io.sysId, io.plan);
    case 2: {
        g_vfs->files[io.sysId].data = io.bytes; g_vfs->files[io.sysId].plan = io.plan;
        return new LocalFileInputSource(X16(io.sysId).p());
    }
    default:
        return new MemBufInputSource((const XMLByte*)io.bytes.data(), io.bytes.size(), X16(io.sysId).p(), false);
    }
}

template <class P> inline void config_common(P& p, const Config& c) {
    p.useScanner(X16(ScnName[c.scanner]).p());
    p.setValidationScheme(c.val == 0 ? P::Val_Never : c.val == 1 ? P::Val_Always : P::Val_Auto);
    p.setDoNamespaces(c.ns);
    p.setDoSchema(c.schema);
    p.setValidationSchemaFullChecking(c.fullcheck);
    p.setExitOnFirstFatalError(c.exitFirstFatal);
    p.setLoadExternalDTD(c.loadExtDTD);
    p.setLoadSchema(c.loadSchema);
    p.setDisableDefaultEntityResolution(c.disableDefRes);
    p.setIdentityConstraintChecking(c.idc);
    if (c.lowWater) p.setLowWaterMark(c.lowWater);
}

struct LsFilter : public DOMLSParserFilter {
    int mode = 1;
    static bool is(const DOMNode* n, char c) { const XMLCh* nm = n->getNodeName(); return nm && nm[0] == (XMLCh)c && nm[1] == 0; }
    FilterAction acceptNode(DOMNode* n) override {
        if (mode == 3) {
            if (n->getNodeType() == DOMNode::ELEMENT_NODE && is(n, 'c')) return FILTER_REJECT;
            if (n->getNodeType() == DOMNode::ELEMENT_NODE && is(n, 'i')) return FILTER_SKIP;
            if (n->getNodeType() == DOMNode::COMMENT_NODE) return FILTER_REJECT;
        }
        return FILTER_ACCEPT;
    }
    FilterAction startElement(DOMElement* n) override {
        if (mode == 2) { if (is(n, 'c')) return FILTER_REJECT; if (is(n, 'i')) return FILTER_SKIP; }
        return FILTER_ACCEPT;
    }
    DOMNodeFilter::ShowType getWhatToShow() const override { return DOMNodeFilter::SHOW_ALL; }
};

struct ParseSession {  // optional external state (security manager, resolver) owned by caller
    SecurityManager sec;
    VfsResolver res;
};

inline ParseResult parse_xerces(const Config& c, const ParseIO& io, ParseSession* sess = nullptr, DOMDocument** adopt = nullptr) {
    ParseResult r;
    ParseSession local;
    if (!sess) sess = &local;
    sess->res.mode = c.resolver;
    if (c.secLimit >= 0) sess->sec.setEntityExpansionLimit(c.secLimit);
    try {
        if (c.api == SAX1) {
            SAXParser p;
            Sax1H h; h.r = &r; h.cfg = &c;
            config_common(p, c);
            if (c.bufSize) p.setInputBufferSize(c.bufSize);
            if (c.secLimit >= 0) p.setSecurityManager(&sess->sec);
            p.setDocumentHandler(&h); p.setDTDHandler(&h); p.setErrorHandler(&h);
            if (c.resolver) p.setEntityResolver(&sess->res);
            std::unique_ptr<InputSource> src(make_source(io));
            p.parse(*src);
            r.d.flush();
        } else if (c.api == SAX2) {
            std::unique_ptr<SAX2XMLReader> p(XMLReaderFactory::createXMLReader());
            Sax2H h; h.r = &r; h.cfg = &c; h.nsmode = c.ns;
            p->setProperty(XMLUni::fgXercesScannerName, (void*)X16(ScnName[c.scanner]).p());
            p->setFeature(XMLUni::fgSAX2CoreNameSpaces, c.ns);
            p->setFeature(XMLUni::fgSAX2CoreNameSpacePrefixes, c.nsPrefixes);
            p->setFeature(XMLUni::fgSAX2CoreValidation, c.val != 0);
            p->setFeature(XMLUni::fgXercesDynamic, c.val == 2);
            p->setFeature(XMLUni::fgXercesSchema, c.schema);
            p->setFeature(XMLUni::fgXercesSchemaFullChecking, c.fullcheck);
            p->setFeature(XMLUni::fgXercesContinueAfterFatalError, !c.exitFirstFatal);
            p->setFeature(XMLUni::fgXercesLoadExternalDTD, c.loadExtDTD);
            p->setFeature(XMLUni::fgXercesLoadSchema, c.loadSchema);
            p->setFeature(XMLUni::fgXercesDisableDefaultEntityResolution, c.disableDefRes);
            p->setFeature(XMLUni::fgXercesIdentityConstraintChecking, c.idc);
            if (c.secLimit >= 0) p->setProperty(XMLUni::fgXercesSecurityManager, &sess->sec);
            if (c.bufSize) ((SAX2XMLReaderImpl*)p.get())->setInputBufferSize(c.bufSize);
            if (c.lowWater) { XMLSize_t v = c.lowWater; p->setProperty(XMLUni::fgXercesLowWaterMark, &v); }
            p->setContentHandler(&h); p->setDTDHandler(&h); p->setErrorHandler(&h);
            p->setLexicalHandler(&h); p->setDeclarationHandler(&h);
            if (c.resolver) p->setEntityResolver(&sess->res);
            std::unique_ptr<InputSource> src(make_source(io));
            p->parse(*src);
            r.d.flush();
        } else if (c.api == PULL) {
            SAXParser p;
            Sax1H h; h.r = &r; h.cfg = &c;
            config_common(p, c);
            if (c.bufSize) p.setInputBufferSize(c.bufSize);
            if (c.secLimit >= 0) p.setSecurityManager(&sess->sec);
            p.setDocumentHandler(&h); p.setDTDHandler(&h); p.setErrorHandler(&h);
            if (c.resolver) p.setEntityResolver(&sess->res);
            std::unique_ptr<InputSource> src(make_source(io));
            XMLPScanToken tok;
            if (p.parseFirst(*src, tok)) {
                while (p.parseNext(tok)) {}
            }
            r.d.flush();
        } else if (c.api == DOM) {
            XercesDOMParser p;
            Sax1H h; h.r = &r; h.cfg = &c;
            config_common(p, c);
            if (c.secLimit >= 0) p.setSecurityManager(&sess->sec);
            p.setCreateEntityReferenceNodes(c.entRefNodes);
            p.setIncludeIgnorableWhitespace(c.ignorableWs);
            p.setErrorHandler(&h);
            if (c.resolver) p.setEntityResolver(&sess->res);
            std::unique_ptr<InputSource> src(make_source(io));
            p.parse(*src);
            DOMDocument* doc = p.getDocument();
            if (doc) dom_dump(doc, r.d, c.ns);
            r.d.flush();
            if (adopt && doc) *adopt = p.adoptDocument();
        } else if (c.api == DOMLS) {
            static const XMLCh ls[] = {'L', 'S', 0};
            DOMImplementationLS* impl = (DOMImplementationLS*)DOMImplementationRegistry::getDOMImplementation(ls);
            DOMLSParser* p = impl->createLSParser(DOMImplementationLS::MODE_SYNCHRONOUS, 0);
            struct Rel { DOMLSParser* p; ~Rel() { p->release(); } } rel{p};
            DomErrH eh; eh.r = &r; eh.cfg = &c;
            DOMConfiguration* dc = p->getDomConfig();
            dc->setParameter(XMLUni::fgXercesScannerName, (void*)X16(ScnName[c.scanner]).p());
            dc->setParameter(XMLUni::fgDOMNamespaces, c.ns);
            // order matters: setting either parameter to false resets the scheme to "never", so the one that is true goes last
            if (c.val == 1) { dc->setParameter(XMLUni::fgDOMValidateIfSchema, false); dc->setParameter(XMLUni::fgDOMValidate, true); }
            else if (c.val == 2) { dc->setParameter(XMLUni::fgDOMValidate, false); dc->setParameter(XMLUni::fgDOMValidateIfSchema, true); }
            else { dc->setParameter(XMLUni::fgDOMValidate, false); dc->setParameter(XMLUni::fgDOMValidateIfSchema, false); }
            dc->setParameter(XMLUni::fgXercesSchema, c.schema);
            dc->setParameter(XMLUni::fgXercesSchemaFullChecking, c.fullcheck);
            dc->setParameter(XMLUni::fgXercesContinueAfterFatalError, !c.exitFirstFatal);
            dc->setParameter(XMLUni::fgXercesLoadExternalDTD, c.loadExtDTD);
            dc->setParameter(XMLUni::fgXercesLoadSchema, c.loadSchema);
            dc->setParameter(XMLUni::fgDOMDisallowDoctype, false);
            dc->setParameter(XMLUni::fgXercesDisableDefaultEntityResolution, c.disableDefRes);
            dc->setParameter(XMLUni::fgXercesIdentityConstraintChecking, c.idc);
            dc->setParameter(XMLUni::fgDOMEntities, c.entRefNodes);
            dc->setParameter(XMLUni::fgDOMElementContentWhitespace, c.ignorableWs);
            dc->setParameter(XMLUni::fgDOMErrorHandler, &eh);
            if (c.secLimit >= 0) dc->setParameter(XMLUni::fgXercesSecurityManager, &sess->sec);
            if (c.resolver) dc->setParameter(XMLUni::fgDOMResourceResolver, (DOMLSResourceResolver*)&sess->res);
            LsFilter filt; filt.mode = c.lsFilter;
            if (c.lsFilter) p->setFilter(&filt);
            std::unique_ptr<InputSource> src(make_source(io));
            Wrapper4InputSource w(src.release(), true);
            DOMDocument* doc = p->parse(&w);
            if (doc) dom_dump(doc, r.d, c.ns);
            r.d.flush();
        }
    }
    XV_CATCH_DOCUMENTED(r)
    return r;
}

// ---------------------------------------------------------------- expat reference
struct ExpatRef {
    Dump d;
    bool ok = true;
    std::string err;
    bool ns = false;
    XML_Parser top = nullptr;
    std::string baseDir;
    int depth = 0;
    static void name_fields(ExpatRef* self, const char* n, std::string& qn, std::string& uri, std::string& local) {
        // with XML_SetReturnNSTriplet: "uri|local|prefix", "uri|local" or "local"
        std::string s(n);
        size_t a = s.find('\x01');
        if (!self->ns || a == std::string::npos) { qn = s; uri = ""; local = s; return; }
        size_t b = s.find('\x01', a + 1);
        uri = s.substr(0, a);
        if (b == std::string::npos) { local = s.substr(a + 1); qn = local; }
        else { local = s.substr(a + 1, b - a - 1); qn = s.substr(b + 1) + ":" + local; }
    }
    static void XMLCALL start(void* ud, const XML_Char* name, const XML_Char** atts) {
        ExpatRef* s = (ExpatRef*)ud;
        XML_Parser p = s->cur();
        std::string qn, uri, local;
        name_fields(s, name, qn, uri, local);
        if (s->ns) s->d.add("S|" + esc8(qn.c_str()) + "|" + esc8(uri.c_str()) + "|" + esc8(local.c_str()));
        else s->d.add("S|" + esc8(qn.c_str()) + "|?|?");
        int nspec = XML_GetSpecifiedAttributeCount(p);
        std::vector<std::string> as;
        for (int i = 0; atts[i]; i += 2) {
            std::string aq, au, al;
            name_fields(s, atts[i], aq, au, al);
            std::string l = "A|" + esc8(aq.c_str()) + "|" + esc8(atts[i + 1]);
            l += "|?";  // type unknown to expat at this point
            l += (i < nspec) ? "|spec" : "|dflt";
            if (s->ns) l += "|" + esc8(au.c_str()) + "|" + esc8(al.c_str());
            else l += "|?|?";
            as.push_back(l);
        }
        std::sort(as.begin(), as.end());
        for (auto& l : as) s->d.add(l);
        // Xerces' locator at startElement is just behind the tag; derive that position independently from the raw bytes
        int bc = XML_GetCurrentByteCount(p);
        if (p == s->top && bc > 0 && s->raw) {
            size_t endp = (size_t)XML_GetCurrentByteIndex(p) + bc;
            unsigned long line = 1;
            const std::string& b = *s->raw;
            for (size_t i = 0; i < endp && i < b.size(); i++) {
                if (b[i] == '\n') line++;
                else if (b[i] == '\r') { line++; if (i + 1 < b.size() && b[i + 1] == '\n') i++; }
            }
            s->d.add("L|" + std::to_string(line) + "|?");
        } else s->d.add("L|?|?");
        s->depth++;
    }
    static void XMLCALL end(void* ud, const XML_Char* name) {
        ExpatRef* s = (ExpatRef*)ud;
        std::string qn, uri, local;
        name_fields(s, name, qn, uri, local);
        s->d.add("E|" + esc8(qn.c_str()));
        s->depth--;
    }
    static void XMLCALL chars(void* ud, const XML_Char* c, int n) { ((ExpatRef*)ud)->d.chars(esc8(c, n)); }
    static void XMLCALL pi(void* ud, const XML_Char* t, const XML_Char* d) {
        ExpatRef* s = (ExpatRef*)ud;
        s->d.add(std::string(s->inDtd ? "DPI|" : "PI|") + esc8(t) + "|" + esc8(d));
    }
    static void XMLCALL comment(void* ud, const XML_Char* c) {
        ExpatRef* s = (ExpatRef*)ud;
        s->d.add(std::string(s->inDtd ? "DC|" : "C|") + esc8(c));
    }
    static void XMLCALL cds(void* ud) { ((ExpatRef*)ud)->d.add("CS"); }
    static void XMLCALL cde(void* ud) { ((ExpatRef*)ud)->d.add("CE"); }
    bool inDtd = false;
    const std::string* raw = nullptr;
    static void XMLCALL sdt(void* ud, const XML_Char* n, const XML_Char* sys, const XML_Char* pub, int) {
        ExpatRef* s = (ExpatRef*)ud;
        s->inDtd = true;
        s->d.add("DT|" + esc8(n) + "|" + esc8(pub) + "|" + esc8(sys));
    }
    static void XMLCALL edt(void* ud) { ExpatRef* s = (ExpatRef*)ud; s->inDtd = false; s->d.add("DTE"); }
    static void XMLCALL nsS(void* ud, const XML_Char* p, const XML_Char* u) { ((ExpatRef*)ud)->d.add("NS+|" + (p ? esc8(p) : std::string("")) + "|" + (u ? esc8(u) : std::string(""))); }
    static void XMLCALL nsE(void* ud, const XML_Char* p) { ((ExpatRef*)ud)->d.add("NS-|" + (p ? esc8(p) : std::string(""))); }
    static void XMLCALL notation(void* ud, const XML_Char* n, const XML_Char*, const XML_Char* sys, const XML_Char* pub) {
        ((ExpatRef*)ud)->d.add("NO|" + esc8(n) + "|" + esc8(pub) + "|" + esc8(sys));
    }
    static void XMLCALL entdecl(void* ud, const XML_Char* n, int isPE, const XML_Char* val, int vlen, const XML_Char*, const XML_Char* sys, const XML_Char* pub, const XML_Char* nd) {
        ExpatRef* s = (ExpatRef*)ud;
        if (isPE) return;
        if (nd) s->d.add("UE|" + esc8(n) + "|" + esc8(pub) + "|" + esc8(sys) + "|" + esc8(nd));
        else if (val) s->d.add("IE|" + esc8(n) + "|" + esc8(val, vlen));
        else s->d.add("XE|" + esc8(n) + "|" + esc8(pub) + "|" + esc8(sys));
    }
    std::vector<XML_Parser> stack;
    XML_Parser cur() { return stack.empty() ? top : stack.back(); }
    static int XMLCALL extref(XML_Parser p, const XML_Char* ctx, const XML_Char* base, const XML_Char* sys, const XML_Char*) {
        ExpatRef* s = (ExpatRef*)XML_GetUserData(p);
        if (!sys || !g_vfs) return XML_STATUS_ERROR;
        std::string path = sys;
        std::string b = base ? base : "/v/doc.xml";
        if (path.compare(0, 8, "file:///") == 0) path = path.substr(7);
        if (path.find("://") != std::string::npos) { auto it = g_vfs->files.find(path); if (it == g_vfs->files.end()) return XML_STATUS_ERROR; }
        else if (path[0] != '/') path = Vfs::normalize(b.substr(0, b.rfind('/') + 1) + path);
        auto it = g_vfs->files.find(path);
        if (it == g_vfs->files.end()) return XML_STATUS_ERROR;
        XML_Parser sub = XML_ExternalEntityParserCreate(p, ctx, NULL);
        XML_SetBase(sub, path.c_str());
        s->stack.push_back(sub);
        int st = XML_Parse(sub, it->second.data.data(), (int)it->second.data.size(), 1);
        s->stack.pop_back();
        if (st == XML_STATUS_ERROR && s->err.empty()) s->err = std::string("ext:") + XML_ErrorString(XML_GetErrorCode(sub));
        XML_ParserFree(sub);
        return st == XML_STATUS_ERROR ? XML_STATUS_ERROR : XML_STATUS_OK;
    }
    void run(const std::string& bytes, bool nsmode, bool loadExt = true, const std::string& base = "/v/doc.xml") {
        ns = nsmode;
        raw = &bytes;
        XML_Parser p = nsmode ? XML_ParserCreateNS(NULL, '\x01') : XML_ParserCreate(NULL);
        top = p;
        if (nsmode) XML_SetReturnNSTriplet(p, 1);
        unsigned long salt = 12345;  // deterministic hashing
        XML_SetHashSalt(p, salt);
        XML_SetUserData(p, this);
        XML_SetBase(p, base.c_str());
        XML_SetElementHandler(p, start, end);
        XML_SetCharacterDataHandler(p, chars);
        XML_SetProcessingInstructionHandler(p, pi);
        XML_SetCommentHandler(p, comment);
        XML_SetCdataSectionHandler(p, cds, cde);
        XML_SetDoctypeDeclHandler(p, sdt, edt);
        XML_SetNotationDeclHandler(p, notation);
        XML_SetEntityDeclHandler(p, entdecl);
        if (nsmode) XML_SetNamespaceDeclHandler(p, nsS, nsE);
        if (loadExt) {
            XML_SetParamEntityParsing(p, XML_PARAM_ENTITY_PARSING_ALWAYS);
            XML_SetExternalEntityRefHandler(p, extref);
        }
        int st = XML_Parse(p, bytes.data(), (int)bytes.size(), 1);
        d.flush();
        if (st == XML_STATUS_ERROR) { ok = false; if (err.empty()) err = XML_ErrorString(XML_GetErrorCode(p)); err += " @" + std::to_string((unsigned long)XML_GetCurrentLineNumber(p)); }
        else d.add("DE");
        XML_ParserFree(p);
    }
};

}  // namespace xv
