// c13_ref.hpp - reference DOM (vector-of-children tree) implementing DOM Core Level 3 semantics for exactly the
// operations of the C13 alphabet, including the DOMException code(s) every illegal call must raise.
// Written from the DOM Level 3 Core recommendation as reproduced in Xerces' public headers (dom/DOMNode.hpp,
// DOMDocument.hpp, DOMElement.hpp, DOMCharacterData.hpp, DOMText.hpp); independent of dom/impl/*.
// Where the recommendation is silent or says "implementation dependent" the choice of Xerces is adopted and
// listed in docs/c13.md as a narrowing (search for [N..] below).
#pragma once
#include <cstdint>
#include <set>
#include <string>
#include <unordered_map>
#include <vector>

namespace c13 {

enum { EL = 1, ATTR = 2, TEXT = 3, COMMENT = 8, DOC = 9, FRAG = 11 };
enum {
    INDEX_SIZE_ERR = 1, HIERARCHY_REQUEST_ERR = 3, WRONG_DOCUMENT_ERR = 4, INVALID_CHARACTER_ERR = 5,
    NO_MODIFICATION_ALLOWED_ERR = 7, NOT_FOUND_ERR = 8, NOT_SUPPORTED_ERR = 9, INUSE_ATTRIBUTE_ERR = 10,
    INVALID_STATE_ERR = 11, NAMESPACE_ERR = 14, INVALID_ACCESS_ERR = 15
};
inline const char* codeName(int c) {
    switch (c) {
    case 0: return "success";
    case 1: return "INDEX_SIZE_ERR"; case 3: return "HIERARCHY_REQUEST_ERR"; case 4: return "WRONG_DOCUMENT_ERR";
    case 5: return "INVALID_CHARACTER_ERR"; case 7: return "NO_MODIFICATION_ALLOWED_ERR"; case 8: return "NOT_FOUND_ERR";
    case 9: return "NOT_SUPPORTED_ERR"; case 10: return "INUSE_ATTRIBUTE_ERR"; case 11: return "INVALID_STATE_ERR";
    case 14: return "NAMESPACE_ERR"; case 15: return "INVALID_ACCESS_ERR";
    case -1: return "FOREIGN_EXCEPTION";
    }
    return "DOMException(other)";
}

static const std::string NUL = "~";  // the null string (namespace / prefix / localName of DOM Level 1 nodes)

// interned string: the model is copied for every call that may succeed, so its nodes keep string ids instead of std::strings
struct IStr {
    int id;
    static std::vector<std::string>& tab() { static std::vector<std::string> t; return t; }
    static int intern(const std::string& v) {
        static std::unordered_map<std::string, int> m;
        auto it = m.find(v);
        if (it != m.end()) return it->second;
        tab().push_back(v);
        m[v] = (int)tab().size() - 1;
        return (int)tab().size() - 1;
    }
    IStr() : id(intern("")) {}
    IStr(const std::string& v) : id(intern(v)) {}
    IStr(const char* v) : id(intern(v)) {}
    const std::string& s() const { return tab()[id]; }
    operator const std::string&() const { return s(); }
    size_t size() const { return s().size(); }
    bool empty() const { return s().empty(); }
    bool operator==(const IStr& o) const { return id == o.id; }
    bool operator!=(const IStr& o) const { return id != o.id; }
    bool operator==(const std::string& o) const { return s() == o; }
    bool operator!=(const std::string& o) const { return s() != o; }
    bool operator==(const char* o) const { return s() == o; }
    bool operator!=(const char* o) const { return s() != o; }
};
inline bool operator==(const std::string& a, const IStr& b) { return a == b.s(); }
inline bool operator!=(const std::string& a, const IStr& b) { return a != b.s(); }
inline std::string operator+(const std::string& a, const IStr& b) { return a + b.s(); }
inline std::string operator+(const IStr& a, const std::string& b) { return a.s() + b; }
inline std::string operator+(const char* a, const IStr& b) { return a + b.s(); }
inline std::string operator+(const IStr& a, const char* b) { return a.s() + b; }
static const char* const XML_NS = "http://www.w3.org/XML/1998/namespace";

struct RNode {
    int type = 0;
    bool live = true;
    IStr name;                                         // nodeName of EL / ATTR
    bool nsAware = false;                              // created by a namespace-aware method (localName != null)
    IStr ns = NUL, prefix = NUL, local = NUL;
    IStr data;                                         // TEXT / COMMENT
    int parent = -1, ownerEl = -1, doc = -1;           // doc: owner document id (a DOC owns itself)
    std::vector<int> kids, attrs;
    int udata = 0;                                     // user data under key "u": 0 none, 1 = token A
};

struct RDom {
    std::vector<RNode> n;
    int add(const RNode& r) { n.push_back(r); return (int)n.size() - 1; }
    int docOf(int i) const { return n[i].type == DOC ? i : n[i].doc; }
    int ownerDocument(int i) const { return n[i].type == DOC ? -1 : n[i].doc; }  // DOM getOwnerDocument()
    bool isAncestorOrSelf(int a, int p) const {
        int guard = 0;
        for (int x = p; x != -1 && guard < 10000; x = n[x].parent, guard++) if (x == a) return true;
        return false;
    }
    void detach(int c) {
        int p = n[c].parent;
        if (p == -1) return;
        auto& k = n[p].kids;
        for (size_t i = 0; i < k.size(); i++) if (k[i] == c) { k.erase(k.begin() + i); break; }
        n[c].parent = -1;
    }
    void detachAttr(int a) {
        int e = n[a].ownerEl;
        if (e == -1) return;
        auto& k = n[e].attrs;
        for (size_t i = 0; i < k.size(); i++) if (k[i] == a) { k.erase(k.begin() + i); break; }
        n[a].ownerEl = -1;
    }
    void kill(int i) {  // the node and everything below it stops being usable (Xerces release())
        n[i].live = false;
        for (int k : n[i].kids) kill(k);
        for (int a : n[i].attrs) kill(a);
    }
    void killDoc(int d) {
        for (size_t i = 0; i < n.size(); i++) if (n[i].live && docOf((int)i) == d) n[i].live = false;
    }
    int newText(int doc, const std::string& s) { RNode t; t.type = TEXT; t.data = s; t.doc = doc; return add(t); }
};

// ------------------------------------------------------------------------------------------- operations
enum OpCode {
    OP_APPEND, OP_INSERT, OP_REMOVE, OP_REPLACE, OP_CLONE, OP_NORMALIZE, OP_SETVALUE, OP_SETTEXT, OP_SETPREFIX, OP_USERDATA, OP_RELEASE,
    OP_IMPORT, OP_ADOPT, OP_RENAME,
    OP_SETATTR, OP_REMATTR, OP_SETATTRNODE, OP_REMATTRNODE, OP_SETATTRNS, OP_REMATTRNS, OP_SETATTRNODENS,
    OP_APPENDDATA, OP_INSERTDATA, OP_DELETEDATA, OP_REPLACEDATA, OP_SUBSTRING, OP_SPLIT, OP_RWT, NOPS
};
static const char* const OpName[NOPS] = {
    "appendChild", "insertBefore", "removeChild", "replaceChild", "cloneNode", "normalize", "setNodeValue", "setTextContent", "setPrefix",
    "setUserData", "release", "importNode", "adoptNode", "renameNode", "setAttribute", "removeAttribute", "setAttributeNode",
    "removeAttributeNode", "setAttributeNS", "removeAttributeNS", "setAttributeNodeNS", "appendData", "insertData", "deleteData",
    "replaceData", "substringData", "splitText", "replaceWholeText"};

struct Opn {
    int code = 0;
    int t = -1;        // receiver node id
    int a = -1, b = -1;  // node operands (-1 = null)
    int v = 0, w = 0;  // value index / offset ; count
};

// value tables (index v).  NULLSTR marks a null XMLCh*.
static const char* const NULLSTR = "\x01null";
static const char* const V_SETVALUE[] = {"", "nv"};
static const char* const V_SETTEXT[] = {"", "tc", NULLSTR};
static const char* const V_PREFIX[] = {"q", "", "xml", "1"};
struct NsName { const char* ns; const char* qn; };
static const NsName V_RENAME[] = {{NULLSTR, "n"}, {"urn:u", "q:n"}, {NULLSTR, "1x"}, {"urn:u", "q:"}};
static const char* const V_ATTRNAME[] = {"k", "m", "1"};   // setAttribute (removeAttribute uses the first two)
static const NsName V_ATTRNS[] = {{"urn:u", "q:m"}, {NULLSTR, "k"}, {"urn:u", "q:"}, {NULLSTR, "q:m"}};
static const NsName V_REMATTRNS[] = {{"urn:u", "m"}, {NULLSTR, "k"}};  // (ns, localName)
static const char* const V_RWT[] = {"w", ""};
static const char* const ATTRVAL = "s";
static const char* const DATASTR = "d";
static const int BIGCOUNT = 4100;  // larger than the 4096-unit stack buffers used by DOMCharacterDataImpl
// count choices: 0, 1, len+1, BIGCOUNT (the generator stores the actual count in Opn::w)
inline int countChoice(int i, int len) { return i == 0 ? 0 : i == 1 ? 1 : i == 2 ? len + 1 : BIGCOUNT; }

inline bool validName(const std::string& s) {  // XML 1.0 Name restricted to ASCII
    if (s.empty()) return false;
    for (size_t i = 0; i < s.size(); i++) {
        unsigned char c = s[i];
        bool start = (c >= 'A' && c <= 'Z') || (c >= 'a' && c <= 'z') || c == '_' || c == ':';
        bool rest = start || (c >= '0' && c <= '9') || c == '.' || c == '-';
        if (i == 0 ? !start : !rest) return false;
    }
    return true;
}
struct QN { bool ok; std::string prefix, local; };
inline QN parseQName(const std::string& q) {
    QN r{false, NUL, q};
    size_t c = q.find(':');
    if (c == std::string::npos) { r.ok = !q.empty(); return r; }
    if (c == 0 || c == q.size() - 1 || q.find(':', c + 1) != std::string::npos) return r;
    r.ok = true; r.prefix = q.substr(0, c); r.local = q.substr(c + 1);
    return r;
}
inline std::string nstr(const char* s) { return s == NULLSTR ? NUL : std::string(s); }

// What the specification allows as the outcome of one call.
struct Expect {
    std::set<int> errs;     // acceptable DOMException codes (empty: the call must succeed)
    bool okToo = false;     // success (with the effect applied to the model) is acceptable as well as errs
    int ret = -2;           // returned node: -2 unspecified, -1 null, >=0 node id
    bool hasStr = false; std::string str;   // returned string (substringData)
    int retData = -2;       // returned user data token (setUserData): -2 unspecified
    bool mustFail() const { return !errs.empty() && !okToo; }
};

struct Ref {
    RDom d;
    // error set of the four child-list operations without touching the model (lets the explorer skip the copy for calls that must fail)
    bool treeOpErrors(const Opn& op, std::set<int>& errs) const {
        switch (op.code) {
        case OP_APPEND: insertErrors(op.t, op.a, -1, false, -1, errs); return true;
        case OP_INSERT: insertErrors(op.t, op.a, op.b, op.b != -1, -1, errs); return true;
        case OP_REMOVE: if (op.a == -1 || d.n[op.a].parent != op.t) errs.insert(NOT_FOUND_ERR); return true;
        case OP_REPLACE: insertErrors(op.t, op.a, op.b, true, op.b, errs); return true;
        }
        return false;
    }

    // ---- hierarchy rules
    bool allowedChild(int ptype, int c) const {
        int ct = d.n[c].type;
        switch (ptype) {
        case DOC:
            // (Xerces additionally admits non-empty white-space-only Text below a Document, DOMDocumentImpl::isKidOK; the alphabet never
            //  produces such a string, so the rule of the recommendation is used unchanged)
            return ct == EL || ct == COMMENT;
        case EL: case FRAG: return ct == EL || ct == TEXT || ct == COMMENT;
        case ATTR: return ct == TEXT;
        }
        return false;
    }
    // error conditions of insertBefore(p, n, ref) / replaceChild(p, n, old=ref) (replacing: the child that will leave, or -1)
    void insertErrors(int p, int nn, int ref, bool refGiven, int replacing, std::set<int>& errs) const {
        const RNode& P = d.n[p];
        bool leaf = (P.type == TEXT || P.type == COMMENT);
        if (leaf) errs.insert(HIERARCHY_REQUEST_ERR);
        if (nn == -1) errs.insert(HIERARCHY_REQUEST_ERR);  // [N2] null newChild: HIERARCHY_REQUEST_ERR (Xerces; the spec is silent)
        else {
            const RNode& N = d.n[nn];
            if (d.ownerDocument(nn) != d.docOf(p)) errs.insert(WRONG_DOCUMENT_ERR);
            if (N.type == DOC || N.type == ATTR) errs.insert(HIERARCHY_REQUEST_ERR);
            else if (!leaf) {
                if (d.isAncestorOrSelf(nn, p)) errs.insert(HIERARCHY_REQUEST_ERR);
                std::vector<int> cand = (N.type == FRAG) ? N.kids : std::vector<int>{nn};
                int els = 0;
                for (int c : cand) { if (!allowedChild(P.type, c)) errs.insert(HIERARCHY_REQUEST_ERR); if (d.n[c].type == EL) els++; }
                if (P.type == DOC) {
                    for (int k : P.kids) {
                        if (d.n[k].type != EL || k == replacing) continue;
                        bool moving = false;
                        for (int c : cand) if (c == k) moving = true;
                        if (!moving) els++;
                    }
                    if (els > 1) errs.insert(HIERARCHY_REQUEST_ERR);
                }
            }
        }
        if (refGiven && (ref == -1 || d.n[ref].parent != p)) errs.insert(NOT_FOUND_ERR);
    }
    void doInsert(int p, int nn, int ref) {
        if (nn == ref) return;  // [N3] inserting a node before itself is implementation dependent (DOM L3): Xerces does nothing
        std::vector<int> cand = (d.n[nn].type == FRAG) ? d.n[nn].kids : std::vector<int>{nn};
        for (int c : cand) {
            d.detach(c);
            auto& k = d.n[p].kids;
            size_t pos = k.size();
            if (ref != -1) for (size_t i = 0; i < k.size(); i++) if (k[i] == ref) pos = i;
            k.insert(k.begin() + pos, c);
            d.n[c].parent = p;
        }
    }

    // ---- copies
    int copyNode(int src, int doc, bool deep) {
        RNode r;
        {
            const RNode& s = d.n[src];
            r.type = s.type; r.name = s.name; r.nsAware = s.nsAware; r.ns = s.ns; r.prefix = s.prefix; r.local = s.local; r.data = s.data; r.doc = doc;
        }
        int id = d.add(r);
        if (d.n[src].type == EL) {
            std::vector<int> as = d.n[src].attrs;
            for (int a : as) { int c = copyNode(a, doc, true); d.n[c].ownerEl = id; d.n[id].attrs.push_back(c); }
        }
        if (deep || d.n[src].type == ATTR) {
            std::vector<int> ks = d.n[src].kids;
            for (int k : ks) { int c = copyNode(k, doc, true); d.n[c].parent = id; d.n[id].kids.push_back(c); }
        }
        return id;
    }

    // ---- attributes
    int findAttrByName(int el, const std::string& name) const {
        for (int a : d.n[el].attrs) if (d.n[a].name == name) return a;
        return -1;
    }
    int findAttrNS(int el, const std::string& ns, const std::string& local) const {
        // [N7] mixing DOM L1 attributes with namespace-aware methods: an attribute without localName is matched by its nodeName (Xerces)
        for (int a : d.n[el].attrs) {
            const RNode& A = d.n[a];
            if (A.ns != ns) continue;
            if (A.local == local || (A.local == NUL && A.name == local)) return a;
        }
        return -1;
    }
    void setAttrValue(int a, const std::string& v, bool isNull) {  // [N4] Xerces releases the former children of the Attr
        std::vector<int> ks = d.n[a].kids;
        for (int k : ks) { d.detach(k); d.kill(k); }
        if (!isNull) { int t = d.newText(d.n[a].doc, v); d.n[t].parent = a; d.n[a].kids.push_back(t); }
    }
    int attachAttr(int el, int a, bool nsMode) {  // returns replaced attribute or -1
        int old = -1;
        if (nsMode && d.n[a].local != NUL) old = findAttrNS(el, d.n[a].ns, d.n[a].local);
        else if (nsMode) { for (int x : d.n[el].attrs) if (d.n[x].ns == NUL && d.n[x].name == d.n[a].name) old = x; }
        else old = findAttrByName(el, d.n[a].name);
        if (old == a) return -1;
        if (old != -1) d.detachAttr(old);
        d.n[el].attrs.push_back(a);
        d.n[a].ownerEl = el;
        return old;
    }

    void normalizeKids(int p) {
        size_t i = 0;
        while (i < d.n[p].kids.size()) {
            int k = d.n[p].kids[i];
            if (d.n[k].type == TEXT) {
                while (i + 1 < d.n[p].kids.size() && d.n[d.n[p].kids[i + 1]].type == TEXT) {
                    int nx = d.n[p].kids[i + 1];
                    d.n[k].data = d.n[k].data.s() + d.n[nx].data.s();
                    d.detach(nx);                 // the absorbed node stays usable (Xerces does not release it)
                }
                if (d.n[k].data.empty()) { d.detach(k); continue; }
            } else if (d.n[k].type == EL) normalizeEl(k);
            i++;
        }
    }
    void normalizeEl(int e) {
        std::vector<int> as = d.n[e].attrs;
        for (int a : as) normalizeKids(a);
        normalizeKids(e);
    }

    // ---- the transition function: fills e; applies the effect to d unless the call must fail
    void apply(const Opn& op, Expect& e) {
        RNode& T = d.n[op.t];
        switch (op.code) {
        case OP_APPEND: case OP_INSERT: {
            bool given = (op.code == OP_INSERT && op.b != -1);
            insertErrors(op.t, op.a, op.b, given, -1, e.errs);
            if (e.errs.empty()) { doInsert(op.t, op.a, op.code == OP_INSERT ? op.b : -1); e.ret = op.a; }
            break;
        }
        case OP_REMOVE:
            if (op.a == -1 || d.n[op.a].parent != op.t) e.errs.insert(NOT_FOUND_ERR);
            else { d.detach(op.a); e.ret = op.a; }
            break;
        case OP_REPLACE: {
            insertErrors(op.t, op.a, op.b, true, op.b, e.errs);
            if (e.errs.empty()) {
                // [N3] replacing a node with itself is implementation dependent (DOM L3): Xerces removes it
                if (op.a != op.b) doInsert(op.t, op.a, op.b);
                d.detach(op.b);
                e.ret = op.b;
            }
            break;
        }
        case OP_CLONE: {
            bool deep = op.v != 0;
            if (T.type == DOC) {
                RNode nd; nd.type = DOC; int id = d.add(nd); d.n[id].doc = id;
                if (deep) { std::vector<int> ks = d.n[op.t].kids; for (int k : ks) { int c = copyNode(k, id, true); d.n[c].parent = id; d.n[id].kids.push_back(c); } }
                e.ret = id;
            } else e.ret = copyNode(op.t, T.doc, deep);
            break;
        }
        case OP_NORMALIZE:
            if (T.type == EL) normalizeEl(op.t);
            else if (T.type == DOC || T.type == FRAG || T.type == ATTR) normalizeKids(op.t);
            break;
        case OP_SETVALUE: case OP_SETTEXT: {
            const char* raw = op.code == OP_SETVALUE ? V_SETVALUE[op.v] : V_SETTEXT[op.v];
            bool isNull = raw == NULLSTR;
            std::string v = isNull ? "" : raw;
            if (T.type == TEXT || T.type == COMMENT) T.data = v;
            else if (T.type == ATTR) setAttrValue(op.t, v, isNull);
            else if (op.code == OP_SETTEXT && (T.type == EL || T.type == FRAG)) {
                std::vector<int> ks = T.kids;
                for (int k : ks) d.detach(k);
                if (!v.empty()) { int t = d.newText(d.docOf(op.t), v); d.n[t].parent = op.t; d.n[op.t].kids.push_back(t); }
            }
            break;  // otherwise: nodeValue/textContent defined to be null, setting has no effect
        }
        case OP_SETPREFIX: {
            std::string p = V_PREFIX[op.v];
            bool elOrAttr = (T.type == EL || T.type == ATTR);
            if (T.ns == NUL) {
                e.errs.insert(NAMESPACE_ERR);          // "raised if the namespaceURI of this node is null"
                if (!elOrAttr) e.okToo = true;         // "...when it is defined to be null, setting it has no effect"
                break;
            }
            if (p.empty()) { T.prefix = NUL; T.name = T.local; break; }
            if (!validName(p)) e.errs.insert(INVALID_CHARACTER_ERR);
            if (p.find(':') != std::string::npos) e.errs.insert(NAMESPACE_ERR);
            if (p == "xml" && T.ns != XML_NS) e.errs.insert(NAMESPACE_ERR);
            if (e.errs.empty()) { T.prefix = p; T.name = p + ":" + T.local.s(); }
            break;
        }
        case OP_USERDATA: e.retData = T.udata; T.udata = op.v == 0 ? 1 : 0; break;
        case OP_RELEASE:
            // non-standard extension, documented in DOMNode.hpp: INVALID_ACCESS_ERR if the node has a parent (owner element)
            if (T.type == DOC) d.killDoc(op.t);
            else if (T.parent != -1 || T.ownerEl != -1) e.errs.insert(INVALID_ACCESS_ERR);
            else d.kill(op.t);
            break;
        case OP_IMPORT:
            if (d.n[op.a].type == DOC) e.errs.insert(NOT_SUPPORTED_ERR);
            else e.ret = copyNode(op.a, op.t, op.v != 0);
            break;
        case OP_ADOPT: {
            const RNode& N = d.n[op.a];
            if (N.type == DOC) { e.errs.insert(NOT_SUPPORTED_ERR); break; }
            // [N6] a node owned by another document cannot be adopted (per-document memory pools): "returns null if this operation fails"
            if (N.doc != op.t) { e.ret = -1; break; }
            if (N.type == ATTR) d.detachAttr(op.a); else d.detach(op.a);
            e.ret = op.a;
            break;
        }
        case OP_RENAME: {
            const RNode& N0 = d.n[op.a];
            std::string ns = nstr(V_RENAME[op.v].ns), qn = V_RENAME[op.v].qn;
            if (d.ownerDocument(op.a) != op.t) e.errs.insert(WRONG_DOCUMENT_ERR);
            if (N0.type != EL && N0.type != ATTR) e.errs.insert(NOT_SUPPORTED_ERR);
            if (!validName(qn)) e.errs.insert(INVALID_CHARACTER_ERR);
            QN q = parseQName(qn);
            if (!q.ok) e.errs.insert(NAMESPACE_ERR);
            if (q.ok && q.prefix != NUL && ns == NUL) e.errs.insert(NAMESPACE_ERR);
            if (!e.errs.empty()) break;
            int n = op.a, el = d.n[n].ownerEl;
            bool isAttr = d.n[n].type == ATTR;
            if (isAttr && el != -1) d.detachAttr(n);
            int res = n;
            if (!d.n[n].nsAware && ns != NUL) {
                // the node cannot simply be renamed: a new namespace-aware node replaces it; the old object stays behind, empty and detached
                RNode r; r.type = d.n[n].type; r.doc = d.n[n].doc; r.nsAware = true; r.ns = ns; r.prefix = q.prefix; r.local = q.local; r.name = qn;
                r.udata = d.n[n].udata;
                res = d.add(r);
                d.n[n].udata = 0;
                std::vector<int> ks = d.n[n].kids;
                int p = d.n[n].parent;
                if (!isAttr && p != -1) {
                    auto& pk = d.n[p].kids;
                    for (size_t i = 0; i < pk.size(); i++) if (pk[i] == n) pk[i] = res;
                    d.n[res].parent = p; d.n[n].parent = -1;
                }
                for (int k : ks) { d.n[k].parent = res; d.n[res].kids.push_back(k); }
                d.n[n].kids.clear();
                for (int a : d.n[n].attrs) { d.n[a].ownerEl = res; d.n[res].attrs.push_back(a); }
                d.n[n].attrs.clear();
            } else if (!d.n[n].nsAware) d.n[n].name = qn;
            else { RNode& N = d.n[n]; N.name = qn; N.ns = ns; N.prefix = q.prefix; N.local = q.local; }
            if (isAttr && el != -1) attachAttr(el, res, d.n[res].nsAware);
            e.ret = res;
            break;
        }
        case OP_SETATTR: {
            std::string name = V_ATTRNAME[op.v];
            if (!validName(name)) { e.errs.insert(INVALID_CHARACTER_ERR); break; }
            int a = findAttrByName(op.t, name);
            if (a == -1) { RNode r; r.type = ATTR; r.name = name; r.doc = T.doc; a = d.add(r); d.n[a].ownerEl = op.t; d.n[op.t].attrs.push_back(a); }
            setAttrValue(a, ATTRVAL, false);
            break;
        }
        case OP_REMATTR: {
            int a = findAttrByName(op.t, V_ATTRNAME[op.v]);
            if (a != -1) { d.detachAttr(a); d.kill(a); }  // [N4] Xerces releases the removed attribute
            break;
        }
        case OP_SETATTRNODE: case OP_SETATTRNODENS: {
            const RNode& A = d.n[op.a];
            if (A.doc != T.doc) e.errs.insert(WRONG_DOCUMENT_ERR);
            if (A.ownerEl != -1 && A.ownerEl != op.t) e.errs.insert(INUSE_ATTRIBUTE_ERR);
            if (!e.errs.empty()) break;
            if (A.ownerEl == op.t) break;  // replacing an attribute node by itself has no effect; return value unspecified
            e.ret = attachAttr(op.t, op.a, op.code == OP_SETATTRNODENS);
            break;
        }
        case OP_REMATTRNODE:
            if (d.n[op.a].ownerEl != op.t) e.errs.insert(NOT_FOUND_ERR);
            else { d.detachAttr(op.a); e.ret = op.a; }
            break;
        case OP_SETATTRNS: {
            std::string ns = nstr(V_ATTRNS[op.v].ns), qn = V_ATTRNS[op.v].qn;
            if (!validName(qn)) e.errs.insert(INVALID_CHARACTER_ERR);
            QN q = parseQName(qn);
            if (!q.ok) e.errs.insert(NAMESPACE_ERR);
            if (q.ok && q.prefix != NUL && ns == NUL) e.errs.insert(NAMESPACE_ERR);
            if (!e.errs.empty()) break;
            int a = findAttrNS(op.t, ns, q.local);
            if (a == -1) {
                RNode r; r.type = ATTR; r.name = qn; r.nsAware = true; r.ns = ns; r.prefix = q.prefix; r.local = q.local; r.doc = T.doc;
                a = d.add(r); d.n[a].ownerEl = op.t; d.n[op.t].attrs.push_back(a);
            }
            setAttrValue(a, ATTRVAL, false);
            break;
        }
        case OP_REMATTRNS: {
            int a = findAttrNS(op.t, nstr(V_REMATTRNS[op.v].ns), V_REMATTRNS[op.v].qn);
            if (a != -1) { d.detachAttr(a); d.kill(a); }
            break;
        }
        case OP_APPENDDATA: T.data = T.data.s() + DATASTR; break;
        case OP_INSERTDATA:
            if ((size_t)op.v > T.data.size()) e.errs.insert(INDEX_SIZE_ERR);
            else { std::string v = T.data; v.insert(op.v, DATASTR); T.data = v; }
            break;
        case OP_DELETEDATA: case OP_REPLACEDATA: case OP_SUBSTRING: {
            size_t len = T.data.size(), off = op.v, cnt = op.w;
            if (off > len) { e.errs.insert(INDEX_SIZE_ERR); break; }
            if (off + cnt > len) cnt = len - off;
            if (op.code == OP_SUBSTRING) { e.hasStr = true; e.str = T.data.s().substr(off, cnt); break; }
            std::string v = T.data;
            v.erase(off, cnt);
            if (op.code == OP_REPLACEDATA) v.insert(off, DATASTR);
            T.data = v;
            break;
        }
        case OP_SPLIT: {
            if ((size_t)op.v > T.data.size()) { e.errs.insert(INDEX_SIZE_ERR); break; }
            std::string whole = d.n[op.t].data;
            int t = d.newText(d.n[op.t].doc, whole.substr(op.v));
            d.n[op.t].data = whole.substr(0, op.v);
            int p = d.n[op.t].parent;
            if (p != -1) {
                auto& k = d.n[p].kids;
                for (size_t i = 0; i < k.size(); i++) if (k[i] == op.t) { k.insert(k.begin() + i + 1, t); break; }
                d.n[t].parent = p;
            }
            e.ret = t;
            break;
        }
        case OP_RWT: {
            std::string v = V_RWT[op.v];
            int p = T.parent;
            std::vector<int> run;
            if (p == -1) run.push_back(op.t);
            else {
                const auto& k = d.n[p].kids;
                size_t i = 0;
                while (k[i] != op.t) i++;
                size_t lo = i, hi = i;
                while (lo > 0 && d.n[k[lo - 1]].type == TEXT) lo--;
                while (hi + 1 < k.size() && d.n[k[hi + 1]].type == TEXT) hi++;
                for (size_t j = lo; j <= hi; j++) run.push_back(k[j]);
            }
            if (!v.empty()) {
                // the recipient of the replacement text is the first node of the run (choice of Xerces; the spec leaves it open)
                d.n[run[0]].data = v;
                for (size_t j = 1; j < run.size(); j++) { d.detach(run[j]); d.kill(run[j]); }
                e.ret = run[0];
            } else {
                e.ret = -1;
                if (p != -1) for (int x : run) { d.detach(x); d.kill(x); }   // [N4] removed text nodes are released by Xerces
            }
            break;
        }
        }
    }
};

}  // namespace c13
