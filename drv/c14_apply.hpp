// c14_apply.hpp - one operation of the C14 alphabet executed on the reference model.
#pragma once
#include "c14_ref.hpp"

namespace c14 {

inline std::string nodeVal(int x) { return x < 0 ? std::string("null") : "n" + std::to_string(x); }

inline bool presetOK(const RModel& m, int p) {
    if (p < 0 || p >= N_PRESETS) return false;
    const Preset& q = PRESETS[p];
    if (!m.valid(q.sc) || !m.valid(q.ec)) return false;
    if (q.so > m.len(q.sc) || q.eo > m.len(q.ec)) return false;
    return m.rootOf(q.sc) == m.rootOf(q.ec) && m.cmpPts(q.sc, q.so, q.ec, q.eo) <= 0;
}

inline bool viewIs(const RModel& m, int vi, int kind) { return vi >= 0 && vi < (int)m.v.size() && m.v[vi].kind == kind; }

inline Out ref_apply(RModel& m, const VOp& op, Info& inf) {
    Out out;
    inf = Info();
    auto skip = [&]() { inf.skipped = true; out.unspec = true; return out; };
    auto exc = [&](int ex, int code) { out.ex = ex; out.code = code; return out; };
    auto ensureAdopt = [&]() { inf.adoptRange.assign(m.v.size() + 1, 0); inf.adoptCur.assign(m.v.size() + 1, 0); };
    ensureAdopt();
    m.iterFix = 0;
    m.adoptHint.clear();
    switch (op.c) {
    // ------------------------------------------------------------ view creation
    case K_MK_NI: case K_MK_TW: {
        if (!m.valid(op.a) || op.b < 0 || op.b > 2 || op.d < 0 || op.d > 2) return skip();
        RView w; w.kind = op.c == K_MK_NI ? V_NI : V_TW;
        w.root = op.a; w.show = op.b; w.filt = op.d; w.ref = op.a; w.before = true; w.virgin = true; w.cur = op.a;
        m.v.push_back(w);
        break;
    }
    case K_MK_TAG: { RView w; w.kind = V_TAG; w.tag = op.a; m.v.push_back(w); break; }
    case K_MK_KIDS: case K_MK_ATTRS: {
        if (!m.valid(op.a) || (op.c == K_MK_ATTRS && m.n[op.a].type != T_ELEM)) return skip();
        RView w; w.kind = op.c == K_MK_KIDS ? V_KIDS : V_ATTRS; w.node = op.a; m.v.push_back(w);
        break;
    }
    case K_MK_ID: { RView w; w.kind = V_ID; m.v.push_back(w); break; }
    case K_MK_XP: {
        if (!m.valid(1) || m.n[1].type != T_ELEM) return skip();
        RView w; w.kind = V_XP; w.tag = op.a; w.node = 1; w.snap = m.xpathEval(op.a, 1); m.v.push_back(w);
        break;
    }
    case K_MK_RANGE: {
        if (!presetOK(m, op.a)) return skip();
        RView w; w.kind = V_RANGE; w.sc = w.ec = 0; w.so = w.eo = 0;
        if (op.a > 0) { const Preset& q = PRESETS[op.a]; m.setStart(w, q.sc, q.so); m.setEnd(w, q.ec, q.eo); }
        m.v.push_back(w);
        break;
    }
    // ------------------------------------------------------------ structural mutations
    case K_APPEND:
        if (!m.legalInsert(op.a, op.b, -1)) return skip();
        m.insertBefore(op.a, op.b, -1);
        break;
    case K_INSERT:
        if (!m.valid(op.d) || !m.legalInsert(op.a, op.b, op.d) || op.b == op.d) return skip();
        m.insertBefore(op.a, op.b, op.d);
        break;
    case K_REMOVE:
        if (!m.valid(op.a) || m.par(op.a) < 0) return skip();
        m.detachNode(op.a);
        break;
    case K_REPLACE: {
        if (!m.valid(op.a) || !m.valid(op.b) || op.a == op.b) return skip();
        int p = m.par(op.b);
        if (p < 0 || m.n[p].type == T_DOC || !m.legalInsert(p, op.a, op.b)) return skip();
        m.insertBefore(p, op.a, op.b);
        m.detachNode(op.b);
        break;
    }
    case K_NORMALIZE:
        if (!m.valid(op.a) || m.n[op.a].type != T_ELEM) return skip();
        m.normalize(op.a);
        for (size_t i = 0; i < m.v.size(); i++) if (m.v[i].kind == V_RANGE) inf.adoptRange[i] = 1;
        break;
    // ------------------------------------------------------------ text edits
    case K_INSDATA:
        if (!m.valid(op.a) || !m.isText(op.a) || op.b > m.len(op.a)) return skip();
        m.textInsert(op.a, op.b, STRS[op.d]);
        break;
    case K_DELDATA:
        if (!m.valid(op.a) || !m.isText(op.a) || op.b > m.len(op.a)) return skip();
        m.textDelete(op.a, op.b, op.d);
        break;
    case K_REPDATA:
        if (!m.valid(op.a) || !m.isText(op.a) || op.b > m.len(op.a)) return skip();
        m.textDelete(op.a, op.b, op.d);
        m.textInsert(op.a, op.b, STRS[op.e]);
        break;
    case K_SPLIT:
        if (!m.valid(op.a) || !m.isText(op.a) || op.b > m.len(op.a)) return skip();
        // a Range whose root container is a parentless Text node is outside DOM Range 2.2; splitting that node cannot keep both
        // boundary points under one root -> not executed
        if (m.par(op.a) < 0)
            for (auto& w : m.v) if (w.kind == V_RANGE && !w.detached && (w.sc == op.a || w.ec == op.a)) return skip();
        inf.ret = m.splitText(op.a, op.b);
        out.val = "new";
        break;
    case K_SETVAL:
        if (!m.valid(op.a) || !m.isText(op.a)) return skip();
        m.n[op.a].data = STRS[op.b];
        for (size_t i = 0; i < m.v.size(); i++)
            if (m.v[i].kind == V_RANGE && !m.v[i].detached && (m.v[i].sc == op.a || m.v[i].ec == op.a)) inf.adoptRange[i] = 1;
        break;
    // ------------------------------------------------------------ attributes
    case K_SETATTR:
        if (!m.valid(op.a) || m.n[op.a].type != T_ELEM) return skip();
        m.n[op.a].attrs[ANAMES[op.b]].first = AVALS[op.d];
        break;
    case K_RMATTR:
        if (!m.valid(op.a) || m.n[op.a].type != T_ELEM) return skip();
        m.n[op.a].attrs.erase(ANAMES[op.b]);
        break;
    case K_SETIDATTR: {
        if (!m.valid(op.a) || m.n[op.a].type != T_ELEM) return skip();
        auto it = m.n[op.a].attrs.find(ANAMES[op.b]);
        if (it == m.n[op.a].attrs.end()) return exc(1, 8);
        it->second.second = true;
        break;
    }
    case K_MKEL: inf.ret = m.add(T_ELEM, "a"); m.created++; out.val = "new"; break;
    case K_MKTEXT: inf.ret = m.add(T_TEXT, "", STRS[op.a]); m.created++; out.val = "new"; break;
    // ------------------------------------------------------------ NodeIterator
    case K_NEXT: case K_PREV: {
        if (!viewIs(m, op.a, V_NI)) return skip();
        RView& w = m.v[op.a];
        if (w.detached) return exc(1, 11);
        out.val = nodeVal(op.c == K_NEXT ? m.iterNext(w) : m.iterPrev(w));
        break;
    }
    case K_DETACH:
        if (!viewIs(m, op.a, V_NI)) return skip();
        m.v[op.a].detached = true;
        break;
    // ------------------------------------------------------------ TreeWalker
    case K_TW_PARENT: case K_TW_FIRST: case K_TW_LAST: case K_TW_NEXTSIB: case K_TW_PREVSIB: case K_TW_NEXT: case K_TW_PREV: {
        if (!viewIs(m, op.a, V_TW)) return skip();
        RView& w = m.v[op.a];
        if (!m.twWellPosed(w)) { inf.adoptCur[op.a] = 1; out.unspec = true; break; }
        int r = -1;
        switch (op.c) {
        case K_TW_PARENT: r = m.twParent(w); break;
        case K_TW_FIRST: r = m.twChildren(w, true); break;
        case K_TW_LAST: r = m.twChildren(w, false); break;
        case K_TW_NEXTSIB: r = m.twSiblings(w, true); break;
        case K_TW_PREVSIB: r = m.twSiblings(w, false); break;
        case K_TW_NEXT: r = m.twNext(w); break;
        default: r = m.twPrev(w); break;
        }
        out.val = nodeVal(r);
        break;
    }
    case K_TW_SETCUR:
        if (!viewIs(m, op.a, V_TW) || !m.valid(op.b)) return skip();
        m.v[op.a].cur = op.b;
        break;
    // ------------------------------------------------------------ lists
    case K_LEN: {
        if (op.a < 0 || op.a >= (int)m.v.size()) return skip();
        RView& w = m.v[op.a];
        size_t L;
        if (w.kind == V_TAG) L = m.tagList(w.tag).size();
        else if (w.kind == V_KIDS) L = m.n[w.node].kids.size();
        else if (w.kind == V_ATTRS) L = m.n[w.node].attrs.size();
        else if (w.kind == V_XP) L = w.snap.size();
        else return skip();
        out.val = "len:" + std::to_string(L);
        break;
    }
    case K_ITEM: {
        if (op.a < 0 || op.a >= (int)m.v.size()) return skip();
        RView& w = m.v[op.a];
        std::vector<int> l;
        if (w.kind == V_TAG) l = m.tagList(w.tag);
        else if (w.kind == V_KIDS) l = m.n[w.node].kids;
        else if (w.kind == V_XP) l = w.snap;
        else if (w.kind == V_ATTRS) { out.unspec = true; break; }  // NamedNodeMap order is not specified: compared as a set by the probe
        else return skip();
        out.val = nodeVal(op.b < (int)l.size() ? l[op.b] : -1);
        break;
    }
    case K_IDGET:
        if (!viewIs(m, op.a, V_ID)) return skip();
        out.unspec = true;  // judged by the driver against idCandidates()
        break;
    // ------------------------------------------------------------ Range
    case K_R_SETSTART: case K_R_SETEND: {
        if (!viewIs(m, op.a, V_RANGE) || !m.valid(op.b)) return skip();
        RView& w = m.v[op.a];
        if (w.detached) return exc(1, 11);
        if (op.d > m.len(op.b)) return exc(1, 1);
        if (op.c == K_R_SETSTART) m.setStart(w, op.b, op.d); else m.setEnd(w, op.b, op.d);
        break;
    }
    case K_R_COLLAPSE: {
        if (!viewIs(m, op.a, V_RANGE)) return skip();
        RView& w = m.v[op.a];
        if (w.detached) return exc(1, 11);
        if (op.b) { w.ec = w.sc; w.eo = w.so; } else { w.sc = w.ec; w.so = w.eo; }
        break;
    }
    case K_R_SELNODE: {
        if (!viewIs(m, op.a, V_RANGE) || !m.valid(op.b)) return skip();
        RView& w = m.v[op.a];
        if (w.detached) return exc(1, 11);
        int t = m.n[op.b].type;
        if (t == T_DOC || t == T_FRAG) return exc(2, 112);
        if (t == T_TEXT || m.par(op.b) < 0) { inf.adoptRange[op.a] = 1; break; }
        w.sc = w.ec = m.par(op.b); w.so = m.idx(op.b); w.eo = w.so + 1;
        break;
    }
    case K_R_SELCONT: {
        if (!viewIs(m, op.a, V_RANGE) || !m.valid(op.b)) return skip();
        RView& w = m.v[op.a];
        if (w.detached) return exc(1, 11);
        w.sc = w.ec = op.b; w.so = 0; w.eo = m.len(op.b);
        break;
    }
    case K_R_CMP: {
        if (!viewIs(m, op.a, V_RANGE) || !viewIs(m, op.d, V_RANGE)) return skip();
        RView& w = m.v[op.a]; RView& s = m.v[op.d];
        if (w.detached || s.detached) return exc(1, 11);
        if (m.rootOf(w.sc) != m.rootOf(s.sc)) { out.unspec = true; break; }
        int r;
        switch (op.b) {
        case 0: r = m.cmpPts(w.sc, w.so, s.sc, s.so); break;
        case 1: r = m.cmpPts(w.ec, w.eo, s.sc, s.so); break;
        case 2: r = m.cmpPts(w.ec, w.eo, s.ec, s.eo); break;
        default: r = m.cmpPts(w.sc, w.so, s.ec, s.eo); break;
        }
        out.val = "i:" + std::to_string(r);
        break;
    }
    case K_R_DELETE: case K_R_EXTRACT: case K_R_CLONE: {
        if (!viewIs(m, op.a, V_RANGE)) return skip();
        RView& w = m.v[op.a];
        if (w.detached) return exc(1, 11);
        // DOM Range 2.2: the root container of a Range is a Document, DocumentFragment or Attr; for a Range that was placed
        // (setStart/selectNode) inside a parentless element subtree the content operations are not determined -> not executed
        if (op.c != K_R_CLONE && !m.rangeRootIsDocOrFragment(w)) return skip();
        inf.contentNonEmpty = !(w.sc == w.ec && w.so == w.eo);
        int mode = op.c == K_R_DELETE ? RModel::M_DELETE : op.c == K_R_EXTRACT ? RModel::M_EXTRACT : RModel::M_CLONE;
        int f = m.rangeContents(m.v[op.a], mode);
        if (mode != RModel::M_DELETE) { inf.ret = f; inf.dropRet = mode == RModel::M_CLONE; out.val = "frag"; }
        break;
    }
    case K_R_INSERT: {
        if (!viewIs(m, op.a, V_RANGE) || !m.valid(op.b)) return skip();
        if (m.v[op.a].detached) return exc(1, 11);
        RModel tmp = m;
        if (!tmp.rangeInsertNode(tmp.v[op.a], op.b, out, inf)) return out;
        m = tmp;
        break;
    }
    case K_R_SURROUND: {
        if (!viewIs(m, op.a, V_RANGE) || !m.valid(op.b)) return skip();
        if (m.v[op.a].detached) return exc(1, 11);
        int t = m.n[op.b].type;
        if (t == T_DOC) return skip();  // header: INVALID_NODE_TYPE_ERR, but a Document is also "not created from the same document": order of the two checks not determined
        if (t == T_FRAG) return exc(2, 112);
        if (m.partiallySelectsNonText(m.v[op.a])) return exc(2, 111);
        if (!m.rangeRootIsDocOrFragment(m.v[op.a])) return skip();
        if (t != T_ELEM) return skip();  // a Text node cannot take children: HIERARCHY_REQUEST_ERR after a partial mutation - not determined
        RModel tmp = m;
        RView& w = tmp.v[op.a];
        inf.contentNonEmpty = !(w.sc == w.ec && w.so == w.eo);
        int f = tmp.rangeContents(w, RModel::M_EXTRACT);
        Out o2; Info i2;
        if (!tmp.rangeInsertNode(tmp.v[op.a], op.b, o2, i2)) return skip();  // exception after the extraction: resulting state not determined
        tmp.insertBefore(op.b, f, -1);
        tmp.n[f].type = T_DEAD;
        RView& w2 = tmp.v[op.a];
        w2.sc = w2.ec = tmp.par(op.b); w2.so = tmp.idx(op.b); w2.eo = w2.so + 1;
        m = tmp;
        break;
    }
    case K_R_TOSTRING: {
        if (!viewIs(m, op.a, V_RANGE)) return skip();
        if (m.v[op.a].detached) return exc(1, 11);
        out.val = "s:" + m.rangeString(m.v[op.a]);
        break;
    }
    case K_R_CLONERANGE: {
        if (!viewIs(m, op.a, V_RANGE)) return skip();
        RView& w = m.v[op.a];
        if (w.detached) return exc(1, 11);
        out.val = "pts:" + std::to_string(w.sc) + "," + std::to_string(w.so) + "," + std::to_string(w.ec) + "," + std::to_string(w.eo);
        break;
    }
    case K_R_DETACH: {
        if (!viewIs(m, op.a, V_RANGE)) return skip();
        if (m.v[op.a].detached) return exc(1, 11);
        m.v[op.a].detached = true;
        break;
    }
    default: return skip();
    }
    inf.iterFix = m.iterFix;
    for (int vi : m.adoptHint) if (vi >= 0 && vi < (int)inf.adoptRange.size()) inf.adoptRange[vi] = 1;
    if (inf.adoptRange.size() < m.v.size()) { inf.adoptRange.resize(m.v.size(), 0); inf.adoptCur.resize(m.v.size(), 0); }
    return out;
}

// ---------------------------------------------------------------------- the alphabet enabled in a state
struct Alpha {
    int profile = 0;   // 0 = full alphabet, 1 = reduced alphabet, 2 = medium: full view alphabet, reduced mutation operands,
                       // 3 = traversal: every NodeIterator / TreeWalker configuration and move, every removeChild, four re-insertions (deep, narrow)
    int maxViews = 1;
    bool attrOpsAlways = false;
    int maxCreated = 1;
};

// reduced alphabet: a fixed subset of the full one (every view operation kept, operands restricted)
inline bool keep_reduced(const RModel& m, const VOp& o) {
    auto in = [](int x, std::initializer_list<int> l) { for (int y : l) if (x == y) return true; return false; };
    switch (o.c) {
    case K_MK_NI: case K_MK_TW:
        return (o.a == 1 && o.b == 0 && o.d == 0) || (o.a == 1 && o.b == 2 && o.d == 2) || (o.a == 0 && o.b == 1 && o.d == 1) || (o.a == 1 && o.b == 0 && o.d == 1);
    case K_MK_TAG: return o.a == 0;
    case K_MK_KIDS: return true;
    case K_MK_ATTRS: case K_MK_ID: case K_MK_XP: return false;
    case K_MK_RANGE: return in(o.a, {0, 1, 3, 5});
    case K_APPEND: return in(o.b, {6, 2, 4}) && in(o.a, {1, 5, 2});
    case K_INSERT: return o.a == 1 && in(o.b, {6, 7, 5}) && o.d == m.firstKid(1);
    case K_REMOVE: return true;
    case K_REPLACE: return in(o.a, {6, 7}) && in(o.b, {2, 4});
    case K_NORMALIZE: return o.a == 1;
    case K_INSDATA: return o.a == 3 && o.b == 1;
    case K_DELDATA: return o.a == 3 && o.b == 1 && o.d == 2;
    case K_REPDATA: return o.a == 3 && o.b == 1 && o.d == 1;
    case K_SPLIT: return (o.a == 3 && o.b == 2) || (o.a == 4 && o.b == 1);
    case K_SETVAL: return o.a == 3;
    case K_SETATTR: case K_RMATTR: case K_SETIDATTR: case K_MKEL: case K_MKTEXT: return false;
    case K_TW_SETCUR: return in(o.b, {2, 3, 4, 5});
    case K_R_SETSTART: case K_R_SETEND: return in(o.b, {1, 2, 3}) && o.d <= m.len(o.b);
    case K_R_SELNODE: case K_R_SELCONT: return in(o.b, {2, 3, 4});
    case K_R_INSERT: return in(o.b, {6, 7});
    case K_R_SURROUND: return o.b == 6;
    default: return true;
    }
}

// traversal alphabet: reaching "the last movement was previousNode() and the reference node is the tail of the iteration" takes
// creation + n x nextNode + previousNode + removal, which the depth-3/4 spaces cannot reach
inline bool keep_traversal(const RModel& m, const VOp& o) {
    auto in = [](int x, std::initializer_list<int> l) { for (int y : l) if (x == y) return true; return false; };
    switch (o.c) {
    case K_MK_NI: case K_MK_TW: return true;
    case K_REMOVE: return true;
    case K_APPEND: return in(o.b, {6, 2, 5}) && in(o.a, {1, 5});
    case K_NEXT: case K_PREV: return true;
    case K_TW_PARENT: case K_TW_FIRST: case K_TW_LAST: case K_TW_NEXTSIB: case K_TW_PREVSIB: case K_TW_NEXT: case K_TW_PREV: return true;
    default: return false;
    }
}

inline std::vector<VOp> enabled_ops_full(const RModel& m, const Alpha& A);
inline std::vector<VOp> enabled_ops(const RModel& m, const Alpha& A) {
    std::vector<VOp> all = enabled_ops_full(m, A);
    if (A.profile == 0) return all;
    std::vector<VOp> r;
    if (A.profile == 3) {
        for (auto& o : all) if (keep_traversal(m, o)) r.push_back(o);
        return r;
    }
    for (auto& o : all) {
        bool mutation = o.c >= K_APPEND && o.c <= K_MKTEXT;
        if (A.profile == 2 && !mutation) { r.push_back(o); continue; }   // "medium": only the mutation operands are reduced
        if (A.profile == 2 && (o.c == K_SETATTR || o.c == K_RMATTR || o.c == K_SETIDATTR)) { r.push_back(o); continue; }
        if (keep_reduced(m, o)) r.push_back(o);
    }
    return r;
}
inline std::vector<VOp> enabled_ops_full(const RModel& m, const Alpha& A) {
    std::vector<VOp> r;
    auto add = [&](int c, int a = 0, int b = 0, int d = 0, int e = 0) { VOp o; o.c = c; o.a = a; o.b = b; o.d = d; o.e = e; r.push_back(o); };
    std::vector<int> alive, elems, texts;
    for (int x = 0; x < (int)m.n.size(); x++) {
        if (!m.valid(x)) continue;
        alive.push_back(x);
        if (m.n[x].type == T_ELEM) elems.push_back(x);
        if (m.n[x].type == T_TEXT) texts.push_back(x);
    }
    bool attrView = A.attrOpsAlways;
    for (auto& w : m.v) if (w.kind == V_ATTRS || w.kind == V_ID) attrView = true;
    // view creation
    if ((int)m.v.size() < A.maxViews) {
        for (int root : {0, 1}) {
            if (!m.valid(root)) continue;
            for (int s = 0; s < 3; s++) for (int f = 0; f < 3; f++) { add(K_MK_NI, root, s, f); add(K_MK_TW, root, s, f); }
        }
        add(K_MK_TAG, 0); add(K_MK_TAG, 1);
        add(K_MK_KIDS, 1); add(K_MK_ATTRS, 2); add(K_MK_ID);
        add(K_MK_XP, 0); add(K_MK_XP, 1);
        for (int p = 0; p < N_PRESETS; p++) if (presetOK(m, p)) add(K_MK_RANGE, p);
    }
    // structural
    for (int p : alive) {
        int tp = m.n[p].type;
        if (tp != T_ELEM && tp != T_DOC) continue;
        for (int c : alive) {
            if (!m.legalInsert(p, c, -1)) continue;
            if (m.n[c].type == T_FRAG && m.n[c].kids.empty()) continue;
            add(K_APPEND, p, c);
            for (int k : m.n[p].kids) if (k != c) add(K_INSERT, p, c, k);
        }
    }
    for (int c : alive) if (m.par(c) >= 0) add(K_REMOVE, c);
    for (int old : alive) {
        int p = m.par(old);
        if (p < 0 || m.n[p].type == T_DOC) continue;
        for (int nw : alive) {
            if (nw == old || !m.legalInsert(p, nw, old)) continue;
            if (m.n[nw].type == T_FRAG && m.n[nw].kids.empty()) continue;
            add(K_REPLACE, nw, old);
        }
    }
    for (int e : elems) if (!m.n[e].kids.empty()) add(K_NORMALIZE, e);
    // text edits: full operand ladder for the first (longest) text node, a reduced one for the others
    bool first = true;
    for (int t : texts) {
        int L = m.len(t);
        if (first) {
            std::vector<int> offs = {0, 1, 2, L};
            std::sort(offs.begin(), offs.end()); offs.erase(std::unique(offs.begin(), offs.end()), offs.end());
            for (int o : offs) if (o <= L) { add(K_INSDATA, t, o, 0); add(K_SPLIT, t, o); }
            add(K_DELDATA, t, 0, 1); add(K_DELDATA, t, 0, 99);
            if (L >= 1) { add(K_DELDATA, t, 1, 1); add(K_DELDATA, t, 1, 2); add(K_REPDATA, t, 1, 1, 2); add(K_REPDATA, t, 0, 2, 1); }
            add(K_DELDATA, t, L, 1);
            add(K_SETVAL, t, 3);
        } else {
            add(K_INSDATA, t, 0, 0); if (L >= 1) add(K_INSDATA, t, 1, 0);
            add(K_DELDATA, t, 0, 1);
            if (L >= 1) add(K_SPLIT, t, 1);
            add(K_SETVAL, t, 3);
        }
        first = false;
    }
    if (attrView) {
        for (int el : {2, 5}) {
            if (!m.valid(el) || m.n[el].type != T_ELEM) continue;
            for (int nm = 0; nm < 2; nm++) {
                for (int v = 0; v < 2; v++) add(K_SETATTR, el, nm, v);
                add(K_RMATTR, el, nm);
            }
            add(K_SETIDATTR, el, 0);
        }
    }
    if (m.created < A.maxCreated) { add(K_MKEL, 0); add(K_MKTEXT, 0); }
    // view operations
    for (int i = 0; i < (int)m.v.size(); i++) {
        const RView& w = m.v[i];
        switch (w.kind) {
        case V_NI: add(K_NEXT, i); add(K_PREV, i); add(K_DETACH, i); break;
        case V_TW:
            for (int c = K_TW_PARENT; c <= K_TW_PREV; c++) add(c, i);
            for (int x : alive) if (x != w.cur) add(K_TW_SETCUR, i, x);
            break;
        case V_TAG: case V_KIDS: case V_ATTRS: case V_XP:
            add(K_LEN, i); for (int k = 0; k < 3; k++) add(K_ITEM, i, k);
            break;
        case V_ID: add(K_IDGET, i, 0); add(K_IDGET, i, 1); break;
        case V_RANGE: {
            for (int x : alive) {
                int L = m.len(x);
                for (int o = 0; o <= L; o++) { add(K_R_SETSTART, i, x, o); add(K_R_SETEND, i, x, o); }
                if (x == 3) { add(K_R_SETSTART, i, x, L + 1); add(K_R_SETEND, i, x, L + 1); }
                add(K_R_SELNODE, i, x); add(K_R_SELCONT, i, x);
                add(K_R_INSERT, i, x);
                if (m.n[x].type != T_TEXT) add(K_R_SURROUND, i, x);
            }
            add(K_R_COLLAPSE, i, 0); add(K_R_COLLAPSE, i, 1);
            for (int j = 0; j < (int)m.v.size(); j++) if (m.v[j].kind == V_RANGE) for (int how = 0; how < 4; how++) add(K_R_CMP, i, how, j);
            add(K_R_DELETE, i); add(K_R_EXTRACT, i); add(K_R_CLONE, i); add(K_R_TOSTRING, i); add(K_R_CLONERANGE, i); add(K_R_DETACH, i);
            break;
        }
        }
    }
    return r;
}

}  // namespace c14
